"""C02 system level: event-driven workloads under fair loss must complete; coq/Sys/MonC02.v."""
from . import simlib as S
SUBCMD = "sim"
IS_TRACE = True
RUN = "monitor"
TAGS = {4, 10, 11, 12, 14}
RULE = ("workloads driven purely by events (open on Available, write on Writable, read on Readable/Opened) under loss "
        "up to 20% incl. every kind of drop mask over the first datagrams, duplication, reordering, all controllers, "
        "pacing caps, small windows and stream limits, stream limits raised at run time while the peer is blocked and idle, ack-frequency, key updates by either side, 0-RTT, timers serviced "
        "early / late, spurious polls and busy-polling drivers (every microsecond near a deadline); the run must end quiescent with every stream finished and acknowledged; "
        "non-trivial = at least one datagram was lost or a window/limit smaller than the workload was configured")


def gen(rng, n):
    cases = []
    for i in range(n):
        d = S.base(rng, small=rng.chance(2, 3))
        S.lossy(rng, d)
        S.knobs(rng, d)
        S.driver(rng, d)
        d["CLOSER"] = 0
        d["FAIR_RUN"] = rng.choice([1, 1, 2])   # fair loss: bounded runs of consecutive drops
        # no idle timeout: PTO back-off after unlucky handshake losses may legitimately exceed any
        # fixed idle period; the run must still complete (quiescent, everything finished) in time
        d["IDLE_MS"] = 0
        d["MAX_TIME"] = 300_000_000
        if rng.chance(1, 4):
            d["ECHO_BYTES"] = rng.choice([1, 3000])
        if rng.chance(1, 6):
            d["ZERO_RTT"] = rng.choice([1, 2])
            d.pop("MAX_BIDI", None)
            d.pop("MAX_UNI", None)
        if rng.chance(1, 5):
            d["NDGRAM"] = rng.range(1, 10)
        if rng.chance(1, 5):
            d["NEW_RWND_AT"] = rng.choice([30000, 100000])
            d["NEW_RWND"] = rng.choice([500, 5000, 100000])
        if d.get("RETRY") and d.get("DROP_MASK", 0) >= 64:
            d["DROP_MASK"] &= 63   # a retry token only lives 15 s: do not starve the handshake beyond that
        if rng.chance(1, 5):
            # many streams whose stream window is below 1/8 of the connection window, read one at a
            # time by a slow reader: stream credit and connection credit come back separately
            k = rng.range(8, 12)
            d["NBIDI"] = 0
            d["NUNI"] = k
            d["MAX_UNI"] = 100
            d.pop("MAX_BIDI", None)
            sw = rng.choice([500, 1000])
            d["STREAM_RWND"] = sw
            d["RWND"] = k * sw
            d["STREAM_BYTES"] = sw * rng.choice([2, 3])
            d["WRITE_CHUNK"] = 100000
            d["READ_SERIAL"] = rng.choice([30000, 100000])
            d["LOSS"] = rng.choice([0, 0, 30])
            d.pop("SEND_WINDOW", None)
            d.pop("ZERO_RTT", None)
            d.pop("PACING_BPS", None)
        elif rng.chance(1, 4):
            # credit starvation: a connection window far below the workload, so that every MAX_DATA /
            # MAX_STREAM_DATA matters, under heavy loss with runs of up to three consecutive drops (a
            # control frame AND its retransmission can be lost)
            d["RWND"] = rng.choice([1000, 2000, 3000])
            if rng.chance(1, 2):
                d["STREAM_RWND"] = rng.choice([500, 1000])
            else:
                d.pop("STREAM_RWND", None)
            d["STREAM_BYTES"] = 20 * d["RWND"]
            d["WRITE_CHUNK"] = 100000
            d["READ_MAX"] = 100000
            d["LOSS"] = rng.choice([150, 200, 250])
            d["DUP"] = 0
            d["FAIR_RUN"] = 3
            d.pop("DROP_MASK", None)
            d.pop("SEND_WINDOW", None)
            d.pop("ZERO_RTT", None)
            d.pop("PACING_BPS", None)
        if rng.chance(1, 10):
            # run-time stream-limit change: the client is blocked on a stream limit of 0 / 1 and otherwise
            # idle when the server raises it with set_max_concurrent_streams
            d.pop("ZERO_RTT", None)
            d["NBIDI"] = rng.choice([0, 2])
            d["NUNI"] = rng.choice([2, 3])
            d["MAX_UNI"] = rng.choice([0, 0, 1])
            d["MAX_BIDI"] = rng.choice([0, 1]) if d["NBIDI"] else 1
            d["STREAM_BYTES"] = rng.choice([0, 1, 3000])
            d["NEW_MAXSTREAMS_AT"] = rng.choice([200000, 500000, 2000000])
            d["NEW_MAX_UNI"] = rng.choice([3, 10])
            d["NEW_MAX_BIDI"] = rng.choice([2, 10])
            d["READ_SERIAL"] = 0
        if rng.chance(1, 10):
            # a driver that polls far more often than necessary: every microsecond whenever a deadline
            # (typically the pacing timer) is near; loss-free so that the run stays short
            d = S.base(rng, small=False)
            d["DELAY_MIN"] = d["DELAY_MAX"] = rng.choice([10000, 30000])
            d["STREAM_BYTES"] = rng.choice([50000, 100000])
            d["WRITE_CHUNK"] = 100000
            d["READ_MAX"] = 100000
            d["NBIDI"] = rng.below(2)
            d["NUNI"] = 1
            d["BUSY_NEAR_US"] = rng.choice([5000, 20000])
            d["CLOSER"] = 0
            d["IDLE_MS"] = 0
            d["MAX_TIME"] = 20_000_000
            if rng.chance(1, 3):
                d["CONTROLLER"] = rng.choice([1, 2])
            if rng.chance(1, 3):
                d["PACING_BPS"] = rng.choice([200000, 1000000])
                d["STREAM_BYTES"] = min(d["STREAM_BYTES"], d["PACING_BPS"] // 4)
        # keep the transfer within a few hundred round trips of the smallest window
        w = min(d.get("STREAM_RWND", 1 << 40), d.get("RWND", 1 << 40), d.get("SEND_WINDOW", 1 << 40))
        k = 20 if d.get("LOSS", 0) >= 100 else 100
        if d["STREAM_BYTES"] > k * w:
            d["STREAM_BYTES"] = k * w
        if d.get("ECHO_BYTES", 0) > k * w:
            d["ECHO_BYTES"] = k * w
        if d.get("PACING_BPS") and d["STREAM_BYTES"] > d["PACING_BPS"] // 2:
            d["STREAM_BYTES"] = d["PACING_BPS"] // 2
        cases.append(S.case_of(d))
    return cases


def project(case, outs):
    if outs == [[-999]]:
        return outs
    return [r for r in outs if r[0] in TAGS or r[0] == 16 or (r[0] == 3 and r[4] == 11)]


def nontrivial(case, outs):
    d = S.describe(case)
    return bool(d.get("LOSS", 0) or d.get("DROP_MASK", 0) or d.get("SEND_WINDOW") or d.get("STREAM_RWND")
                or d.get("RWND") or "MAX_BIDI" in d)


def stats(cases, outs):
    st = S.trace_stats(cases, outs)
    ends = {}
    for o in outs:
        for r in o:
            if r[0] == 10:
                ends[str(r[2])] = ends.get(str(r[2]), 0) + 1
    st["end_reason"] = ends
    st["completion_time_us_max"] = max([r[1] for o in outs for r in o if r[0] == 10] or [0])
    return st


describe = S.describe
