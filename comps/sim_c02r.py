"""C02 system level, loss-detection timer: probe snapshots of real connections after every drive must satisfy
the extracted no-wedge invariants of Model/Recovery.v; coq/Sys/MonRecovery.v."""
from . import simlib as S
SUBCMD = "sim"
IS_TRACE = True
RUN = "monitor"
TAGS = {6, 7, 8, 1}
RULE = ("seeded two-endpoint simulations with moderate workloads: (a) general lossy scenarios (loss up to 20%, drop masks, "
        "duplication, reordering, all controllers, small windows, pacing caps, key updates, 0-RTT, retry, timers serviced "
        "late / early / spuriously); (b) black-holed directions for the first K datagrams so that PTOs fire repeatedly and "
        "the server reaches the anti-amplification limit during the handshake; (c) tail loss with a tiny fixed window so "
        "that probes must pass a full congestion window; (d) SERVER_EARLY: the server application writes 0.5-RTT data before "
        "Connected with small windows / a Retry-validated address and the early datagrams dropped; every drive of every connection ends with a probe that is checked; "
        "non-trivial = at least one PTO fired (pto_count grew across a handle_timeout)")


def blackhole(rng, d):
    """the first K datagrams of one direction vanish: repeated PTOs, server hits the 3x limit"""
    k = rng.range(3, 12)
    d["DROP_MASK"] = (1 << k) - 1
    d["DROP_MASK_DIR"] = rng.choice([1, 2, 2, 2])
    d["LOSS"] = rng.choice([0, 0, 50])
    return d


def tail(rng, d):
    """tiny window, later datagrams vanish: loss probes with the window full"""
    d["CONTROLLER"] = 3
    d["FIXED_WINDOW"] = rng.choice([2400, 2500, 3000, 4000])
    d["STREAM_BYTES"] = rng.choice([3000, 8000, 20000])
    d["WRITE_CHUNK"] = 100000
    lo = rng.range(4, 12)
    d["DROP_MASK"] = ((1 << rng.range(2, 8)) - 1) << lo
    d["DROP_MASK_DIR"] = rng.choice([0, 1, 2])
    return d


def early(rng, d):
    """0.5-RTT data: the server application writes before Connected, with a small real-controller window
    (or a validated address via Retry so that a whole initial window of early data is in flight) and the
    early datagrams lost: the handshake completes with a full window of unacknowledged 1-RTT packets"""
    d["SERVER_EARLY"] = 1
    d["SERVER_STREAMS"] = rng.range(1, 2)
    d["STREAM_BYTES"] = rng.choice([3000, 8000, 20000])
    d["WRITE_CHUNK"] = 100000
    k = rng.below(3)
    if k == 0:
        d["CONTROLLER"] = 3
        d["FIXED_WINDOW"] = rng.choice([2400, 2400, 2500, 3000])
    elif k == 1:
        d["RETRY"] = 1
        d["CONTROLLER"] = rng.choice([0, 1])
    else:
        d["CONTROLLER"] = rng.choice([0, 1, 2])
    lo = rng.range(1, 5)
    d["DROP_MASK"] = ((1 << rng.range(1, 10)) - 1) << lo
    d["DROP_MASK_DIR"] = 2
    d["LOSS"] = rng.choice([0, 0, 50, 100])
    return d


def gen(rng, n):
    cases = []
    for i in range(n):
        d = S.base(rng, small=True)
        if d["STREAM_BYTES"] > 8000:
            d["STREAM_BYTES"] = 8000
        fam = i % 5
        if fam == 4:
            early(rng, d)
        elif fam == 1:
            blackhole(rng, d)
            if rng.chance(1, 3):
                d["RETRY"] = 1
        elif fam == 2:
            tail(rng, d)
        else:
            S.lossy(rng, d)
            S.knobs(rng, d)
            if rng.chance(1, 6):
                d["ZERO_RTT"] = rng.choice([1, 2])
                d.pop("MAX_BIDI", None)
                d.pop("MAX_UNI", None)
            if rng.chance(1, 4):
                d["ECHO_BYTES"] = rng.choice([1, 3000])
            if d.get("RETRY") and d.get("DROP_MASK", 0) >= 64:
                d["DROP_MASK"] &= 63
        S.driver(rng, d)
        d["CLOSER"] = 0
        d["IDLE_MS"] = 60000
        d["MAX_TIME"] = 120_000_000
        w = min(d.get("STREAM_RWND", 1 << 40), d.get("RWND", 1 << 40), d.get("SEND_WINDOW", 1 << 40))
        if d["STREAM_BYTES"] > 30 * w:
            d["STREAM_BYTES"] = 30 * w
        if d.get("ECHO_BYTES", 0) > 30 * w:
            d["ECHO_BYTES"] = 30 * w
        if d.get("PACING_BPS") and d["STREAM_BYTES"] > d["PACING_BPS"] // 4:
            d["STREAM_BYTES"] = d["PACING_BPS"] // 4
        cases.append(S.case_of(d))
    return cases


def project(case, outs):
    return S.project(outs, TAGS)


def pto_fired(outs):
    """number of handle_timeouts across which pto_count grew (per connection)"""
    last = {}
    pend = {}
    n = 0
    for r in outs:
        if r[0] == 8:
            k = (r[2], r[3])
            if k in pend:
                if r[4 + 8] > pend.pop(k)[4 + 8]:
                    n += 1
            last[k] = r
        elif r[0] == 7:
            k = (r[2], r[3])
            if k in last:
                pend[k] = last[k]
    return n


def nontrivial(case, outs):
    return outs != [[-999]] and pto_fired(outs) > 0


def stats(cases, outs):
    st = S.trace_stats(cases, outs)
    st["drives_checked"] = sum(1 for o in outs for r in o if r[0] == 6)
    st["pto_fired"] = sum(pto_fired(o) for o in outs if o != [[-999]])
    blocked = 0
    pacing = 0
    for o in outs:
        for r in o:
            if r[0] == 8:
                if r[4 + 1] == 0 and 3 * r[4 + 3] < r[4 + 2] + 1 and r[4 + 0] in (0, 1):
                    blocked += 1
                if r[4 + 24] != -1:
                    pacing += 1
    st["probes_anti_amplification_blocked"] = blocked
    st["probes_with_pacing_timer"] = pacing
    return st


describe = S.describe
