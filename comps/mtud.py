"""Generator for the `mtud` component (MtuDiscovery in quinn-proto/src/connection/mtud.rs vs coq/Model/Mtud.v).

The generator carries a small *guide* (a python mirror of the search state, used only to steer the
sequences: which probe is in flight, when the search is complete) so that most sequences respect
the caller contract of `Connection` (on_probe_lost only for the in-flight probe, transport
parameters before probing, losses reported in packet-number order followed by
black_hole_detected). It is never used to judge outputs."""

RULE = ("op 0 = MtuDiscovery::new/disabled with min_mtu/initial/peer limit/upper bound/minimum_change from boundary "
        "sets (incl. min_mtu > initial, upper bound 1200, peer limit below min_mtu and above the upper bound, "
        "minimum_change 0..3); then (a) a simulated link with an MTU limit that acknowledges or loses probes "
        "(retransmit exhaustion, completion, re-activation after interval/cool-down), regular acks and loss bursts, "
        "link MTU drops causing black-hole fallback; (b) black-hole-detector sequences around min_mtu/acked sizes "
        "and packet-number order; (c) unconstrained op soup (spurious on_probe_lost, transport parameters during a "
        "search, packet numbers going backwards -> documented panics). non-trivial = a probe was issued and either "
        "a probe acknowledgement raised the MTU or a black hole was declared")

SHARD = 120
MAXP = 65527
MPR = 3


class Guide:
    """python mirror of the search state (steering only)"""

    def __init__(self, initial, min_mtu, peer, enabled, upper, interval, cooldown, mc):
        self.cur = initial
        self.min = min_mtu
        self.enabled = enabled
        self.peer = MAXP
        self.cfg = (upper, interval, cooldown, mc)
        self.phase = "I"
        self.s = None
        self.t = 0
        self.dead = enabled and initial < min_mtu
        if peer is not None:
            self.on_peer(peer)

    def on_peer(self, v):
        self.cur = min(self.cur, v)
        if self.enabled:
            if self.phase == "S":
                self.dead = True
            self.peer = v

    def reset(self, cur, mn):
        self.cur = cur
        self.min = mn
        if self.enabled:
            self.phase = "I"
            self.cur = min(self.cur, self.peer)

    def new_search(self):
        lo = min(self.cur, self.peer)
        up = min(max(self.cfg[0], lo), self.peer)
        self.s = dict(lo=lo, up=up, last=lo, fl=None, lost=0)
        self.phase = "S"

    def poll(self, now, pn):
        if not self.enabled or self.dead:
            return None
        if self.phase == "I":
            self.new_search()
        elif self.phase == "C":
            if now < self.t:
                return None
            self.new_search()
        s = self.s
        mc = self.cfg[3]
        if s["fl"] is not None:
            return None
        if 0 < s["lost"] < MPR:
            s["fl"] = pn
            return s["last"]
        ok = s["lost"] == 0
        if ok:
            s["lo"] = s["last"]
        else:
            s["lost"] = 0
            if s["last"] == 0:
                self.dead = True
                return None
            s["up"] = s["last"] - 1
        nxt = (s["lo"] + s["up"]) // 2
        if abs(nxt - s["last"]) < mc:
            if max(0, s["up"] - s["last"]) >= mc:
                p = s["up"]
            else:
                self.phase = "C"
                self.t = now + self.cfg[1]
                return None
        else:
            p = nxt
        s["fl"] = pn
        s["last"] = p
        return p

    def in_flight(self):
        return self.s["fl"] if (self.enabled and self.phase == "S") else None

    def acked(self, pn):
        if self.in_flight() is not None and self.in_flight() == pn:
            self.s["fl"] = None
            self.s["lost"] = 0
            self.cur = self.s["last"]
            return True
        return False

    def probe_lost(self):
        if self.enabled and self.phase == "S":
            self.s["fl"] = None
            self.s["lost"] += 1

    def black_hole(self, now):
        # the guide does not mirror the detector; callers tell it when they expect a detection
        self.cur = min(self.cur, self.min)
        if self.enabled:
            self.phase = "C"
            self.t = now + self.cfg[2]


SIZES = [1200, 1250, 1300, 1400, 1452, 1500]


def pick_config(rng):
    min_mtu = rng.choice([1200, 1200, 1200, 1250, 1300, 1400])
    k = rng.below(10)
    if k < 4:
        initial = min_mtu
    elif k < 8:
        initial = rng.choice([x for x in SIZES if x >= min_mtu] + [min_mtu + 1, 9000])
    elif k < 9:
        initial = max(0, min_mtu - rng.choice([1, 50, 1200]))      # violates the debug assertion when enabled
    else:
        initial = rng.choice([65527, 65535, 2000])
    k = rng.below(10)
    if k < 4:
        peer = None
    elif k < 8:
        peer = rng.choice([1200, 1250, 1300, 1350, 1452, 1500, 9000, 65527, 65535])
    else:
        peer = rng.choice([1199, 1000, min_mtu - 1, min_mtu + 1, 0, 1])
    enabled = 0 if rng.chance(1, 8) else 1
    upper = rng.choice([1200, 1452, 1452, 1500, 1500, 9000, 65527, 1000, min_mtu, min_mtu + 2, 1300])
    interval = rng.choice([0, 1000, 1000, 600_000_000])
    cooldown = rng.choice([0, 500, 500, 60_000_000])
    mc = rng.choice([20, 20, 20, 3, 3, 4, 100, 5])      # minimum_change < 3: only in minchange_case
    return [0, initial, min_mtu, -1 if peer is None else peer, enabled, upper, interval, cooldown, mc]


def guide_of(op0):
    return Guide(op0[1], op0[2], None if op0[3] < 0 else op0[3], op0[4] != 0, op0[5], op0[6], op0[7], op0[8])


def link_case(rng):
    """a simulated link: probes above `link` are lost, others acknowledged"""
    op0 = pick_config(rng)
    if rng.chance(3, 4):
        op0[1] = max(op0[1], op0[2])
    g = guide_of(op0)
    ops = [op0]
    link = rng.choice([1200, 1300, 1400, 1452, 1472, 1500, 4000, 9000, 65535])
    now, pn = 0, rng.below(3)
    if op0[3] < 0 and rng.chance(2, 3):
        v = rng.choice([1200, 1300, 1452, 1500, 65527, op0[2] - 1, 1100])
        ops.append([2, v])
        g.on_peer(v)
    n = rng.range(10, 55)
    outstanding = None  # (pn, size) of the probe
    while len(ops) < n:
        k = rng.below(20)
        if k < 9:
            now += rng.choice([0, 1, 10, 400, 999, 1000, 1001])
            p = g.poll(now, pn)
            ops.append([3, now, pn])
            if p is not None:
                outstanding = (pn, p)
            pn += 1
        elif k < 14 and outstanding is not None:
            opn, sz = outstanding
            if sz <= link or rng.chance(1, 12):
                ops.append([4, 2, opn, sz])
                g.acked(opn)
            else:
                ops.append([5])
                g.probe_lost()
            outstanding = None
        elif k < 16:
            # regular traffic acknowledged
            sz = min(g.cur, rng.choice([g.cur, g.cur, 100, 1200, g.min, g.min + 1]))
            ops.append([4, rng.choice([2, 2, 2, 0, 1]), pn, max(0, sz)])
            pn += 1
        elif k < 18:
            # a loss batch as detect_lost_packets reports it: ascending pns, then black_hole_detected
            nb = rng.range(1, 5)
            for _ in range(nb):
                pn += rng.choice([1, 2, 2, 3])
                sz = rng.choice([g.cur, g.cur, g.min, g.min + 1, 100])
                ops.append([6, pn, max(0, min(sz, 65535))])
            ops.append([7, now])
            pn += 1
        elif k < 19:
            # the path shrinks: everything above min_mtu is lost from now on
            link = g.min
            for _ in range(rng.range(3, 6)):
                pn += 2
                ops.append([6, pn, max(g.cur, g.min + 1)])
            ops.append([7, now])
            g.black_hole(now)
            outstanding = None
            now += rng.choice([0, 499, 500, 501, 60_000_000])
            pn += 1
        else:
            j = rng.below(6)
            if j == 0:
                c = rng.choice([1200, 1300, 1400, 1500])
                m = rng.choice([1200, 1200, c, 1300])
                ops.append([1, c, m])
                g.reset(c, m)
                outstanding = None
            elif j == 1:
                now += rng.choice([600_000_000, 1000, 60_000_000])
            elif j == 2 and g.in_flight() is None and g.phase != "S":
                v = rng.choice([1200, 1300, 1452, 65527])
                ops.append([2, v])
                g.on_peer(v)
            elif j == 3:
                ops.append([4, 2, rng.below(pn + 2), rng.choice(SIZES)])   # ack of an arbitrary number
                if g.in_flight() is not None and ops[-1][2] == g.in_flight():
                    g.acked(ops[-1][2])
                    outstanding = None
            else:
                ops.append([7, now])
    return ops


def bhd_case(rng):
    """black hole detector: sizes around min_mtu and acknowledged sizes, packet-number order"""
    op0 = pick_config(rng)
    op0[1] = max(op0[1], op0[2])
    ops = [op0]
    mn = op0[2]
    pn = rng.below(4)
    now = 0
    sizes = [mn - 1, mn, mn + 1, mn + 1, mn + 100, mn + 100, mn + 200, mn + 300, 0, 65535]
    for _ in range(rng.range(6, 50)):
        k = rng.below(12)
        if k < 6:
            pn += rng.choice([1, 1, 2, 2, 2, 3, 5])
            ops.append([6, pn, rng.choice(sizes)])
        elif k < 8:
            ops.append([7, now])
            now += 1
        elif k < 11:
            apn = rng.choice([pn + 1, pn + 10, max(0, pn - 1), max(0, pn - 4), pn, 0])
            ops.append([4, rng.choice([2, 2, 2, 2, 0]), apn, rng.choice(sizes)])
            if apn > pn and rng.chance(1, 2):
                pn = apn
        else:
            ops.append([3, now, pn + 1])
            pn += 1
    ops.append([7, now])
    return ops


def f8_case(rng):
    """large packets lost before the peer's (smaller) limit arrives"""
    mn = rng.choice([1250, 1300, 1400])
    ini = mn + rng.choice([0, 100, 200])
    peer = rng.choice([1200, mn - 1, mn, mn + 1])
    op0 = [0, ini, mn, -1, rng.choice([0, 1, 1]), rng.choice([1452, 9000]), 1000, 500, 20]
    ops = [op0]
    pn = 0
    for _ in range(rng.range(3, 6)):
        ops.append([6, pn, rng.choice([ini, ini, mn + 1, mn])])
        pn += 2
    if rng.chance(1, 2):
        ops.append([2, peer])
        ops.append([7, 0])
    else:
        ops.append([7, 0])
        ops.append([2, peer])
    ops.append([3, 10_000, pn])
    ops.append([1, ini, mn])
    ops.append([3, 20_000, pn + 1])
    return ops


def soup_case(rng):
    ops = [pick_config(rng)]
    pn, now = 0, 0
    last_poll_pn = 0
    for _ in range(rng.range(4, 40)):
        k = rng.below(16)
        if k < 5:
            now += rng.choice([0, 1, 1000, 600_000_000])
            pn += rng.choice([0, 1, 1, 2])
            last_poll_pn = pn
            ops.append([3, now, pn])
        elif k < 8:
            ops.append([4, rng.choice([0, 1, 2, 2, 2, 2]), rng.choice([last_poll_pn, pn, rng.below(pn + 3)]),
                        rng.choice(SIZES + [0, 65535])])
        elif k < 10:
            ops.append([5])
        elif k < 12:
            pn2 = rng.choice([pn + 1, pn + 2, rng.below(pn + 3)])
            ops.append([6, pn2, rng.choice(SIZES + [0, 1201, 65535])])
            pn = max(pn, pn2)
        elif k < 14:
            ops.append([7, now])
        elif k < 15:
            ops.append([2, rng.choice([1200, 1300, 65527, 0, 1199])])
        else:
            j = rng.below(4)
            if j == 0:
                ops.append([1, rng.choice(SIZES), rng.choice([1200, 1300, 1500])])
            elif j == 1:
                ops.append([9, 1])                       # unknown opcode
            elif j == 2:
                ops.append(pick_config(rng))             # `new` in the middle
            else:
                ops.append([3, now])                     # wrong arity
    if rng.chance(1, 25):
        ops[0] = [3, 0, 0]                               # case not starting with `new`
    return ops


def minchange_case(rng):
    """minimum_change 0/1/2 (legal through MtuDiscoveryConfig::minimum_change, which validates nothing): these
    configurations violate probe_bounds / mtu_floor (known finding mtud-minimum-change-below-3); the stream keeps
    model == implementation checked on them."""
    c = link_case(rng) if rng.chance(2, 3) else soup_case(rng)
    if c and c[0][0] == 0 and len(c[0]) == 9:
        c[0][8] = rng.choice([0, 1, 2])
        if rng.chance(1, 2):
            # narrow searches make the degenerate probes (== or < current MTU) likely
            c[0][5] = min(65535, max(c[0][1], c[0][2]) + rng.choice([0, 1, 2, 3, 4]))
            c[0][3] = -1
    return c


def gen(rng, n):
    cases = []
    for i in range(n):
        k = rng.below(20)
        if k < 1 or (k < 2 and i % 2 == 0):
            cases.append(minchange_case(rng))
        elif k < 11:
            cases.append(link_case(rng))
        elif k < 15:
            cases.append(bhd_case(rng))
        elif k < 16:
            cases.append(f8_case(rng))
        else:
            cases.append(soup_case(rng))
    return cases


def nontrivial(case, outs):
    if outs == [[-999]]:
        return False
    probe = raised = hole = False
    prev = None
    for op, o in zip(case, outs):
        if len(o) != 3:
            continue
        if op[0] == 3 and o[0] >= 0:
            probe = True
        if op[0] == 4 and o[0] == 1 and prev is not None and o[1] > prev:
            raised = True
        if op[0] == 7 and o[0] == 1:
            hole = True
        prev = o[1]
    return probe and (raised or hole)


def stats(cases, outs):
    d = {"ops": {}, "panic_cases": 0, "probes": 0, "probe_acks": 0, "mtu_raised": 0, "black_holes": 0,
         "retransmit_exhausted": 0, "probe_after_black_hole": 0, "not_new_first": 0,
         "probe_eq_current_mtu": 0, "probe_below_current_mtu": 0, "minimum_change_below_3": 0, "peer_below_min_mtu": 0, "min_mtu_gt_initial": 0}
    for c, o in zip(cases, outs):
        if c and c[0][0] == 0 and len(c[0]) == 9:
            if 0 <= c[0][3] < c[0][2]:
                d["peer_below_min_mtu"] += 1
            if c[0][1] < c[0][2]:
                d["min_mtu_gt_initial"] += 1
            if c[0][8] < 3:
                d["minimum_change_below_3"] += 1
        if o == [[-999]]:
            d["panic_cases"] += 1
            continue
        if o and o[0] == [-2]:
            d["not_new_first"] += 1
            continue
        prev = None
        sizes = []
        hole = False
        for op, r in zip(c, o):
            d["ops"][str(op[0])] = d["ops"].get(str(op[0]), 0) + 1
            if len(r) != 3:
                continue
            if op[0] == 3 and r[0] >= 0:
                d["probes"] += 1
                if prev is not None and r[0] == prev:
                    d["probe_eq_current_mtu"] += 1
                if prev is not None and r[0] < prev:
                    d["probe_below_current_mtu"] += 1
                sizes.append(r[0])
                if len(sizes) >= 4 and sizes[-4] == sizes[-3] == sizes[-2] and sizes[-1] < sizes[-2]:
                    d["retransmit_exhausted"] += 1
                if hole:
                    d["probe_after_black_hole"] += 1
                    hole = False
            if op[0] == 4 and r[0] == 1:
                d["probe_acks"] += 1
                if prev is not None and r[1] > prev:
                    d["mtu_raised"] += 1
            if op[0] == 7 and r[0] == 1:
                d["black_holes"] += 1
                hole = True
            prev = r[1]
    return d


def classify(case, outs):
    """Stable keys of the known findings of this component.

    mtud-minimum-change-below-3: MtuDiscoveryConfig::minimum_change accepts 0, 1, 2; then poll_transmit issues probes
    equal to (2), below (1) or endlessly equal to (0) the current MTU; an acknowledged smaller probe lowers the
    estimate, also below min_mtu.

    mtud-disabled-forgets-peer-limit (F8b): with MTU discovery disabled the peer's max_udp_payload_size is not
    remembered, so `reset` (Connection::path_changed) sets the estimate back above it."""
    if outs == [[-999]] or not case or case[0][0] != 0 or len(case[0]) != 9:
        return None
    if case[0][4] != 0:
        # mtud-minimum-change-below-3: minimum_change in {0,1,2} and a probe not above the current MTU was issued
        if 0 <= case[0][8] < 3:
            prev = None
            for op, o in zip(case, outs):
                if len(o) != 3:
                    continue
                if op[0] == 3 and len(op) == 3 and o[0] >= 0 and prev is not None and o[0] <= prev:
                    return "mtud-minimum-change-below-3"
                prev = o[1]
        return None
    peer = 65527 if case[0][3] < 0 else case[0][3]
    if case[0][1] >= case[0][2] and len(outs[0]) == 3 and outs[0][1] > peer:
        return "mtud-disabled-forgets-peer-limit"      # PathData::new drops the limit on migration
    for op, o in zip(case, outs):
        if op[0] == 2 and len(op) == 2:
            peer = op[1]
        if op[0] == 1 and len(op) == 3 and len(o) == 3 and op[1] >= op[2] and o[1] > peer:
            return "mtud-disabled-forgets-peer-limit"
    return None
