"""Generator for the `token_cache` component (TokenMemoryCache via the public TokenStore trait vs coq/Model/TokenCache.v)."""
RULE = ("op0 = capacities (max_server_names in 0..6 or 256, max_tokens_per_server in 0..4); then insert(server, token) and "
        "take(server) over a pool of server names one to three larger than max_server_names, so that entries are evicted; "
        "tokens are unique ids, occasionally the same id is stored twice; takes address recently used, least recently "
        "used, evicted and never-seen servers; non-trivial = an entry was evicted, a queue overflowed (front dropped), "
        "a queue was emptied by take, and a take of an evicted server returned nothing")


def gen_case(rng):
    mn = rng.choice([0, 1, 1, 2, 2, 3, 3, 4, 6, 256])
    mt = rng.choice([0, 1, 1, 2, 2, 2, 3, 4])
    pool = max(1, min(mn, 6) + rng.range(0, 3))
    ops = [[0, mn, mt]]
    nxt = 1000 * rng.range(0, 5)
    toks = []
    for _ in range(rng.range(10, 60)):
        k = rng.below(100)
        name = rng.below(pool) if rng.chance(19, 20) else rng.choice([pool, 10**9, (1 << 64)])
        if k < 58:
            if toks and rng.chance(1, 12):
                tok = rng.choice(toks)
            else:
                nxt += 1
                tok = nxt if rng.chance(9, 10) else rng.choice([0, (1 << 64) - 1 - nxt])
            toks.append(tok)
            ops.append([1, name, tok])
        else:
            ops.append([2, name])
            if rng.chance(1, 4):
                ops.append([2, name])      # drain
    return ops


def gen(rng, n):
    return [gen_case(rng) for _ in range(n)]


def _sim(case):
    """python mirror only for coverage classification"""
    mn, mt = case[0][1], case[0][2]
    lru = []   # MRU first: [name, queue]
    ev = {"evicted": 0, "overflow": 0, "emptied": 0, "take_evicted_none": 0, "take_some": 0, "take_none": 0}
    gone = set()
    for op in case[1:]:
        if op[0] == 1:
            if mn == 0 or mt == 0:
                continue
            name, tok = op[1], op[2]
            idx = next((i for i, e in enumerate(lru) if e[0] == name), None)
            if idx is not None:
                e = lru.pop(idx)
                if len(e[1]) >= mt:
                    e[1].pop(0)
                    ev["overflow"] += 1
                e[1].append(tok)
                lru.insert(0, e)
            else:
                if len(lru) >= mn:
                    gone.add(lru.pop()[0])
                    ev["evicted"] += 1
                gone.discard(name)
                lru.insert(0, [name, [tok]])
        elif op[0] == 2:
            name = op[1]
            idx = next((i for i, e in enumerate(lru) if e[0] == name), None)
            if idx is None:
                ev["take_none"] += 1
                if name in gone:
                    ev["take_evicted_none"] += 1
            else:
                e = lru.pop(idx)
                e[1].pop(0)
                ev["take_some"] += 1
                if e[1]:
                    lru.insert(0, e)
                else:
                    ev["emptied"] += 1
    return ev


def nontrivial(case, outs):
    if outs == [[-999]]:
        return False
    ev = _sim(case)
    return ev["evicted"] > 0 and ev["overflow"] > 0 and ev["emptied"] > 0 and ev["take_evicted_none"] > 0


def stats(cases, outs):
    d = {"insert": 0, "take": 0, "take_some_impl": 0, "zero_capacity_cases": 0}
    tot = {}
    for c, o in zip(cases, outs):
        if c[0][1] == 0 or c[0][2] == 0:
            d["zero_capacity_cases"] += 1
        for op, r in zip(c, o):
            if op[0] == 1:
                d["insert"] += 1
            elif op[0] == 2:
                d["take"] += 1
                if r and r[0] == 1:
                    d["take_some_impl"] += 1
        for k, v in _sim(c).items():
            tot[k] = tot.get(k, 0) + v
    d["model_events"] = tot
    return d
