"""Generator for the `flow_recv` component (receive side of StreamsState vs coq/Model/FlowRecv.v), C06."""
RULE = ("op 0 configures side, stream-count limits and (small or huge) receive windows; then STREAM / RESET_STREAM "
        "frames whose end offsets are placed one below / at / one above the stream limit, the connection limit, the "
        "high-water mark, a known final size and 2^62, on stream indices one below / at / above max_remote, on local "
        "bidirectional and (illegal) local unidirectional ids, interleaved in random order with budgeted ordered and "
        "unordered reads, stop, received_reset, set_receive_window (grow and shrink), control-frame transmission "
        "(with and without forced retransmission), open/accept and send-half reset + reset_acked; "
        "non-trivial = the case contains an accepted frame carrying new bytes, a rejected frame, and a read that "
        "returned bytes or a stop/reset that was accepted")

NG = 22
P62 = 1 << 62


def sid(init, d, idx):
    return idx * 4 + d * 2 + init


class Shadow:
    """Approximate tracking of limits, only used to aim at boundaries."""

    def __init__(self, side, mru, mrb, rw, srw):
        self.side, self.rw, self.srw = side, rw, srw
        self.max_remote = [mrb, mru]
        self.lmax = rw
        self.recvd = 0
        self.streams = {}
        self.opened_bi = 0

    def s(self, i):
        return self.streams.setdefault(i, {"end": 0, "msd": self.srw, "read": 0, "fin": None, "stopped": False})


def pick_id(rng, sh):
    k = rng.below(20)
    other = 1 - sh.side
    if k < 11:
        d = rng.below(2)
        hi = sh.max_remote[d]
        m = rng.below(10)
        if m < 6:
            idx = rng.below(max(1, min(hi, 3)))
        elif m < 8:
            idx = max(0, hi - 1)
        elif m < 9:
            idx = hi
        else:
            idx = hi + rng.range(0, 2)
        return sid(other, d, idx)
    if k < 16:
        return sid(sh.side, 0, rng.below(sh.opened_bi + 1))
    if k < 17:
        return sid(sh.side, 1, rng.below(2))
    if sh.streams and k < 20:
        return rng.choice(sorted(sh.streams))
    return sid(other, rng.below(2), 0)


def pick_end(rng, sh, st):
    conn_room = sh.lmax - sh.recvd + st["end"]
    cands = [st["msd"] - 1, st["msd"], st["msd"] + 1, st["end"], st["end"] + 1, st["end"] - 1,
             conn_room - 1, conn_room, conn_room + 1, st["read"], st["read"] + 1]
    if st["fin"] is not None:
        cands += [st["fin"] - 1, st["fin"], st["fin"], st["fin"] + 1]
    k = rng.below(20)
    if k < 11:
        e = rng.choice(cands)
    elif k < 12:
        e = rng.choice([P62 - 1, P62, P62 + 1, P62 - 2])
    elif k < 17:
        e = st["end"] + rng.range(0, 12)
    else:
        e = rng.below(max(2, min(st["msd"] + 2, 200)))
    return max(0, min(e, P62 + 2))


def gen_case(rng):
    side = rng.below(2)
    mru, mrb = rng.range(0, 3), rng.range(0, 3)
    if rng.chance(1, 6):
        rw, srw = rng.choice([1 << 40, (1 << 62) - 1]), rng.choice([1 << 30, 1 << 61, 1 << 40, 1 << 61, (1 << 62) - 1])
    else:
        rw = rng.choice([0, 7, 16, 33, 64, 100, 200, 1000])
        srw = rng.choice([0, 8, 9, 16, 40, 64, 100, 1000])
    pmb, pmu = rng.range(0, 3), rng.range(0, 2)
    sh = Shadow(side, mru, mrb, rw, srw)
    ops = [[0, side, mru, mrb, rw, srw, pmb, pmu]]
    for _ in range(rng.range(8, 44)):
        k = rng.below(100)
        if k < 38:
            i = pick_id(rng, sh)
            st = sh.s(i)
            e = pick_end(rng, sh, st)
            ln = min(e, rng.choice([0, 0, 1, 1, 2, 3, 5, 8, 13, 21, 40]))
            if rng.chance(1, 5):
                ln = min(e, 60)
            fin = 1 if rng.chance(1, 5) else 0
            if e - ln > P62 - 1:
                ln = e - (P62 - 1)
            ops.append([1, i, e - ln, ln, fin])
            if e <= st["msd"] and sh.recvd + max(0, e - st["end"]) <= sh.lmax and e < P62:
                sh.recvd += max(0, e - st["end"])
                st["end"] = max(st["end"], e)
                if fin and st["fin"] is None:
                    st["fin"] = e
        elif k < 47:
            i = pick_id(rng, sh)
            st = sh.s(i)
            e = pick_end(rng, sh, st)
            e = min(e, P62 - 1)
            ops.append([2, i, rng.below(5), e])
            if e <= st["msd"] and e >= st["end"] and sh.recvd + e - st["end"] <= sh.lmax:
                sh.recvd += e - st["end"]
                sh.lmax += e - st["read"]
                st["end"] = e
                st["fin"] = e
        elif k < 67:
            i = pick_id(rng, sh) if rng.chance(1, 4) or not sh.streams else rng.choice(sorted(sh.streams))
            st = sh.s(i)
            avail = max(0, st["end"] - st["read"])
            m = rng.below(10)
            if m < 3:
                b = 1 << 20
            elif m < 5:
                b = avail
            elif m < 6:
                b = max(0, avail - 1)
            elif m < 7:
                b = 0
            else:
                b = rng.range(1, 20)
            ordered = 0 if rng.chance(1, 4) else 1
            ops.append([3, i, ordered, b])
            n = min(b, avail)
            st["read"] += n
            sh.lmax += n
        elif k < 72:
            i = pick_id(rng, sh) if rng.chance(1, 3) or not sh.streams else rng.choice(sorted(sh.streams))
            ops.append([4, i, rng.below(5)])
            st = sh.s(i)
            if not st["stopped"]:
                st["stopped"] = True
                sh.lmax += max(0, st["end"] - st["read"])
                st["read"] = st["end"]
        elif k < 75:
            i = pick_id(rng, sh) if rng.chance(1, 3) or not sh.streams else rng.choice(sorted(sh.streams))
            ops.append([5, i])
        elif k < 80:
            m = rng.below(6)
            if m < 2:
                w = sh.rw + rng.choice([1, 8, 50, 1000])
            elif m < 4:
                w = max(0, sh.rw - rng.choice([1, 8, 50, 1000]))
            elif m < 5:
                w = sh.rw
            else:
                w = rng.choice([0, 1, 64, 1 << 40, (1 << 62) - 1])
            w = min(w, P62 - 1)
            ops.append([6, w])
            if w > sh.rw:
                sh.lmax += w - sh.rw
            sh.rw = w
        elif k < 90:
            ops.append([7, rng.below(2), 1 if rng.chance(1, 3) else 0, 1 if rng.chance(1, 4) else 0])
            for st in sh.streams.values():
                if not st["stopped"] and st["fin"] is None:
                    st["msd"] = max(st["msd"], st["read"] + sh.srw)
        elif k < 93:
            d = rng.below(2)
            ops.append([8, d])
            if d == 0 and sh.opened_bi < pmb:
                sh.opened_bi += 1
        elif k < 94:
            ops.append([9, rng.below(2)])
        elif k < 97:
            ops.append([12, pick_id(rng, sh), rng.below(5)])
        else:
            ops.append([17, pick_id(rng, sh)])
    return ops


def gen(rng, n):
    return [gen_case(rng) for _ in range(n)]


def nontrivial(case, outs):
    if outs == [[-999]] or len(outs) != len(case):
        return False
    acc = rej = cons = False
    prev = None
    for op, o in zip(case, outs):
        if op[0] in (1, 2) and len(o) > 5:
            if o[0] == 1:
                rej = True
            elif prev is not None and o[5] > prev:
                acc = True
            if op[0] == 2 and o[0] == 0:
                cons = True
        if op[0] == 3 and o[0] == 0 and o[1] > 0:
            cons = True
        if op[0] == 4 and o[0] == 0:
            cons = True
        if len(o) > 5:
            prev = o[5]
    return acc and rej and cons


def stats(cases, outs):
    d = {"ops": {}, "frame_errors": {}, "read_term": {}, "read_err": {}, "streams_freed": 0, "panics": 0,
         "ctrl_frames": {}, "bytes_read": 0}
    names = {1: "stream", 2: "reset_stream", 3: "read", 4: "stop", 5: "received_reset", 6: "set_receive_window",
             7: "control", 8: "open", 9: "accept", 12: "send_reset", 17: "reset_acked", 0: "config"}
    for c, os_ in zip(cases, outs):
        if os_ == [[-999]]:
            d["panics"] += 1
            continue
        prev = None
        for op, o in zip(c, os_):
            nm = names.get(op[0], str(op[0]))
            d["ops"][nm] = d["ops"].get(nm, 0) + 1
            if op[0] in (1, 2):
                key = "ok" if o[0] == 0 else str(o[1])
                d["frame_errors"][key] = d["frame_errors"].get(key, 0) + 1
            if op[0] == 3:
                if o[0] == 0:
                    d["read_term"][str(o[2])] = d["read_term"].get(str(o[2]), 0) + 1
                    d["bytes_read"] += o[1]
                else:
                    d["read_err"][str(o[0])] = d["read_err"].get(str(o[0]), 0) + 1
            if op[0] == 7:
                l = o[5 + NG:]
                for j in range(0, len(l), 3):
                    d["ctrl_frames"][str(l[j])] = d["ctrl_frames"].get(str(l[j]), 0) + 1
            if len(o) >= 5 + NG:
                mr = o[5 + 5] + o[5 + 6]
                if prev is not None and mr > prev:
                    d["streams_freed"] += mr - prev
                prev = mr
    return d


def classify(case, outs):
    return None
