"""Generator for the `token` component (quinn-proto/src/token.rs payload codec vs coq/Model/Token.v)."""

RULE = ("ops: 0 = Token::encode, 1 = Token::decode, 2 = encode then decode with the real code, under the hook's transparent toy "
        "AEAD; Retry tokens (v4/v6 address, port, original destination CID of 0..20 bytes, issue time) and validation tokens; "
        "decode inputs are valid tokens, optionally truncated / extended / with a corrupted byte (type, address family, CID "
        "length, tag, nonce) or random bytes. A case is non-trivial if it has a successful round trip of a Retry token and "
        "a decode that returns None")

SHARD = 200
I64_MAX = (1 << 63) - 1


def gen_ip(rng):
    if rng.chance(1, 2):
        return [4] + rng.choice([[127, 0, 0, 1], [0, 0, 0, 0], [255, 255, 255, 255], rng.bytes(4)])
    return [6] + rng.choice([[0] * 15 + [1], [0] * 16, rng.bytes(16)])


def gen_secs(rng):
    return rng.choice([0, 1, 1700000000, (1 << 32) - 1, 1 << 32, I64_MAX, rng.below(1 << 40), rng.below(I64_MAX)])


def gen_desc(rng):
    nonce = rng.choice([[0] * 16, [255] * 16, rng.bytes(16), rng.bytes(16)])
    if rng.chance(3, 5):
        cid = rng.bytes(rng.choice([0, 1, 4, 8, 19, 20]))
        return nonce + [0] + gen_ip(rng) + [rng.choice([0, 1, 443, 65535, rng.below(65536)])] + [len(cid)] + cid + [gen_secs(rng)]
    return nonce + [1] + gen_ip(rng) + [gen_secs(rng)]


def py_encode(d):
    nonce = d[:16]
    r = d[16:]
    out = [r[0]]
    fam = r[1]
    n = 4 if fam == 4 else 16
    out += [0 if fam == 4 else 1] + r[2:2 + n]
    r = r[2 + n:]
    if out[0] == 0:
        port, ln = r[0], r[1]
        out += list(port.to_bytes(2, "big")) + [ln] + r[2:2 + ln]
        r = r[2 + ln:]
    out += list(r[0].to_bytes(8, "big"))
    return out + nonce[::-1] + nonce


def gen_bytes(rng):
    if rng.chance(1, 10):
        return rng.bytes(rng.range(0, 60))
    b = py_encode(gen_desc(rng))
    m = rng.below(16)
    if m < 5:
        return b
    if m < 7:
        return b[:rng.below(len(b))]
    if m < 8:
        return b + rng.bytes(rng.range(1, 4))
    if m < 9:
        b[0] = rng.choice([2, 3, 255, 1 - b[0] if b[0] < 2 else 0])
        return b
    if m < 10:
        b[1] = rng.choice([1 - b[1] if b[1] < 2 else 0, 2, 255])
        return b
    if m < 12:
        # extra / missing plaintext byte before the tag
        i = len(b) - 32
        return b[:i] + ([rng.below(256)] if rng.chance(1, 2) else []) + b[i + (0 if rng.chance(1, 2) else 1):]
    if m < 13 and b[0] == 0:
        fam = 4 if b[1] == 0 else 16
        i = 2 + fam + 2  # cid length byte
        b[i] = rng.choice([0, 20, 21, 255, b[i] + 1])
        return b
    i = rng.below(len(b))
    b[i] = (b[i] + rng.choice([1, 255, 128])) % 256
    return b


def gen_case(rng):
    ops = []
    for _ in range(rng.range(4, 12)):
        k = rng.below(10)
        if k < 4:
            ops.append([2] + gen_desc(rng))
        elif k < 5:
            ops.append([0] + gen_desc(rng))
        else:
            ops.append([1] + gen_bytes(rng))
    return ops


def gen(rng, n):
    return [gen_case(rng) for _ in range(n)]


def nontrivial(case, outs):
    if outs == [[-999]]:
        return False
    rt = any(op[0] == 2 and op[17] == 0 and o[:1] == [0] for op, o in zip(case, outs))
    none = any(op[0] == 1 and o == [1] for op, o in zip(case, outs))
    return rt and none


def stats(cases, outs):
    d = {"encode": 0, "decode_some": 0, "decode_none": 0, "roundtrip": 0, "panic_cases": 0, "retry": 0, "validation": 0}
    for c, o in zip(cases, outs):
        if o == [[-999]]:
            d["panic_cases"] += 1
            continue
        for op, r in zip(c, o):
            if op[0] == 0:
                d["encode"] += 1
            elif op[0] == 2:
                d["roundtrip"] += 1
                d["retry" if op[17] == 0 else "validation"] += 1
            elif r == [1]:
                d["decode_none"] += 1
            else:
                d["decode_some"] += 1
    return d
