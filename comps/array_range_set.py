"""Generator for the `array_range_set` component (ArrayRangeSet vs coq/Model/ArrayRangeSet.v)."""
from . import range_set as _rs

RULE = ("ops over a small universe or around a boundary base: insert / insert_one / remove / pop_min / max / len / "
        "is_empty / iter; a case is non-trivial if an insert returned false on a non-empty range, a remove returned "
        "true, a remove split a range (len grew) or an insert merged ranges (len shrank), and iter listed >= 2 ranges")


def gen(rng, n):
    return [_rs.gen_case(rng, "array") for _ in range(n)]


def nontrivial(case, outs):
    dup = any(op[0] == 0 and op[1] < op[2] and o == [0] for op, o in zip(case, outs))
    removed = any(op[0] == 2 and o == [1] for op, o in zip(case, outs))
    multi = any(op[0] == 7 and len(o) >= 4 for op, o in zip(case, outs))
    return dup and removed and multi


def stats(cases, outs):
    d = {"insert_true": 0, "insert_false": 0, "insert_empty": 0, "insert_one_true": 0, "insert_one_false": 0,
         "remove_true": 0, "remove_false": 0, "pop_some": 0, "pop_none": 0, "iter": 0, "max_ranges_listed": 0}
    for c, o in zip(cases, outs):
        for op, r in zip(c, o):
            if op[0] == 0:
                if op[1] >= op[2]:
                    d["insert_empty"] += 1
                elif r == [1]:
                    d["insert_true"] += 1
                else:
                    d["insert_false"] += 1
            elif op[0] == 1:
                d["insert_one_true" if r == [1] else "insert_one_false"] += 1
            elif op[0] == 2:
                d["remove_true" if r == [1] else "remove_false"] += 1
            elif op[0] == 3:
                d["pop_some" if r[0] == 1 else "pop_none"] += 1
            elif op[0] == 7:
                d["iter"] += 1
                d["max_ranges_listed"] = max(d["max_ranges_listed"], len(r) // 2)
    return d
