"""C01 system level: stream integrity between real endpoints; coq/Sys/MonC01.v over application records."""
from . import simlib as S
SUBCMD = "sim"
IS_TRACE = True
RUN = "monitor"
TAGS = {3, 10, 13}
RULE = ("several streams of both directions with random write chunking and read sizes, ordered or unordered reads, "
        "finish / reset / stop at random points, forced key updates, loss / duplication / reordering / GSO splitting, "
        "small flow-control windows, echo traffic from the server; non-trivial = at least 3 read chunks and one end-of-stream")


def gen(rng, n):
    cases = []
    for i in range(n):
        d = S.base(rng, small=rng.chance(2, 3))
        d["NBIDI"] = rng.range(0, 3)
        d["NUNI"] = rng.range(0 if d["NBIDI"] else 1, 3)
        d["READ_ORDERED"] = rng.choice([1, 1, 0])
        S.lossy(rng, d)
        S.knobs(rng, d)
        if rng.chance(1, 3):
            d["ECHO_BYTES"] = rng.choice([1, 500, 5000])
        if rng.chance(1, 4):
            d["SERVER_STREAMS"] = rng.range(1, 2)
        if rng.chance(1, 5):
            d["RESET_AT_BYTES"] = rng.choice([1, 500, 2000])
        if rng.chance(1, 5):
            d["STOP_AT_BYTES"] = rng.choice([1, 500, 2000])
        if rng.chance(1, 4):
            # padding up to a path MTU above 1200 (loss probes stay clamped to 1200: their padding must
            # not end up inside a STREAM frame) and, sometimes, key updates / migration in the middle
            d["PAD_TO_MTU"] = 1
            d["INITIAL_MTU"] = rng.choice([1300, 1452])
            d["LINK_MTU"] = max(d.get("LINK_MTU", 1500), 1452)
            d["LOSS"] = rng.choice([50, 100, 150, 200])
            d["STREAM_BYTES"] = max(d["STREAM_BYTES"], 8000)
        if rng.chance(1, 6):
            d["MIGRATE_AT"] = rng.choice([30000, 60000, 150000])
            d["MIGRATE_KIND"] = rng.below(2)
        if rng.chance(1, 4):
            d["NCONNS"] = rng.range(2, 4)
            if d.get("CID_LEN", 8) == 0:
                d["CID_LEN"] = 4
        if rng.chance(1, 5):
            # a stream written and finished in one go, several packets long, under heavy loss: heads and
            # middles are retransmitted after the tail (and its FIN) went out
            d = S.base(rng, small=True)
            d["STREAM_BYTES"] = rng.choice([3000, 8000, 20000])
            d["WRITE_CHUNK"] = 100000
            d["READ_MAX"] = rng.choice([100, 100000])
            d["READ_ORDERED"] = rng.choice([1, 1, 0])
            d["LOSS"] = rng.choice([100, 200, 300])
            d["DUP"] = rng.choice([0, 50])
            d["DELAY_MAX"] = d["DELAY_MIN"] * rng.choice([1, 2])
            d["NUNI"] = rng.range(1, 2)
            d["NBIDI"] = rng.range(0, 1)
            d["GSO"] = rng.choice([1, 1, 5])
        if rng.chance(1, 5):
            # receive-stream state recycling: small stream limits, several streams one after the other, the
            # first one stopped (or read) by the receiver; loss-free, so every later stream must arrive
            d = S.base(rng, small=True)
            d["NBIDI"] = rng.choice([0, 2, 3])
            d["NUNI"] = rng.choice([2, 3, 4])
            d["MAX_UNI"] = rng.choice([1, 1, 2])
            d["MAX_BIDI"] = rng.choice([1, 2])
            d["STREAM_BYTES"] = rng.choice([1, 700, 3000])
            d["WRITE_CHUNK"] = 100000
            if rng.chance(2, 3):
                d["STOP_AT_BYTES"] = rng.choice([1, 700, 100000])
            d["READ_ORDERED"] = rng.choice([1, 0])
            d["CLOSER"] = 0
            d["ALL_STREAMS_SEEN"] = 1
        cases.append(S.case_of(d))
    return cases


def project(case, outs):
    return S.project(outs, TAGS)


def nontrivial(case, outs):
    chunks = sum(1 for r in outs if r[0] == 3 and r[4] == 5 and r[9] == 0)
    ends = sum(1 for r in outs if r[0] == 3 and r[4] == 6)
    return chunks >= 3 and ends >= 1


def stats(cases, outs):
    st = S.trace_stats(cases, outs)
    ops = {}
    for o in outs:
        for r in o:
            if r[0] == 3:
                ops[str(r[4])] = ops.get(str(r[4]), 0) + 1
    st["app_ops_by_code"] = ops
    return st


describe = S.describe
