"""C08 system level: lifecycle scenarios in the simulator; trace validated by coq/Sys/MonC08.v."""
from . import simlib as S
SUBCMD = "sim"
IS_TRACE = True
RUN = "monitor"
SHARD = 6
TAGS = {1, 2, 3, 4, 5, 6, 8, 10, 11, 12, 13, 15}
RULE = ("lifecycle scenarios: close() by client/server/both/nobody at a random instant of handshake or transfer (incl. "
        "window-limited senders), peer silent from a random datagram on (one or both directions), close packets lost/duplicated, idle "
        "timeout and keep-alive settings, close() in the very iteration in which a chosen timer (loss detection, keep-alive, CID rotation, ack delay) expired, server process restart (genuine stateless resets, also to a client that is already closing), idle timeout renegotiated on 0-RTT resumption (remembered vs actual peer value: none, larger, smaller), late timers; non-trivial = at least one connection reached Drained")


def gen(rng, n):
    cases = []
    for i in range(n):
        d = S.base(rng, small=rng.chance(1, 2))
        S.knobs(rng, d)
        # cost: the lifecycle does not need long lives; a shorter idle timeout and horizon keep the
        # "nobody closes" / silent-peer scenarios (which run until the idle timeout) cheap
        d["IDLE_MS"] = rng.choice([2000, 5000, 10000])
        d["MAX_TIME"] = 25_000_000
        m = rng.below(6)
        d["CLOSER"] = rng.choice([0, 1, 2, 3])
        if m == 0:      # close at a random instant
            d["CLOSE_AT"] = rng.choice([1, 5000, 15000, 25000, 40000, 80000, 200000])
        elif m == 1:    # peer disappears: every datagram from the k-th on is lost (one or both directions).
            # (cheaper than SILENCE_AFTER and covers one-directional silence too)
            k = rng.range(0, 14)
            d["DROP_MASK"] = ((1 << 126) - 1) ^ ((1 << k) - 1)
            d["DROP_MASK_DIR"] = rng.below(3)
            d["IDLE_MS"] = rng.choice([300, 1000, 3000])
            d["MAX_TIME"] = 15_000_000
        elif m == 2:    # window-limited sender closes mid-transfer
            d["STREAM_BYTES"] = rng.choice([200000, 1000000])
            d["WRITE_CHUNK"] = 100000
            d["NBIDI"] = 0
            d["NUNI"] = 1
            d["CLOSE_AT"] = rng.choice([25000, 35000, 60000, 100000])
            d["CLOSER"] = rng.choice([0, 2])
            d["DELAY_MIN"] = d["DELAY_MAX"] = rng.choice([10000, 50000])
        elif m == 3:    # idle / keep-alive
            d["CLOSER"] = 3
            d["IDLE_MS"] = rng.choice([200, 1000, 5000])
            if rng.chance(1, 2):
                d["KEEPALIVE_MS"] = max(50, d["IDLE_MS"] // rng.choice([2, 3, 10]))
                d["MAX_TIME"] = 8_000_000
        elif m == 4 and rng.chance(1, 2):
            # idle timeout renegotiated on 0-RTT resumption: the client arms the Idle timer under the
            # REMEMBERED peer parameters; the server's actual ones differ (none / larger / smaller)
            d["ZERO_RTT"] = rng.choice([1, 2])
            d["NCONNS"] = 1
            d["IDLE_MS"] = rng.choice([300, 1000])
            d["CLIENT_IDLE_MS"] = rng.choice([0, 0, 300, 5000])
            d["SERVER_IDLE2_MS"] = rng.choice([0, 0, 2000, 10000, 200])
            d["CLOSER"] = rng.choice([0, 0, 3])
            d["DELAY_MIN"] = d["DELAY_MAX"] = rng.choice([10000, 30000])
            d["STREAM_BYTES"] = rng.choice([20000, 100000, 300000])
            d["WRITE_CHUNK"] = 100000
            d["READ_MAX"] = 100000
            d["ECHO_BYTES"] = rng.choice([0, 100000])
            d["NBIDI"] = 1
            if rng.chance(1, 2):
                d["STREAM_RWND"] = rng.choice([3000, 10000])
            d["MAX_TIME"] = 15_000_000
        elif m == 5 and rng.chance(2, 3):
            # the server process restarts mid-connection (fresh endpoint, same reset key): whatever the
            # client still sends - also the CONNECTION_CLOSE it repeats, while closing, in answer to
            # replayed old server datagrams - is answered with a genuine stateless reset
            d["NCONNS"] = 1
            d["DELAY_MIN"] = d["DELAY_MAX"] = rng.choice([10000, 30000])
            t = 2 * d["DELAY_MIN"] * rng.range(4, 10)
            d["STREAM_BYTES"] = rng.choice([100000, 300000])
            d["WRITE_CHUNK"] = 100000
            d["READ_MAX"] = 100000
            d["NBIDI"] = 1
            d["ECHO_BYTES"] = rng.choice([0, 100000])
            d["CLOSER"] = rng.choice([0, 0, 3])
            if d["CLOSER"] == 0:
                d["CLOSE_AT"] = t
            d["FORGET_AT"] = max(1000, t + rng.choice([-20000, 1000, 20000, 100000]))
            d["REPLAY"] = rng.choice([0, 300, 600])
            d["IDLE_MS"] = rng.choice([1000, 3000])
            d["MAX_TIME"] = 15_000_000
            d.pop("RETRY", None)
        if rng.chance(1, 10) and not d.get("ZERO_RTT") and "FORGET_AT" not in d:
            # CID rotation, close, and then the connection's OLD datagrams are replayed: the peer endpoint
            # answers with stateless resets for retired CIDs, which must not route to the drained
            # connection's (possibly reused) handle any more
            d["NCONNS"] = 1
            d["CID_LIFETIME_MS"] = rng.choice([50, 100, 200])
            d["DELAY_MIN"] = d["DELAY_MAX"] = rng.choice([5000, 10000])
            d["STREAM_BYTES"] = rng.choice([100000, 300000])
            d["WRITE_CHUNK"] = 100000
            d["READ_MAX"] = 100000
            d["NBIDI"] = 1
            d["ECHO_BYTES"] = 100000
            d["CLOSER"] = rng.choice([0, 1])
            d["CLOSE_AT"] = rng.choice([400000, 700000])
            d["REPLAY"] = rng.choice([300, 600])
            d["IDLE_MS"] = 3000
            d["MAX_TIME"] = 8_000_000
            d.pop("RETRY", None)
            if d.get("CID_LEN") == 0:
                d["CID_LEN"] = 8
        elif rng.chance(1, 10) and not d.get("ZERO_RTT") and "FORGET_AT" not in d:
            # every identifier of a drained connection stops routing - also the one issued with the
            # server's preferred address: the client switches to it (address change), the connection
            # closes, and its old datagrams are replayed afterwards
            d["PREFERRED_ADDR"] = 1
            d["NCONNS"] = 1
            d["DELAY_MIN"] = d["DELAY_MAX"] = rng.choice([5000, 10000])
            d["STREAM_BYTES"] = 20000
            d["WRITE_CHUNK"] = 100000
            d["READ_MAX"] = 100000
            d["NBIDI"] = 1
            d["MIGRATE_AT"] = rng.choice([40000, 60000])
            d["MIGRATE_KIND"] = rng.below(2)
            d["CLOSER"] = rng.choice([0, 1])
            d["CLOSE_AT"] = rng.choice([200000, 400000])
            d["REPLAY"] = rng.choice([300, 600])
            d["IDLE_MS"] = 3000
            d["MAX_TIME"] = 8_000_000
            d.pop("RETRY", None)
            if d.get("CID_LEN") == 0:
                d["CID_LEN"] = 8
        if rng.chance(1, 8) and not d.get("ZERO_RTT") and "FORGET_AT" not in d and "PREFERRED_ADDR" not in d and "CID_LIFETIME_MS" not in d:
            # adversarial scheduling: the application closes in the very driver iteration in which a
            # given timer of its connection expired (after handle_timeout, before the endpoint's answers)
            d["CLOSE_ON_TIMER"] = rng.choice([1, 6, 8, 8, 9])
            d["CLOSE_ON_TIMER_N"] = rng.range(1, 3)
            d["CLOSER"] = rng.choice([0, 1, 2])
            d["CLOSE_AT"] = 6_000_000
            d["MAX_TIME"] = 12_000_000
            d["IDLE_MS"] = rng.choice([3000, 10000])
            if d["CLOSE_ON_TIMER"] == 8:
                d["CID_LIFETIME_MS"] = rng.choice([50, 200, 1000])
                if d.get("CID_LEN") == 0:
                    d["CID_LEN"] = 8
            elif d["CLOSE_ON_TIMER"] == 6:
                d["KEEPALIVE_MS"] = rng.choice([100, 500])
        if d.get("STREAM_RWND") == 1:
            d["STREAM_BYTES"] = min(d["STREAM_BYTES"], 700)     # one byte per round trip
        if rng.chance(1, 2) and m != 1:
            S.lossy(rng, d)
        if rng.chance(1, 3):
            d["LATE_US"] = rng.choice([1, 500, 5000])
        if rng.chance(1, 4) and d.get("CID_LEN", 8) != 0 and not d.get("ZERO_RTT"):
            d["NCONNS"] = rng.range(2, 3)   # zero-length CIDs: one connection per address tuple
        cases.append(S.case_of(d))
    return cases


def project(case, outs):
    # [[-999]] panic, [[-998]] run killed by the harness time limit, [[-997]] crash: keep the marker,
    # the monitors reject it (a connection that does not terminate is a violation of C08 itself)
    if len(outs) == 1 and outs[0] and outs[0][0] < 0:
        return outs
    return S.project(outs, TAGS)


def nontrivial(case, outs):
    return any(r[0] == 5 and r[4] == 1 for r in outs)


def stats(cases, outs):
    st = S.trace_stats(cases, outs)
    st["drained_events"] = sum(1 for o in outs for r in o if r[0] == 5 and r[4] == 1)
    st["connection_lost_by_kind"] = {}
    for o in outs:
        for r in o:
            if r[0] == 4 and r[4] == 3:
                k = str(r[5])
                st["connection_lost_by_kind"][k] = st["connection_lost_by_kind"].get(k, 0) + 1
    return st


describe = S.describe


def classify(case, outs):
    """Known finding `lost-after-local-close`: ConnectionLost{Reset} reported although the connection was already
    closed - after a local close(), or a second report after the peer's close had been reported."""
    closed = set()
    lost = set()
    for r in outs:
        if r[0] == 3 and r[4] == 11:
            closed.add((r[2], r[3]))
        elif r[0] == 4 and r[4] == 3:
            k = (r[2], r[3])
            if (k in closed or k in lost) and r[5] == 5:
                return "lost-after-local-close"
            lost.add(k)
    return None


KNOWN_PARAM = {"lost-after-local-close": [902, 1]}
