"""Generator for the `pn` component (PacketNumber in quinn-proto/src/packet.rs vs coq/Model/PacketNumber.v)."""
RULE = ("ops: encode(n, largest_acked) / decode+expand(len, expected, bytes) / full round trip "
        "(n, largest_acked, expected); n - largest_acked placed around each length boundary "
        "(2^7, 2^15, 2^23, 2^31), expected placed around both window edges; non-trivial = the case "
        "has a round trip at an exact window edge and at least two different encoded lengths")

EDGES = [1 << 7, 1 << 15, 1 << 23, 1 << 31]


def pick_pair(rng):
    la = rng.boundary() if rng.chance(1, 3) else rng.below(1 << rng.range(1, 40))
    la = min(la, (1 << 62) - (1 << 33))
    k = rng.below(10)
    if k < 6:
        d = max(0, rng.choice(EDGES) + rng.range(-2, 1))
    elif k < 8:
        d = rng.below(1 << rng.range(0, 31))
    else:
        d = rng.below(1 << 31)
    d = min(d, (1 << 31) - 1)
    return la + d, la


def plen(n, la):
    r = (n - la) * 2
    for i, b in enumerate((8, 16, 24, 32)):
        if r < 1 << b:
            return i + 1
    return None


def gen_case(rng):
    ops = []
    for _ in range(rng.range(4, 20)):
        k = rng.below(10)
        n, la = pick_pair(rng)
        if k < 2:
            ops.append([0, n, la])
        elif k < 4:
            ln = rng.range(1, 4)
            b = rng.bytes(ln + rng.below(3))
            if rng.chance(1, 8) and ln > 1:
                b = b[:ln - 1]
            ops.append([1, ln, rng.boundary(), *b])
        else:
            ln = plen(n, la)
            h = (1 << (8 * ln)) // 2
            m = rng.below(8)
            if m == 0:
                e = n + h - 1          # lowest admissible... e - h < n  <=> e < n + h
            elif m == 1:
                e = n + h              # just outside (wrong answer allowed)
            elif m == 2:
                e = n - h              # n <= e + h edge
            elif m == 3:
                e = n - h - 1          # outside
            elif m == 4:
                e = la + 1
            elif m == 5:
                e = n
            else:
                e = n + rng.range(-h, h)
            e = max(0, min(e, (1 << 62) - 1))
            ops.append([2, n, la, e])
    return ops


def gen(rng, n):
    return [gen_case(rng) for _ in range(n)]


def nontrivial(case, outs):
    lens = set()
    edge = False
    for op in case:
        if op[0] == 2:
            ln = plen(op[1], op[2])
            lens.add(ln)
            h = (1 << (8 * ln)) // 2
            if op[3] in (op[1] + h - 1, op[1] - h):
                edge = True
    return edge and len(lens) >= 2


def stats(cases, outs):
    d = {"encode": 0, "decode_expand": 0, "roundtrip": 0, "roundtrip_exact": 0, "len": {}}
    for c, o in zip(cases, outs):
        for op, r in zip(c, o):
            if op[0] == 0:
                d["encode"] += 1
            elif op[0] == 1:
                d["decode_expand"] += 1
            else:
                d["roundtrip"] += 1
                ln = str(plen(op[1], op[2]))
                d["len"][ln] = d["len"].get(ln, 0) + 1
                if r == [0, op[1]]:
                    d["roundtrip_exact"] += 1
    return d
