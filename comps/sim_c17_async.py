"""C17 in the async API: accepted and rejected 0-RTT on the real quinn crate (harness/src/asyncsim.rs, parameter 44);
trace validated by coq/Sys/MonC18.v (rules: after a rejection every operation on an early handle fails with
ZeroRttRejected; fresh streams reusing the ids deliver exactly their own bytes)."""
from . import sim_c18 as B
SUBCMD = "async"
IS_TRACE = True
RUN = "monitor"
SHARD = 6
TIMEOUT = 600
TAGS = B.TAGS
RULE = ("warm-up connection, then a second connection started with into_0rtt(): early bidi + uni streams written during "
        "0-RTT, the server either keeps its configuration (accepted) or is given a fresh ServerConfig with new ticket keys "
        "(rejected); after the handshake the early handles are used again and dropped at random times while fresh streams "
        "(which reuse the early ids after a rejection) transfer data both ways; seeded scheduler, cancellation, spurious "
        "polls as in sim_c18; non-trivial = into_0rtt() succeeded and the run ended with every task finished")
describe = B.describe
project = B.project
classify = B.classify
KNOWN_PARAM = B.KNOWN_PARAM


def gen(rng, n):
    cases = []
    for i in range(n):
        d = {"SEED": rng.range(1, 1 << 30)}
        d["DELAY_MIN"] = rng.choice([200, 2000, 5000, 20000])
        d["CANCEL"] = rng.choice([0, 100, 300, 600])
        d["READ_MODE"] = rng.choice([0, 0, 1, 2, 3])
        d["WRITE_MODE"] = rng.choice([0, 0, 1, 2])
        d["NACCEPTORS"] = 1
        if rng.chance(1, 3):
            d["SPURIOUS"] = rng.choice([20, 100])
        if rng.chance(1, 4):
            d["SEND_BLOCK"] = rng.choice([50, 300])
        B.zr_family(rng, d, mode=rng.choice([1, 2, 2]))
        cases.append(B.case_of(d))
    return cases


def nontrivial(case, outs):
    return any(r[0] == 43 and r[4] == 1 for r in outs) and any(r[0] == 10 and r[2] == 1 and r[4] == 0 for r in outs)


def stats(cases, outs):
    st = B.stats(cases, outs)
    st["into_0rtt_ok"] = sum(1 for o in outs for r in o if r[0] == 43 and r[4] == 1)
    st["rejected_runs"] = sum(1 for c in cases if B.describe(c).get("ZRTT") == 2)
    st["zero_rtt_rejected_results"] = sum(1 for o in outs for r in o if r[0] == 32 and r[4] in (22, 23))
    return st
