"""Generator for the `token_decision` component (IncomingToken::from_header on a real ServerConfig vs coq/Model/TokenDecision.v)."""
RULE = ("op0 = (retry_token_lifetime, validation lifetime); 2-6 genuine tokens are encoded by the real Token::encode (Retry and "
        "Validation, server key or a second key, v4/v6/v4-mapped addresses, CIDs of length 0..20, chosen nonces incl. equal "
        "nonces); each is then presented unmodified / with one bit flipped (every region: payload, tag, nonce) / truncated / "
        "extended / spliced with another token's nonce / replaced by garbage / empty, from the issuing address, another port, "
        "another IP, at times placed exactly at issue(second-truncated)+lifetime-1/+0/+1 us and far before/after; validation "
        "tokens are presented repeatedly (single use); non-trivial = the case has a validated Retry and a validated "
        "Validation outcome, an InvalidRetryTokenError, a rejected replay of a validation token and a mutated token")

S = 10**6
SHARD = 100


def tok_len(kind, addr, cidlen):
    ipl = 5 if 0 <= addr <= 3 else 17
    return (1 + ipl + 2 + 1 + cidlen + 8 + 32) if kind == 0 else (1 + ipl + 8 + 32)


def gen_case(rng):
    rl = rng.choice([15 * S, 15 * S, S, 1, 0, 3 * S + 17])
    vl = rng.choice([14 * 24 * 3600 * S, 60 * S, S, 5, 0]) if rng.chance(9, 10) else rng.choice([1, 2])
    ops = [[0, rl, vl]]
    toks = []
    t0 = rng.choice([1_700_000_000 * S, 0, 5 * S, 10**9 * S]) + rng.below(3 * S)
    nonces = []
    for _ in range(rng.range(2, 6)):
        kind = rng.below(2)
        key = 0 if rng.chance(5, 6) else 1
        addr = rng.choice([0, 1, 2, 4, 5, 8])
        port = rng.choice([4433, 1, 65535, 50000])
        issued = t0 + rng.below(2 * S)
        if nonces and rng.chance(1, 6):
            nhi, nlo = rng.choice(nonces)
        else:
            nhi, nlo = rng.below(1 << 63), rng.below(1 << 64)
        nonces.append((nhi, nlo))
        cid = rng.bytes(rng.choice([0, 4, 8, 8, 20, rng.range(0, 20)])) if kind == 0 else []
        ops.append([1, kind, key, addr, port, issued, nhi, nlo, len(cid), *cid])
        toks.append((kind, key, addr, port, issued, len(cid)))
    for _ in range(rng.range(8, 30)):
        idx = rng.below(len(toks))
        kind, key, addr, port, issued, cl = toks[idx]
        ln = tok_len(kind, addr, cl)
        k = rng.below(100)
        if k < 50:
            mut, arg = 0, 0
        elif k < 65:
            region = rng.below(4)
            if region == 0:
                bit = rng.below(8)                         # type byte
            elif region == 1:
                bit = rng.below((ln - 32) * 8)             # payload
            elif region == 2:
                bit = (ln - 32) * 8 + rng.below(128)       # tag
            else:
                bit = (ln - 16) * 8 + rng.below(128)       # nonce
            mut, arg = 1, bit
        elif k < 73:
            mut, arg = 2, rng.choice([0, 1, 15, 16, 17, ln - 17, ln - 16, ln - 1, ln, ln + 3])
            arg = max(0, arg)
        elif k < 80:
            mut, arg = 3, rng.below(256)
        elif k < 90:
            mut, arg = 4, rng.below(len(toks))
        else:
            mut, arg = 5, rng.choice([0, 1, 15, 16, 17, 33, 46, 53, 80])
        a = rng.below(10)
        faddr, fport = addr, port
        if a == 0:
            fport = port ^ 1
        elif a == 1:
            faddr = rng.choice([x for x in [0, 1, 2, 4, 5, 8] if x != addr])
        elif a == 2:
            faddr, fport = rng.choice([0, 8, 4]), rng.choice([4433, port])
        lt = rl if kind == 0 else vl
        edge = (issued // S) * S + lt
        m = rng.below(10)
        if m < 3:
            now = issued + rng.below(min(lt, 10 * S) + 1)
        elif m < 7:
            now = edge + rng.choice([-1, 0, 0, 1])
        elif m < 8:
            now = edge + rng.below(100 * S)
        elif m < 9:
            now = max(0, issued - rng.below(5 * S))       # clock before issue
        else:
            now = issued + lt + rng.choice([-1, 0, 1])     # untruncated edge
        now = max(0, now)
        dcid = rng.bytes(rng.choice([8, 8, 0, 20, rng.range(0, 20)]))
        ops.append([2, idx, mut, arg, faddr, fport, now, len(dcid), *dcid])
        if kind == 1 and mut == 0 and rng.chance(1, 2):
            ops.append([2, idx, 0, 0, faddr, fport, now + rng.below(3), len(dcid), *dcid])   # immediate replay
    return ops


def gen(rng, n):
    return [gen_case(rng) for _ in range(n)]


def _events(case, outs):
    ev = {"retry_validated": 0, "validation_validated": 0, "invalid_retry": 0, "validation_replay_rejected": 0,
          "mutated": 0, "unvalidated": 0, "foreign_key": 0}
    toks = []
    accepted = set()
    for op, o in zip(case, outs):
        if op[0] == 1:
            toks.append(op)
        elif op[0] == 2 and o:
            t = toks[op[1]]
            if op[2] != 0:
                ev["mutated"] += 1
            if t[2] != 0 and op[2] == 0:
                ev["foreign_key"] += 1
            if o == [1]:
                ev["invalid_retry"] += 1
            elif o[1] == 1:
                if t[1] == 0:
                    ev["retry_validated"] += 1
                else:
                    ev["validation_validated"] += 1
                    accepted.add(op[1])
            else:
                ev["unvalidated"] += 1
                if op[2] == 0 and op[1] in accepted:
                    ev["validation_replay_rejected"] += 1
    return ev


def nontrivial(case, outs):
    if outs == [[-999]] or len(outs) != len(case):
        return False
    ev = _events(case, outs)
    return all(ev[k] > 0 for k in ("retry_validated", "validation_validated", "invalid_retry",
                                   "validation_replay_rejected", "mutated"))


def stats(cases, outs):
    tot = {"panics": 0}
    for c, o in zip(cases, outs):
        if o == [[-999]] or len(o) != len(c):
            tot["panics"] += 1
            continue
        for k, v in _events(c, o).items():
            tot[k] = tot.get(k, 0) + v
    return tot
