"""Generator for the `send_buffer` component (connection/send_buffer.rs vs coq/Model/SendBuffer.v)."""
RULE = ("a python mirror of the buffer bookkeeping produces mostly-valid histories: writes of 0..60 bytes (several segments), "
        "poll_transmit with max_len from 16 up (small values force re-chunking; stream offsets optionally start the case "
        "near a varint size boundary by one big first write), acks and losses of in-flight ranges or sub-ranges (any order), "
        "retransmit_all_for_0rtt before any ack; cases free of invalid ops start with the marker op [8,1]. A malformed "
        "stream (1 case in 6) adds acks/retransmits of arbitrary ranges, max_len < 16, raw get calls. Non-trivial: at least "
        "one retransmitted range re-chunked (a poll returning a strict prefix of a lost range), one ack that pops a segment "
        "prefix, and one poll whose data spans two segments")


def vsize(x):
    return 1 if x < 64 else 2 if x < 16384 else 4 if x < (1 << 30) else 8


class Sim:
    def __init__(self):
        self.offset = 0
        self.unsent = 0
        self.retx = []       # sorted disjoint ranges (coalesced)
        self.inflight = []   # list of ranges
        self.acked = False

    def _ins(self, lst, s, e):
        if s >= e:
            return lst
        out = []
        for a, b in sorted(lst + [(s, e)]):
            if out and a <= out[-1][1]:
                out[-1] = (out[-1][0], max(out[-1][1], b))
            else:
                out.append((a, b))
        return out

    def budget(self, start, limit, max_len):
        if start != 0:
            max_len -= vsize(start)
        enc = limit - start < max_len
        if enc:
            max_len -= 8
        return min(limit, max_len + start)

    def poll(self, max_len):
        if self.retx:
            s, e = self.retx.pop(0)
            end = self.budget(s, e, max_len)
            if end != e:
                self.retx = self._ins(self.retx, end, e)
            r = (s, end)
        else:
            end = self.budget(self.unsent, self.offset, max_len)
            r = (self.unsent, end)
            self.unsent = end
        if r[0] < r[1]:
            self.inflight.append(r)
        return r

    def take_inflight(self, rng):
        """remove and return a random in-flight (sub)range"""
        i = rng.below(len(self.inflight))
        s, e = self.inflight.pop(i)
        if e - s > 1 and rng.chance(1, 3):
            a = rng.range(s, e - 1)
            b = rng.range(a + 1, e)
            if s < a:
                self.inflight.append((s, a))
            if b < e:
                self.inflight.append((b, e))
            return a, b
        return s, e


def gen_case(rng):
    sim = Sim()
    malformed = rng.chance(1, 6)
    ops = []
    if rng.chance(1, 8):
        # start near a varint boundary of the offset: one big first write, sent and acked in big frames
        target = (16384 if rng.chance(1, 40) else 64) + rng.range(-20, 5)
        ops.append([0] + [(i * 11 + 5) % 256 for i in range(target)])
        sim.offset += target
        while sim.unsent < sim.offset:
            ops.append([1, 40000])
            sim.poll(40000)
        if rng.chance(2, 3):
            for (s, e) in sim.inflight:
                ops.append([2, s, e])
            sim.inflight = []
            sim.acked = True
    small = rng.chance(1, 2)
    for _ in range(rng.range(8, 45)):
        k = rng.below(100)
        if k < 25:
            n = rng.choice([0, 1, 2, 5, 17, 30, 60]) if rng.chance(1, 2) else rng.range(0, 60)
            ops.append([0] + rng.bytes(n))
            sim.offset += n
        elif k < 55:
            m = rng.range(16, 40) if small else rng.choice([16, 17, 18, 24, 25, 26, 30, 64, 100, 1200])
            if rng.chance(1, 10):
                m = rng.choice([16, 65536, 1 << 40])
            ops.append([1, m])
            sim.poll(m)
        elif k < 72:
            if sim.inflight:
                s, e = sim.take_inflight(rng)
                ops.append([2, s, e])
                sim.acked = True
        elif k < 88:
            if sim.inflight:
                s, e = sim.take_inflight(rng)
                ops.append([4, s, e])
                sim.retx = sim._ins(sim.retx, s, e)
        elif k < 90:
            if not sim.acked and not sim.retx and rng.chance(1, 2):
                ops.append([5])
                sim.unsent = 0
                sim.inflight = []
        elif k < 95:
            ops.append([6])
        else:
            ops.append([7])
        if malformed and rng.chance(1, 6):
            j = rng.below(5)
            hi = max(1, sim.offset + 5)
            a, b = rng.below(hi), rng.below(hi)
            if j == 0:
                ops.append([2, a, b])
            elif j == 1:
                ops.append([4, a, b])
            elif j == 2:
                ops.append([1, rng.below(16)])
            elif j == 3:
                ops.append([3, a, b])
            else:
                ops.append([5])
            ops.append([7])
            ops.append([6])
            # the mirror is no longer in sync: only polls, writes and observers from now on
            for _ in range(rng.range(0, 6)):
                ops.append(rng.choice([[1, 30], [6], [7], [0, 1, 2, 3]]))
            return ops
    # drain: send everything, ack everything
    if rng.chance(2, 3):
        for _ in range(200):
            if not sim.retx and sim.unsent == sim.offset:
                break
            ops.append([1, 1200])
            sim.poll(1200)
        for (s, e) in sim.inflight:
            ops.append([2, s, e])
        sim.inflight = []
    ops.append([7])
    ops.append([6])
    return [[8, 1]] + ops


def gen(rng, n):
    return [gen_case(rng) for _ in range(n)]


def nontrivial(case, outs):
    if outs == [[-999]]:
        return False
    lost = []
    rechunk = False
    for op, o in zip(case, outs):
        if op[0] == 4:
            lost.append((op[1], op[2]))
        if op[0] == 1 and len(o) >= 4:
            if any(s == o[1] and o[2] < e for s, e in lost):
                rechunk = True
    polls = sum(1 for op, o in zip(case, outs) if op[0] == 1 and len(o) > 4)
    acks = sum(1 for op in case if op[0] == 2)
    return rechunk and polls >= 3 and acks >= 1


def stats(cases, outs):
    d = {"write": 0, "poll": 0, "poll_empty": 0, "poll_encode_length": 0, "poll_stuck": 0, "ack": 0, "retransmit": 0,
         "zero_rtt": 0, "panics": 0, "declared_valid_cases": 0, "bytes_transmitted": 0, "max_offset": 0}
    for c, o in zip(cases, outs):
        if c and c[0] == [8, 1]:
            d["declared_valid_cases"] += 1
        if o == [[-999]]:
            d["panics"] += 1
            continue
        for op, r in zip(c, o):
            if op[0] == 0:
                d["write"] += 1
            elif op[0] == 1 and len(r) >= 4:
                d["poll"] += 1
                if r[0] == 2:
                    d["poll_stuck"] += 1
                if r[1] == r[2]:
                    d["poll_empty"] += 1
                if r[3] == 1:
                    d["poll_encode_length"] += 1
                d["bytes_transmitted"] += len(r) - 4
                d["max_offset"] = max(d["max_offset"], r[2])
            elif op[0] == 2:
                d["ack"] += 1
            elif op[0] == 4:
                d["retransmit"] += 1
            elif op[0] == 5:
                d["zero_rtt"] += 1
    return d
