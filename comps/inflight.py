"""Generator for `inflight` (PathData::{sent, remove_in_flight} + InFlight over PacketSpace::{sent, take} vs coq/Model/InFlight.v)."""
from lib import qv

RULE = ("histories sent(pn,size,ack_eliciting,generation) / acked(pn) / lost(pn) / abandoned(pn) / discard-space on a real "
        "PathData + PacketSpace: increasing packet numbers with gaps, padding-only (size>0, not ack-eliciting) and "
        "size-0 packets, double removals, removals of never-sent numbers, rare packets of a foreign path generation "
        "(not debited), rare long non-ack-eliciting tails (> 1000 packets: the oldest is forgotten and debited); "
        "non-trivial = bytes in flight returned to 0 after having been > 0 with at least one double removal, "
        "or the forgetting path was taken")
SHARD = 100
G = 7


def gen_case(rng, long_tail=False):
    ops = []
    pn = rng.choice([0, 0, 1, rng.below(100)])
    live = []
    gone = []
    if long_tail:
        # one ack-eliciting packet then > 1001 non-ack-eliciting ones
        ops.append([0, pn, 1200, 1, G])
        live.append(pn)
        for _ in range(1012 + rng.range(1, 8)):
            pn += 1
            ops.append([0, pn, rng.choice([0, 40, 1200]), 0, G])
            live.append(pn)
            if rng.chance(1, 250):
                j = rng.below(len(live))
                ops.append([rng.range(1, 3), live.pop(j)])
    for _ in range(rng.range(8, 50)):
        k = rng.below(100)
        if k < 45:
            pn += rng.choice([1, 1, 1, 2, 3, 17])
            size = rng.choice([0, 0, 40, 1200, 1200, 1452, rng.below(65536)])
            ae = 1 if (size and rng.chance(3, 4)) else 0
            gen = G if not rng.chance(1, 40) else rng.choice([6, 8, 0])
            n = pn
            if rng.chance(1, 300) and live:
                n = rng.choice(live)
            ops.append([0, n, size, ae, gen])
            live.append(n)
        elif k < 92:
            if live and rng.chance(5, 6):
                n = live.pop(rng.choice([0, len(live) - 1, rng.below(len(live))]))
                gone.append(n)
            elif gone and rng.chance(2, 3):
                n = rng.choice(gone)             # leaves the tracked set only once
            else:
                n = rng.choice([pn + 1, pn + 100, 0])
            ops.append([rng.range(1, 3), n])
        else:
            ops.append([4])
            gone += live
            live = []
    if rng.chance(1, 2):
        for n in live:
            ops.append([1, n])
    return ops


def gen(rng, n):
    cases = []
    for i in range(n):
        cases.append(gen_case(rng, long_tail=(i % 100 == 7)))
    return cases


def nontrivial(case, outs):
    if outs == qv.PANIC_OUT:
        return False
    pos = False
    back = False
    dbl = False
    forgot = False
    for op, o in zip(case, outs):
        if len(o) < 5:
            continue
        if o[1] > 0:
            pos = True
        if pos and o[1] == 0:
            back = True
        if op[0] in (1, 2, 3) and o[0] == 0:
            dbl = True
        if op[0] == 0 and o[4] > 1000:
            forgot = True
    return (back and dbl) or forgot


def stats(cases, outs):
    d = {"ops": {}, "panics": 0, "debited": 0, "not_tracked": 0, "foreign_generation": 0,
         "tail_forgetting_cases": 0, "returned_to_zero": 0, "max_len": 0}
    for c, o in zip(cases, outs):
        d["max_len"] = max(d["max_len"], len(c))
        if o == qv.PANIC_OUT:
            d["panics"] += 1
            continue
        pos = False
        for op, ob in zip(c, o):
            d["ops"][str(op[0])] = d["ops"].get(str(op[0]), 0) + 1
            if op[0] in (1, 2, 3) and len(ob) == 5:
                d[["not_tracked", "debited", "foreign_generation"][ob[0]]] += 1
            if len(ob) == 5:
                if ob[1] > 0:
                    pos = True
                elif pos:
                    d["returned_to_zero"] += 1
                    pos = False
        if any(len(ob) == 5 and ob[4] > 1000 for ob in o):
            d["tail_forgetting_cases"] += 1
    return d
