"""C07 system level: per-address byte ledger of real endpoints; coq/Sys/MonC07.v."""
from . import simlib as S
SUBCMD = "sim"
IS_TRACE = True
RUN = "monitor"
TAGS = {8, 1, 2, 13}
RULE = ("handshakes with lost client flights (drop masks over the first datagrams, so that only server timers fire), "
        "retry on/off, silenced clients after k datagrams, migration to a new address, garbage and truncated Initials; "
        "non-trivial = the server transmitted at least twice while its path was unvalidated")


def gen(rng, n):
    cases = []
    for i in range(n):
        d = S.base(rng, small=True)
        m = rng.below(5)
        if m == 0:      # client flights lost
            d["DROP_MASK"] = rng.below(1 << rng.range(2, 14))
            d["DROP_MASK_DIR"] = rng.choice([0, 1, 1])
        elif m == 1:    # client disappears during the handshake
            d["SILENCE_AFTER"] = rng.range(1, 4)
            d["SILENCE_SIDE"] = 0
            d["IDLE_MS"] = 3000
            d["MAX_TIME"] = 10_000_000
        elif m == 2:    # migration
            d["STREAM_BYTES"] = rng.choice([20000, 50000, 300000])
            d["MIGRATE_AT"] = rng.choice([40000, 70000, 150000, 250000])
            d["MIGRATE_KIND"] = rng.below(2)
            if rng.chance(2, 3):
                # the server is in the middle of a download when the client's address changes: it
                # has far more queued than three times what the new address has sent
                d["SERVER_STREAMS"] = rng.range(1, 2)
                d["NBIDI"] = 1
                d["ECHO_BYTES"] = rng.choice([0, 100000])
                d["DELAY_MIN"] = d["DELAY_MAX"] = rng.choice([5000, 10000, 30000])
                # both directions still busy when the address changes (the client keeps sending
                # non-probing packets from the new address; the server has megabytes queued)
                d["STREAM_BYTES"] = rng.choice([300000, 1000000])
                d["WRITE_CHUNK"] = 100000
                d["READ_MAX"] = 100000
                d["MIGRATE_AT"] = 2 * d["DELAY_MIN"] * rng.range(4, 9)
        elif m == 3:    # garbage
            d["GARBAGE"] = rng.choice([100, 500])
            d["REPLAY"] = rng.choice([0, 200])
        else:
            S.lossy(rng, d, heavy=True)
        d["RETRY"] = rng.below(2)
        if rng.chance(1, 2):
            # a server with far more to send than its budget: 0.5-RTT data before the client is validated
            d["SERVER_EARLY"] = 1
            d["SERVER_STREAMS"] = rng.range(1, 3)
            d["STREAM_BYTES"] = rng.choice([8000, 30000])
            d["RETRY"] = 0
            if rng.chance(1, 2):
                d["CONTROLLER"] = 3
                d["FIXED_WINDOW"] = 1000000
            if m != 1 and rng.chance(1, 2):
                d["DROP_MASK"] = rng.below(1 << rng.range(2, 10)) << 1
                d["DROP_MASK_DIR"] = 1
        if rng.chance(1, 4):
            # the client vanishes after its first datagram; an attacker keeps feeding forged
            # (unauthenticated, partly coalesced) Initials from the client's address to a server that
            # has much more to send than its budget
            d["SERVER_EARLY"] = 1
            d["SERVER_STREAMS"] = 2
            d["STREAM_BYTES"] = 30000
            d["RETRY"] = 0
            d["SILENCE_AFTER"] = rng.range(1, 2)
            d["SILENCE_SIDE"] = 0
            d["GARBAGE"] = 1000
            # make the amplification limit, not the congestion window, the binding constraint
            d["CONTROLLER"] = 3
            d["FIXED_WINDOW"] = 1000000
            d["IDLE_MS"] = 3000
            d["MAX_TIME"] = 10_000_000
            d.pop("DROP_MASK", None)
            d.pop("MIGRATE_AT", None)
        d["GSO"] = rng.choice([1, 3, 10])
        if rng.chance(1, 3):
            d["INITIAL_MTU"] = rng.choice([1200, 1400])
        cases.append(S.case_of(d))
    return cases


def project(case, outs):
    return S.project(outs, TAGS)


def nontrivial(case, outs):
    val = {}
    n = 0
    for r in outs:
        if r[0] == 8:
            val[(r[2], r[3])] = r[5]
        elif r[0] == 1 and r[8] == 0 and r[2] == 1 and val.get((1, r[3])) == 0:
            n += 1
    return n >= 2


def stats(cases, outs):
    st = S.trace_stats(cases, outs)
    st["unvalidated_server_transmits"] = 0
    st["stateless_responses"] = 0
    for o in outs:
        val = {}
        for r in o:
            if r[0] == 8:
                val[(r[2], r[3])] = r[5]
            elif r[0] == 1 and r[8] == 0 and r[2] == 1 and val.get((1, r[3])) == 0:
                st["unvalidated_server_transmits"] += 1
            elif r[0] == 2 and r[5] == 3:
                st["stateless_responses"] += 1
    return st


describe = S.describe
