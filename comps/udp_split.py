"""Source-shape tie for `split_by_stride` (coq/Model/UdpModel.v) to the receive loop of
`RecvState::poll_socket` in quinn/src/endpoint.rs.

The harness does not link the `quinn` crate, so this loop cannot be executed through a hook. Instead
the text of the loop — from the arm that handles a successful `poll_recv` down to the call of
`endpoint.handle` — is extracted from the working tree, comments and white space are removed, and the
result is compared with the normal form recorded here when the model was written:

    for meta in metas.iter().take(msgs) {
        let mut data = self.datagrams.split_to(meta.len);           -- message = first meta.len bytes
        while !data.is_empty() {                                    -- split_fuel: [] => done
            let buf = data.split_to(meta.stride.min(data.len()));   -- firstn/skipn (min stride len)
            ... endpoint.handle(now, meta.addr, meta.dst_ip, meta.ecn.map(proto_ecn), buf, ..)

Any change of this text is reported as a broken tie (VIOLATION ... no-failing-input-found): the theorems
about `split_by_stride` then no longer speak about this code until the model and RECORDED are updated.
This is a weaker tie than execution; it is documented as such in checks/C19.py."""
import os
import re

from lib import qv

COMP = "udp_split"
RECORDED = (
    "Poll::Ready(Ok(msgs))=>{self.recv_limiter.record_work(msgs);"
    "letbatch_len=metas.iter().take(msgs).map(|meta|meta.len).sum();"
    "self.datagrams.reserve(batch_len);"
    "for(meta,buf)inmetas.iter().zip(iovs.iter()).take(msgs){self.datagrams.extend_from_slice(&buf[..meta.len]);}"
    "formetainmetas.iter().take(msgs){"
    "letmutdata=self.datagrams.split_to(meta.len);"
    "while!data.is_empty(){"
    "letbuf=data.split_to(meta.stride.min(data.len()));"
    "letmutresponse_buffer=Vec::new();"
    "matchendpoint.handle(now,meta.addr,meta.dst_ip,meta.ecn.map(proto_ecn),buf,&mutresponse_buffer,){"
)


def normal_form(src):
    i = src.find("fn poll_socket(")
    if i < 0:
        return None
    j = src.find("Poll::Ready(Ok(msgs)) => {", i)
    k = src.find("match endpoint.handle(", j)
    e = src.find(") {", k)
    if min(j, k, e) < 0:
        return None
    txt = src[j:e + 3]
    txt = re.sub(r"//[^\n]*", "", txt)
    return re.sub(r"\s+", "", txt)


def step(res, binp, tier, seed, workdir):
    from lib import runner
    path = os.path.join(qv.REPO, "quinn", "src", "endpoint.rs")
    nf = normal_form(open(path).read()) if os.path.exists(path) else None
    ok = nf == RECORDED
    res.coverage["components"][COMP] = {
        "evaluations": 1, "distinct_nontrivial": 1 if ok else 0, "model": "QV.Model.UdpModel.split_by_stride",
        "rule": "source-shape comparison of the split loop of RecvState::poll_socket with the recorded normal form "
                "(not an execution: the harness does not link quinn)", "matches": ok}
    res.coverage["evaluations"] += 1
    res.coverage["distinct_nontrivial"] += 1 if ok else 0
    if not ok:
        p = runner.write_replay(res.pid, COMP, {
            "property": res.pid, "component": COMP, "kind": "source-shape-tie-broken",
            "what": "the receive loop of RecvState::poll_socket (quinn/src/endpoint.rs) is no longer the text that "
                    "Model/UdpModel.v split_by_stride was written from; theorems C19_split_* are not tied to it",
            "file": path, "recorded": RECORDED, "found": nf})
        res.violations.append((p, " no-failing-input-found"))
