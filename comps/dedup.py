"""Generator for the `dedup` component (Dedup in quinn-proto/src/connection/spaces.rs vs coq/Model/Dedup.v)."""
RULE = ("ops: insert(n) / smallest_missing_in_interval(l,u) / missing_in_interval(l,u) / probe; packet numbers "
        "advance by small gaps, by jumps placed around the window size (126..130, 255..258, huge), are "
        "re-delivered (duplicates), arrive late at distances around the window edge (127..130 below highest) "
        "and sit at u62/u64 edges; queries use bounds that were received (valid) and occasionally invalid "
        "bounds (expected panic); non-trivial = the case contains a duplicate of an earlier number, a late "
        "arrival inside the window, one left of the window and a jump >= 128")

U62 = (1 << 62) - 1
U64 = (1 << 64) - 1


def gen_case(rng):
    ops = []
    seen = []
    k = rng.below(10)
    if k < 6:
        base = rng.below(4)
    elif k < 8:
        base = rng.boundary()
    else:
        base = U62 - rng.below(600)
    highest = -1
    cur = base
    nops = rng.range(6, 48)
    edge_case = rng.chance(1, 25)
    bad_queries = rng.chance(1, 8)
    for _ in range(nops):
        k = rng.below(100)
        if k < 30 or highest < 0:
            # advance by a small gap
            p = (highest + 1 + (rng.below(4) if rng.chance(1, 2) else 0)) if highest >= 0 else cur
        elif k < 40:
            # jump around the window size
            j = rng.choice([126, 127, 128, 129, 130, 131, 255, 256, 257, 258, 64, 65, 1 << 20, (1 << 32) + 1])
            p = highest + j
        elif k < 55 and seen:
            p = rng.choice(seen)          # exact duplicate
        elif k < 70:
            # late arrival around the window edge / inside the window
            d = rng.choice([1, 2, 3, 64, 65, 126, 127, 128, 129, 130, 131, 200]) if rng.chance(1, 2) else rng.range(1, 140)
            p = max(0, highest - d)
        elif k < 74:
            p = highest                   # == highest
        elif k < 76 and edge_case:
            p = rng.choice([U64, U64 - 1, U62, U62 + 1, 1 << 63])
        elif k < 88 and len(seen) >= 1:
            # valid query: bounds were received, l <= u <= highest
            a, b = rng.choice(seen), rng.choice(seen)
            if rng.chance(1, 3):
                b = highest
            if rng.chance(1, 4):
                a = max(seen[0], min(seen))
            l, u = min(a, b), max(a, b)
            ops.append([rng.choice([1, 1, 2]), l, u])
            continue
        elif k < 90 and bad_queries:
            # arbitrary bounds (may violate the debug assertions -> panic)
            l = max(0, highest - rng.below(300))
            u = max(0, highest - rng.below(300) + rng.below(3))
            ops.append([rng.choice([1, 2]), l, u])
            continue
        elif k < 94:
            ops.append([3])
            continue
        else:
            p = max(0, highest + rng.range(-200, 200))
        p = max(0, min(p, U64))
        ops.append([0, p])
        seen.append(p)
        highest = max(highest, p)
    if rng.chance(1, 2):
        ops.append([3])
    return ops


def gen(rng, n):
    return [gen_case(rng) for _ in range(n)]


def _walk(case):
    """yield (op, kind) for inserts, kind in new/dup/late/left/jump"""
    seen = set()
    highest = -1
    for op in case:
        if op[0] != 0:
            yield op, "query" if op[0] in (1, 2) else "probe"
            continue
        p = op[1]
        if p in seen:
            kind = "dup"
        elif p > highest:
            kind = "jump" if highest >= 0 and p - highest - 1 >= 128 else "advance"
        elif highest - p < 129:
            kind = "late"
        else:
            kind = "left"
        seen.add(p)
        highest = max(highest, p)
        yield op, kind


def nontrivial(case, outs):
    if outs == [[-999]]:
        return False
    kinds = {k for _, k in _walk(case)}
    return {"dup", "late", "left", "jump"} <= kinds


def stats(cases, outs):
    d = {"advance": 0, "jump": 0, "dup": 0, "late": 0, "left": 0, "query": 0, "probe": 0,
         "panic_cases": 0, "query_some": 0, "query_none": 0, "ops": 0}
    for c, o in zip(cases, outs):
        if o == [[-999]]:
            d["panic_cases"] += 1
            continue
        for (op, kind), r in zip(_walk(c), o):
            d[kind] += 1
            d["ops"] += 1
            if op[0] == 1:
                d["query_some" if r[0] == 1 else "query_none"] += 1
    return d
