"""Shared generator for the three congestion-controller components (cc_newreno, cc_cubic, cc_bbr).

Ops (see quinn-proto/src/verif_hooks/congestion.rs):
  [0, iw, mtu] build · [1, now, bytes, pn] on_sent · [2, now, sent, bytes, app_limited, rtt_us] on_ack
  [3, now, in_flight, app_limited, has_largest, largest] on_end_acks
  [4, now, sent, persistent, ecn, lost_bytes] on_congestion_event · [5] on_spurious · [6, new_mtu] on_mtu_update

Relational components (Cubic, BBR) get, per op, trailing *hint* arguments: the float-derived
observations of the real controller for that very op sequence, read back from a first run of the
hook (which ignores trailing arguments). The Coq model uses them as oracle values.
"""
import os
from lib import qv

MTUS = [1200, 1200, 1280, 1452, 1500, 1500, 2400, 2401, 3000, 4000, 9000, 16000, 65535, 600, 100, 1, 0]
U64 = (1 << 64) - 1


def binp():
    return os.path.join(qv.target_dir(), "debug", "qvh")


def gen_case(rng, kind, maxops=40, overflow=False):
    mtu = rng.choice(MTUS)
    floor = (4 if kind == "bbr" else 2) * mtu
    k = rng.below(20)
    if k == 0:
        iw = rng.below(2 * mtu + 1)                 # below the floor: the floor is not promised
    elif k < 5:
        iw = 2 * mtu + rng.choice([0, 0, 1, 2 * mtu, 2 * mtu + 1])
    elif k < 9:
        iw = floor + rng.below(4) * mtu
    elif k < 15:
        iw = rng.choice([12000, 14720, 10 * mtu, 200 * 1200, floor])
    else:
        iw = max(2 * mtu, rng.below(1 << rng.range(12, 34)))
    ops = [[0, iw, mtu]]
    t = rng.below(1000)
    pn = rng.below(5)
    sent_times = [0]
    inflight = 0
    jumps = [0, 1, 7, 100, 1000, 1000, 5000, 20000, 100000, 250000, 3000000, 11000000]
    if kind == "bbr":
        jumps = [0, 1, 7, 100, 1000, 1000, 5000, 20000, 100000, 250000, 250000]
        if rng.chance(1, 2):
            # scripted preamble: two bandwidth samples, first round (enters ProbeRtt), a lossy round
            # without bandwidth growth (full bandwidth reached in recovery), then after the 200 ms
            # ProbeRtt dwell a lossy round start: ProbeBw while still in recovery.
            b = rng.choice([mtu, 1200, 1 + rng.below(3000)])
            rtt = rng.choice([1000, 100, 20000])
            d = rng.choice([1000, 500, 3000])
            ops += [[1, t, b, pn + 1], [1, t + d, b, pn + 2], [2, t + 2 * d, t, b, 0, rtt],
                    [2, t + 3 * d, t + d, b, 0, rtt], [3, t + 3 * d, rng.choice([0, b]), 0, 1, pn + 1],
                    [1, t + 4 * d, b, pn + 3], [2, t + 5 * d, t + 4 * d, b, 0, rtt],
                    [4, t + 5 * d, t + 4 * d, 0, 0, b], [3, t + 5 * d, rng.choice([0, b]), 0, 1, pn + 3]]
            t += 5 * d + 200000 + rng.below(3000)
            ops += [[1, t, b, pn + 4], [2, t + d, t, b, 0, rtt], [4, t + d, t, 0, 0, b],
                    [3, t + d, rng.choice([0, b, 10 * b]), 0, 1, pn + 4]]
            t += d
            pn += 4
            sent_times.append(t)
    n = rng.range(6, maxops)
    for _ in range(n):
        t += rng.choice(jumps)
        k = rng.below(100)
        if k < 18:
            pn += rng.choice([1, 1, 1, 2, 5])
            b = rng.choice([mtu, mtu, 1200, rng.below(65536), 0])
            inflight += b
            sent_times.append(t)
            ops.append([1, t, b, pn])
        elif k < 48:
            st = rng.choice(sent_times + [t, max(0, t - rng.below(5000)), t + rng.below(100)])
            b = rng.choice([mtu, mtu, 1200, rng.below(65536), rng.below(1 << 20), 0])
            if overflow and rng.chance(1, 60):
                b = rng.choice([U64, U64 - rng.below(100000), 1 << 63])
            rtt = rng.choice([0, 1, 100, 1000, 10000, 50000, 333333, rng.below(2000000)])
            ops.append([2, t, st, b, 1 if rng.chance(1, 8) else 0, rtt])
            inflight = max(0, inflight - b)
        elif k < 65:
            infl = rng.choice([0, 0, inflight, rng.below(1 << 18), mtu, 4 * mtu, max(0, 3 * mtu - 1)])
            has = 0 if rng.chance(1, 6) else 1
            la = rng.choice([pn, pn, max(0, pn - rng.below(4)), pn + 1, rng.below(pn + 2)])
            ops.append([3, t, infl, 1 if rng.chance(1, 8) else 0, has, la if has else 0])
        elif k < 82:
            st = rng.choice(sent_times + [t, max(0, t - rng.below(5000)), t + rng.below(100)])
            lost = rng.choice([0, mtu, 1200, rng.below(65536), rng.below(1 << 20)])
            ops.append([4, t, st, 1 if rng.chance(1, 5) else 0, 1 if rng.chance(1, 5) else 0, lost])
        elif k < 88:
            ops.append([5])
        else:
            j = rng.below(10)
            if j < 3:
                mtu = min(65535, 2 * mtu + rng.choice([0, 1, 100, mtu]))
            elif j < 5:
                mtu = rng.choice(MTUS)
            elif j < 7:
                mtu = max(0, mtu - rng.below(400))
            else:
                mtu = min(65535, mtu + rng.below(400))
            ops.append([6, mtu])
    return ops


def add_hints(comp, cases, pick):
    """Append to every op the hint values `pick(observation)` of the real controller."""
    outs = qv.run_impl(binp(), comp, cases)
    res = []
    for c, o in zip(cases, outs):
        if o == qv.PANIC_OUT or len(o) != len(c):
            # the case panics: take the hints from its longest prefix that does not
            prefixes = [c[:k] for k in range(1, len(c))]
            pouts = qv.run_impl(binp(), comp, prefixes) if prefixes else []
            good = []
            for po in pouts:
                if po == qv.PANIC_OUT:
                    break
                good = po
            res.append([op + pick(good[k] if k < len(good) else None) for k, op in enumerate(c)])
        else:
            res.append([op + pick(ob) for op, ob in zip(c, o)])
    return res


def mtu_track(case):
    m = 0
    ms = []
    for op in case:
        if op[0] == 0:
            m = op[2]
        elif op[0] == 6:
            m = op[1]
        ms.append(m)
    return ms


def base_stats(cases, outs):
    d = {"ops": {}, "panics": 0, "window_at_floor": 0, "window_drops": 0, "mtu_more_than_doubles": 0,
         "iw_below_floor": 0}
    for c, o in zip(cases, outs):
        if o == qv.PANIC_OUT:
            d["panics"] += 1
            continue
        if c[0][1] < 2 * c[0][2]:
            d["iw_below_floor"] += 1
        ms = mtu_track(c)
        prev = None
        for op, ob, m in zip(c, o, ms):
            d["ops"][str(op[0])] = d["ops"].get(str(op[0]), 0) + 1
            if ob and ob != [-1]:
                if ob[0] == 2 * m:
                    d["window_at_floor"] += 1
                if prev is not None and ob[0] < prev:
                    d["window_drops"] += 1
                prev = ob[0]
        for a, b in zip(ms, ms[1:]):
            if b > 2 * a and a > 0:
                d["mtu_more_than_doubles"] += 1
    return d
