"""C12 system level, migration: the in-flight accounting of a new path must not inherit packets of an earlier,
ABORTED path. Scenarios of comps/sim_c15.py (aborted-then-real migration, black-outs after a move), validated by
coq/Sys/MonC12.v (in-flight invariants at every probe, send gate; a panic of the real code is record 16)."""
from . import simlib as S
from . import sim_c12 as base
from . import sim_c15 as mig
SUBCMD = "sim"
IS_TRACE = True
RUN = "monitor"
RULE = ("client address changes on an established, mostly idle connection: one client datagram reaches the server only "
        "as a copy from a foreign address and the client is cut off until validation fails, then the client really moves "
        "(2/3 of the cases); moves followed by black-outs (1/3); non-trivial = the server's remote address changed at "
        "least twice")


def gen(rng, n):
    return [mig.gen_aborted(rng) if i % 3 != 2 else mig.gen_blackout(rng) for i in range(n)]


project = base.project


def nontrivial(case, outs):
    return mig._remote_changes(outs) >= 2


stats = base.stats
describe = S.describe
classify = base.classify
KNOWN_PARAM = base.KNOWN_PARAM
