"""Generator for the `pkt_accept` component (decrypt_packet_body key selection and unprotect_header reset detection
vs coq/Model/PktAccept.v), stub keys."""
RULE = ("decrypt ops: every header kind x key phase x connection phase x previous-key state (absent / open-ended / ended at a "
        "packet number around the packet's own number) x next key present x sealed-under key id (each of the connection's keys, "
        "a foreign id) x reserved bits; packet numbers around rx_packet (older, equal, newer; u32 window edges); reset ops: short "
        "datagrams of 1..60 bytes whose tail is the expected token / differs in one bit / is shifted by one byte / no token "
        "expected, lengths around 21 and around the header-protection sample bound; non-trivial = the case has an accepted key "
        "update, a KEY_UPDATE_ERROR, a packet opened with the previous key, an authentication failure, a detected reset and a "
        "near-miss reset")

KEYS = [10, 11, 12, 20, 21, 30, 99]
SHARD = 40


def gen_case(rng):
    ops = []
    for _ in range(rng.range(10, 40)):
        if rng.chance(3, 5):
            kind = rng.choice([0, 1, 2, 3, 3, 3, 3, 3, 3, 3, 4])
            kp = rng.below(2)
            ckp = kp if rng.chance(1, 3) else 1 - kp
            rx = rng.choice([0, 5, 1000, (1 << 31), (1 << 40) + 7]) + rng.below(50)
            m = rng.below(10)
            if m < 5:
                n = rx + rng.range(1, 20)
            elif m < 8:
                n = max(0, rx - rng.range(0, 20))
            else:
                n = rx + rng.choice([(1 << 31) - 1, 1 << 31, (1 << 31) + 1, 1 << 20])
            pn = n & 0xFFFFFFFF
            pp = 1 if rng.chance(2, 3) else 0
            pep = rng.below(2)
            pe = max(0, n + rng.choice([-1, 0, 1, -5, 5]))
            pu = 1 if rng.chance(1, 3) else 0
            zp = 1 if (kind == 2 and rng.chance(99, 100)) or (kind != 2 and rng.chance(1, 2)) else 0
            np_ = 1 if rng.chance(199, 200) else 0
            # the key the table should select (mirror used only to aim the sealed-under id)
            if kind == 2:
                want = 30
            elif kind != 3 or kp == ckp:
                want = {0: 10, 1: 11, 3: 12, 4: 12}[kind]
            elif pp and (not pep or n < pe):
                want = 20
            else:
                want = 21
            sealed = want if rng.chance(7, 10) else rng.choice(KEYS)
            rok = 1 if rng.chance(9, 10) else 0
            ops.append([1, kind, kp, pn, rx, ckp, pp, pep, pe, pu, np_, zp, sealed, rok])
        else:
            cid_len = rng.choice([0, 4, 8, 8, 20])
            tp = 1 if rng.chance(5, 6) else 0
            tok = rng.bytes(16)
            ln = rng.choice([21, 22, cid_len + 20, cid_len + 21, cid_len + 22, 40, 60, cid_len + 1, cid_len + 17]) if rng.chance(9, 10) else rng.choice([1, 5, 16, 20])
            b0 = 0x40 | rng.below(64) if rng.chance(19, 20) else rng.below(64)
            pkt = [b0] + rng.bytes(max(0, ln - 1))
            k = rng.below(10)
            if ln >= 16:
                if k < 5:
                    pkt[ln - 16:] = tok
                elif k < 7:
                    pkt[ln - 16:] = tok
                    i = ln - 16 + rng.below(16)
                    pkt[i] ^= 1 << rng.below(8)
                elif k < 8 and ln >= 17:
                    pkt[ln - 17:ln - 1] = tok
                pkt[0] = b0 if ln > 16 else pkt[0]
            ops.append([2, tp, cid_len, *tok, *pkt])
    return ops


def gen(rng, n):
    return [gen_case(rng) for _ in range(n)]


def _events(case, outs):
    ev = {"key_update_accepted": 0, "key_update_error": 0, "prev_key_used": 0, "auth_failed": 0, "decrypted": 0,
          "protocol_violation": 0, "reset": 0, "reset_near_miss": 0, "dropped": 0, "undecodable": 0}
    for op, o in zip(case, outs):
        if op[0] == 1:
            if o[0] == 1:
                ev["decrypted"] += 1
                if o[3] == 1:
                    ev["key_update_accepted"] += 1
                if op[12] == 20:
                    ev["prev_key_used"] += 1
            elif o[0] == 2:
                ev["auth_failed"] += 1
            elif o[0] == 3:
                ev["key_update_error" if o[1] == 14 else "protocol_violation"] += 1
        elif op[0] == 2:
            if o[0] == 9:
                ev["undecodable"] += 1
            elif o[0] == 0:
                ev["dropped"] += 1
            elif o[2] == 1:
                ev["reset"] += 1
            pkt, tok = op[19:], op[3:19]
            if o[0] != 9 and not (o[0] == 1 and o[2] == 1) and len(pkt) >= 16 and op[1] == 1:
                diff = sum(bin(a ^ b).count("1") for a, b in zip(pkt[-16:], tok))
                if diff == 1 or (diff == 0 and len(pkt) < 21):
                    ev["reset_near_miss"] += 1
    return ev


def nontrivial(case, outs):
    if outs == [[-999]] or len(outs) != len(case):
        return False
    ev = _events(case, outs)
    return all(ev[k] > 0 for k in ("key_update_accepted", "key_update_error", "prev_key_used", "auth_failed",
                                   "reset", "reset_near_miss"))


def stats(cases, outs):
    tot = {"panic_cases": 0}
    for c, o in zip(cases, outs):
        if o == [[-999]] or len(o) != len(c):
            tot["panic_cases"] += 1
            continue
        for k, v in _events(c, o).items():
            tot[k] = tot.get(k, 0) + v
    return tot
