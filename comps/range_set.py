"""Generator for the `range_set` component (BTree RangeSet vs coq/Model/RangeSet.v)."""
RULE = ("ops over a small universe (so that ranges overlap, touch and nest often) or around a boundary base: "
        "insert / replace (drained) / pop_min / peek_min / min / is_empty / iter; a case is non-trivial if an insert "
        "returned false on a non-empty range, an insert or replace merged at least two existing ranges and iter listed >= 2 ranges")


def rng_range(rng, base, width):
    k = rng.below(10)
    s = base + rng.below(width)
    if k == 0:
        return s, s  # empty
    if k == 1:
        return s + rng.range(1, 3), s  # reversed (empty)
    return s, s + rng.range(1, max(2, width // 3))


def gen_case(rng, opset="btree"):
    width = rng.choice([8, 12, 20, 40, 200])
    base = 0 if rng.chance(3, 4) else rng.boundary()
    if base > (1 << 62) - 1000:
        base = (1 << 62) - 1000
    ops = []
    allow_empty_replace = rng.chance(1, 6)
    for _ in range(rng.range(6, 40)):
        k = rng.below(20)
        s, e = rng_range(rng, base, width)
        if opset == "btree":
            if k < 8:
                ops.append([0, s, e])
            elif k < 12:
                if s >= e and not allow_empty_replace:
                    e = s + 1
                ops.append([1, s, e])
            elif k < 14:
                ops.append([3])
            elif k < 15:
                ops.append([4])
            elif k < 16:
                ops.append([5])
            elif k < 17:
                ops.append([6])
            else:
                ops.append([7])
        else:
            if k < 7:
                ops.append([0, s, e])
            elif k < 9:
                ops.append([1, s])
            elif k < 13:
                ops.append([2, s, e])
            elif k < 14:
                ops.append([3])
            elif k < 15:
                ops.append([4])
            elif k < 16:
                ops.append([5])
            elif k < 17:
                ops.append([6])
            else:
                ops.append([7])
    ops.append([7])
    return ops


def gen(rng, n):
    return [gen_case(rng, "btree") for _ in range(n)]


def nontrivial(case, outs):
    dup = any(op[0] == 0 and op[1] < op[2] and o == [0] for op, o in zip(case, outs))
    multi = any(op[0] == 7 and len(o) >= 4 for op, o in zip(case, outs))
    merged = False
    prev = None
    for op, o in zip(case, outs):
        if op[0] == 7:
            if prev is not None and len(o) < prev:
                merged = True
            prev = len(o)
        elif op[0] == 3:
            prev = None
    return dup and multi and merged


def stats(cases, outs):
    d = {"insert_true": 0, "insert_false": 0, "insert_empty": 0, "replace": 0, "replace_with_dups": 0,
         "replace_empty_range": 0, "pop_some": 0, "pop_none": 0, "iter": 0, "max_ranges_listed": 0}
    for c, o in zip(cases, outs):
        for op, r in zip(c, o):
            if op[0] == 0:
                if op[1] >= op[2]:
                    d["insert_empty"] += 1
                elif r == [1]:
                    d["insert_true"] += 1
                else:
                    d["insert_false"] += 1
            elif op[0] == 1:
                d["replace"] += 1
                if op[1] >= op[2]:
                    d["replace_empty_range"] += 1
                if r:
                    d["replace_with_dups"] += 1
            elif op[0] == 3:
                d["pop_some" if r[0] == 1 else "pop_none"] += 1
            elif op[0] == 7:
                d["iter"] += 1
                d["max_ranges_listed"] = max(d["max_ranges_listed"], len(r) // 2)
    return d
