"""C14 system level: a client follows at most ONE Retry. The server retries every unvalidated
address; an on-path attacker (a second endpoint with another token key) answers the client's
token-bearing Initial with a further, well-formed Retry (correct integrity tag over the DCID the
client now uses), spoofed from the server's address and faster than the server's reply. The
client must discard it ("no other server packet has been processed" is false after the first
Retry) and the handshake with the real server must complete. Monitor: coq/Sys/MonC02.v
(completion, no panic)."""
from . import simlib as S
from . import sim_c02 as base
SUBCMD = "sim"
IS_TRACE = True
RUN = "monitor"
TAGS = base.TAGS
RULE = ("handshakes with Retry in which a second, well-formed Retry from an on-path attacker reaches the client before the "
        "server's Initial (2/3 of the cases), with loss, duplication, 0-RTT resumption, several connections; event-driven workloads must "
        "complete; non-trivial = the attacker's Retry was injected")


def gen(rng, n):
    cases = []
    for i in range(n):
        d = S.base(rng, small=True)
        d["RETRY"] = 1
        if i % 3 != 2:
            d["RETRY2"] = 1
        d["CLOSER"] = 0
        d["IDLE_MS"] = 0
        d["MAX_TIME"] = 120_000_000
        d["FAIR_RUN"] = 1
        if rng.chance(1, 3):
            d["LOSS"] = rng.choice([10, 30, 100])
            d["DUP"] = rng.choice([0, 50])
        if rng.chance(1, 4):
            d["CID_LEN"] = rng.choice([4, 20])
        if rng.chance(1, 5):
            d["ZERO_RTT"] = 1
        if rng.chance(1, 4):
            d["NCONNS"] = 2
        S.driver(rng, d)
        cases.append(S.case_of(d))
    return cases


project = base.project


def nontrivial(case, outs):
    return S.get(case, "RETRY2", 0) == 1


stats = base.stats
describe = S.describe
