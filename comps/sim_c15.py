"""C15 system level: client address changes, spoofed replays and path validation on real endpoints; coq/Sys/MonC15.v."""
from . import simlib as S
SUBCMD = "sim"
IS_TRACE = True
RUN = "monitor"
SHARD = 20
TAGS = {8, 1, 2, 7, 9, 13, 10, 14}
RULE = ("one client connection with transfers in both directions that are still running when the client's address "
        "changes (port only or IP and port; once, or twice in quick succession so that the first new path is not yet "
        "validated), with migration allowed or refused by the server, genuine datagrams replayed from an attacker "
        "address (often faster than the original: the copy is then the fresh one), replays from the own address, loss, "
        "reordering, duplication, connection-ID rotation, pure-receiver clients that only acknowledge after moving, clients that fall silent right after moving, idle tails in "
        "which only the attacker talks; non-trivial = the server's remote address changed at least once, or a datagram "
        "from a foreign address reached a connection that must ignore it")


def gen_blackout(rng):
    """the client moves and then every datagram in both directions is lost for a while (drop mask over
    wire indices k..59): the new path cannot be validated and the server must fall back"""
    dm = rng.choice([5000, 10000, 30000])
    d = {"SEED": rng.range(1, 1 << 30), "DELAY_MIN": dm, "DELAY_MAX": dm, "NBIDI": 1, "NUNI": rng.below(2),
         "STREAM_BYTES": rng.choice([20000, 60000]), "WRITE_CHUNK": 1200, "READ_MAX": 100000, "IDLE_MS": 30000,
         "MAX_TIME": 20_000_000, "GSO": rng.choice([1, 2]), "ECHO_BYTES": rng.choice([0, 20000])}
    k = rng.range(8, 40)
    d["DROP_MASK"] = ((1 << 60) - 1) ^ ((1 << k) - 1)
    d["MIGRATE_AT"] = rng.range(4 * dm, 10 * dm)
    d["MIGRATE_KIND"] = rng.below(2)
    if rng.chance(1, 3):
        d["MIGRATE2_AT"] = d["MIGRATE_AT"] + rng.choice([1, dm, 3 * dm])
    if rng.chance(1, 3):
        d["LATE_US"] = rng.choice([500, 5000, 50000])
    if rng.chance(1, 4):
        d["SPOOF"] = 200
    return S.case_of(d)


def gen_recvonly(rng):
    """a client that is a pure receiver (download in progress, it only acknowledges) changes address on a
    loss-free constant-delay link: its ACK-only packets are non-probing, the server must follow; the
    run is cut before any idle timeout so that a stalled connection is still Established at the end"""
    dm = rng.choice([5000, 10000, 30000])
    d = {"SEED": rng.range(1, 1 << 30), "DELAY_MIN": dm, "DELAY_MAX": dm, "NBIDI": 1, "NUNI": 0,
         "STREAM_BYTES": 1, "ECHO_BYTES": rng.choice([100000, 150000]), "READ_MAX": 100000, "IDLE_MS": 30000,
         "MAX_TIME": 6_000_000, "GSO": rng.choice([1, 2, 10]), "CLOSER": 0, "FOLLOW_ONE": 1, "MIGRATE_SILENT": 1}
    # early in the download: the receiver has not yet consumed enough to owe a flow-control update
    d["MIGRATE_AT"] = 2 * dm * rng.range(3, 4) + rng.below(2 * dm)
    d["MIGRATE_KIND"] = rng.below(2)
    if rng.chance(1, 3):
        d["ACK_FREQ"] = rng.choice([2, 10])
    if rng.chance(1, 4):
        d["CONTROLLER"] = rng.choice([1, 2])
    return S.case_of(d)


def gen_aborted(rng):
    """an idle connection; ONE client datagram reaches the server only as a copy from a foreign address
    (the server migrates there), the client is cut off until path validation has failed and the server has
    fallen back - and then the client really moves. The aborted path and the real one must not share
    bookkeeping (packets sent towards the foreign address are declared lost much later)."""
    ka = rng.choice([2000, 3000])
    d = {"SEED": rng.range(1, 1 << 30), "DELAY_MIN": 10000, "DELAY_MAX": 10000, "NBIDI": 1, "NUNI": 0,
         "STREAM_BYTES": 3000, "ECHO_BYTES": rng.choice([0, 3000]), "WRITE_CHUNK": 1200, "READ_MAX": 100000,
         "IDLE_MS": 30000, "MAX_TIME": 16_000_000, "KEEPALIVE_MS": ka, "CLOSER": 3,
         "SPOOF_FRESH_AT": rng.range(1_000_000, 2_500_000), "SPOOF_FRESH_BLACKOUT": rng.choice([1_500_000, 2_500_000]),
         "MIGRATE_KIND": rng.below(2), "SERVER_STREAMS": rng.below(2), "GSO": rng.choice([1, 2])}
    d["MIGRATE_AT"] = d["SPOOF_FRESH_AT"] + ka + d["SPOOF_FRESH_BLACKOUT"] - rng.range(0, 500_000)
    return S.case_of(d)


def gen_case(rng):
    if rng.chance(1, 5):
        return gen_blackout(rng)
    if rng.chance(1, 10):
        return gen_aborted(rng)
    if rng.chance(1, 8):
        return gen_recvonly(rng)
    d = {"SEED": rng.range(1, 1 << 30)}
    d["DELAY_MIN"] = rng.choice([2000, 5000, 10000, 30000])
    d["DELAY_MAX"] = d["DELAY_MIN"] * rng.choice([1, 1, 2, 4])
    d["NBIDI"] = rng.range(0, 2)
    d["NUNI"] = rng.range(0 if d["NBIDI"] else 1, 2)
    d["STREAM_BYTES"] = rng.choice([20000, 40000, 80000])
    d["WRITE_CHUNK"] = rng.choice([1000, 1200, 5000, 100000])
    d["READ_MAX"] = rng.choice([1024, 100000])
    d["GSO"] = rng.choice([1, 1, 2, 5, 10])
    d["IDLE_MS"] = 30000
    if rng.chance(1, 2):
        d["SERVER_STREAMS"] = rng.range(1, 2)
    if d["NBIDI"] and rng.chance(1, 2):
        d["ECHO_BYTES"] = rng.choice([1000, 30000, 100000])
    rtt = 2 * d["DELAY_MIN"]
    m = rng.below(10)
    # when the handshake is over and data flows: a few round trips in
    at = rng.range(3 * rtt, 12 * rtt)
    if m <= 6:
        d["MIGRATE_AT"] = at
        d["MIGRATE_KIND"] = rng.below(2)
        if rng.chance(1, 2):
            # second move before / just after the first new path validates
            d["MIGRATE2_AT"] = at + rng.choice([1, rtt // 4, rtt // 2, rtt, 2 * rtt, 10 * rtt])
    if m in (5, 6, 7, 8):
        d["SPOOF"] = rng.choice([20, 100, 300])
        if rng.chance(1, 2):
            d["REPLAY"] = rng.choice([50, 200])
    if m == 9:
        d["MIGRATE_AT"] = at
        d["MIGRATE_KIND"] = rng.below(2)
        d["MIGRATION_ALLOWED"] = 0
    elif rng.chance(1, 6):
        d["MIGRATION_ALLOWED"] = 0
    if rng.chance(1, 2):
        d["LOSS"] = rng.choice([10, 50, 150, 300])
    if rng.chance(1, 4):
        d["DUP"] = rng.choice([20, 100])
    if rng.chance(1, 6):
        d["CID_LIFETIME_MS"] = rng.choice([50, 200, 1000])
    if rng.chance(1, 6):
        d["CID_LEN"] = rng.choice([0, 4, 20])
    if "SPOOF" in d and rng.chance(1, 3):
        # idle tail: nobody closes, the attacker keeps replaying
        d["CLOSER"] = 3
        d["STREAM_BYTES"] = rng.choice([5000, 30000])
        d["MAX_TIME"] = 8_000_000
        d["SPOOF"] = 300
    if rng.chance(1, 4):
        d["LATE_US"] = rng.choice([1, 500, 5000, 50000])
    if rng.chance(1, 5):
        d["SPURIOUS"] = rng.choice([50, 300])
    if rng.chance(1, 6):
        d["KEEPALIVE_MS"] = rng.choice([200, 1000])
    if rng.chance(1, 5):
        d["CONTROLLER"] = rng.choice([1, 2])
    return S.case_of(d)


def gen(rng, n):
    return [gen_case(rng) for _ in range(n)]


def project(case, outs):
    # the per-datagram probes (record 18) count as probes here: every state change is then ONE model step
    return [([8] + r[1:]) if r[0] == 18 else r for r in S.project(outs, TAGS | {18})]


def _remote_changes(outs):
    last = {}
    n = 0
    for r in outs:
        if r[0] == 8:
            k = (r[2], r[3])
            if k in last and last[k] != r[52]:
                n += 1
            last[k] = r[52]
    return n


def nontrivial(case, outs):
    if _remote_changes(outs) > 0:
        return True
    for r in outs:
        if r[0] == 2 and r[5] == 1 and ((r[2] == 0 and r[3] != 1) or (r[2] == 1 and r[9] == 6)):
            return True
    return False


def stats(cases, outs):
    st = S.trace_stats(cases, outs)
    st["server_remote_changes"] = 0
    st["traces_with_migration"] = 0
    st["fallbacks_by_timeout"] = 0
    st["moves_to_attacker_address"] = 0
    st["strangers_to_client"] = 0
    st["unvalidated_server_transmits"] = 0
    st["validations_after_migration"] = 0
    for o in outs:
        last = {}
        att = set()
        timeout_since = {}
        ch = 0
        for r in o:
            if r[0] == 9 and r[3] == 6:
                att.add(r[4])
            elif r[0] == 7:
                timeout_since[(r[2], r[3])] = True
            elif r[0] == 2 and r[2] == 0 and r[5] == 1 and r[3] != 1:
                st["strangers_to_client"] += 1
            elif r[0] == 1 and r[8] == 0 and r[2] == 1:
                b = last.get((1, r[3]))
                if b is not None and b[5] == 0:
                    st["unvalidated_server_transmits"] += 1
            elif r[0] == 8:
                k = (r[2], r[3])
                b = last.get(k)
                if b is not None and r[2] == 1:
                    if b[52] != r[52]:
                        ch += 1
                        if r[52] in att:
                            st["moves_to_attacker_address"] += 1
                        if r[5] == 1 and b[5] == 0 and timeout_since.get(k):
                            st["fallbacks_by_timeout"] += 1
                    elif b[5] == 0 and r[5] == 1 and b[4] == 1:
                        st["validations_after_migration"] += 1
                last[k] = r
                timeout_since[k] = False
        st["server_remote_changes"] += ch
        st["traces_with_migration"] += 1 if ch else 0
    return st


describe = S.describe
