"""Generator for the `header` component (quinn-proto/src/packet.rs header codec vs coq/Model/Header.v)."""
from comps.varint import enc as venc

RULE = ("ops: 0 = Header::encode + PartialEncode::finish, 1 = PartialDecode::new + finish on bytes, 2 = encode then decode "
        "with trailing bytes (coalesced packet); all five header forms, CID lengths 0..20, tokens 0..300 bytes, packet-number "
        "lengths 1..4, payload sizes around the 4-byte sample minimum and the 2^14 Length limit; decode inputs are python-built "
        "valid packets, optionally coalesced, truncated, with corrupted first byte / version / CID length / token length / "
        "Length field, or random bytes; receiver configuration (local CID length, supported versions, grease bit) varies. "
        "A case is non-trivial if it has a successful round trip with trailing data split off and a decode error, "
        "unsupported-version / version-negotiation outcome or finish error")

SHARD = 120
V1 = 1
VERSIONS = [1, 0xff00001d, 0xff00001e, 0xff00001f, 0xff000020, 0xff000021, 0xff000022]


def lb(d):
    return [len(d)] + list(d)


def gen_cid(rng):
    return rng.bytes(rng.choice([0, 0, 1, 4, 8, 8, 16, 19, 20]))


def gen_pn(rng):
    n = rng.range(1, 4)
    v = rng.choice([0, 1, (1 << (8 * n)) - 1, 1 << (8 * n - 1), rng.below(1 << (8 * n))])
    return [n, v]


def gen_version(rng, versions):
    k = rng.below(10)
    if k < 7 and versions:
        return rng.choice(versions)
    if k < 8:
        return rng.choice([2, 0x0a0a0a0a, 0xffffffff, 0xff00001c])
    return rng.below(1 << 32) or 1


def gen_header(rng, lcl, versions, grease):
    t = rng.below(5)
    if t == 0:
        tok = rng.bytes(rng.choice([0, 0, 1, 16, 63, 64, 65, 300]))
        return [0, gen_version(rng, versions)] + lb(gen_cid(rng)) + lb(gen_cid(rng)) + lb(tok) + gen_pn(rng)
    if t == 1:
        return [1, rng.below(2), gen_version(rng, versions)] + lb(gen_cid(rng)) + lb(gen_cid(rng)) + gen_pn(rng)
    if t == 2:
        return [2, gen_version(rng, versions)] + lb(gen_cid(rng)) + lb(gen_cid(rng))
    if t == 3:
        d = rng.bytes(lcl) if rng.chance(9, 10) else gen_cid(rng)
        return [3, rng.below(2), rng.below(2)] + lb(d) + gen_pn(rng)
    r = rng.choice([0x40 | rng.below(64), rng.below(128), rng.below(256)]) if not grease else rng.below(128)
    return [4, r] + lb(gen_cid(rng)) + lb(gen_cid(rng))


def gen_payload(rng, h, allow_bad=False):
    pnl = h[-2] if h[0] in (0, 1, 3) else 0
    k = rng.below(200)
    if k < 120:
        n = rng.choice([4, 5, 8, 16, 20, 40, 100])
    elif k < 160:
        n = max(0, 4 - pnl) + rng.choice([0, 0, 1])
    elif k < 163:
        n = rng.choice([1200, 1452])
    elif k < 164 and h[0] in (0, 1):
        n = (1 << 14) - pnl - 1  # largest admissible
    else:
        n = rng.choice([3, 4, 6, 30])
    if allow_bad and rng.chance(1, 2):
        if h[0] in (0, 1) and rng.chance(1, 2):
            n = (1 << 14) - pnl + rng.choice([0, 1])  # assert!(len < 2^14) fails
        elif pnl:
            n = max(0, 3 - pnl)  # debug_assert on the sample
    return rng.bytes(n) if n < 200 else [rng.below(256)] * n


def be(v, n):
    return list((v % (1 << (8 * n))).to_bytes(n, "big"))


def py_encode(h, payload):
    t = h[0]
    i = [1]

    def take_lb():
        n = h[i[0]]
        b = h[i[0] + 1:i[0] + 1 + n]
        i[0] += 1 + n
        return b

    def take():
        v = h[i[0]]
        i[0] += 1
        return v
    if t == 0:
        v = take()
        d, s, tok = take_lb(), take_lb(), take_lb()
        pnl, pn = take(), take()
        pre = [0xc0 | (pnl - 1)] + be(v, 4) + lb(d) + lb(s) + venc(len(tok)) + tok
        ln = pnl + len(payload)
        return pre + be(0x4000 | (ln & 0x3fff), 2) + be(pn, pnl) + payload
    if t == 1:
        ty = take()
        v = take()
        d, s = take_lb(), take_lb()
        pnl, pn = take(), take()
        pre = [(0xd0 if ty else 0xe0) | (pnl - 1)] + be(v, 4) + lb(d) + lb(s)
        ln = pnl + len(payload)
        return pre + be(0x4000 | (ln & 0x3fff), 2) + be(pn, pnl) + payload
    if t == 2:
        v = take()
        d, s = take_lb(), take_lb()
        return [0xf0] + be(v, 4) + lb(d) + lb(s) + payload
    if t == 3:
        spin, kp = take(), take()
        d = take_lb()
        pnl, pn = take(), take()
        return [0x40 | (4 if kp else 0) | (0x20 if spin else 0) | (pnl - 1)] + d + be(pn, pnl) + payload
    r = take()
    d, s = take_lb(), take_lb()
    return [0x80 | (r & 0xff)] + be(0, 4) + lb(d) + lb(s) + payload


def gen_config(rng):
    lcl = rng.choice([0, 4, 8, 8, 8, 16, 20])
    grease = rng.below(2)
    k = rng.below(6)
    if k < 4:
        versions = list(VERSIONS)
    elif k < 5:
        versions = [1]
    else:
        versions = [rng.below(1 << 32) or 7 for _ in range(rng.range(0, 3))]
    return lcl, grease, versions


def gen_bytes(rng, lcl, versions, grease):
    if rng.chance(1, 12):
        return rng.bytes(rng.range(0, 40))
    h = gen_header(rng, lcl, versions, grease)
    payload = gen_payload(rng, h)
    if len(payload) > 300:
        payload = payload[:40]
    b = py_encode(h, payload)
    if rng.chance(1, 3):
        h2 = gen_header(rng, lcl, versions, grease)
        b = b + py_encode(h2, gen_payload(rng, h2)[:60])
    m = rng.below(24)
    if m < 8:
        return b
    if m < 11:
        return b[:rng.below(len(b))]
    if m < 13:
        b[0] = rng.choice([b[0] ^ 0x40, b[0] ^ 0x80, b[0] ^ 0x30, b[0] ^ 0x10, b[0] ^ 0x03, b[0] ^ 0x0c, b[0] ^ 0x18, rng.below(256)])
        return b
    if m < 15 and len(b) > 5:
        j = rng.range(1, 4)
        b[j] = rng.choice([0, 1, 0xff, rng.below(256)])
        return b
    if m < 17 and len(b) > 6:
        b[5] = rng.choice([0, 20, 21, 255, rng.below(32)])  # dcid length
        return b
    if m < 20:
        i = rng.below(len(b))
        b[i] = rng.choice([0, 1, 0x3f, 0x40, 0x7f, 0x80, 0xc0, 0xff, (b[i] + 1) % 256, (b[i] - 1) % 256])
        return b
    if m < 22:
        return b + rng.bytes(rng.range(1, 30))
    i = rng.below(len(b))
    return b[:i] + rng.bytes(rng.range(1, 3)) + b[i:]


def gen_case(rng):
    ops = []
    for _ in range(rng.range(3, 9)):
        lcl, grease, versions = gen_config(rng)
        cfg = [lcl, grease, len(versions)] + versions
        k = rng.below(20)
        if k < 8:
            h = gen_header(rng, lcl, versions, grease)
            payload = gen_payload(rng, h)
            trailing = rng.bytes(rng.choice([0, 0, 1, 7, 30])) if rng.chance(2, 3) else py_encode(*(lambda hh: (hh, gen_payload(rng, hh)[:50]))(gen_header(rng, lcl, versions, grease)))
            ops.append([2] + cfg + lb(payload) + lb(trailing) + h)
        elif k < 10:
            h = gen_header(rng, lcl, versions, grease)
            ops.append([0] + lb(gen_payload(rng, h)) + h)
        else:
            ops.append([1] + cfg + gen_bytes(rng, lcl, versions, grease))
    if rng.chance(1, 40):
        lcl, grease, versions = gen_config(rng)
        h = gen_header(rng, lcl, versions, grease)
        ops.insert(rng.below(len(ops) + 1), [0] + lb(gen_payload(rng, h, True)) + h)
    return ops


def gen(rng, n):
    return [gen_case(rng) for _ in range(n)]


def nontrivial(case, outs):
    if outs == [[-999]]:
        return False
    split = any(op[0] == 2 and o[:1] == [0] and len(o) > 3 and o[2] > 0 for op, o in zip(case, outs))
    err = any(op[0] in (1, 2) and o[:1] == [1] for op, o in zip(case, outs))
    other = any(op[0] in (1, 2) and (o[:1] in ([2], [3]) or (o[:1] == [0] and len(o) > 7 and o[7] == 4)) for op, o in zip(case, outs))
    return split and (err or other)


def stats(cases, outs):
    d = {"encode": 0, "decode": 0, "roundtrip": 0, "panic_cases": 0, "ok": 0, "ok_with_rest": 0, "unsupported_version": 0,
         "finish_error": 0}
    errs = {}
    kinds = {}
    for c, o in zip(cases, outs):
        if o == [[-999]]:
            d["panic_cases"] += 1
            continue
        for op, r in zip(c, o):
            if op[0] == 0:
                d["encode"] += 1
                continue
            d["decode" if op[0] == 1 else "roundtrip"] += 1
            if r[:1] == [0]:
                d["ok"] += 1
                if r[2] >= 0:
                    d["ok_with_rest"] += 1
                kinds[r[7]] = kinds.get(r[7], 0) + 1
            elif r[:1] == [1]:
                errs[r[1]] = errs.get(r[1], 0) + 1
            elif r[:1] == [2]:
                d["unsupported_version"] += 1
            elif r[:1] == [3]:
                d["finish_error"] += 1
    d["invalid_header_reasons"] = {str(k): v for k, v in sorted(errs.items())}
    d["decoded_header_kinds"] = {str(k): v for k, v in sorted(kinds.items())}
    return d
