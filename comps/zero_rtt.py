"""Generator for the `zero_rtt` component (0-RTT rejection vs a fresh StreamsState; coq/Model/ZeroRtt.v)."""
from . import flow_send as fs

RULE = ("case = [new(client|server, remote limits, send window)] [set_params remembered] early application ops "
        "(open/write/finish/reset on local streams, transmissions, Retries, set_send_window, poll; sizes around the "
        "remembered credit so that streams get blocked and the send window fills) "
        "[20 new parameters] = zero_rtt_rejected + set_params on the state under test AND creation of a fresh twin "
        "with the same parameters; afterwards the same application ops / credit frames / acknowledgements are applied "
        "to both; new parameters range below, at and above the remembered ones (0, 1, 63/64, 16383/16384, 2^30+-1, 2^62-1). "
        "non-trivial = before the rejection at least one stream was opened and at least one byte written, and after it "
        "at least one write was accepted")

SHARD = 100


def gen_case(rng):
    side = 0 if rng.chance(5, 6) else 1
    mrb = rng.choice([0, 0, 1, 2, 3])
    sw = rng.choice([0, 1, 100, 100, 200, 300, 1000, 1000, 5000, 1 << 20, 1 << 20, fs.B62, (1 << 64) - 1])
    ops = [[0, side, rng.below(3), mrb, sw]]
    L = fs.Ledger(side, mrb, sw)
    p0 = fs.pick_params(rng)
    ops.append([1] + p0)
    L.params(p0)
    for _ in range(rng.range(0, 18)):
        ops.append(fs.app_op(rng, L, True))
        if rng.chance(1, 30):
            ops += fs.lone_fin(rng, L)
    k = rng.below(6)
    if k == 0:
        p1 = list(p0)
    elif k == 1:
        p1 = [max(0, x - rng.choice([0, 1, 50])) for x in p0]
    elif k == 2:
        p1 = fs.pick_params(rng, at_least=p0)
    else:
        p1 = fs.pick_params(rng)
    ops.append([20] + p1)
    L.restart()
    L.params(p1)
    for _ in range(rng.range(4, 30)):
        if rng.chance(1, 12):
            ops += fs.remote_stream(rng, L)
        elif rng.chance(3, 5):
            ops.append(fs.app_op(rng, L, False))
        else:
            ops.append(fs.frame_op(rng, L))
    return ops


def gen_wild(rng):
    ops = fs.gen_wild(rng)
    pos = rng.below(len(ops) + 1)
    ops.insert(pos, [20] + fs.pick_params(rng))
    return ops


def gen(rng, n):
    return [gen_wild(rng) if rng.chance(1, 10) else gen_case(rng) for _ in range(n)]


def _split(o):
    n = o[0]
    return o[1:1 + n], o[1 + n:]


def nontrivial(case, outs):
    if outs == [[-999]] or len(outs) != len(case):
        return False
    opened = wrote = False
    seen = False
    for op, o in zip(case, outs):
        if op[0] == 20:
            seen = True
            continue
        if not seen:
            if op[0] == 2 and o[0] == 0:
                opened = True
            if op[0] == 3 and o[0] == 0 and o[1] > 0:
                wrote = True
        elif op[0] == 3 and opened and wrote:
            a, _ = _split(o)
            if a and a[0] == 0 and a[1] > 0:
                return True
    return False


def stats(cases, outs):
    d = {"cases": len(cases), "panics": 0, "early_streams": 0, "early_bytes": 0, "early_blocked": 0,
         "early_frames": 0, "post_ops": 0, "post_equal": 0, "post_writes_accepted": 0,
         "new_vs_old_max_data": {"lower": 0, "equal": 0, "higher": 0}}
    for c, o in zip(cases, outs):
        if o == [[-999]] or len(o) != len(c):
            d["panics"] += 1
            continue
        seen = False
        p0 = None
        for op, r in zip(c, o):
            if op[0] == 1 and p0 is None:
                p0 = op
            if op[0] == 20:
                if p0 is not None and not seen and len(op) > 1:
                    key = "lower" if op[1] < p0[1] else ("equal" if op[1] == p0[1] else "higher")
                    d["new_vs_old_max_data"][key] += 1
                seen = True
                continue
            if not seen:
                if op[0] == 2 and r[0] == 0:
                    d["early_streams"] += 1
                elif op[0] == 3 and r[0] == 0:
                    d["early_bytes"] += r[1]
                elif op[0] == 3 and r[0] == 1:
                    d["early_blocked"] += 1
                elif op[0] == 9 and r[0] > 0:
                    d["early_frames"] += r[0]
            else:
                d["post_ops"] += 1
                a, b = _split(r)
                if a == b:
                    d["post_equal"] += 1
                if op[0] == 3 and a and a[0] == 0 and a[1] > 0:
                    d["post_writes_accepted"] += 1
    return d


def classify(case, outs):
    return None
