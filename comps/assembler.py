"""Generator for the `assembler` component (connection/assembler.rs vs coq/Model/Assembler.v)."""
RULE = ("one stream of length 20..260 whose byte at offset x is the pattern w(salt,x); ops: insert of random slices "
        "(fresh, exact duplicates, overlapping, contained, 1-byte, empty; allocation sizes tight / moderate / huge so that "
        "the over-allocation defragmentation triggers), reads with max_length in {0,1,small,huge}, ordered only / unordered "
        "only / ordered then unordered (+ illegal ordered read after unordered), clear, reinit, probes of the internal heap "
        "vector; a case is non-trivial if it has an overlapping or duplicate insert, a partial read (chunk shorter than "
        "what was buffered at that offset) and returns at least 8 bytes; deep = a defragmentation happened")

SHARD = 120


def w(salt, x):
    return (x * 7 + 3 + salt * 13 + x // 256) % 256


def ins(salt, off, n, alloc):
    return [0, off, alloc] + [w(salt, off + i) for i in range(n)]


def pick_alloc(rng, n, mode):
    if mode == 0:
        return n
    if mode == 1:
        return n + rng.below(40)
    if mode == 2:
        return max(n, rng.choice([1200, 1452, 9000]))
    return max(n, rng.range(12000, 70000))


def pick_max(rng):
    k = rng.below(10)
    if k == 0:
        return 0
    if k == 1:
        return 1
    if k < 6:
        return rng.range(2, 40)
    if k < 9:
        return 1 << 20
    return (1 << 62) + 5


def gen_case(rng):
    salt = rng.below(256)
    ops = [[7, salt]]
    base = 0
    if rng.chance(1, 10):
        base = min(rng.boundary(), (1 << 61))
    L = rng.range(20, 260)
    kind = rng.below(20)   # 0..11 ordered, 12..14 unordered, 15..19 switch
    n_ops = rng.range(10, 55)
    switch_at = rng.range(3, n_ops - 1) if kind >= 15 else (0 if kind >= 12 else n_ops + 1)
    alloc_mode_bias = rng.below(4)
    history = []
    unordered = False
    for step in range(n_ops):
        if step == switch_at and not unordered:
            unordered = True
            if rng.chance(1, 2):
                ops.append([2, 0])
        k = rng.below(100)
        if k < 50:
            # insert
            j = rng.below(10)
            if history and j < 2:
                off, n = rng.choice(history)          # exact duplicate
            elif history and j < 4:
                o0, n0 = rng.choice(history)           # overlapping / contained / extending
                off = max(base, o0 + rng.range(-6, max(1, n0)))
                n = rng.range(1, 30)
            elif j < 5:
                off, n = base + rng.below(L), 1        # 1-byte frame
            elif j < 6 and rng.chance(1, 2):
                off, n = base + rng.below(L), 0        # empty frame
            else:
                off = base + rng.below(L)
                n = rng.range(1, 40)
            if rng.chance(1, 3) and not any(o == base for o, _ in history):
                off = base if base == 0 or rng.chance(1, 2) else off
            am = alloc_mode_bias if rng.chance(2, 3) else rng.below(4)
            ops.append(ins(salt, off, n, pick_alloc(rng, n, am)))
            history.append((off, n))
        elif k < 82:
            ordered = 0 if unordered else 1
            if unordered and rng.chance(1, 25):
                ordered = 1                            # illegal ordered read
            ops.append([1, pick_max(rng), ordered])
        elif k < 88:
            ops.append([3])
        elif k < 96:
            ops.append([6])
        elif k < 97:
            ops.append([4])
        elif k < 98 and rng.chance(1, 3):
            ops.append([5])
            unordered = False
            switch_at = n_ops + 1
            history = []
        else:
            ops.append([2, 0 if unordered else 1])
    # drain
    for _ in range(rng.range(0, 6)):
        ops.append([1, pick_max(rng), 0 if unordered else 1])
    ops.append([6])
    ops.append([3])
    return ops


def gen_many_chunks(rng):
    """> 1024 one-byte chunks with gaps and a huge allocation: defragment + TooManyChunks."""
    salt = rng.below(256)
    ops = [[7, salt]]
    n = rng.range(1020, 1030)
    for i in range(n):
        ops.append(ins(salt, 2 * i + 1, 1, 1))
    ops.append(ins(salt, 2 * n + 5, 1, 40000))
    ops.append([6])
    ops.append([1, 100, 1])
    return ops


def gen(rng, n):
    cases = [gen_case(rng) for _ in range(n)]
    if n >= 500:
        cases[rng.below(n)] = gen_many_chunks(rng)
    return cases


def _defrag_happened(case, outs):
    # a probe showing a defragmented buffer
    for op, o in zip(case, outs):
        if op[0] == 6 and len(o) >= 5:
            nb = o[4]
            for i in range(nb):
                if o[5 + 4 * i + 3] == 1:
                    return True
    return False


def nontrivial(case, outs):
    if outs == [[-999]]:
        return False
    seen = []
    overlap = False
    for op in case:
        if op[0] == 0:
            off, n = op[1], len(op) - 3
            if any(o < off + n and off < o + m for o, m in seen):
                overlap = True
            seen.append((off, n))
    got = sum(len(o) - 2 for op, o in zip(case, outs) if op[0] == 1 and o and o[0] == 1)
    partial = any(op[0] == 1 and o and o[0] == 1 and len(o) - 2 == op[1] and op[1] > 0 for op, o in zip(case, outs))
    return overlap and partial and got >= 8


def stats(cases, outs):
    d = {"insert": 0, "insert_empty": 0, "too_many_chunks": 0, "read_none": 0, "read_chunk": 0, "read_partial": 0,
         "read_zero_len": 0, "illegal_ordered_read": 0, "unordered_reads": 0, "bytes_returned": 0, "cases_with_switch": 0,
         "cases_defragmented": 0, "clear": 0, "reinit": 0, "panics": 0, "max_heap_len": 0}
    for c, o in zip(cases, outs):
        if o == [[-999]]:
            d["panics"] += 1
            continue
        if _defrag_happened(c, o):
            d["cases_defragmented"] += 1
        modes = set()
        for op, r in zip(c, o):
            if op[0] == 0:
                d["insert"] += 1
                if len(op) == 3:
                    d["insert_empty"] += 1
                if r == [1]:
                    d["too_many_chunks"] += 1
            elif op[0] == 1:
                if r == [2]:
                    d["illegal_ordered_read"] += 1
                    continue
                modes.add(op[2])
                if op[2] == 0:
                    d["unordered_reads"] += 1
                if r == [0]:
                    d["read_none"] += 1
                else:
                    d["read_chunk"] += 1
                    d["bytes_returned"] += len(r) - 2
                    if len(r) - 2 == op[1]:
                        d["read_partial"] += 1
                    if len(r) == 2:
                        d["read_zero_len"] += 1
            elif op[0] == 4:
                d["clear"] += 1
            elif op[0] == 5:
                d["reinit"] += 1
            elif op[0] == 6 and len(r) >= 5:
                d["max_heap_len"] = max(d["max_heap_len"], r[4])
        if len(modes) == 2:
            d["cases_with_switch"] += 1
    return d


def classify(case, outs):
    return None
