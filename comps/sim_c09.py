"""C09 system level: many connections on one endpoint pair; routing and isolation checked by
coq/Sys/MonC04.v (datagram handed to the connection that produced/owns it) and coq/Sys/MonC01.v
(per-connection salted payload patterns never cross)."""
from . import simlib as S
SUBCMD = "sim"
IS_TRACE = True
RUN = "monitor"
TAGS = {2, 3, 4, 8, 10, 11, 13}
RULE = ("2-8 concurrent client connections to one server endpoint, CID lengths 1..20, CID lifetimes forcing rotation and "
        "retirement, drained connections replaced by new ones (handle reuse), loss/duplication/reordering, replays of "
        "genuine datagrams from their own and from attacker addresses; payload bytes are salted per connection; "
        "non-trivial = at least 3 connections exchanged data")


def gen(rng, n):
    cases = []
    for i in range(n):
        d = S.base(rng, small=True)
        d["NCONNS"] = rng.range(2, 8)
        d["CID_LEN"] = rng.choice([1, 2, 4, 8, 8, 20])
        d["STREAM_BYTES"] = rng.choice([300, 3000, 10000])
        d["NBIDI"] = rng.range(0, 1)
        d["NUNI"] = 1
        if rng.chance(1, 2):
            d["CID_LIFETIME_MS"] = rng.choice([20, 50, 200])
        if rng.chance(1, 2):
            d["RECONNECT"] = rng.range(1, 4)
        S.lossy(rng, d)
        d["LOSS"] = min(d.get("LOSS", 0), 100)
        if rng.chance(1, 3):
            d["REPLAY"] = rng.choice([100, 300])
        if rng.chance(1, 3):
            d["SPOOF"] = rng.choice([100, 300])
        if rng.chance(1, 3):
            d["ECHO_BYTES"] = 500
        if rng.chance(1, 4):
            d["NDGRAM"] = rng.range(1, 5)
        d["CLOSER"] = rng.choice([0, 0, 1, 2])
        d["IDLE_MS"] = 5000
        d["MAX_TIME"] = 60_000_000
        cases.append(S.case_of(d))
    return cases


def project(case, outs):
    if outs == [[-999]]:
        return outs
    last = {}
    for i, r in enumerate(outs):
        if r[0] == 8:
            last[(r[2], r[3])] = i
    keep = set(last.values())
    others = [r for i, r in enumerate(S.with_unprotected_probes(outs)) if r[0] in (2, 3, 4, 11, 13, 16, 18, 19) or (r[0] == 5 and r[4] == 1)]
    probes = [r for i, r in enumerate(outs) if r[0] == 8 and i in keep]
    end = [r for r in outs if r[0] == 10]
    return others + probes + end


def nontrivial(case, outs):
    conns = set()
    for r in outs:
        if r[0] == 3 and r[4] == 5 and r[9] == 0:
            conns.add(r[3])
    return len(conns) >= 3


def stats(cases, outs):
    st = S.trace_stats(cases, outs)
    st["connections_created"] = sum(1 for o in outs for r in o if r[0] == 3 and r[4] in (20, 21))
    st["routed_datagrams"] = sum(1 for o in outs for r in o if r[0] == 2 and r[5] == 1)
    return st


describe = S.describe
