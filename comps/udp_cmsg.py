"""Generator for the `udp_cmsg` component (quinn-udp: prepare_msg / cmsg Encoder+Iter / decode_recv /
effective_segment_size vs coq/Model/Cmsg.v)."""
SUBCMD = "udp"
RULE = ("ops: 0 = prepare_msg for an option combination {dst v4|v6|v4-mapped} x {ECN none/3 codepoints} x "
        "{segment_size none / < / = / > contents} x {src none/v4/v6} x sendmsg_einval x encode_src_ip, walked with the "
        "crate's cmsg::Iter; 1 = control buffer built with cmsg::Encoder from kernel-style messages (TOS, RECVTOS, "
        "TCLASS, PKTINFO v4/v6, UDP_GRO, TIMESTAMPNS, unknown) in any order/multiplicity, then the real decode_recv; "
        "2 = effective_segment_size at boundaries. The first 288 cases of a run enumerate the whole prepare_msg option "
        "space. A case is non-trivial if it has a prepare_msg with >= 2 control messages and a decode with >= 2 messages")

ECNS = [0, 1, 2, 3]
PAYLOAD = {1: 1, 2: 1, 3: 4, 4: 12, 5: 20, 6: 4, 7: 16, 8: 4}   # bytes, 64-bit Linux ABI


def prep_op(rng, dst=None, ecn=None, segk=None, src=None, einval=None, enc=None, force=False):
    dst = rng.below(3) if dst is None else dst
    ecn = rng.choice(ECNS) if ecn is None else ecn
    segk = rng.below(5) if segk is None else segk
    clen = rng.choice([0, 1, 2, 1199, 1200, 1201, 1452, 2400, 3000, 65507, 65535, rng.range(1, 70000)])
    if force:
        clen = max(clen, 2)
    if segk == 0:
        seg = 0
    elif segk == 1:
        seg = max(1, clen // rng.range(2, 8)) if clen > 1 else 1
    elif segk == 2:
        seg = max(clen, 1)
    elif segk == 3:
        seg = clen + rng.range(1, 2000)
    else:
        seg = rng.choice([1, 2, 1200, 65535, 65536, 65537, 70000, 131072 + 1200])
    src = rng.below(3) if src is None else src
    einval = rng.below(2) if einval is None else einval
    enc = rng.below(2) if enc is None else enc
    op = [0, dst, ecn, clen, seg, einval, enc]
    if src == 0:
        op += [0]
    elif src == 1:
        op += [4] + rng.bytes(4)
    else:
        op += [6] + rng.bytes(16)
    return op


def item(rng):
    k = rng.below(16)
    if k < 3:
        return [1, rng.choice([0, 1, 2, 3, 0x02, 0xb9, 0xfe, 0xff, rng.below(256)])]
    if k < 4:
        return [2, rng.below(256)]
    if k < 7:
        return [3, rng.choice([0, 1, 2, 3, 255, 256, 258, 0x7fffffff, -1, -2, rng.below(1 << 31)])]
    if k < 9:
        return [4, rng.choice([0, 1, 2, 7, (1 << 31) - 1, -1])] + rng.bytes(8)
    if k < 11:
        return [5] + rng.bytes(16) + [rng.choice([0, 1, 3, (1 << 32) - 1, 1 << 31])]
    if k < 13:
        return [6, rng.choice([0, 1, 1200, 1452, 65535, 65536, (1 << 31) - 1, -1, -1200, rng.range(1, 9000)])]
    if k < 15:
        return [7, rng.choice([0, 1, 1790000000, -1, (1 << 63) - 1, -(1 << 63), rng.below(1 << 40)]),
                rng.choice([0, 1, 999999999, 1000000000, (1 << 32) - 1, 1 << 32, -1, 4294967295,
                            rng.below(1000000000)])]
    # unknown (level, type): never collides with a decoded pair
    return [8, rng.choice([1, 17, 41, 0, 255, 6]), rng.choice([3, 9, 21, 24, 2, 50, 66, 104]),
            rng.choice([0, 1, -1, 12345])]


def known_pair(it):
    # (level,type) pairs decode_recv interprets: avoid building them with a wrong payload size
    return it[0] == 8 and (it[1], it[2]) in {(0, 1), (0, 13), (41, 67), (0, 8), (41, 50), (17, 104), (1, 35)}


def decode_op(rng, overflow=False):
    fam = rng.choice([4, 4, 4, 4, 6, 6, 6, 6, 6, 0, 1, 99])
    op = [1, rng.choice([0, 1, 1200, 2400, 3000, 65535, rng.range(0, 70000)]), fam]
    if fam == 4:
        op += rng.bytes(4) + [rng.choice([0, 1, 443, 65535, rng.below(65536)])]
    elif fam == 6:
        op += rng.bytes(16) + [rng.below(65536), rng.choice([0, 1, (1 << 32) - 1, rng.below(1 << 20)]),
                               rng.choice([0, 1, 2, (1 << 32) - 1])]
    n = rng.range(4, 7) if overflow else rng.choice([0, 1, 1, 2, 2, 3, 3, 4])
    used = 0
    for _ in range(n):
        it = item(rng)
        while known_pair(it):
            it = item(rng)
        sp = 16 + 8 * ((PAYLOAD[it[0]] + 7) // 8)
        if not overflow and used + sp > 96:
            continue   # stay within the smallest control buffer (cmsg::LEN) unless overflow is the point
        used += sp
        op += it
    return op


def gen_case(rng):
    ops = []
    for _ in range(rng.range(3, 10)):
        k = rng.below(10)
        if k < 4:
            ops.append(prep_op(rng))
        elif k < 8:
            ops.append(decode_op(rng))
        else:
            clen = rng.choice([0, 1, 10, 1200, 2400, 65507, rng.range(0, 70000)])
            seg = rng.choice([0, 1, clen - 1, clen, clen + 1, rng.range(0, 70000)])
            ops.append([2, clen, max(seg, 0)])
    if rng.chance(1, 25):
        ops.append(decode_op(rng, overflow=True))
    return ops


def exhaustive(rng):
    cases = []
    for dst in range(3):
        for ecn in ECNS:
            for segk in (0, 1):
                for src in range(3):
                    for einval in range(2):
                        for enc in range(2):
                            cases.append([prep_op(rng, dst, ecn, segk, src, einval, enc, force=True)])
    return cases


def gen(rng, n):
    ex = exhaustive(rng)
    return ex + [gen_case(rng) for _ in range(max(0, n - len(ex)))]


def nontrivial(case, outs):
    if outs == [[-999]] or len(outs) != len(case):
        return False
    if len(case) == 1 and case[0][0] == 0:
        return True   # one point of the exhaustive sweep
    p = any(op[0] == 0 and len(o) > 5 and o[5] >= 2 for op, o in zip(case, outs))
    d = any(op[0] == 1 and o[0] == 0 and len(op) > 12 for op, o in zip(case, outs))
    return p and d


def stats(cases, outs):
    d = {"prepare": 0, "decode_ok": 0, "decode_addr_err": 0, "effective_seg_none": 0, "effective_seg_some": 0,
         "panic_cases": 0, "prepare_cmsg_count": {}, "prepare_controllen": {}, "decode_with_gro": 0,
         "decode_with_ecn": 0}
    combos = set()
    for c, o in zip(cases, outs):
        if o == [[-999]]:
            d["panic_cases"] += 1
            continue
        for op, r in zip(c, o):
            if op[0] == 0:
                d["prepare"] += 1
                eff = 1 if 0 < op[4] < op[3] else 0
                combos.add((op[1], op[2], eff, op[7], op[5], op[6]))
                d["prepare_cmsg_count"][str(r[5])] = d["prepare_cmsg_count"].get(str(r[5]), 0) + 1
                d["prepare_controllen"][str(r[0])] = d["prepare_controllen"].get(str(r[0]), 0) + 1
            elif op[0] == 1:
                if r[0] == 0:
                    d["decode_ok"] += 1
                    if r[2] != r[1]:
                        d["decode_with_gro"] += 1
                    if r[3] != 0:
                        d["decode_with_ecn"] += 1
                else:
                    d["decode_addr_err"] += 1
            elif op[0] == 2:
                d["effective_seg_none" if r == [0] else "effective_seg_some"] += 1
    d["prepare_option_combinations_covered_of_288"] = len(combos)
    return d


def classify(case, outs):
    return None
