"""Generator for the `routing` component: a real quinn-proto `Endpoint` (ConnectionIndex, connection
slab, connect / handle / accept / refuse / ignore / handle_event) vs coq/Model/Routing.v.

Op encoding: see quinn-proto/src/verif_hooks/routing.rs.  Field ranges the model relies on:
remote r in [0, 16383], local l in [0, 255], token t in [0, 65535], bytes in [0, 255]."""

RULE = ("histories of 10-45 ops on one endpoint with 2-8 connections of both roles: connect (same and "
        "different remotes, failing crypto session, invalid remote), Initial datagrams creating Incomings "
        "(fresh / retransmitted / colliding / too-short DCIDs, undersized, illegal first frame), accept "
        "(also stale), refuse, ignore, NeedIdentifiers and RetireConnectionId (random order, unissued and "
        "boundary sequence numbers, allow_more) with CID candidates drawn from a small pool so that the "
        "generator collides with live, retired, initial and leaked CIDs, reset tokens shared and reassigned, "
        "Drained followed by reconnects reusing slab slots, and datagrams of all four header kinds addressed "
        "to live, retired, drained, never-issued CIDs, owned and unowned tuples and tokens; CID length 0 "
        "(20%), 1, 2, 4, 8, 20 and others; a CID-space-exhaustion scenario (length 1); rare ops on dead "
        "handles and dry CID streams (panic). non-trivial = at least two connections created, a datagram "
        "handed to a connection, and a retirement or a slab slot reused after Drained")

SHARD = 100


class Track:
    """Approximate tracker of the endpoint state, used only to aim the generator."""

    def __init__(self, cid_len, pref):
        self.len = cid_len
        self.pref = pref
        self.ids = {}        # cid tuple -> ch
        self.init = {}       # dcid tuple -> ('c', ch) | ('i', k)
        self.inm = {}
        self.outm = {}
        self.tok = {}
        self.conns = {}      # ch -> dict
        self.free = []
        self.hwm = 0
        self.incs = {}       # k -> dict
        self.nincs = 0
        self.retired = []    # cids retired or drained
        self.deadch = []

    def vacant(self):
        return self.free[0] if self.free else self.hwm

    def exhausted(self):
        if self.len == 0 or self.len > 4:
            return False
        space = 256 ** self.len
        return len(self.ids) > space - space // 4

    def new_cid(self, ch, cands):
        if self.len == 0:
            return ()
        for c in list(cands) + [tuple([238] * self.len)] * 64:
            if c not in self.ids:
                self.ids[c] = ch
                return c
        return None

    def create(self, ch, init, locs, r, l, server):
        if self.free:
            self.free.pop(0)
        else:
            self.hwm += 1
        self.conns[ch] = {"init": init, "issued": len(locs), "loc": dict(enumerate(locs)), "r": r, "l": l,
                          "server": server, "tok": None}
        if self.len == 0:
            if server:
                self.inm[(r, l)] = ch
            else:
                self.outm[r] = ch

    def get(self, kind, r, l, t, dcid):
        if dcid and dcid in self.ids:
            return ("c", self.ids[dcid])
        if kind in (1, 2) and dcid in self.init:
            return self.init[dcid]
        if not dcid:
            if (r, l) in self.inm:
                return ("c", self.inm[(r, l)])
            if r in self.outm:
                return ("c", self.outm[r])
        if (r, t) in self.tok:
            return ("c", self.tok[(r, t)])
        return None

    def drained(self, ch):
        m = self.conns.pop(ch, None)
        if m is None:
            return
        self.free.insert(0, ch)
        self.deadch.append(ch)
        if m["server"]:
            self.init.pop(m["init"], None)
        for c in m["loc"].values():
            if self.ids.get(c) == ch or True:
                self.ids.pop(c, None)
            self.retired.append(c)
        if self.inm.get((m["r"], m["l"])) == ch:
            del self.inm[(m["r"], m["l"])]
        if self.outm.get(m["r"]) == ch:
            del self.outm[m["r"]]
        if m["tok"] and self.tok.get(m["tok"]) == ch:
            del self.tok[m["tok"]]


def flat(cands):
    out = [len(cands)]
    for c in cands:
        out.extend(c)
    return out


class Gen:
    def __init__(self, rng):
        self.rng = rng
        k = rng.below(20)
        if k < 4:
            self.len = 0
        elif k < 6:
            self.len = 1
        elif k < 8:
            self.len = 2
        elif k < 10:
            self.len = 4
        elif k < 15:
            self.len = 8
        elif k < 17:
            self.len = 20
        else:
            self.len = rng.range(3, 19)
        self.pref = 1 if rng.chance(1, 5) else 0
        self.t = Track(self.len, self.pref)
        self.ops = [[0, self.len, self.pref]]
        self.pool = []
        self.used = set()
        for _ in range(rng.range(4, 9)):
            self.pool.append(self.fresh())
        self.dcids = []
        self.remotes = [rng.range(1, 6) for _ in range(rng.range(1, 4))]
        self.toks = [rng.range(1, 65535) for _ in range(rng.range(1, 4))]
        self.allow_panic = rng.chance(1, 30)

    def fresh(self, n=None):
        n = self.len if n is None else n
        if n == 0:
            return ()
        for _ in range(50):
            c = tuple(self.rng.bytes(n))
            if c not in self.used and c != tuple([238] * n):
                self.used.add(c)
                return c
        return tuple(self.rng.bytes(n))

    def cands(self, need=1):
        rng = self.rng
        if self.len == 0:
            return []
        out = []
        for _ in range(rng.below(4)):
            k = rng.below(5)
            if k < 2 and self.t.ids:
                out.append(rng.choice(sorted(self.t.ids)))        # live: must be skipped
            elif k < 3 and self.t.retired:
                out.append(rng.choice(self.t.retired))            # retired/drained: may be reissued
            elif k < 4 and self.t.init and self.len >= 8:
                out.append(rng.choice(sorted(self.t.init)))       # someone's initial DCID
            else:
                out.append(rng.choice(self.pool))
        out = [c for c in out if len(c) == self.len]
        if not rng.chance(1, 150):
            for _ in range(need):
                out.append(self.fresh())
        return out

    def remote(self):
        return self.rng.choice(self.remotes) if self.rng.chance(4, 5) else self.rng.range(1, 8)

    def live(self):
        return sorted(self.t.conns)

    def pick_ch(self):
        rng = self.rng
        lv = self.live()
        if lv and not (self.allow_panic and rng.chance(1, 25)):
            return rng.choice(lv)
        if self.allow_panic:
            return rng.choice(self.t.deadch) if self.t.deadch and rng.chance(1, 2) else rng.range(0, 9)
        return None

    # ---- ops
    def connect(self):
        rng, t = self.rng, self.t
        r = 0 if rng.chance(1, 40) else self.remote()
        fail = 1 if rng.chance(1, 10) else 0
        cands = self.cands()
        self.ops.append([1, r, fail] + flat(cands))
        if t.exhausted() or r == 0:
            return
        ch = t.vacant()
        c = t.new_cid(ch, cands)
        if c is None:
            return
        if fail:
            if c:
                t.ids.pop(c, None)
            return
        t.create(ch, (), [c], r, 0, False)

    def datagram(self, kind, r, l, tk, bad, dcid):
        t = self.t
        self.ops.append([2, kind, r, l, tk, bad, len(dcid)] + list(dcid))
        if kind == 0 and len(dcid) != self.len:
            return
        g = t.get(kind, r, l, tk, dcid)
        if g is None and kind == 1 and bad != 2 and not t.exhausted() and len(dcid) >= 8:
            k = t.nincs
            t.nincs += 1
            t.incs[k] = {"dcid": dcid, "r": r, "l": l, "bad": bad}
            t.init[dcid] = ("i", k)
            self.dcids.append(dcid)

    def initial(self):
        rng = self.rng
        k = rng.below(20)
        if k < 11:
            dcid = self.fresh(rng.range(8, 20) if rng.chance(1, 2) else (self.len if self.len >= 8 else 8))
        elif k < 14 and self.dcids:
            dcid = rng.choice(self.dcids)
        elif k < 16 and self.t.ids and self.len >= 8:
            dcid = rng.choice(sorted(self.t.ids))
        elif k < 17:
            dcid = self.fresh(rng.range(0, 7))
        else:
            dcid = self.fresh(rng.range(8, 20))
        bad = 0
        if rng.chance(1, 10):
            bad = 1
        elif rng.chance(1, 15):
            bad = 2
        tk = rng.choice(self.toks) if rng.chance(1, 6) else 0
        r, l = self.remote(), rng.below(3)
        tup = sorted((m["r"], m["l"]) for m in self.t.conns.values())
        if tup and rng.chance(1, 3):
            r, l = rng.choice(tup)      # a tuple some live connection holds (zero-length CIDs: takeover)
        self.datagram(1, r, l, tk, bad, dcid)

    def accept(self):
        rng, t = self.rng, self.t
        if not t.incs:
            if rng.chance(1, 8):
                self.ops.append([3, rng.range(0, 5), 0] + flat(self.cands()))
            return
        k = rng.choice(sorted(t.incs))
        mode = rng.below(12)
        if mode >= 4:
            stale = 1 if rng.chance(1, 12) else 0
            cands = self.cands(2 if self.pref else 1)
            self.ops.append([3, k, stale] + flat(cands))
            i = t.incs.pop(k)
            if stale or t.exhausted():
                t.init.pop(i["dcid"], None)
                return
            ch = t.vacant()
            c = t.new_cid(ch, cands)
            if c is None:
                return
            locs = [c]
            if self.pref:
                c2 = t.new_cid(ch, cands)
                if c2 is None:
                    return
                locs.append(c2)
            t.create(ch, i["dcid"], locs, i["r"], i["l"], True)
            t.init[i["dcid"]] = ("c", ch)
            if i["bad"] == 1:
                t.drained(ch)
        else:
            self.ops.append([4, k, 0 if mode < 2 else 1])
            i = t.incs.pop(k)
            t.init.pop(i["dcid"], None)

    def do_issue(self, ch, n, cands):
        t = self.t
        m = t.conns.get(ch)
        for _ in range(n):
            c = t.new_cid(ch, cands)
            if c is None or m is None:
                return
            m["loc"][m["issued"]] = c
            m["issued"] += 1

    def issue(self):
        ch = self.pick_ch()
        if ch is None:
            return
        n = self.rng.range(0, 4)
        cands = self.cands(n)
        self.ops.append([5, ch, n] + flat(cands))
        self.do_issue(ch, n, cands)

    def retire(self):
        rng, t = self.rng, self.t
        ch = self.pick_ch()
        if ch is None:
            return
        m = t.conns.get(ch)
        k = rng.below(10)
        if m and m["loc"] and k < 6:
            seq = rng.choice(sorted(m["loc"]))
        elif m and k < 8:
            seq = m["issued"] + rng.range(-1, 1)
        else:
            seq = rng.range(0, 9)
        seq = max(0, seq)
        allow = rng.below(2)
        cands = self.cands()
        self.ops.append([6, ch, seq, allow] + flat(cands))
        if m and seq in m["loc"]:
            c = m["loc"].pop(seq)
            t.ids.pop(c, None)
            t.retired.append(c)
            if allow:
                self.do_issue(ch, 1, cands)

    def token(self):
        rng, t = self.rng, self.t
        ch = self.pick_ch()
        if ch is None:
            return
        m = t.conns.get(ch)
        r = m["r"] if m and rng.chance(3, 4) else self.remote()
        tk = rng.choice(self.toks) if rng.chance(3, 4) else rng.range(0, 65535)
        self.ops.append([7, ch, r, tk])
        if m:
            if m["tok"] and t.tok.get(m["tok"]) == ch:
                del t.tok[m["tok"]]
            m["tok"] = (r, tk)
            t.tok[(r, tk)] = ch

    def drain(self):
        rng = self.rng
        lv = self.live()
        if lv and rng.chance(9, 10):
            ch = rng.choice(lv)
        else:
            ch = rng.range(0, 9)
        self.ops.append([8, ch])
        self.t.drained(ch)

    def route(self):
        rng, t = self.rng, self.t
        kind = 0 if rng.chance(3, 4) else rng.range(1, 3)
        k = rng.below(20)
        if self.len == 0 and kind == 0:
            dcid = ()
        elif k < 10 and t.ids:
            dcid = rng.choice(sorted(t.ids))
        elif k < 13 and t.retired:
            dcid = rng.choice(t.retired)
        elif k < 15 and self.dcids:
            dcid = rng.choice(self.dcids)
        elif k < 18:
            dcid = rng.choice(self.pool)
        else:
            dcid = self.fresh(self.len if kind == 0 else rng.range(0, 20))
        if kind == 0 and len(dcid) != self.len:
            dcid = self.fresh(self.len)
        tup = [(m["r"], m["l"]) for m in t.conns.values()]
        if tup and rng.chance(3, 4):
            r, l = rng.choice(sorted(tup))
            if rng.chance(1, 5):
                l = rng.below(3)
        else:
            r, l = self.remote(), rng.below(3)
        if t.tok and rng.chance(1, 3):
            r2, tk = rng.choice(sorted(t.tok))
            if rng.chance(3, 4):
                r = r2
        elif rng.chance(1, 3):
            tk = rng.choice(self.toks)
        else:
            tk = 0
        if kind in (1, 2) and self.dcids and rng.chance(1, 2):
            dcid = rng.choice(self.dcids)
        self.datagram(kind, r, l, tk, 0, dcid)

    def exhaust(self):
        """cid_len = 1: fill more than 3/4 of the CID space, then try to create connections."""
        rng = self.rng
        self.connect()
        lv = self.live()
        if not lv:
            return
        ch = lv[0]
        target = rng.range(186, 196)
        while len(self.t.ids) < target:
            n = min(64, target - len(self.t.ids))
            cands = [self.fresh() for _ in range(n)]
            self.ops.append([5, ch, n] + flat(cands))
            self.do_issue(ch, n, cands)

    def run(self):
        rng = self.rng
        if self.len == 1 and rng.chance(1, 3):
            self.exhaust()
        n = rng.range(10, 45)
        # start with a few connections
        for _ in range(rng.range(1, 3)):
            if rng.chance(1, 2):
                self.connect()
            else:
                self.initial()
                self.accept()
        while len(self.ops) < n:
            k = rng.below(100)
            nlive = len(self.t.conns)
            if k < 10 or (nlive < 2 and k < 25):
                self.connect()
            elif k < 20:
                self.initial()
            elif k < 30:
                self.accept()
            elif k < 40:
                self.issue()
            elif k < 52:
                self.retire()
            elif k < 60:
                self.token()
            elif k < 68 and nlive > 0:
                self.drain()
            else:
                self.route()
        return self.ops


def gen(rng, n):
    return [Gen(rng.fork(f"case{i}")).run() for i in range(n)]


def nontrivial(case, outs):
    if outs == [[-999]] or len(outs) != len(case):
        return False
    created = 0
    routed = False
    drained = False
    reuse = False
    retired = False
    for op, o in zip(case, outs):
        if op[0] in (1, 3) and o[:1] == [0]:
            created += 1
            if drained:
                reuse = True
        elif op[0] == 2 and o[:1] == [1]:
            routed = True
        elif op[0] == 8:
            drained = True
        elif op[0] == 6 and o != [-1]:
            retired = True
    return created >= 2 and routed and (reuse or retired)


def stats(cases, outs):
    d = {"ops": {}, "route": {}, "errors": {}, "cid_len": {}, "panics": 0, "slot_reuse": 0,
         "max_live": 0}
    names = {0: "config", 1: "connect", 2: "datagram", 3: "accept", 4: "reject", 5: "issue", 6: "retire",
             7: "reset_token", 8: "drained"}
    rk = {0: "none_or_buffered", 1: "connection", 2: "new_incoming", 3: "response", -1: "ill_formed"}
    for c, o in zip(cases, outs):
        ln = str(c[0][1]) if c and c[0][:1] == [0] and len(c[0]) > 1 else "?"
        d["cid_len"][ln] = d["cid_len"].get(ln, 0) + 1
        if o == [[-999]]:
            d["panics"] += 1
            continue
        live = set()
        dr = False
        for op, r in zip(c, o):
            nm = names.get(op[0], "other")
            d["ops"][nm] = d["ops"].get(nm, 0) + 1
            if op[0] == 2:
                key = rk.get(r[0], "?") + ("" if op[1] == 0 else f"_long{op[1]}")
                d["route"][key] = d["route"].get(key, 0) + 1
            if op[0] in (1, 3) and r[:1] == [1]:
                key = f"{nm}_err{r[1]}"
                d["errors"][key] = d["errors"].get(key, 0) + 1
            if op[0] in (1, 3) and r[:1] == [0]:
                if r[1] in live:
                    pass
                live.add(r[1])
                if dr:
                    d["slot_reuse"] += 1
                d["max_live"] = max(d["max_live"], len(live))
            if op[0] == 8 and len(r) == 2:
                live.discard(op[1])
                dr = True
    return d


def classify(case, outs):
    """Stable keys of the two defects found in the code as it was (both repaired by `fix:` commits):
    a failing case is attributed to them only if it contains their trigger."""
    if not case or case[0][:1] != [0] or len(case[0]) < 2:
        return None
    ln = case[0][1]
    if outs == [[-999]] or len(outs) != len(case):
        return None
    if ln > 0 and any(op[0] == 1 and len(op) > 2 and op[2] != 0 and o == [1, 4] for op, o in zip(case, outs)):
        return "connect-failure-leaks-cid"
    tuples = {}
    toks = {}
    rem = {}
    for op, o in zip(case, outs):
        if ln == 0 and op[0] == 1 and o[:1] == [0]:
            tuples[op[1]] = tuples.get(op[1], 0) + 1
        if ln == 0 and op[0] == 2 and o[:1] == [2]:
            rem[o[1]] = op[2]
        if ln == 0 and op[0] == 3 and o[:1] == [0] and op[1] in rem:
            tuples[rem[op[1]]] = tuples.get(rem[op[1]], 0) + 1
        if op[0] == 7 and o == [0]:
            toks.setdefault((op[2], op[3]), set()).add(op[1])
    if any(v > 1 for v in tuples.values()) or any(len(v) > 1 for v in toks.values()):
        return "index-remove-unconditional"
    return None
