"""`udp_loop`: quinn-udp on REAL loopback sockets (hook quinn-udp/src/verif_hooks.rs, component `udp_loop`)
against coq/Model/UdpLoop.v.

This component cannot use the plain "same ops -> same outputs" flow: what arrives also depends on choices
of the environment (kernel capabilities, how many datagrams a GRO receive merges, drops when a buffer
overflows).  The correspondence is therefore *relational* (DESIGN §2.2): the driver runs the transmit,
reads the environment's choices off the observation and passes them to the model as extra ops
  [1, transmit..]  [2, capability line..]  [3, len, off]*      (off: witness found here, CHECKED in Coq)
and the model then has to predict every received message byte for byte (payload, stride, ECN, source and
destination address), while the oracle checks the property on the implementation's observation alone.
It runs as an `extra` step of checks/C19.py (lib/runner.py has no augmentation point)."""
import json
import os
import time

from lib import qv

COMP = "udp_loop"
MODULE = "QV.Model.UdpLoop"
SUBCMD = "udp"
SHARD = 60
KNOWN_KEY = "C19-recv-cmsg-trunc-ecn"
RULE = ("one or two transmits per case on a fresh pair of loopback sockets: family {v4, v6, v4 sender -> dual-stack "
        "receiver (mapped peer), dual-stack sender -> v4-mapped destination}; payload 1..65507 bytes (boundary biased: "
        "1, seg-1, seg, seg+1, k*seg, k*seg+-1, max); segment_size none / < / = / > contents with 1..64 segments (and "
        "65..70: beyond what the kernel takes, to reach the fallback); every ECN codepoint and none; explicit source "
        "address none / own / alternative 127.0.0.2 / v4-mapped; destination 127.0.0.1 or 127.0.0.3; receive buffers "
        "65535 / datagram*gro_segments / exactly the batch, 1..32 of them; GSO transmit or one transmit per segment; GRO "
        "on or off; sendmsg_einval fallback. Non-trivial: at least two datagrams were received and all of them arrived")


def pattern(clen, salt):
    return [(i + 3 * (i // 256) + salt) % 256 for i in range(clen)]


def gen_op(rng, fam, force=None):
    # v6 on loopback: IPV6_DONTFRAG and the 65536-byte MTU cap a datagram at 65536 - 40 - 8 bytes
    maxlen = 65488 if fam == 1 else 65507
    k = rng.below(100)
    sendmode = 0 if rng.chance(3, 4) else 1
    if k < 12:                         # no segment size
        seg = 0
        clen = rng.choice([1, 2, 100, 1200, 1452, rng.range(1, 3000)])
        if rng.chance(1, 12):
            clen = rng.choice([maxlen, maxlen - 1, 9000, 32768])
    elif k < 22:                       # segment size >= contents: single datagram
        clen = rng.choice([1, 2, 577, 1200, rng.range(1, 2000)])
        seg = clen + rng.choice([0, 0, 1, 300])
    else:
        if k < 55:                     # small segments, many of them
            seg = rng.choice([1, 2, 3, 7, 16, 64, rng.range(1, 120)])
            nseg = rng.choice([2, 3, 63, 64, rng.range(2, 64)])
        elif k < 88:                   # typical QUIC
            seg = rng.choice([1200, 1252, 1452, 1472, rng.range(1000, 1500)])
            nseg = rng.choice([2, 2, 3, 4, 5, rng.range(2, 8)])
        elif k < 94:                   # large batch
            nseg = rng.choice([2, 10, 44, 64])
            seg = rng.choice([1200, 1452, maxlen // nseg, rng.range(200, maxlen // nseg)])
        else:                          # more segments than any kernel accepts in one send
            # 65..70: beyond max_gso_segments() but accepted by kernels with UDP_MAX_SEGMENTS = 128;
            # 129..140: rejected with EINVAL -> the implementation halts offload and sets sendmsg_einval
            nseg = rng.choice([rng.range(65, 70), rng.range(129, 140)]) if sendmode == 0 else rng.range(2, 20)
            seg = rng.choice([1, 5, 50, rng.range(1, 60)])
        last = rng.choice([seg, seg, 1, max(1, seg - 1), rng.range(1, seg)])
        clen = min(maxlen, (nseg - 1) * seg + last)
    ecn = rng.choice([0, 1, 2, 2, 3, 3])
    src = {0: [0, 0, 1, 2], 1: [0, 0, 1], 2: [0, 0, 1, 2], 3: [0, 0, 1, 2, 3]}[fam]
    op = [fam, clen, seg, ecn, rng.choice(src), 0 if fam == 1 else rng.choice([0, 0, 1]),
          rng.choice([0, 0, 1, 2]), rng.choice([1, 2, 4, 32, rng.range(1, 32)]), rng.below(256),
          sendmode, 1 if rng.chance(1, 4) else 0, 1 if rng.chance(1, 12) else 0]
    return op


def gen(rng, n):
    cases = []
    for _ in range(n):
        fam = rng.choice([0, 0, 1, 1, 2, 3])
        ops = [gen_op(rng, fam)]
        beyond = ops[0][9] == 0 and 0 < ops[0][2] and (ops[0][1] + ops[0][2] - 1) // ops[0][2] > 128
        if beyond or rng.chance(1, 4):
            o2 = gen_op(rng, fam)
            o2[10] = max(o2[10], ops[0][10])   # GRO stays off once switched off
            o2[11] = max(o2[11], ops[0][11])   # the einval flag is sticky
            ops.append(o2)
        cases.append(ops)
    return cases


def ip_len(kind):
    return {0: 1, 4: 5, 6: 17}.get(kind, 1)


def split_obs(case, outs):
    """-> list of (op, line0, [message lines]) or None if the observation is malformed."""
    res, k = [], 0
    for op in case:
        if k >= len(outs):
            return None
        line0 = outs[k]
        k += 1
        n = line0[6] if line0 and line0[0] == 0 and len(line0) >= 9 else 0
        res.append((op, line0, outs[k:k + n]))
        k += n
    return res if k == len(outs) else None


def msg_chunks(m):
    a = 5
    a += ip_len(m[a]) if len(m) > a else 1
    a += ip_len(m[a]) if len(m) > a else 1
    return m[a:]


def msg_off(m):
    """offset witness: where the hook's lossless encoding says the message starts in the payload"""
    ch = msg_chunks(m)
    return ch[1] if len(ch) >= 3 and ch[0] == 0 else -1


def augment(case, outs):
    """ops for the model: transmit + environment choices; None = not evaluable (setup failed)."""
    obs = split_obs(case, outs)
    if obs is None:
        return None
    ops = []
    for op, line0, msgs in obs:
        if not line0 or line0[0] != 0:
            return None
        fam, clen, seg = op[0], op[1], op[2]
        eff = seg if 0 < seg < clen else clen
        ops.append([1] + op)
        ops.append([2] + line0)
        for m in msgs:
            ops.append([3, m[0], msg_off(m)])
    return ops


def nontrivial(case, outs):
    obs = split_obs(case, outs)
    if not obs:
        return False
    for op, line0, msgs in obs:
        if line0 and line0[0] == 0 and sum(m[0] for m in msgs) == op[1]:
            nd = sum((m[0] + m[1] - 1) // m[1] for m in msgs if m[1] > 0)
            if nd >= 2:
                return True
    return False


def stats(cases, outs):
    d = {"transmits": 0, "setup_failed_not_exercised": 0, "complete": 0, "inconclusive_fewer_received": 0,
         "send_failed": {}, "retried": 0, "gso_transmits_sent": 0, "gso_not_available_not_exercised": 0,
         "caller_split_transmits": 0, "messages": 0, "coalesced_messages_gro": 0, "max_datagrams_in_one_message": 0,
         "datagrams_received": 0, "ecn_requested": 0, "ecn_conveyed": 0, "ecn_missing": 0, "einval_fallback_transmits": 0,
         "halted_gso_after_error": 0, "family": {}, "explicit_src": 0, "alt_dst": 0, "gro_off_transmits": 0,
         "payload_bytes": {"<=100": 0, "<=1500": 0, "<=9000": 0, "<=65527": 0}, "kernel": {}}
    for c, o in zip(cases, outs):
        obs = split_obs(c, o)
        if obs is None:
            d["setup_failed_not_exercised"] += 1
            continue
        for op, line0, msgs in obs:
            d["transmits"] += 1
            if not line0 or line0[0] != 0:
                d["setup_failed_not_exercised"] += 1
                continue
            fam, clen, seg, ecn = op[0], op[1], op[2], op[3]
            d["family"][str(fam)] = d["family"].get(str(fam), 0) + 1
            d["kernel"]["max_gso_segments"] = max(d["kernel"].get("max_gso_segments", 0), line0[1])
            d["kernel"]["gro_segments"] = max(d["kernel"].get("gro_segments", 0), line0[2])
            for lim, key in ((100, "<=100"), (1500, "<=1500"), (9000, "<=9000"), (1 << 20, "<=65527")):
                if clen <= lim:
                    d["payload_bytes"][key] += 1
                    break
            multi = 0 < seg < clen
            if multi and op[9] == 0:
                if line0[1] > 1:
                    d["gso_transmits_sent"] += 1
                else:
                    d["gso_not_available_not_exercised"] += 1
            if multi and op[9] == 1:
                d["caller_split_transmits"] += 1
            if op[4]:
                d["explicit_src"] += 1
            if op[5]:
                d["alt_dst"] += 1
            if op[10]:
                d["gro_off_transmits"] += 1
            if line0[4]:
                d["einval_fallback_transmits"] += 1
            if line0[3] < line0[1]:
                d["halted_gso_after_error"] += 1
            if line0[5] > 1:
                d["retried"] += 1
            got = sum(m[0] for m in msgs)
            if line0[7] > 0:
                key = str(line0[8])
                d["send_failed"][key] = d["send_failed"].get(key, 0) + 1
            elif got == clen:
                d["complete"] += 1
            else:
                d["inconclusive_fewer_received"] += 1
            for m in msgs:
                d["messages"] += 1
                nd = (m[0] + m[1] - 1) // m[1] if m[1] > 0 else 0
                d["datagrams_received"] += nd
                d["max_datagrams_in_one_message"] = max(d["max_datagrams_in_one_message"], nd)
                if m[0] > m[1]:
                    d["coalesced_messages_gro"] += 1
                if ecn:
                    d["ecn_requested"] += 1
                    if m[2] == ecn:
                        d["ecn_conveyed"] += 1
                    elif m[2] == 0:
                        d["ecn_missing"] += 1
    d["kernel"]["gso_exercised"] = d["gso_transmits_sent"] > 0
    d["kernel"]["gro_exercised"] = d["coalesced_messages_gro"] > 0
    return d


def classify(case, outs):
    """Known class: a GRO-coalesced message (len > stride) arrives without the requested ECN codepoint
    because the receive control buffer (cmsg::LEN = 96) is too small for TIMESTAMPNS + UDP_GRO + PKTINFO + TOS."""
    obs = split_obs(case, outs)
    if not obs:
        return None
    hit = False
    for op, line0, msgs in obs:
        for m in msgs:
            if op[3] and m[2] != op[3]:
                v4wire = op[0] != 1
                if m[0] > m[1] and m[2] == 0:
                    hit = True
                elif v4wire and line0[4]:
                    continue      # documented einval fallback
                else:
                    return None   # some other ECN loss: not the known class
    return KNOWN_KEY if hit else None


def step(res, binp, tier, seed, workdir):
    """The `extra` step of checks/C19.py."""
    from lib import runner
    pid = res.pid
    n = N[tier] if tier in N else N["quick"]
    rng = qv.Rng(seed).fork(COMP)
    t0 = time.time()
    okm, mlog = qv.coq_make(["Model/UdpLoop.vo", "Lib/Corr.vo"])
    if not okm:
        res.notes.append("model build failed: " + mlog[-1500:])
    cases = gen(rng, n)
    # real sockets: run with little parallelism so that loopback queues never overflow
    outs = []
    for i in range(0, len(cases), 64):
        outs += qv.run_impl(binp, COMP, cases[i:i + 64], subcmd=SUBCMD, timeout=600)
    aug, idx = [], []
    for i, (c, o) in enumerate(zip(cases, outs)):
        a = augment(c, o) if o != qv.PANIC_OUT and o not in ([[-997]], [[-998]]) else None
        if a is not None:
            aug.append(a)
            idx.append(i)
    crashed = [i for i, o in enumerate(outs) if o == qv.PANIC_OUT or o in ([[-997]], [[-998]])]
    fails, errs = qv.coq_eval_cases(MODULE, aug, [outs[i] for i in idx], workdir, shard=SHARD)
    nontriv = len({json.dumps(c) for c, o in zip(cases, outs) if nontrivial(c, o)})
    cov = {"evaluations": len(cases), "evaluated_in_coq": len(aug), "distinct_nontrivial": nontriv,
           "rule": RULE, "model": MODULE, "wall_s": round(time.time() - t0, 1),
           "panics": len(crashed), "distribution": stats(cases, outs), "relational": True}
    res.coverage["components"][COMP] = cov
    res.coverage["evaluations"] += len(cases)
    res.coverage["distinct_nontrivial"] += nontriv
    res.coverage["traces_validated_against_impl"] += len(aug)
    for j in range(min(2, len(aug))):
        res.coverage["samples"].append({"component": COMP, "ops": [l[:16] for l in aug[j][:6]],
                                        "impl_outputs": [l[:24] for l in outs[idx[j]][:4]]})
    if errs:
        p = runner.write_replay(pid, f"{COMP}-coqerror", {
            "property": pid, "component": COMP, "kind": "correspondence-evaluation-error", "errors": errs[:3]})
        res.violations.append((p, " no-failing-input-found"))
        return
    if crashed:
        i = crashed[0]
        p = runner.write_replay(pid, f"{COMP}-crash-{seed}", {
            "property": pid, "component": COMP, "kind": "implementation-panicked-or-hung",
            "transmit_case": cases[i], "impl_outputs": outs[i], "seed": seed})
        res.violations.append((p, ""))
    known = qv.load_known(pid)
    code2 = [(k, c) for k, c in fails if c == 2]
    code1 = [(k, c) for k, c in fails if c == 1]
    if fails:
        runner.log(f"[{pid}] {COMP}: {len(code1)} model/implementation disagreements, "
                   f"{len(code2)} cases where the property oracle fails on the implementation")
    unknown = []
    for k, c in code2 + code1:
        key = classify(cases[idx[k]], outs[idx[k]])
        if key is not None and key in known:
            if key not in [x for x, _ in res.known]:
                res.known.append((key, known[key]))
        else:
            unknown.append((k, c))
    if unknown:
        # smallest failing transmit first
        unknown.sort(key=lambda kc: (-kc[1], sum(op[1] for op in cases[idx[kc[0]]])))
        k, c = unknown[0]
        i = idx[k]
        mo = qv.coq_model_output(MODULE, aug[k], workdir)
        p = runner.write_replay(pid, f"{COMP}-{seed}", {
            "property": pid, "component": COMP,
            "kind": "property-oracle-fails-on-implementation" if c == 2 else "correspondence-broken",
            "seed": seed, "transmit_case": cases[i], "model_ops": [l[:40] for l in aug[k]],
            "impl_outputs": [l[:64] for l in outs[i]], "model_outputs": [l[:64] for l in (mo or [])],
            "classified_as": classify(cases[i], outs[i]), "failing_cases": len(unknown),
            "how_to_replay": f"printf '%s\\n#\\n' | qvh udp udp_loop   with one op per line: {cases[i]}; "
                             f"or ./check {pid} --seed {seed}"})
        res.violations.append((p, "" if c == 2 else " no-failing-input-found"))


N = {"quick": 600, "thorough": 12000}
