"""Generator for `antiamp` (PathData::anti_amplification_blocked + byte counters vs coq/Model/AntiAmp.v)."""
from lib import qv

RULE = ("histories new-path(validated) / recv(n) / first-packet(n) / sent(n) / blocked?(bytes) / budget probe / "
        "poll_transmit batches (segment size, max datagrams, wanted datagram sizes) on a real PathData: receive "
        "sizes 1..1500 incl. exactly 1200, queries at the exact boundary 3*recvd - sent and one above, batches that "
        "exhaust the budget mid-way, validated paths, rare counters near 2^64/3 and 2^64 (overflow panics, "
        "saturation); non-trivial = an unvalidated path had a batch cut short by the predicate and a blocked? "
        "query answered each way")


def gen_case(rng):
    ops = []
    v = 1 if rng.chance(1, 8) else 0
    ops.append([0, v])
    r = s = 0
    huge = rng.chance(1, 25)
    for _ in range(rng.range(6, 40)):
        k = rng.below(100)
        if k < 22:
            n = rng.choice([1, 40, 1199, 1200, 1200, 1201, 1452, rng.below(1500), rng.below(70000)])
            if huge and rng.chance(1, 4):
                n = rng.choice([(1 << 64) // 3, (1 << 64) // 3 + 1, (1 << 64) - 1, (1 << 63), 6148914691236517205 - r])
                n = max(0, n)
            ops.append([1, n])
            r = min(r + n, (1 << 64) - 1)
        elif k < 25:
            n = rng.choice([1200, 1199, rng.below(1500)])
            ops.append([2, n])
            r = n
        elif k < 38:
            n = rng.choice([1, 1200, 3600, rng.below(5000)])
            if huge and rng.chance(1, 4):
                n = rng.choice([(1 << 64) - 1, (1 << 64) - 1 - s, (1 << 64) - 2 - s, 1 << 63])
                n = max(0, n)
            ops.append([3, n])
            s = min(s + n, (1 << 64) - 1)
        elif k < 62:
            edge = 3 * r - s
            b = rng.choice([edge, edge + 1, edge - 1, 1, 0, 1200, 1201, rng.below(5000)])
            ops.append([4, max(0, min(b, (1 << 64) - 1))])
        elif k < 70:
            ops.append([5])
        elif k < 95:
            seg = rng.choice([1200, 1200, 1452, 1500, 9000, 600])
            mx = rng.choice([1, 2, 10, 10, 64])
            d0 = rng.choice([seg, seg, seg - rng.below(200), 1 + rng.below(seg)])
            cnt = rng.choice([1, 1, 2, 3, 8, 12])
            ds = [d0] * cnt
            if cnt > 1 and rng.chance(1, 2):
                ds[-1] = 1 + rng.below(d0)
            ops.append([6, seg, mx] + ds)
            # mirror (unvalidated, no overflow) to keep r, s roughly right for boundary queries
            n = 0
            sg = seg
            tot = 0
            for d in ds:
                if n >= mx or (not v and 3 * r < s + sg * n + 1):
                    break
                tot += d
                n += 1
                if n == 1:
                    sg = d
            s = min(s + tot, (1 << 64) - 1)
        else:
            v = rng.below(2)
            ops.append([7, v])
    return ops


def gen(rng, n):
    return [gen_case(rng) for _ in range(n)]


def nontrivial(case, outs):
    if outs == qv.PANIC_OUT:
        return False
    cut = False
    ans = set()
    for op, o in zip(case, outs):
        if op[0] == 6 and len(o) == 3 and o[0] < min(op[2], len(op) - 3):
            cut = True
        if op[0] == 4:
            ans.add(o[0])
    return cut and len(ans) == 2


def stats(cases, outs):
    d = {"ops": {}, "panics": 0, "blocked_yes": 0, "blocked_no": 0, "batches_cut": 0, "batches_full": 0,
         "batches_zero": 0, "budget_negative": 0}
    for c, o in zip(cases, outs):
        if o == qv.PANIC_OUT:
            d["panics"] += 1
            continue
        for op, ob in zip(c, o):
            d["ops"][str(op[0])] = d["ops"].get(str(op[0]), 0) + 1
            if op[0] == 4:
                d["blocked_yes" if ob[0] else "blocked_no"] += 1
            if op[0] == 5 and ob[0] < 0:
                d["budget_negative"] += 1
            if op[0] == 6 and len(ob) == 3:
                want = min(op[2], len(op) - 3)
                if ob[0] == 0:
                    d["batches_zero"] += 1
                elif ob[0] < want:
                    d["batches_cut"] += 1
                else:
                    d["batches_full"] += 1
    return d
