"""Generator for the `ack_frequency` component (AckFrequencyState in quinn-proto/src/connection/ack_frequency.rs vs coq/Model/AckFrequency.v)."""
RULE = ("ops: new(peer max_ack_delay) / candidate_max_ack_delay(rtt, config max_ack_delay, peer min_ack_delay) / "
        "next_sequence_number / ack_frequency_sent / on_acked / ack_frequency_received / should_send; only "
        "parameter sets that transport-parameter validation admits (max_ack_delay < 2^14 ms, min_ack_delay <= "
        "max_ack_delay); rtt and min_ack_delay placed around 25 ms and around each other; requested delays "
        "around the 1 ms timer granularity; non-trivial = the case evaluates a candidate with "
        "min_ack_delay > max(rtt, 25 ms) (the F4 class) and one with min_ack_delay <= rtt, and receives "
        "both an accepted and a rejected ACK_FREQUENCY frame")

MS = 1000


def pick_params(rng, max_ad):
    """(rtt, cfg, min_ack_delay) admitted by validation: min_ack_delay <= max_ad (peer max_ack_delay, us)."""
    m = rng.below(10)
    if m < 2:
        mad = -1
    elif m < 5:
        mad = min(max_ad, rng.choice([0, 1, 1000, 24999, 25000, 25001, 26000, 100000, max_ad]))
    else:
        mad = rng.below(max_ad + 1)
    r = rng.below(10)
    if r < 3:
        rtt = rng.choice([0, 1, 24999, 25000, 25001, 100000, 333000])
    elif r < 6 and mad >= 0:
        rtt = max(0, mad + rng.range(-2, 2))
    else:
        rtt = rng.below(1 << rng.range(1, 24))
    c = rng.below(10)
    if c < 5:
        cfg = -1
    elif c < 8:
        cfg = rng.choice([0, 1000, 25000, 26000, 1_000_000, max(0, mad), max(0, rtt)])
    else:
        cfg = rng.below(1 << rng.range(1, 30))
    return rtt, cfg, mad


def gen_case(rng):
    max_ad = rng.choice([25 * MS, 25 * MS, 0, 1 * MS, 26 * MS, 100 * MS, 16383 * MS, rng.below(16384) * MS])
    ops = [[0, max_ad]]
    pn = 0
    seq = 0
    for _ in range(rng.range(4, 30)):
        k = rng.below(20)
        if k < 7:
            ops.append([1, *pick_params(rng, max_ad)])
        elif k < 9:
            ops.append([2])
        elif k < 11:
            pn += rng.range(1, 3)
            ops.append([3, pn, rng.choice([25 * MS, 1 * MS, rng.below(1 << 24)])])
        elif k < 13:
            ops.append([4, max(0, pn - rng.below(2))])
        elif k < 17:
            seq += rng.choice([1, 1, 0, -1, 2])
            seq = max(0, seq)
            req = min(rng.choice([0, 999, 1000, 1001, 25 * MS, rng.boundary(), rng.below(1 << 20)]), (1 << 62) - 1)
            ops.append([5, seq, rng.below(10), req, rng.below(4)])
        else:
            ops.append([6, *pick_params(rng, max_ad)])
    return ops


def gen(rng, n):
    return [gen_case(rng) for _ in range(n)]


def f4_class(op):
    return op[0] in (1, 6) and op[3] > max(op[1], 25 * MS)


def nontrivial(case, outs):
    f4 = any(op[0] == 1 and f4_class(op) for op in case)
    low = any(op[0] == 1 and 0 <= op[3] <= op[1] for op in case)
    if outs == [[-999]]:
        return False
    acc = any(op[0] == 5 and o[0] == 0 and o[1] == 1 for op, o in zip(case, outs))
    rej = any(op[0] == 5 and o[0] == 1 for op, o in zip(case, outs))
    return f4 and low and acc and rej


def stats(cases, outs):
    d = {"candidate": 0, "candidate_min_above_upper": 0, "candidate_clamped_low": 0, "candidate_clamped_high": 0,
         "should_send": 0, "next_seq": 0, "sent": 0, "acked": 0, "received_ok": 0, "received_stale": 0,
         "received_rejected": 0, "panic_cases": 0}
    for c, o in zip(cases, outs):
        if o == [[-999]]:
            d["panic_cases"] += 1
            continue
        for op, r in zip(c, o):
            if op[0] == 1:
                d["candidate"] += 1
                if f4_class(op):
                    d["candidate_min_above_upper"] += 1
                if op[3] >= 0 and r[1] == op[3]:
                    d["candidate_clamped_low"] += 1
                if r[1] == max(op[1], 25 * MS):
                    d["candidate_clamped_high"] += 1
            elif op[0] == 2:
                d["next_seq"] += 1
            elif op[0] == 3:
                d["sent"] += 1
            elif op[0] == 4:
                d["acked"] += 1
            elif op[0] == 5:
                if r[0] == 1:
                    d["received_rejected"] += 1
                elif r[1] == 1:
                    d["received_ok"] += 1
                else:
                    d["received_stale"] += 1
            elif op[0] == 6:
                d["should_send"] += 1
    return d


def classify(case, outs):
    """F4: the case panics and contains a candidate evaluation with min_ack_delay > max(rtt, 25 ms)."""
    if outs == [[-999]] and any(f4_class(op) for op in case):
        return "F4-ack-frequency-clamp-min-above-max"
    return None
