"""C04 system level: duplicated, replayed, corrupted and forged datagrams; coq/Sys/MonC04.v."""
from . import simlib as S
SUBCMD = "sim"
IS_TRACE = True
RUN = "monitor"
TAGS = {2, 4, 5, 8, 10, 11}
RULE = ("every datagram may be duplicated 1-3 times at later instants (incl. the connection-creating Initial via a "
        "duplication mask over the first datagrams), replayed from the same or from an attacker address, bit-flipped, "
        "truncated, extended, or replaced by random bytes, interleaved with key updates; resumption while the previous connection's datagrams are replayed (stateless resets and forged Initial-shaped datagrams carrying the OLD connection's reset tokens), server restarts (genuine resets); forged resets carrying the token of a server CID the client has retired; non-trivial = at least 3 "
        "duplicated/replayed/corrupted datagrams reached an endpoint")


def gen(rng, n):
    cases = []
    for i in range(n):
        d = S.base(rng, small=True)
        d["DUP"] = rng.choice([0, 100, 300, 1000])
        d["DUP_MASK"] = rng.below(1 << rng.range(1, 10)) if rng.chance(2, 3) else 0
        d["REPLAY"] = rng.choice([0, 100, 400])
        d["SPOOF"] = rng.choice([0, 100, 300])
        d["CORRUPT"] = rng.choice([0, 20, 100])
        d["GARBAGE"] = rng.choice([0, 100, 300])
        d["DELAY_MAX"] = d["DELAY_MIN"] * rng.choice([1, 3])
        d["LOSS"] = rng.choice([0, 0, 50])
        d["MIGRATION_ALLOWED"] = rng.choice([1, 1, 0])
        if rng.chance(1, 3):
            d["KEYUPD_C"] = rng.range(20000, 200000)
        if rng.chance(1, 3):
            d["KEYUPD_S"] = rng.range(20000, 200000)
        if rng.chance(1, 3):
            d["RETRY"] = 1
        if rng.chance(1, 4):
            d["NCONNS"] = rng.range(2, 3)
        if rng.chance(1, 4):
            d["NDGRAM"] = rng.range(1, 10)
        d["CLOSER"] = 0
        m = rng.below(8)
        if m == 0:
            # resumption while datagrams of the PREVIOUS connection are replayed: the server answers them
            # with stateless resets carrying the old connection's tokens, which must not end the new one
            d["ZERO_RTT"] = rng.choice([1, 1, 2])
            d["NCONNS"] = 1
            d["REPLAY"] = rng.choice([400, 800])
            d["RESET_FORGE"] = 1
            d["SPOOF"] = 0
            d["CORRUPT"] = 0
            d["GARBAGE"] = 0
            d["LOSS"] = 0
            d["DUP"] = 0
            d["DUP_MASK"] = 0
            d.pop("RETRY", None)
            d.pop("KEYUPD_C", None)
            d.pop("KEYUPD_S", None)
            if d.get("CID_LEN") == 0:
                d["CID_LEN"] = 8
        elif m == 2:
            # the client moves and thereby switches to a fresh server CID (the first one is retired); a
            # forged datagram ending in the reset token of the RETIRED CID must not end the connection
            d = S.base(rng, small=False)
            d["DELAY_MIN"] = d["DELAY_MAX"] = rng.choice([5000, 10000, 30000])
            d["STREAM_BYTES"] = rng.choice([300000, 1000000])
            d["WRITE_CHUNK"] = 100000
            d["READ_MAX"] = 100000
            d["NBIDI"] = 1
            d["ECHO_BYTES"] = rng.choice([0, 100000])
            d["MIGRATE_AT"] = 2 * d["DELAY_MIN"] * rng.range(4, 8)
            d["MIGRATE_KIND"] = rng.below(2)
            d["RESET_FORGE"] = 2
            d["CLOSER"] = 0
        elif m == 3:
            # a local close while the attacker forges Retry / Version Negotiation packets whose payload
            # reads as a CONNECTION_CLOSE frame: a closing connection must not start draining on them
            d["CLOSE_AT"] = rng.choice([60000, 150000, 400000])
            d["CLOSER"] = rng.below(2)
            d["RESET_FORGE"] = 3
            d["NCONNS"] = 1
            d["LOSS"] = rng.choice([0, 100, 300])
            d["STREAM_BYTES"] = rng.choice([20000, 100000])
            d["WRITE_CHUNK"] = 5000
            d["READ_MAX"] = 1024
            d["CORRUPT"] = 0
        elif m == 1:
            # the server process restarts: genuine stateless resets end exactly the connections whose
            # datagrams provoked them
            d["FORGET_AT"] = rng.choice([50000, 100000, 200000])
            d["STREAM_BYTES"] = max(d["STREAM_BYTES"], 20000)
            d["CORRUPT"] = 0
            d["IDLE_MS"] = 3000
            d["MAX_TIME"] = 20_000_000
        cases.append(S.case_of(d))
    return cases


def project(case, outs):
    # keep only the last probe of each connection (statistics) to keep the trace small
    if outs == [[-999]]:
        return outs
    outs_x = list(enumerate(S.with_unprotected_probes(outs)))
    last = {}
    for i, r in outs_x:
        if r[0] == 8:
            last[(r[2], r[3])] = i
    keep = set(last.values())
    res = [r for i, r in outs_x if (r[0] in (2, 4, 11, 19)) or r[0] == 18 or (r[0] == 5 and r[4] == 1) or (r[0] == 3 and r[4] in (11, 20, 21)) or (r[0] == 13 and r[2] == 11) or (r[0] == 8 and i in keep)]
    res.sort(key=lambda r: 0)  # stable
    probes = [r for r in res if r[0] == 8]
    others = [r for r in res if r[0] != 8]
    end = [r for r in outs if r[0] in (10, 16)]
    return others + probes + end


def nontrivial(case, outs):
    return sum(1 for r in outs if r[0] == 2 and r[9] in (2, 3, 5, 6, 7)) >= 3


def stats(cases, outs):
    st = S.trace_stats(cases, outs)
    kinds = {}
    for o in outs:
        for r in o:
            if r[0] == 2:
                kinds[str(r[9])] = kinds.get(str(r[9]), 0) + 1
    st["delivered_by_kind"] = kinds
    return st


describe = S.describe
