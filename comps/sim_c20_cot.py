"""C20 "a drained connection produces no further output", adversarial scheduling: the application closes in the very
driver iteration in which the CID-rotation timer (PushNewCid) expired - after handle_timeout queued NeedIdentifiers,
before the endpoint's NewIdentifiers answer is delivered - so that the answer re-arms the timer on a closed connection.
The simulator keeps servicing the deadlines of drained connections; any transmit, application event or endpoint event
of a drained connection is rejected by coq/Sys/MonC20.v. Twin variant 1 (identical replay) on top."""
from .sim_c20 import *   # noqa: F401,F403
from . import simlib as S


def gen(rng, n):
    cases = []
    for i in range(n):
        d = S.base(rng, small=True)
        d["DELAY_MIN"] = d["DELAY_MAX"] = rng.choice([1000, 10000, 30000])
        d["CID_LIFETIME_MS"] = rng.choice([50, 200])
        d["CLOSE_ON_TIMER"] = 8
        d["CLOSE_ON_TIMER_N"] = rng.range(1, 3)
        d["CLOSER"] = rng.choice([0, 1, 2])
        d["CLOSE_AT"] = 4_000_000
        d["MAX_TIME"] = 5_000_000
        d["IDLE_MS"] = 3000
        if rng.chance(1, 3):
            d["KEEPALIVE_MS"] = 300
        if rng.chance(1, 3):
            d["CID_LEN"] = rng.choice([4, 20])
        if i % 3 == 2:
            # the peer's process restarts while this side is closing: a genuine stateless reset drains
            # the connection early; whatever timer was armed for the closing period must not fire later
            d.pop("CLOSE_ON_TIMER", None)
            d.pop("CLOSE_ON_TIMER_N", None)
            d.pop("CID_LIFETIME_MS", None)
            d["CLOSER"] = 0
            d["STREAM_BYTES"] = 100000
            d["WRITE_CHUNK"] = 100000
            d["READ_MAX"] = 100000
            d["NBIDI"] = 1
            d["DELAY_MIN"] = d["DELAY_MAX"] = rng.choice([10000, 30000])
            t = 2 * d["DELAY_MIN"] * rng.range(4, 8)
            d["CLOSE_AT"] = t
            d["FORGET_AT"] = t + rng.choice([1000, 20000])
            d["REPLAY"] = rng.choice([300, 600])
            d["IDLE_MS"] = 1000
        d["TWIN"] = 1
        cases.append(S.case_of(d))
    return cases
