"""Generator for the `stream_sm` component (StreamsState stream state machine vs coq/Model/StreamSM.v + StreamSpec.v), C11."""
RULE = ("op 0 configures side and stream limits; then application ops (open, accept, write, finish, reset, stopped, "
        "read ordered/unordered, stop, received_reset, poll) interleaved with peer frames (STREAM incl. FIN, duplicates, "
        "FIN-then-more-data, frames for not yet opened streams which implicitly open lower ones, RESET_STREAM incl. after FIN, "
        "STOP_SENDING), transmission of pending stream frames, acknowledgement or loss of previously sent frames in any order, "
        "reset acknowledgements and control-frame transmission; both directions (uni/bi) and both initiators; windows large so "
        "that flow control rarely interferes (that is C06); non-trivial = at least one send half and one receive half reach a "
        "terminal outcome (Finished event / reset acked / end of stream / reset read / stopped with known final size) and an "
        "operation is attempted on a terminal or never-opened half")

NG = 22


def sid(init, d, idx):
    return idx * 4 + d * 2 + init


def gen_case(rng):
    side = rng.below(2)
    other = 1 - side
    mru, mrb = rng.range(0, 3), rng.range(0, 3)
    if rng.chance(1, 8):
        rw, srw = rng.choice([16, 64]), rng.choice([8, 16])
    else:
        rw, srw = rng.choice([1000, 1 << 20]), rng.choice([200, 1 << 16])
    pmb, pmu = rng.range(0, 3), rng.range(0, 3)
    send_script = rng.chance(2, 3)
    recv_script = rng.chance(2, 3)
    if send_script:
        pmb, pmu = max(pmb, 1), max(pmu, 1)
    if recv_script:
        mru = max(mru, 1)
    ops = [[0, side, mru, mrb, rw, srw, pmb, pmu]]
    opened = {0: 0, 1: 0}
    ends = {}
    ids = []

    def any_id():
        k = rng.below(10)
        if ids and k < 6:
            return rng.choice(ids)
        if k < 8:
            d = rng.below(2)
            return sid(other, d, rng.below([mrb, mru][d] + 2))
        d = rng.below(2)
        return sid(side, d, rng.below(opened[d] + 2))

    def send_id():
        i = send_id0()
        # operating on a remote bidirectional stream before accept() is API misuse (send_streams underflows): rare
        if i % 2 == other and (i // 2) % 2 == 0 and i // 4 >= acc_bi and not rng.chance(1, 12):
            return send_id0() if acc_bi == 0 else sid(other, 0, rng.below(acc_bi))
        return i

    def send_id0():
        # ids with a send half: local streams, remote bidi
        k = rng.below(10)
        if k < 5 and (opened[0] or opened[1]):
            d = rng.below(2)
            if opened[d] == 0:
                d = 1 - d
            return sid(side, d, rng.below(opened[d]))
        if k < 8 and mrb:
            return sid(other, 0, rng.below(mrb + 1))
        return any_id()

    def recv_id():
        k = rng.below(10)
        if k < 4 and mru:
            return sid(other, 1, rng.below(mru + 1))
        if k < 7 and mrb:
            return sid(other, 0, rng.below(mrb + 1))
        if k < 9 and opened[0]:
            return sid(side, 0, rng.below(opened[0]))
        return any_id()

    used_bi = 0
    acc_bi = 0
    logn = 0
    if send_script:
        # scripted history of one send half: several STREAM frames transmitted separately, FIN,
        # selective / out-of-order acks, reset at a random point (incl. right after the FIN was
        # acknowledged with data outstanding), a second reset, the remaining acks, then probes.
        d = rng.below(2)
        a_id = sid(side, d, 0)
        ops.append([8, d])
        opened[d] = 1
        ids.append(a_id)
        if rng.chance(2, 3):
            # ballast: unacknowledged data on another stream
            ops.append([8, 1 - d])
            opened[1 - d] = 1
            b_id = sid(side, 1 - d, 0)
            ids.append(b_id)
            ops.append([10, b_id, 60])
            ops.append([15])
            logn += 1
        mine = []
        for _j in range(rng.range(1, 3)):
            ops.append([10, a_id, rng.choice([1, 3, 7, 12])])
            ops.append([15])
            mine.append(logn)
            logn += 1
        if rng.chance(1, 4):
            lost = rng.choice(mine)
            ops.append([19, lost])
            ops.append([15])
            mine.remove(lost)
            mine.append(logn)
            logn += 1
        fin_idx = None
        if rng.chance(5, 6):
            ops.append([11, a_id])
            ops.append([15])
            fin_idx = logn
            logn += 1
        order = list(mine)
        # shuffle
        for j in range(len(order) - 1, 0, -1):
            k2 = rng.below(j + 1)
            order[j], order[k2] = order[k2], order[j]
        if fin_idx is not None:
            if rng.chance(1, 2):
                order.insert(0, fin_idx)      # the packet carrying the FIN is acknowledged first
            else:
                order.insert(rng.below(len(order) + 1), fin_idx)
        m = rng.below(8)
        if m < 3 and fin_idx is not None:
            reset_at = order.index(fin_idx) + 1
        elif m < 7:
            reset_at = rng.below(len(order) + 1)
        else:
            reset_at = None
        for j, idx in enumerate(order + [None]):
            if reset_at == j:
                ops.append([12, a_id, rng.below(4)])
                if rng.chance(2, 3):
                    ops.append([12, a_id, rng.below(4)])
                if rng.chance(1, 3):
                    ops.append([11, a_id])
                if rng.chance(1, 3):
                    ops.append([17, a_id])
            if idx is not None:
                ops.append([16, idx])
        ops.append([18])
        ops.append([18])
        ops.append([rng.choice([10, 11, 12, 13]), a_id] + ([2] if rng.chance(1, 2) else [0]))
        if ops[-1][0] in (11, 13):
            ops[-1] = ops[-1][:2]
    if recv_script:
        r_id = sid(other, 1, 0)
        ids.append(r_id)
        n1 = rng.choice([0, 1, 4, 9])
        m = rng.below(4)
        if m == 0:
            ops.append([1, r_id, 0, n1, 1])
        elif m == 1:
            ops.append([1, r_id, 0, n1, 0])
            ops.append([1, r_id, n1, 3, 1])
        elif m == 2:
            ops.append([1, r_id, 0, n1, 0])
            ops.append([2, r_id, rng.below(4), n1 + rng.below(3)])
        else:
            ops.append([1, r_id, 0, n1, 0])
            ops.append([4, r_id, 1])
            ops.append([1, r_id, n1, 2, 1])
        ends[r_id] = n1 + 3
        if rng.chance(1, 2):
            ops.append([18])
            ops.append([9, 1])
        ops.append([3, r_id, 1, rng.choice([1 << 20, 1 << 20, 2])])
        ops.append([3, r_id, 1, 1 << 20])
        ops.append([rng.choice([3, 4, 5]), r_id, 1, 5][:rng.choice([2, 4])])
        if ops[-1][0] == 3 and len(ops[-1]) == 2:
            ops[-1] = [3, r_id, 1, 5]
        if ops[-1][0] == 4:
            ops[-1] = [4, r_id, 0]
        if ops[-1][0] == 5:
            ops[-1] = [5, r_id]
    for _ in range(rng.range(4, 30)):
        k = rng.below(100)
        if len(ops) > 70:
            break
        if rng.chance(1, 12):
            # burst: write, finish, transmit, acknowledge everything sent so far
            i = send_id()
            if not (i % 2 == other and i // 4 >= acc_bi):
                ops.append([10, i, rng.choice([1, 4, 9])])
                if rng.chance(3, 4):
                    ops.append([11, i])
                ops.append([15])
                logn += 2
                if rng.chance(1, 4) and logn:
                    ops.append([19, rng.below(logn)])
                    ops.append([15])
                    logn += 1
                for j in range(min(logn, 10)):
                    ops.append([16, j if rng.chance(3, 4) else rng.below(logn)])
                ops.append([18])
                continue
        if k < 7:
            d = rng.below(2)
            ops.append([8, d])
            if opened[d] < [pmb, pmu][d]:
                ids.append(sid(side, d, opened[d]))
                opened[d] += 1
        elif k < 11:
            d = rng.below(2)
            ops.append([9, d])
            if d == 0 and acc_bi < used_bi:
                acc_bi += 1
        elif k < 21:
            ops.append([10, send_id(), rng.choice([0, 1, 1, 3, 8, 20])])
        elif k < 26:
            ops.append([11, send_id()])
        elif k < 29:
            ops.append([12, send_id(), rng.below(4)])
        elif k < 32:
            ops.append([13, send_id()])
        elif k < 36:
            ops.append([14, send_id(), rng.below(4)])
        elif k < 44:
            ops.append([15])
            logn += 2
        elif k < 54:
            ops.append([16, rng.below(max(1, logn))])
        elif k < 57:
            ops.append([19, rng.below(max(1, logn))])
        elif k < 60:
            ops.append([17, send_id()])
        elif k < 74:
            i = recv_id()
            e0 = ends.get(i, 0)
            m = rng.below(10)
            if m < 5:
                off = e0
            elif m < 7:
                off = max(0, e0 - rng.range(0, 4))
            elif m < 9:
                off = e0 + rng.range(1, 4)
            else:
                off = 0
            ln = rng.choice([0, 1, 2, 5, 9])
            fin = 1 if rng.chance(1, 3) else 0
            ops.append([1, i, off, ln, fin])
            ends[i] = max(e0, off + ln)
            if i % 2 == other and (i // 2) % 2 == 0:
                used_bi = max(used_bi, min(i // 4 + 1, mrb))
            if i not in ids:
                ids.append(i)
        elif k < 78:
            i = recv_id()
            e0 = ends.get(i, 0)
            ops.append([2, i, rng.below(4), max(0, e0 + rng.choice([0, 0, 0, 1, 3, -1]))])
        elif k < 88:
            i = recv_id()
            b = rng.choice([1 << 20, 1 << 20, 0, 1, 3, 9])
            ops.append([3, i, 0 if rng.chance(1, 5) else 1, b])
        elif k < 91:
            ops.append([4, recv_id(), rng.below(4)])
        elif k < 93:
            ops.append([5, recv_id()])
        elif k < 98:
            ops.append([18])
        else:
            ops.append([7, rng.below(2), rng.below(2), rng.below(2)])
    return ops


def gen(rng, n):
    return [gen_case(rng) for _ in range(n)]


def nontrivial(case, outs):
    if outs == [[-999]] or len(outs) != len(case):
        return False
    send_term = recv_term = closed_op = False
    for op, o in zip(case, outs):
        if op[0] == 18 and o[0] == 4:
            send_term = True
        if op[0] == 17 and len(o) > 5 + NG + 8 and o[5 + NG + 8] == 0:
            send_term = True
        if op[0] == 3 and o[0] == 0 and o[2] in (2, 3):
            recv_term = True
        if op[0] in (1, 2, 4) and o[0] == 0 and len(o) > 5 + NG and o[5 + NG] == 0:
            recv_term = True
        if op[0] in (3, 4, 5) and o[0] == 1:
            closed_op = True
        if op[0] in (10, 11, 12, 13) and o[0] == 3:
            closed_op = True
    return send_term and recv_term and closed_op


def stats(cases, outs):
    names = {0: "config", 1: "stream", 2: "reset_stream", 3: "read", 4: "stop", 5: "received_reset", 7: "control",
             8: "open", 9: "accept", 10: "write", 11: "finish", 12: "reset", 13: "stopped", 14: "stop_sending",
             15: "flush", 16: "ack", 17: "reset_acked", 18: "poll", 19: "loss"}
    d = {"ops": {}, "results": {}, "events": {}, "panics": 0, "frames_sent": 0, "streams_freed": 0}
    for c, os_ in zip(cases, outs):
        if os_ == [[-999]]:
            d["panics"] += 1
            continue
        prev = None
        for op, o in zip(c, os_):
            nm = names.get(op[0], str(op[0]))
            d["ops"][nm] = d["ops"].get(nm, 0) + 1
            if op[0] in (3, 4, 5, 8, 9, 10, 11, 12, 13, 16, 19):
                key = nm + ":" + str(o[0]) + (":" + str(o[2]) if op[0] == 3 and o[0] == 0 else "")
                d["results"][key] = d["results"].get(key, 0) + 1
            if op[0] == 18:
                d["events"][str(o[0])] = d["events"].get(str(o[0]), 0) + 1
            if op[0] == 15:
                d["frames_sent"] += o[1]
            if len(o) >= 5 + NG:
                mr = o[5 + 5] + o[5 + 6]
                if prev is not None and mr > prev:
                    d["streams_freed"] += mr - prev
                prev = mr
    return d


def classify(case, outs):
    return None
