"""TimerTable (quinn-proto/src/connection/timer.rs) against coq/Model/TimerTable.v."""
RULE = ("random set/stop/get/next_timeout/is_expired/dump sequences over the nine timers with deadlines clustered around a "
        "few instants (ties, equal deadlines, re-arming, stop of unset timers) plus malformed ops (timer index out of range, "
        "negative time); non-trivial = at least two timers armed at some next_timeout query and one is_expired in each outcome")
SHARD = 250


def gen(rng, n):
    cases = []
    for _ in range(n):
        anchors = [rng.below(1 << rng.range(1, 40)) for _ in range(3)]

        def t():
            k = rng.below(10)
            if k < 6:
                return max(0, rng.choice(anchors) + rng.range(-2, 2))
            if k < 8:
                return rng.below(1000)
            if k < 9:
                return rng.choice([0, 1, (1 << 50), (1 << 50) - 1])
            return rng.below(1 << 50)

        ops = []
        for _ in range(rng.range(5, 60)):
            k = rng.below(20)
            tm = rng.below(9)
            if k < 7:
                ops.append([0, tm, t()])
            elif k < 9:
                ops.append([1, tm])
            elif k < 11:
                ops.append([2, tm])
            elif k < 14:
                ops.append([3])
            elif k < 17:
                ops.append([4, tm, t()])
            elif k < 18:
                ops.append([5])
            else:
                ops.append(rng.choice([[0, 9, 5], [0, -1, 5], [1, 9], [2, 10], [4, 9, 1], [0, 3, -1], [4, 3, -5], [7], [0, 1],
                                       [3, 1], [0, tm, (1 << 50) + 1]]))
        cases.append(ops)
    return cases


def nontrivial(case, outs):
    armed = set()
    two = False
    exp = set()
    for op, o in zip(case, outs):
        if o == [-2]:
            continue
        if op[0] == 0:
            armed.add(op[1])
        elif op[0] == 1:
            armed.discard(op[1])
        elif op[0] == 3 and len(armed) >= 2:
            two = True
        elif op[0] == 4:
            exp.add(o[0])
    return two and exp == {0, 1}


def stats(cases, outs):
    mix = {}
    bad = 0
    for c, o in zip(cases, outs):
        for op, x in zip(c, o):
            mix[str(op[0])] = mix.get(str(op[0]), 0) + 1
            bad += x == [-2]
    return {"op_mix": mix, "rejected_ops": bad, "ops_total": sum(len(c) for c in cases)}
