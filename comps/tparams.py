"""Generator for the `tparams` component (quinn-proto/src/transport_parameters.rs vs coq/Model/TParams.v)."""
from comps.varint import enc as venc

RULE = ("ops: 0 = TransportParameters::write with a given write order and reserved (grease) parameter, 1 = read(side, bytes), "
        "2 = write then read with the real code; parameter sets are mostly valid (boundary values of every semantic check, "
        "defaults omitted, server-only ids, PreferredAddress with v4/v6/both), orders are random permutations; read inputs are "
        "python-built TLV sequences in random order, optionally with a duplicated / unknown / reserved id, a wrong length field, "
        "a semantic violation, server-only ids towards a server, truncation, or random bytes. A case is non-trivial if it has a "
        "successful round trip that includes a non-default integer and an optional parameter, a Malformed and an IllegalValue read")

SHARD = 100
IDS = [1, 3, 4, 5, 6, 7, 8, 9, 10, 11, 14]
DEFAULTS = [0, 65527, 0, 0, 0, 0, 0, 0, 3, 25, 2]
MSC = 1 << 60


def lb(d):
    return [len(d)] + list(d)


def gen_params(rng, side):
    """dict describing a (mostly) valid parameter set; side = reader's side (1 = server: no server-only ids)"""
    VMAX = (1 << 62) - 1

    def B():
        return min(rng.boundary(), VMAX)
    ints = []
    for i, d in enumerate(DEFAULTS):
        k = rng.below(4)
        if k == 0:
            ints.append(d)
        else:
            ints.append(B())
    ints[1] = rng.choice([65527, 1200, 1201, 1452, 65535, min(B() + 1200, VMAX)])
    ints[6] = rng.choice([0, 100, MSC, MSC - 1, rng.below(MSC)])
    ints[7] = rng.choice([0, 100, MSC, rng.below(MSC)])
    ints[8] = rng.choice([3, 0, 20, rng.below(21)])
    ints[9] = rng.choice([25, 0, (1 << 14) - 1, rng.below(1 << 14)])
    ints[10] = rng.choice([2, 3, 5, 8, min(B() + 2, VMAX)])
    p = {"ints": ints, "dam": rng.below(2), "gqb": rng.below(2)}
    p["mdfs"] = rng.choice([None, 0, 1200, 65535, B()])
    p["mad"] = None if rng.chance(1, 2) else rng.choice([0, 1, 1000, ints[9] * 1000, rng.below(ints[9] * 1000 + 1)])
    p["iscid"] = None if rng.chance(1, 3) else rng.bytes(rng.choice([0, 4, 8, 20]))
    server_only = side == 0 and rng.chance(2, 3)
    p["odcid"] = rng.bytes(rng.choice([0, 8, 20])) if server_only and rng.chance(2, 3) else None
    p["rscid"] = rng.bytes(rng.choice([0, 8, 20])) if server_only and rng.chance(1, 3) else None
    p["srt"] = rng.bytes(16) if server_only and rng.chance(1, 2) else None
    if server_only and rng.chance(1, 2):
        k = rng.below(3)
        v4 = (rng.bytes(4), rng.range(0, 65535)) if k != 1 else None
        v6 = (rng.bytes(16), rng.range(0, 65535)) if k != 0 else None
        if v4 and rng.chance(1, 6):
            v4 = ([0, 0, 0, 0], rng.range(1, 65535))
        if v6 and rng.chance(1, 6):
            v6 = (rng.bytes(16), 0)
        p["pa"] = {"v4": v4, "v6": v6, "cid": rng.bytes(rng.choice([1, 4, 8, 20])), "tok": rng.bytes(16)}
    else:
        p["pa"] = None
    return p


def spoil(rng, p):
    """one semantic violation / non-round-tripping value"""
    k = rng.below(9)
    ints = p["ints"]
    if k == 0:
        ints[8] = rng.choice([21, 22, 1 << 20])
    elif k == 1:
        ints[9] = rng.choice([1 << 14, (1 << 14) + 1])
    elif k == 2:
        ints[10] = rng.choice([0, 1])
    elif k == 3:
        ints[1] = rng.choice([0, 1199, 1000])
    elif k == 4:
        ints[6] = MSC + rng.choice([1, 2, 1 << 61])
    elif k == 5:
        ints[7] = MSC + 1
    elif k == 6:
        p["mad"] = ints[9] * 1000 + rng.choice([1, 2, 1000])
    elif k == 7 and p["pa"]:
        p["pa"]["cid"] = []
    else:
        p["srt"] = rng.bytes(16)
        p["odcid"] = rng.bytes(8)
    return p


def desc(p):
    o = list(p["ints"]) + [p["dam"]]
    o += [1, p["mdfs"]] if p["mdfs"] is not None else [0, 0]
    o += [1] + lb(p["iscid"]) if p["iscid"] is not None else [0, 0]
    o += [p["gqb"]]
    o += [1, p["mad"]] if p["mad"] is not None else [0, 0]
    o += [1] + lb(p["odcid"]) if p["odcid"] is not None else [0, 0]
    o += [1] + lb(p["rscid"]) if p["rscid"] is not None else [0, 0]
    o += [1] + p["srt"] if p["srt"] is not None else [0] * 17
    pa = p["pa"]
    if pa:
        o += [1]
        o += [1] + pa["v4"][0] + [pa["v4"][1]] if pa["v4"] else [0] * 6
        o += [1] + pa["v6"][0] + [pa["v6"][1]] if pa["v6"] else [0] * 18
        o += lb(pa["cid"]) + pa["tok"]
    else:
        o += [0] + [0] * 6 + [0] * 18 + [0] + [0] * 16
    return o


def pa_bytes(pa):
    b = (pa["v4"][0] + list(pa["v4"][1].to_bytes(2, "big"))) if pa["v4"] else [0] * 6
    b += (pa["v6"][0] + list(pa["v6"][1].to_bytes(2, "big"))) if pa["v6"] else [0] * 18
    return b + [len(pa["cid"])] + pa["cid"] + pa["tok"]


def items(p):
    """list of (id, value bytes) as the writer would emit them"""
    it = []
    for i, v in enumerate(p["ints"]):
        if v != DEFAULTS[i]:
            it.append((IDS[i], venc(v)))
    if p["srt"] is not None:
        it.append((2, p["srt"]))
    if p["dam"]:
        it.append((12, []))
    if p["mdfs"] is not None:
        it.append((32, venc(p["mdfs"])))
    if p["pa"]:
        it.append((13, pa_bytes(p["pa"])))
    if p["odcid"] is not None:
        it.append((0, p["odcid"]))
    if p["iscid"] is not None:
        it.append((15, p["iscid"]))
    if p["rscid"] is not None:
        it.append((16, p["rscid"]))
    if p["gqb"]:
        it.append((0x2ab2, []))
    if p["mad"] is not None:
        it.append((0xff04de1b, venc(p["mad"])))
    return it


def shuffle(rng, xs):
    xs = list(xs)
    for i in range(len(xs) - 1, 0, -1):
        j = rng.below(i + 1)
        xs[i], xs[j] = xs[j], xs[i]
    return xs


def tlv(i, v, ln=None):
    return venc(i) + venc(len(v) if ln is None else ln) + list(v)


def gen_read_bytes(rng, side):
    if rng.chance(1, 15):
        return rng.bytes(rng.range(0, 30))
    p = gen_params(rng, side)
    if rng.chance(1, 5):
        p = spoil(rng, p)
    it = shuffle(rng, items(p))
    m = rng.below(27)
    enc = [tlv(i, v) for (i, v) in it]
    if m < 7 or not it:
        pass
    elif m < 10:
        j = rng.below(len(it))  # duplicate one parameter (same or other value)
        i, v = it[j]
        enc.insert(rng.below(len(enc) + 1), tlv(i, v))
    elif m < 13:
        j = rng.below(len(it))  # wrong length field
        i, v = it[j]
        enc[j] = tlv(i, v, max(0, len(v) + rng.choice([-1, 1, 1, 2, 7, -len(v)])))
    elif m < 15:
        enc.insert(rng.below(len(enc) + 1), tlv(rng.choice([27, 58, 31 * rng.below(1 << 50) + 27, 17, 0x21, rng.boundary()]), rng.bytes(rng.range(0, 9))))
    elif m < 16:
        j = rng.below(len(it))  # non-minimal varint value for an integer parameter
        i, v = it[j]
        if i in IDS and len(v) == 1:
            enc[j] = tlv(i, [0x40, v[0]])
    elif m < 17:
        # preferred_address whose declared length exceeds the fixed layout: trailing bytes stay in the input
        pa = {"v4": (rng.bytes(4), 443), "v6": None, "cid": rng.bytes(4), "tok": rng.bytes(16)}
        b = pa_bytes(pa) + rng.choice([venc(12) + venc(0), rng.bytes(3), venc(0x2ab2) + venc(0)])
        enc.insert(rng.below(len(enc) + 1), tlv(13, b))
    elif m < 18:
        # min_ack_delay / max_datagram_frame_size with a length field that disagrees with the varint
        i = rng.choice([0xff04de1b, 32])
        v = venc(rng.choice([5, 100, 20000]))
        enc.insert(rng.below(len(enc) + 1), venc(i) + venc(rng.choice([0, 1, 2, 8, 9])) + v)
    elif m < 19:
        enc.insert(rng.below(len(enc) + 1), tlv(13, pa_bytes({"v4": None, "v6": None, "cid": rng.bytes(4), "tok": rng.bytes(16)})))
    elif m < 20:
        enc.insert(rng.below(len(enc) + 1), tlv(rng.choice([0, 15, 16]), rng.bytes(rng.choice([21, 22, 30]))))
    elif m < 21:
        enc.insert(rng.below(len(enc) + 1), tlv(2, rng.bytes(rng.choice([15, 17, 0]))))
    out = [x for e in enc for x in e]
    if m == 21 and out:
        out = out[:rng.below(len(out))]
    elif m == 22 and out:
        j = rng.below(len(out))
        out[j] = rng.choice([0, 1, 0x40, 0x80, 0xc0, 0xff, (out[j] + 1) % 256])
    elif m == 23:
        out += rng.bytes(rng.range(1, 5))
    elif m >= 24:
        # an unknown / reserved (grease) parameter whose declared length overruns the input, at the end or inside
        v = rng.bytes(rng.range(0, 6))
        bad = tlv(rng.choice([27, 58, 0x21, 31 * rng.below(1 << 40) + 27, 17]), v, len(v) + rng.choice([1, 2, 5, 60, 1000]))
        if m == 24 or not enc:
            out = out + bad
        else:
            k = rng.below(len(enc) + 1)
            out = [x for e in enc[:k] for x in e] + bad + [x for e in enc[k:] for x in e][:rng.below(4)]
    return out


def gen_write(rng, side, valid=True):
    p = gen_params(rng, side)
    if not valid:
        p = spoil(rng, p)
    order = shuffle(rng, range(21)) if rng.chance(5, 6) else list(range(21))
    if rng.chance(1, 2):
        g = [1, 31 * rng.below((1 << 62) // 31 - 1) + 27] + lb(rng.bytes(rng.range(0, 15)))
    else:
        g = [0, 0, 0]
    return order + g + desc(p)


def gen_case(rng):
    ops = []
    for _ in range(rng.range(3, 8)):
        k = rng.below(20)
        side = rng.below(2)
        if k < 7:
            ops.append([2, side] + gen_write(rng, side))
        elif k < 9:
            ops.append([2, rng.below(2)] + gen_write(rng, 0, valid=False))
        elif k < 11:
            ops.append([0] + gen_write(rng, side))
        else:
            ops.append([1, side] + gen_read_bytes(rng, rng.choice([side, side, 0])))
    return ops


def gen(rng, n):
    return [gen_case(rng) for _ in range(n)]


def nontrivial(case, outs):
    if outs == [[-999]]:
        return False
    rt = any(op[0] == 2 and o[:1] == [0] and o[1:12] != DEFAULTS for op, o in zip(case, outs))
    mal = any(op[0] in (1, 2) and o == [2] for op, o in zip(case, outs))
    ill = any(op[0] in (1, 2) and o == [1] for op, o in zip(case, outs))
    return rt and (mal or ill)


def stats(cases, outs):
    d = {"write": 0, "read": 0, "roundtrip": 0, "read_ok": 0, "read_malformed": 0, "read_illegal": 0, "panic_cases": 0}
    for c, o in zip(cases, outs):
        if o == [[-999]]:
            d["panic_cases"] += 1
            continue
        for op, r in zip(c, o):
            if op[0] == 0:
                d["write"] += 1
                continue
            d["read" if op[0] == 1 else "roundtrip"] += 1
            if r[:1] == [0]:
                d["read_ok"] += 1
            elif r == [1]:
                d["read_illegal"] += 1
            elif r == [2]:
                d["read_malformed"] += 1
    return d
