"""Generator for the `varint` component (quinn-proto/src/varint.rs vs coq/Model/Varint.v)."""
RULE = ("ops: encode x / decode bytes / size x; x boundary-biased over [0,2^64), byte strings are valid "
        "encodings (optionally truncated, extended or with mutated first byte) or random; a case is "
        "non-trivial if it contains an encode of a value >= 64 and a decode that succeeds and one that fails")


def enc(x):
    if x < 64:
        return [x]
    if x < 1 << 14:
        v = (1 << 14) | x
        return list(v.to_bytes(2, "big"))
    if x < 1 << 30:
        v = (2 << 30) | x
        return list(v.to_bytes(4, "big"))
    v = (3 << 62) | x
    return list(v.to_bytes(8, "big"))


def gen_case(rng):
    ops = []
    for _ in range(rng.range(4, 24)):
        k = rng.below(10)
        if k < 3:
            x = rng.boundary()
            if rng.chance(1, 12):
                x = rng.range(1 << 62, (1 << 64) - 1)
            ops.append([0, x])
        elif k < 8:
            x = rng.boundary()
            b = enc(x)
            m = rng.below(6)
            if m == 0 and len(b) > 0:
                b = b[:rng.below(len(b))]  # truncate
            elif m == 1:
                b = b + rng.bytes(rng.range(1, 9))
            elif m == 2:
                b[0] = rng.below(256)
            elif m == 3:
                b = rng.bytes(rng.range(0, 10))
            ops.append([1] + b)
        else:
            ops.append([2, rng.boundary()])
    return ops


def gen(rng, n):
    return [gen_case(rng) for _ in range(n)]


def nontrivial(case, outs):
    big = any(op[0] == 0 and op[1] >= 64 for op in case)
    ok = any(op[0] == 1 and o[0] == 0 for op, o in zip(case, outs))
    bad = any(op[0] == 1 and o[0] == 1 for op, o in zip(case, outs))
    return big and ok and bad


def stats(cases, outs):
    d = {"encode": 0, "encode_rejected": 0, "decode_ok": 0, "decode_err": 0, "size": 0}
    sizes = {1: 0, 2: 0, 4: 0, 8: 0}
    for c, o in zip(cases, outs):
        for op, r in zip(c, o):
            if op[0] == 0:
                d["encode"] += 1
                if r[0] == 1:
                    d["encode_rejected"] += 1
                else:
                    sizes[len(r) - 1] = sizes.get(len(r) - 1, 0) + 1
            elif op[0] == 1:
                d["decode_ok" if r[0] == 0 else "decode_err"] += 1
            else:
                d["size"] += 1
    d["encoded_sizes"] = {str(k): v for k, v in sizes.items()}
    return d
