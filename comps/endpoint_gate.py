"""Generator for `endpoint_gate` (stateless reset sizing/rate limit and the short-Initial gate of a real Endpoint vs coq/Model/StatelessReset.v)."""
import os
from lib import qv

RULE = ("a real Endpoint (fixed reset key and rng seed, with or without a server configuration) is fed short-header "
        "garbage and supported-version Initials of chosen lengths at chosen, non-decreasing times: lengths around "
        "9 (header parse), 21/22 (smallest reset), 42/43 (random padding starts), 1199/1200 (Initial gate), times "
        "around last_reset + min_reset_interval; each op carries the observed response size as a trailing hint "
        "(the padding is random: relational); non-trivial = at least two resets were sent, one datagram was "
        "suppressed by the rate limit and one by the size threshold")


def binp():
    return os.path.join(qv.target_dir(), "debug", "qvh")


LENS = [1, 8, 9, 10, 20, 21, 22, 23, 30, 41, 42, 43, 44, 60, 100, 300, 1199, 1200, 1201, 1500]


def gen_case(rng):
    srv = 1 if rng.chance(1, 3) else 0
    iv = rng.choice([20000, 20000, 0, 1, 1000, 500000])
    ops = [[0, srv, iv, rng.below(1 << 32)]]
    t = rng.below(1000)
    last = None
    for _ in range(rng.range(5, 30)):
        k = rng.below(10)
        if last is not None and k < 5:
            t = max(t, last + iv + rng.choice([-2, -1, 0, 0, 1, 5]))
        else:
            t += rng.choice([0, 1, 100, iv // 2, iv, iv + 1, 3 * iv])
        kind = 2 if rng.chance(1, 3) else 1
        ln = rng.choice(LENS) if rng.chance(4, 5) else rng.range(1, 1500)
        if kind == 2:
            ln = max(20, ln)
        ops.append([kind, t, ln, rng.below(256)])
        if (kind == 1 or not srv) and ln >= 22 and ln >= 9 and (last is None or t >= last + iv):
            last = t
    return ops


def gen(rng, n):
    cases = [gen_case(rng) for _ in range(n)]
    outs = qv.run_impl(binp(), "endpoint_gate", cases)
    res = []
    for c, o in zip(cases, outs):
        if o == qv.PANIC_OUT or len(o) != len(c):
            res.append([c[0]] + [op + [0] for op in c[1:]])
        else:
            res.append([c[0]] + [op + [ob[1] if len(ob) > 1 else 0] for op, ob in zip(c[1:], o[1:])])
    return res


def nontrivial(case, outs):
    if outs == qv.PANIC_OUT:
        return False
    resets = sum(1 for o in outs if o and o[0] == 1)
    small = any(op[0] in (1, 2) and op[2] <= 21 and o[0] == 0 for op, o in zip(case, outs))
    limited = any(op[0] == 1 and op[2] >= 22 and o[0] == 0 for op, o in zip(case, outs))
    return resets >= 2 and small and limited


def stats(cases, outs):
    d = {"resets": 0, "none": 0, "reset_len_minus_1": 0, "reset_random_padding": 0, "short_initial_ignored": 0,
         "initial_reached_crypto": 0, "with_server": 0, "panics": 0}
    for c, o in zip(cases, outs):
        if o == qv.PANIC_OUT:
            d["panics"] += 1
            continue
        d["with_server"] += c[0][1]
        for op, ob in zip(c[1:], o[1:]):
            if len(ob) < 6:
                continue
            if ob[0] == 1:
                d["resets"] += 1
                if ob[1] == op[2] - 1:
                    d["reset_len_minus_1"] += 1
                else:
                    d["reset_random_padding"] += 1
            else:
                d["none"] += 1
            if op[0] == 2 and c[0][1] and op[2] < 1200:
                d["short_initial_ignored"] += 1
            if ob[2] == 1:
                d["initial_reached_crypto"] += 1
    return d
