"""Generator for the `frames` component (quinn-proto/src/frame.rs vs coq/Model/Frames.v)."""
from comps.varint import enc as venc

RULE = ("ops: 0 = encode a described frame, 1 = decode a payload with frame::Iter, 2 = encode then decode with the real "
        "code; frame values boundary-biased (all 24 frame kinds, STREAM/DATAGRAM with and without length, ACK over "
        "1..40 ranges with/without ECN, CLOSE with max_len around the truncation point); payloads are python-built "
        "valid frame sequences, optionally truncated / extended / byte-corrupted / type-changed / with non-minimal "
        "type varints, or random bytes; a few descriptions carry values >= 2^62 or a too small max_len (the encoder "
        "panics: modelled). A case is non-trivial if it has a successful round trip of a frame with fields, a decode "
        "that yields >= 2 frames and a decode that ends in an InvalidFrame error")

SHARD = 120

TAGS = [0, 1, 2, 4, 5, 6, 7, 8, 16, 17, 18, 20, 21, 22, 24, 25, 26, 27, 28, 29, 30, 31, 48, 175]
LENS = [0, 1, 2, 3, 5, 8, 20, 40, 62, 63, 64, 65, 100, 300]


def data(rng, big_ok=True):
    if big_ok and rng.chance(1, 400):
        n = rng.choice([16383, 16384, 16390])
    else:
        n = rng.choice(LENS)
    return rng.bytes(n)


def lb(d):
    return [len(d)] + list(d)


def gen_ranges(rng):
    n = rng.choice([1, 1, 2, 2, 3, 4, 5, 8, 40]) if rng.chance(9, 10) else rng.range(1, 64)
    s = rng.boundary() // 2 if rng.chance(1, 2) else rng.below(200)
    rs = []
    for _ in range(n):
        size = rng.choice([1, 1, 2, 3, 63, 64, 65, 1000, 16384]) if rng.chance(4, 5) else 1 + rng.boundary() // 128
        e = s + size
        rs.append((s, e))
        gap = rng.choice([1, 1, 2, 3, 63, 64, 65, 16384]) if rng.chance(4, 5) else 1 + rng.boundary() // 128
        s = e + gap
    if rs[-1][1] > (1 << 62):
        return [(0, 1), (5, 9)]
    return rs


def gen_desc(rng, tag=None):
    """a well-formed frame description (list of ints)"""
    t = tag if tag is not None else rng.choice(TAGS)
    B = rng.boundary
    if t in (0, 1, 30, 31):
        return [t]
    if t == 2:
        rs = gen_ranges(rng)
        flat = [x for r in rs for x in r]
        ecn = rng.below(2)
        return [2, B(), ecn, B(), B(), B(), len(rs)] + flat
    if t == 4:
        return [4, B(), B(), B()]
    if t == 5:
        return [5, B(), B()]
    if t == 6:
        return [6, B()] + lb(data(rng))
    if t == 7:
        return [7] + lb(data(rng))
    if t == 8:
        off = 0 if rng.chance(1, 3) else B()
        return [8, B(), off, rng.below(2)] + lb(data(rng))
    if t in (16, 20, 25):
        return [t, B()]
    if t in (17, 21):
        return [t, B(), B()]
    if t in (18, 22):
        return [t, rng.below(2), B()]
    if t == 24:
        seq = B()
        rpt = rng.choice([0, seq, seq // 2, max(0, seq - 1)])
        cid = rng.bytes(rng.choice([1, 4, 8, 19, 20]))
        return [24, seq, rpt] + lb(cid) + rng.bytes(16)
    if t in (26, 27):
        return [t, rng.choice([0, 1, (1 << 64) - 1, 1 << 63, rng.below(1 << 64)])]
    if t == 28:
        return [28, rng.choice([0, 1, 10, 0x100, 0x1ff, B()]), rng.choice([0, 0, 6, 8, 0x1c, 175, B()])] + lb(data(rng, False))
    if t == 29:
        return [29, B()] + lb(data(rng, False))
    if t == 48:
        return [48] + lb(data(rng))
    if t == 175:
        return [175, B(), B(), B(), B()]
    raise ValueError(t)


def vsize(x):
    return len(venc(x))


def close_max_len(rng, d):
    """a max_len for Close::encode: usually ample, sometimes around the truncation point"""
    if d[0] == 28:
        need = 3 + vsize(d[2]) + vsize(d[3])
        rl = d[3]
    elif d[0] == 29:
        need = 3 + vsize(d[2])
        rl = d[2]
    else:
        return rng.choice([0, 25, 1200])
    k = rng.below(10)
    if k < 4:
        return rng.choice([1200, 1452, 65535])
    if k < 8:
        return need + rng.range(0, rl + 3)
    if k < 9 or rng.chance(3, 4):
        return need
    return rng.range(0, need)  # the subtraction underflows when < need: panic (modelled)


def py_encode(d, withlen):
    """python reference encoder for building payloads (valid descriptions only)"""
    t = d[0]
    if t in (0, 1, 30, 31):
        return venc(t)
    if t == 2:
        delay, he, a, b, c, n = d[1:7]
        rs = [(d[7 + 2 * i], d[8 + 2 * i]) for i in range(n)]
        rs.reverse()
        s, e = rs[0]
        out = venc(3 if he else 2) + venc(e - 1) + venc(delay) + venc(n - 1) + venc(e - s - 1)
        prev = s
        for (s2, e2) in rs[1:]:
            out += venc(prev - e2 - 1) + venc(e2 - s2 - 1)
            prev = s2
        if he:
            out += venc(a) + venc(b) + venc(c)
        return out
    if t == 4:
        return venc(4) + venc(d[1]) + venc(d[2]) + venc(d[3])
    if t == 5:
        return venc(5) + venc(d[1]) + venc(d[2])
    if t == 6:
        return venc(6) + venc(d[1]) + venc(d[2]) + d[3:]
    if t == 7:
        return venc(7) + venc(d[1]) + d[2:]
    if t == 8:
        ty = 8 | (4 if d[2] else 0) | (2 if withlen else 0) | (1 if d[3] else 0)
        out = venc(ty) + venc(d[1])
        if d[2]:
            out += venc(d[2])
        if withlen:
            out += venc(d[4])
        return out + d[5:]
    if t in (16, 20, 25):
        return venc(t) + venc(d[1])
    if t in (17, 21):
        return venc(t) + venc(d[1]) + venc(d[2])
    if t in (18, 22):
        return venc(t + (1 if d[1] else 0)) + venc(d[2])
    if t == 24:
        return venc(24) + venc(d[1]) + venc(d[2]) + d[3:]
    if t in (26, 27):
        return venc(t) + list(d[1].to_bytes(8, "big"))
    if t == 28:
        return venc(28) + venc(d[1]) + venc(d[2]) + venc(d[3]) + d[4:]
    if t == 29:
        return venc(29) + venc(d[1]) + venc(d[2]) + d[3:]
    if t == 48:
        return venc(48 + (1 if withlen else 0)) + (venc(d[1]) if withlen else []) + d[2:]
    if t == 175:
        return venc(175) + venc(d[1]) + venc(d[2]) + venc(d[3]) + venc(d[4])
    raise ValueError(t)


def tight_ack(rng):
    """ACK whose lowest range starts at (or within 2 of) packet 0, with one of the block/gap varints or `largest`
    perturbed by +-1/+2: on the boundary of scan_ack_blocks' underflow checks"""
    n = rng.choice([1, 1, 2, 3, 5])
    s = rng.choice([0, 0, 0, 1, 2])
    rs = []
    for _ in range(n):
        e = s + rng.choice([1, 1, 2, 3, 64])
        rs.append((s, e))
        s = e + rng.choice([1, 1, 2, 3, 64])
    rs.reverse()
    s0, e0 = rs[0]
    vals = [e0 - 1, rng.choice([0, 5]), n - 1, e0 - s0 - 1]
    prev = s0
    for (s2, e2) in rs[1:]:
        vals += [prev - e2 - 1, e2 - s2 - 1]
        prev = s2
    k = rng.below(8)
    if k < 6:
        i = rng.choice([0] + list(range(3, len(vals))))
        vals[i] = max(0, vals[i] + rng.choice([1, 1, 2, -1, 3]))
    elif k < 7:
        vals[2] += rng.choice([1, 2])  # one more block than present
    ecn = rng.below(2)
    out = venc(3 if ecn else 2)
    for v in vals:
        out += venc(v)
    if ecn:
        out += venc(1) + venc(2) + venc(3)
    return out


def nonminimal(b, rng):
    """re-encode the leading 1-byte varint (frame type) in 2, 4 or 8 bytes"""
    if not b or b[0] >= 64:
        return b
    n = rng.choice([2, 4, 8])
    tagbits = {2: 1, 4: 2, 8: 3}[n]
    v = (tagbits << (8 * n - 2)) | b[0]
    return list(v.to_bytes(n, "big")) + b[1:]


def gen_payload(rng):
    k = rng.below(20)
    if k < 2:
        return rng.bytes(rng.range(0, 24))
    if k < 4:
        return tight_ack(rng) + (venc(1) if rng.chance(1, 2) else [])
    n = rng.choice([1, 1, 2, 2, 3, 4, 6])
    out = []
    for i in range(n):
        d = gen_desc(rng)
        withlen = True if i < n - 1 and rng.chance(9, 10) else rng.chance(1, 2)
        b = py_encode(d, withlen)
        if rng.chance(1, 25):
            b = nonminimal(b, rng)
        out += b
    m = rng.below(20)
    if m < 8 or not out:
        return out
    if m < 11:
        return out[:rng.below(len(out))]
    if m < 13:
        return out + rng.bytes(rng.range(1, 12))
    if m < 16:
        i = rng.below(len(out))
        out[i] = rng.choice([0, 1, 0x3f, 0x40, 0x7f, 0x80, 0xc0, 0xff, rng.below(256), (out[i] + 1) % 256, (out[i] - 1) % 256])
        return out
    if m < 18:
        out[0] = rng.choice(list(range(0, 0x40)) + [0x40, 0x80, 0xc0, 0xaf, 0xff])
        return out
    if m < 19:
        # hostile ACK: huge block count / first block larger than largest
        return venc(rng.choice([2, 3])) + venc(rng.boundary()) + venc(rng.boundary()) + venc(rng.boundary()) + \
            venc(rng.boundary()) + rng.bytes(rng.range(0, 12))
    i = rng.below(len(out))
    return out[:i] + rng.bytes(rng.range(1, 4)) + out[i:]


def spoil(rng, d):
    """make one numeric field >= 2^62 (write_var panics) — only for fields that are varints"""
    d = list(d)
    t = d[0]
    idx = {4: [1, 2, 3], 5: [1, 2], 6: [1], 8: [1, 2], 16: [1], 17: [1, 2], 18: [2], 20: [1], 21: [1, 2], 22: [2],
           24: [1], 25: [1], 28: [1, 2], 29: [1], 175: [1, 2, 3, 4], 2: [1]}.get(t)
    if not idx:
        return d
    i = rng.choice(idx)
    d[i] = rng.choice([1 << 62, (1 << 62) + 1, (1 << 63), (1 << 64) - 1])
    return d


def gen_case(rng):
    ops = []
    for _ in range(rng.range(3, 10)):
        k = rng.below(20)
        if k < 8:
            d = gen_desc(rng)
            ops.append([2, rng.below(2), close_max_len(rng, d)] + d)
        elif k < 11:
            d = gen_desc(rng)
            ops.append([0, rng.below(2), close_max_len(rng, d)] + d)
        else:
            ops.append([1] + gen_payload(rng))
    if rng.chance(1, 40):
        d = spoil(rng, gen_desc(rng))
        ops.insert(rng.below(len(ops) + 1), [rng.choice([0, 2]), 1, 1200] + d)
    return ops


def gen(rng, n):
    return [gen_case(rng) for _ in range(n)]


def items(out):
    """number of frames / whether the decode output ends in an error (cheap scan)"""
    return out


def nontrivial(case, outs):
    if outs == [[-999]]:
        return False
    rt = any(op[0] == 2 and len(op) > 4 and o[:1] == [0] and len(o) > 2 for op, o in zip(case, outs))
    err = any(op[0] == 1 and len(o) >= 4 and o[-3] == -1 for op, o in zip(case, outs))
    multi = any(op[0] == 1 and o[:1] == [0] and len(o) > 6 for op, o in zip(case, outs))
    return rt and err and multi


def stats(cases, outs):
    d = {"encode": 0, "decode": 0, "roundtrip": 0, "panic_cases": 0, "decode_err_end": 0, "decode_err_id": 0,
         "decode_err_malformed": 0, "decode_empty": 0, "decode_clean": 0, "close_truncated": 0}
    tags = {}
    maxlen = 0
    for c, o in zip(cases, outs):
        if o == [[-999]]:
            d["panic_cases"] += 1
            continue
        for op, r in zip(c, o):
            if op[0] == 0:
                d["encode"] += 1
                tags[op[3]] = tags.get(op[3], 0) + 1
            elif op[0] == 2:
                d["roundtrip"] += 1
                tags[op[3]] = tags.get(op[3], 0) + 1
                if op[3] == 28 and len(r) > 4 and r[4] < op[6]:
                    d["close_truncated"] += 1
                if op[3] == 29 and len(r) > 3 and r[3] < op[5]:
                    d["close_truncated"] += 1
            else:
                d["decode"] += 1
                maxlen = max(maxlen, len(op) - 1)
                if r == [1]:
                    d["decode_empty"] += 1
                elif len(r) >= 4 and r[-3] == -1 and r[-2] in (1, 2, 3):
                    d[{1: "decode_err_end", 2: "decode_err_id", 3: "decode_err_malformed"}[r[-2]]] += 1
                else:
                    d["decode_clean"] += 1
    d["frame_tags_encoded"] = {str(k): v for k, v in sorted(tags.items())}
    d["max_payload_len"] = maxlen
    return d
