"""C16 system level: application datagrams between real endpoints; coq/Sys/MonC01.v (datagram rules)."""
from . import simlib as S
SUBCMD = "sim"
IS_TRACE = True
RUN = "monitor"
TAGS = {3, 13, 10}
RULE = ("tagged datagrams of sizes 8..max+, bursts above the send buffer, drop=true/false, mixed with stream traffic, "
        "loss / duplication / reordering, MTU discovery and black-hole fallback; non-trivial = >= 3 datagrams delivered "
        "and at least one send refused (Blocked/TooLarge) or one datagram lost")


def gen(rng, n):
    cases = []
    for i in range(n):
        d = S.base(rng, small=True)
        d["NDGRAM"] = rng.choice([1, 5, 20, 60])
        d["DGRAM_SIZE"] = rng.choice([8, 9, 100, 600, 1100, 1150, 1162, 1163, 1200, 1400, 3000])
        d["DGRAM_DROP"] = rng.below(2)
        d["DGRAM_SEND_BUF"] = rng.choice([0, 100, 1200, 5000, 65536])
        d["DGRAM_RECV_BUF"] = rng.choice([0, 100, 1200, 5000, 65536])
        d["STREAM_BYTES"] = rng.choice([0, 2000, 20000])
        S.lossy(rng, d)
        if rng.chance(1, 3):
            d["MTUD_UPPER"] = rng.choice([1452, 4000])
            d["LINK_MTU"] = rng.choice([1300, 1452, 4000])
        if rng.chance(1, 3):
            d["CONTROLLER"] = 3
            d["FIXED_WINDOW"] = rng.choice([2500, 6000])
        if rng.chance(1, 4):
            d["GSO"] = 10
        if rng.chance(1, 3):
            # paced datagrams of alternating size over a path that grows (MTU discovery) and then
            # starts dropping large packets: the small ones must keep flowing
            d = S.base(rng, small=True)
            d.update({"NDGRAM": 2 * rng.range(15, 30), "DGRAM_SIZE": rng.choice([1250, 1300, 1400]), "DGRAM_ALT": 2,
                      "DGRAM_INTERVAL": rng.choice([200000, 400000]), "DGRAM_DROP": rng.below(2),
                      "DGRAM_SEND_BUF": 200000, "DGRAM_START": 700000,
                      "MTUD_UPPER": 1452, "LINK_MTU": 1500, "LINK_MTU_AT": 600000,
                      "LINK_MTU2": 1200, "STREAM_BYTES": 0, "NBIDI": 0, "NUNI": 1, "CLOSER": 3, "IDLE_MS": 30000,
                      "MAX_TIME": 90_000_000, "DELAY_MIN": 5000, "DELAY_MAX": 5000, "GSO": 1,
                      "DELIVER_SMALL": 1})
        cases.append(S.case_of(d))
    return cases


def project(case, outs):
    return S.project(outs, TAGS)


def nontrivial(case, outs):
    rx = sum(1 for r in outs if r[0] == 3 and r[4] == 10)
    refused = sum(1 for r in outs if r[0] == 3 and r[4] == 9 and r[7] != 0)
    tx = sum(1 for r in outs if r[0] == 3 and r[4] == 9 and r[7] == 0)
    return rx >= 3 and (refused >= 1 or rx < tx)


def stats(cases, outs):
    st = S.trace_stats(cases, outs)
    res = {}
    for o in outs:
        for r in o:
            if r[0] == 3 and r[4] == 9:
                res["send_result_%d" % r[7]] = res.get("send_result_%d" % r[7], 0) + 1
            if r[0] == 3 and r[4] == 10:
                res["received"] = res.get("received", 0) + 1
    st["datagram_ops"] = res
    return st


describe = S.describe
