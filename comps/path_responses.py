"""Generator for the `path_responses` component (PathResponses in quinn-proto/src/connection/paths.rs vs coq/Model/PathResponses.v)."""
RULE = ("ops: push(packet, token, remote) / pop_off_path(remote) / pop_on_path(remote) / is_empty; remotes from "
        "a pool of 4..40 addresses (so that both the replace-in-place path and the cap are hit), packet numbers "
        "increasing with occasional reordering; floods of distinct remotes; non-trivial = the queue reached "
        "MAX_PATH_RESPONSES, a push was dropped at the cap, an entry was replaced in place and a pop succeeded")

CAP = 16


def gen_case(rng):
    ops = []
    pool = rng.choice([4, 8, 17, 20, 40])
    base = rng.choice([0, 1 << 16, (1 << 48) + 5, 65530])
    pn = rng.below(100)
    flood = rng.chance(1, 2)
    n = rng.range(8, 60)
    for j in range(n):
        k = rng.below(20)
        if k < 13 or (flood and j < 22):
            pn += rng.choice([1, 1, 1, 2, 0])
            p = pn if not rng.chance(1, 6) else max(0, pn - rng.range(1, 5))
            r = base + (j if (flood and j < 22) else rng.below(pool))
            ops.append([0, p, rng.below(1 << 20), r])
        elif k < 16:
            ops.append([1, base + rng.below(pool)])
        elif k < 19:
            ops.append([2, base + rng.below(pool)])
        else:
            ops.append([3])
    return ops


def gen(rng, n):
    return [gen_case(rng) for _ in range(n)]


def nontrivial(case, outs):
    if outs == [[-999]]:
        return False
    full = dropped = replaced = popped = False
    prev = 0
    seen = set()
    for op, o in zip(case, outs):
        if op[0] == 0:
            if o[0] == CAP:
                full = True
            if o[0] == prev and prev == CAP and op[3] not in seen:
                dropped = True
            if o[0] == prev and op[3] in seen:
                replaced = True
            seen.add(op[3])
        elif op[0] in (1, 2) and len(o) > 1 and o[1] == 1:
            popped = True
        prev = o[0]
    return full and dropped and replaced and popped


def stats(cases, outs):
    d = {"push": 0, "push_at_cap": 0, "pop_off_some": 0, "pop_off_none": 0, "pop_on_some": 0,
         "pop_on_none": 0, "is_empty": 0, "max_len": 0, "panic_cases": 0}
    for c, o in zip(cases, outs):
        if o == [[-999]]:
            d["panic_cases"] += 1
            continue
        prev = 0
        for op, r in zip(c, o):
            d["max_len"] = max(d["max_len"], r[0])
            if op[0] == 0:
                d["push"] += 1
                if prev == CAP:
                    d["push_at_cap"] += 1
            elif op[0] == 1:
                d["pop_off_some" if r[1] == 1 else "pop_off_none"] += 1
            elif op[0] == 2:
                d["pop_on_some" if r[1] == 1 else "pop_on_none"] += 1
            else:
                d["is_empty"] += 1
            prev = r[0]
    return d
