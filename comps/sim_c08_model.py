"""C08 system level, model conformance: the same lifecycle scenarios as comps/sim_c08.py, the
trace validated by coq/Sys/MonLifecycle.v, which runs the lifecycle MODEL of Props/C08.v
(coq/Model/Lifecycle.v) alongside every real connection and compares after every probe."""
from . import simlib as S
from . import sim_c08 as base
SUBCMD = "sim"
IS_TRACE = True
RUN = "monitor"
SHARD = base.SHARD
TAGS = {1, 2, 3, 4, 5, 6, 7, 8}
RULE = (base.RULE + "; every probe of every connection must be explained by a run of the lifecycle model "
        "(state tag, close flag, error recorded, permit_idle_reset, Close/Idle/KeepAlive deadlines)")


def gen(rng, n):
    return base.gen(rng, n)


def project(case, outs):
    # [[-999]] panic, [[-998]] run killed by the harness time limit, [[-997]] crash: keep the marker,
    # the monitors reject it (a connection that does not terminate is a violation of C08 itself)
    if len(outs) == 1 and outs[0] and outs[0][0] < 0:
        return outs
    return S.project(outs, TAGS)


nontrivial = base.nontrivial
stats = base.stats
describe = S.describe
