"""C20 twin runs, variant 5: run B is driven by a busy-polling driver (every connection polled every microsecond
whenever a deadline - typically the pacing timer - is at most 20 ms away). Extra calls must be harmless: run B must
neither starve (step budget) nor violate any per-run rule of coq/Sys/MonC20.v. Loss-free bulk transfers keep it short."""
from .sim_c20 import *   # noqa: F401,F403
from . import simlib as S


def gen(rng, n):
    cases = []
    for i in range(n):
        d = S.base(rng, small=False)
        d["DELAY_MIN"] = d["DELAY_MAX"] = rng.choice([5000, 10000, 30000])
        d["STREAM_BYTES"] = rng.choice([30000, 100000])
        d["WRITE_CHUNK"] = 100000
        d["READ_MAX"] = 100000
        d["NBIDI"] = rng.below(2)
        d["NUNI"] = 1
        # short lives only: the busy driver spends 20 000 steps on every deadline, and its step budget is finite
        d["CLOSER"] = 0
        d["IDLE_MS"] = 2000
        d["MAX_TIME"] = 3_000_000
        if rng.chance(1, 3):
            d["CONTROLLER"] = rng.choice([1, 2])
        if rng.chance(1, 3):
            d["PACING_BPS"] = rng.choice([200000, 1000000])
            d["STREAM_BYTES"] = min(d["STREAM_BYTES"], d["PACING_BPS"] // 4)
        d["TWIN"] = 5
        cases.append(S.case_of(d))
    return cases
