"""Generator for `sent_packets` (SentPackets ring-buffer map vs coq/Model/SentPackets.v)."""
from lib import qv

RULE = ("ops insert/remove/get/range/take/values_mut as the unit tests of sent_packets.rs drive the map: increasing "
        "packet numbers with skipped numbers, removals at front/middle/back (reclaiming leading holes, leaving "
        "trailing ones), all bound kinds around the live window, size-0 packets for the in-flight count, rare "
        "non-increasing inserts (debug assertion = PANIC) and absurd gaps (refused by the hook); non-trivial = "
        "a removal left a hole that a later range/get had to skip and has_in_flight changed value")


def gen_case(rng):
    ops = []
    pn = rng.choice([0, 0, 3, 10, rng.below(1000), rng.boundary() % (1 << 40)])
    live = []
    for _ in range(rng.range(6, 45)):
        k = rng.below(100)
        if k < 40:
            pn += rng.choice([1, 1, 1, 1, 2, 3, 5, 40])
            if rng.chance(1, 60):
                pn += 5000
            size = rng.choice([0, 0, 1, 30, 1200, 1200, 1452, rng.below(65000)])
            n = pn
            if rng.chance(1, 200) and live:
                n = rng.choice(live)            # non-increasing insert: panics unless the map is empty
            ops.append([0, n, size, rng.below(2)])
            live.append(n)
        elif k < 65:
            if live and rng.chance(7, 8):
                j = rng.choice([0, 0, len(live) - 1, rng.below(len(live))])
                n = live.pop(j)
            else:
                n = rng.choice([pn + 1, max(0, pn - 100), rng.boundary()])
            ops.append([1, n])
        elif k < 75:
            n = rng.choice(live + [pn + 1, 0]) if live else pn
            ops.append([2, n])
        elif k < 92:
            lo = rng.choice(live + [pn, pn + 1, 0, max(0, pn - 3)]) if live else rng.boundary()
            hi = rng.choice(live + [pn, pn + 1, 0, lo, (1 << 64) - 1]) if live else rng.boundary()
            ops.append([3, rng.below(3), lo, rng.below(3), hi])
        elif k < 96:
            ops.append([4])
            live = []
        else:
            ops.append([5, rng.range(1, 3)])
    return ops


def gen(rng, n):
    return [gen_case(rng) for _ in range(n)]


def nontrivial(case, outs):
    if outs == qv.PANIC_OUT:
        return False
    removed = False
    skipped = False
    flags = set()
    for op, o in zip(case, outs):
        if op[0] == 1 and o and o[0] == 1:
            removed = True
        if op[0] in (2, 3) and removed:
            skipped = True
        if op[0] in (0, 1) and len(o) >= 2:
            flags.add(o[-1])
    return removed and skipped and len(flags) == 2


def stats(cases, outs):
    d = {"ops": {}, "panics": 0, "gap_refused": 0, "remove_hit": 0, "remove_miss": 0, "range_nonempty": 0}
    for c, o in zip(cases, outs):
        if o == qv.PANIC_OUT:
            d["panics"] += 1
            continue
        for op, ob in zip(c, o):
            d["ops"][str(op[0])] = d["ops"].get(str(op[0]), 0) + 1
            if ob == [-3]:
                d["gap_refused"] += 1
            if op[0] == 1:
                d["remove_hit" if ob[0] == 1 else "remove_miss"] += 1
            if op[0] == 3 and ob[0] > 0:
                d["range_nonempty"] += 1
    return d
