"""Generator for the `cid_queue` component (CidQueue in quinn-proto/src/cid_queue.rs vs coq/Model/CidQueue.v)."""
RULE = ("ops: new / insert(seq, retire_prior_to <= seq, id) / next / update_initial_cid; peer-chosen sequence "
        "numbers placed at estimate+{0,1,LEN-1,LEN,LEN+1}, below the window (already retired), at 2^62-1, "
        "retire_prior_to jumps (to seq, far beyond the window), duplicates, out-of-order arrival and gaps; "
        "update_initial_cid mostly before the first insert (its contract), rarely after (debug assertion); "
        "non-trivial = the case has an insert that retired CIDs, a successful next() and a rejected insert")

LEN = 5
M62 = (1 << 62) - 1


def gen_case(rng):
    ops = []
    est = 0          # rough estimate of the active sequence number
    nid = 1
    hist = []
    if rng.chance(1, 4):
        ops.append([0, rng.below(1000)])
    for _ in range(rng.below(3)):
        ops.append([3, 1000 + rng.below(1000)])
    n = rng.range(4, 40)
    huge = rng.chance(1, 6)
    for _ in range(n):
        k = rng.below(20)
        if k < 12:
            d = rng.choice([0, 1, 1, 2, 2, 3, LEN - 1, LEN - 1, LEN, LEN + 1, LEN + 2, 2 * LEN])
            seq = est + d
            m = rng.below(10)
            if m < 4:
                rpt = rng.choice([0, est, max(0, est - 1)])
            elif m < 6:
                rpt = est + 1
            elif m < 8:
                rpt = seq - rng.below(min(seq, LEN) + 1)
            else:
                rpt = est + rng.below(d + 1)
            if rng.chance(1, 12):
                # retire_prior_to jump far beyond the window
                seq = est + rng.choice([LEN + 3, 17, 1000, 1_000_000])
                rpt = seq - rng.below(3)
            if huge and rng.chance(1, 5):
                seq = rng.choice([M62, M62 - 1, M62 - LEN, rng.boundary()])
                rpt = rng.choice([seq, max(0, seq - 1), max(0, seq - LEN), 0])
            if rng.chance(1, 10) and est > 0:
                seq = rng.below(est)          # already retired
                rpt = rng.below(seq + 1)
            seq = min(seq, M62)
            rpt = max(0, min(rpt, seq))
            op = [1, seq, rpt, nid]
            nid += 1
            hist.append(op)
            ops.append(op)
            if rpt > est and seq < est + LEN + (rpt - est):
                est = rpt
        elif k < 15:
            ops.append([2])
            est += 1 if rng.chance(2, 3) else 0
        elif k < 18 and hist:
            op = list(rng.choice(hist))     # duplicate / late arrival of an earlier frame
            if rng.chance(1, 2):
                op[3] = nid
                nid += 1
            ops.append(op)
        elif k == 18:
            if rng.chance(1, 20):
                ops.append([3, 1000 + rng.below(1000)])   # outside the contract unless active_seq is 0
            else:
                ops.append([2])
        else:
            ops.append([2])
    return ops


def gen(rng, n):
    return [gen_case(rng) for _ in range(n)]


def nontrivial(case, outs):
    if outs == [[-999]]:
        return False
    ret = nxt = err = False
    for op, o in zip(case, outs):
        if op[0] == 1 and len(o) > 2:
            ret |= o[2] == 1
            err |= o[2] in (2, 3)
        if op[0] == 2 and len(o) > 2:
            nxt |= o[2] == 1
    return ret and nxt and err


def stats(cases, outs):
    d = {"new": 0, "insert_ok": 0, "insert_retiring": 0, "insert_err_retired": 0, "insert_err_limit": 0,
         "next_some": 0, "next_none": 0, "update_initial": 0, "panic_cases": 0, "max_active_seq": 0,
         "full_len_retire_ranges": 0}
    for c, o in zip(cases, outs):
        if o == [[-999]]:
            d["panic_cases"] += 1
            continue
        for op, r in zip(c, o):
            d["max_active_seq"] = max(d["max_active_seq"], r[0])
            if op[0] == 0:
                d["new"] += 1
            elif op[0] == 1:
                key = ["insert_ok", "insert_retiring", "insert_err_retired", "insert_err_limit"][r[2]]
                d[key] += 1
                if r[2] == 1 and r[4] - r[3] == LEN:
                    d["full_len_retire_ranges"] += 1
            elif op[0] == 2:
                d["next_some" if r[2] == 1 else "next_none"] += 1
            else:
                d["update_initial"] += 1
    return d
