"""C03 / C06 system level: hostile-but-authenticated frames injected into a live connection
(frame-injection hook), coq/Sys/MonC03.v holds the table of prescribed outcomes."""
from . import simlib as S
SUBCMD = "sim"
IS_TRACE = True
RUN = "monitor"
TAGS = {4, 13, 10}
NKINDS = 29
RULE = ("one endpoint (client or server) emits, once, at a random instant of an ongoing transfer, one of 29 illegal or "
        "borderline frame sequences in 1-RTT packets (flow-control / stream-limit / stream-state / final-size violations, "
        "ACK of unsent packets, malformed and over-limit NEW_CONNECTION_ID, unissued RETIRE_CONNECTION_ID, HANDSHAKE_DONE / "
        "NEW_TOKEN from a client, oversized CRYPTO (beyond, and straddling, the buffer limit) / DATAGRAM, unknown and truncated frames, random bytes); local "
        "configurations vary (ack-frequency, CID lengths, datagram buffers, limits, second untouched connection); "
        "non-trivial = the injection was accepted for transmission")


def gen(rng, n):
    cases = []
    for i in range(n):
        d = S.base(rng, small=True)
        d["HOSTILE_KIND"] = 1 + (i % NKINDS) if i < 2 * NKINDS else rng.range(1, NKINDS)
        d["HOSTILE_SIDE"] = (i // NKINDS) % 2 if i < 2 * NKINDS else rng.below(2)
        d["HOSTILE_AT"] = rng.choice([45000, 60000, 90000, 150000])
        d["DELAY_MIN"] = d["DELAY_MAX"] = rng.choice([1000, 5000, 10000])
        d["STREAM_BYTES"] = rng.choice([3000, 20000])
        d["NBIDI"] = 1
        d["NUNI"] = 1
        d["SERVER_STREAMS"] = 1
        d["ECHO_BYTES"] = 500
        d["CLOSER"] = 3
        d["IDLE_MS"] = 2000
        d["MAX_TIME"] = 20_000_000
        if rng.chance(1, 3):
            d["NCONNS"] = 2
        if rng.chance(1, 3):
            d["ACK_FREQ"] = 2
        if rng.chance(1, 3):
            d["CID_LEN"] = rng.choice([4, 20])
        if d["HOSTILE_KIND"] == 16:
            d["DGRAM_RECV_BUF"] = rng.choice([-1, 0, 100, 65536])
        if rng.chance(1, 4):
            d["MAX_UNI"] = rng.choice([8, 20])   # the catalogue uses stream index 5 of a direction
        if rng.chance(1, 4):
            d["STREAM_RWND"] = rng.choice([2000, 100000])
        cases.append(S.case_of(d))
    return cases


def project(case, outs):
    if outs == [[-999]]:
        return outs
    return [r for r in outs if r[0] == 16 or r[0] == 10 or (r[0] == 4 and r[4] == 3) or (r[0] == 13 and r[2] == 8)]


def nontrivial(case, outs):
    return any(r[0] == 13 and r[2] == 8 and r[6] == 1 for r in outs)


def stats(cases, outs):
    st = S.trace_stats(cases, outs)
    kinds = {}
    errs = {}
    for o in outs:
        for r in o:
            if r[0] == 13 and r[2] == 8 and r[6] == 1:
                kinds[str(r[5])] = kinds.get(str(r[5]), 0) + 1
            if r[0] == 4 and r[4] == 3 and r[5] == 2:
                errs[str(r[6])] = errs.get(str(r[6]), 0) + 1
    st["injected_by_kind"] = kinds
    st["transport_errors_by_code"] = errs
    return st


describe = S.describe
