"""C14 system level: the server's transport parameters must echo the connection IDs actually used. The client's
crypto session presents the server's parameters with ONE connection-ID field altered (harness/src/hostile_tp.rs):
initial_source_connection_id wrong / missing / over-long, original_destination_connection_id wrong,
retry_source_connection_id present although no Retry happened, or wrong after a real Retry. The client must end the
handshake with TRANSPORT_PARAMETER_ERROR; other connections are untouched. Monitor: coq/Sys/MonC03T.v with key 906."""
from . import simlib as S
from . import sim_c03t as base
SUBCMD = "sim"
IS_TRACE = True
RUN = "monitor"
KINDS = [47, 50, 51, 54, 62]
RULE = ("the client of pair 0 receives the server's transport parameters with one connection-ID echo field altered "
        "(kinds 47 missing / 50 wrong / 62 over-long initial_source_connection_id, 51 wrong original_destination_connection_id, "
        "54 retry_source_connection_id without - or different from - the Retry that happened), with and without a real Retry, "
        "with a second untouched connection; non-trivial = the altered parameters reached the client")


def gen(rng, n):
    cases = []
    for i in range(n):
        d = S.base(rng, small=True)
        d["HOSTILE_TP"] = KINDS[i % len(KINDS)]
        d["HOSTILE_TP_SIDE"] = 0
        d["CID_ECHO_STRICT"] = 1
        d["DELAY_MIN"] = d["DELAY_MAX"] = rng.choice([1000, 5000, 10000])
        d["STREAM_BYTES"] = rng.choice([3000, 20000])
        d["NBIDI"] = 1
        d["NUNI"] = 1
        d["CLOSER"] = 0
        d["IDLE_MS"] = 2000
        d["MAX_TIME"] = 20_000_000
        d["NCONNS"] = rng.choice([1, 2])
        if rng.chance(1, 2):
            d["RETRY"] = 1
        if rng.chance(1, 4):
            d["CID_LEN"] = rng.choice([4, 20])
        cases.append(S.case_of(d))
    return cases


project = base.project
nontrivial = base.nontrivial
stats = base.stats
describe = S.describe
