"""Generator for the `cid_state` component (CidState in quinn-proto/src/connection/cid_state.rs vs coq/Model/CidState.v)."""
RULE = ("ops: new(cid_len, lifetime, now, issued) / new_cids(n consecutive, now) / on_cid_retirement(peer-chosen "
        "sequence, limit) / on_cid_timeout / observe; retirement sequence numbers at issued-1, issued, issued+1, "
        "0, duplicates, 2^62-1; zero-length CIDs; batches issued at equal and at different times; "
        "non-trivial = the case has an accepted retirement, a rejected one and a timeout that advanced "
        "retire_prior_to")

M62 = (1 << 62) - 1


def gen_case(rng):
    ops = []
    cl = rng.choice([8, 8, 8, 0, 20, 1])
    lt = rng.choice([-1, 1000, 1000, 5000, 0])
    now = rng.below(3) * 500
    issued = rng.choice([1, 1, 2, 2, 0, 3])
    ops.append([0, cl, lt, now, issued])
    n = rng.range(4, 40)
    retired = []
    for _ in range(n):
        k = rng.below(20)
        if k < 5:
            if rng.chance(1, 2):
                now += rng.choice([0, 0, 1, 500, 1000, 4000])
            m = rng.choice([1, 1, 1, 2, 3, 7, 0])
            ops.append([1, m, now])
            issued += m
        elif k < 14:
            j = rng.below(12)
            if j < 5 and issued > 0:
                seq = rng.below(issued)
            elif j < 6:
                seq = issued
            elif j < 7:
                seq = issued + 1
            elif j < 8:
                seq = max(0, issued - 1)
            elif j < 9 and retired:
                seq = rng.choice(retired)
            elif j < 10:
                seq = rng.choice([M62, rng.boundary(), issued + 2, issued + 1000])
            else:
                seq = 0 if not retired else min(issued, max(retired) + 1)
            retired.append(seq)
            ops.append([2, seq, rng.choice([8, 8, 2, 4, 1, 0, issued, rng.below(12)])])
        elif k < 18:
            ops.append([3])
        else:
            ops.append([4])
    return ops


def gen(rng, n):
    return [gen_case(rng) for _ in range(n)]


def nontrivial(case, outs):
    if outs == [[-999]]:
        return False
    ok = rej = adv = False
    last_rs = 0
    for op, o in zip(case, outs):
        if op[0] == 2:
            ok |= o[0] == 0
            rej |= o[0] == 1
        if op[0] == 0:
            last_rs = 0
        if op[0] == 3 and o[4] > last_rs:
            adv = True
        last_rs = o[4]
    return ok and rej and adv


def stats(cases, outs):
    d = {"new": 0, "issue": 0, "retire_ok": 0, "retire_ok_at_issued": 0, "retire_rejected": 0,
         "retire_noop": 0, "timeout": 0, "timeout_true": 0, "observe": 0, "panic_cases": 0,
         "max_active": 0, "max_issued": 0, "zero_len_cid_cases": 0}
    for c, o in zip(cases, outs):
        if o == [[-999]]:
            d["panic_cases"] += 1
            continue
        if c[0][1] == 0:
            d["zero_len_cid_cases"] += 1
        prev_na = None
        for op, r in zip(c, o):
            d["max_active"] = max(d["max_active"], r[7])
            d["max_issued"] = max(d["max_issued"], r[2])
            if op[0] == 0:
                d["new"] += 1
            elif op[0] == 1:
                d["issue"] += 1
            elif op[0] == 2:
                if r[0] == 0:
                    d["retire_ok"] += 1
                    if op[1] == r[2]:
                        d["retire_ok_at_issued"] += 1
                    if prev_na == r[7]:
                        d["retire_noop"] += 1
                else:
                    d["retire_rejected"] += 1
            elif op[0] == 3:
                d["timeout"] += 1
                d["timeout_true"] += r[1]
            else:
                d["observe"] += 1
            prev_na = r[7]
    return d
