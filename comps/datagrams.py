"""Generator for the `datagrams` component (DatagramState + Datagrams::{send,max_size,recv,send_buffer_space}
in quinn-proto/src/connection/datagrams.rs vs coq/Model/DatagramState.v)."""

RULE = ("op 0 = connection context (receive buffer None/0/small, send buffer 0/small/large, peer "
        "max_datagram_frame_size None/0/around SIZE_BOUND/large, path MTU from 'too small for any packet' to 1452, "
        "remote CID length 0/8/20); then send(drop or not) with payload sizes 0..max+2 and around the send buffer, "
        "write with buffer prefix/limit around the frame size (varint length boundary 63/64), received with "
        "window None/0/small (overflow evictions), recv, drop_oversized around the queued sizes, "
        "send_buffer_space, max_size, MTU and peer-limit changes. non-trivial = the case contains an eviction "
        "(receive overflow or send with drop), a recv that returned a payload and a write that emitted a frame")

SHARD = 50
TIMEOUT = 60     # seconds for the implementation run: a broken eviction loop in `received` spins forever


def ctx(rng):
    recv_buf = rng.choice([-1, 0, 1, 10, 30, 30, 60, 100, 1000])
    send_buf = rng.choice([0, 1, 10, 30, 30, 60, 100, 2000])
    cid_len = rng.choice([0, 8, 8, 20])
    floor = 30 + cid_len          # overhead + SIZE_BOUND
    k = rng.below(10)
    if k < 5:
        mtu = floor + rng.choice([0, 1, 2, 10, 40, 70, 100])
    elif k < 8:
        mtu = rng.choice([1200, 1200, 1452])
    elif k < 9:
        mtu = floor + rng.choice([0, 1])
    else:
        mtu = max(0, floor - rng.choice([1, 2, 30]))     # max_size underflows (documented panic)
    k = rng.below(10)
    if k < 1:
        peer = -1
    elif k < 5:
        peer = rng.choice([0, 8, 9, 10, 11, 20, 40, 80, 110])
    else:
        peer = rng.choice([1200, 65535, 1 << 20, (1 << 62) - 1])
    return [0, recv_buf, send_buf, peer, mtu, cid_len]


def approx_max(c):
    if c[3] < 0:
        return 40
    return max(0, min(max(0, c[3] - 9), c[4] - 30 - c[5]))


def payload(rng, n):
    t = rng.below(256)
    return [(t + i) % 256 for i in range(n)]


def gen_case(rng):
    c = ctx(rng)
    ops = [c]
    mx = min(approx_max(c), 66)
    sb = c[2]
    rb = c[1]
    lens_out = []
    for _ in range(rng.range(6, 36)):
        k = rng.below(20)
        if k < 6:
            j = rng.below(8)
            if j < 3:
                n = rng.range(0, mx + 2)
            elif j < 5:
                n = max(0, min(sb, mx) + rng.range(-2, 2))
            elif j < 6:
                n = rng.choice([0, 1, 62, 63, 64, 65])
            else:
                n = rng.range(0, max(1, min(sb, mx) // 3 + 1))
            n = min(n, 68)
            ops.append([1, rng.choice([0, 0, 1])] + payload(rng, n))
            lens_out.append(n)
        elif k < 9:
            n = lens_out[0] if lens_out and rng.chance(2, 3) else rng.range(0, 70)
            sz = 1 + (1 if n < 64 else 2) + n
            prefix = rng.choice([0, 0, 1, 5, 100])
            lim = prefix + sz + rng.choice([-2, -1, 0, 0, 0, 1, 50, 1200])
            ops.append([3, prefix, max(0, lim)])
        elif k < 13:
            w = rng.choice([rb, rb, rb, -1, 0, 1, 10, 30]) if rb >= 0 else rng.choice([-1, 0, 10, 30])
            j = rng.below(6)
            if w <= 0:
                n = rng.choice([0, 1, 2])
            elif j < 2:
                n = rng.range(0, w + 2)
            elif j < 4:
                n = rng.range(0, max(1, w // 3))
            else:
                n = max(0, w + rng.range(-1, 1))
            n = min(n, 68)
            ops.append([4, w] + payload(rng, n))
        elif k < 16:
            ops.append([5])
        elif k < 17:
            base = rng.choice(lens_out) if lens_out else rng.range(0, 40)
            ops.append([6, max(0, base + rng.range(-1, 1))])
        elif k < 18:
            ops.append([7])
        elif k < 19:
            ops.append([2])
        else:
            j = rng.below(6)
            if j == 0:
                ops.append([8, max(0, 30 + c[5] + rng.choice([0, 1, 5, 50, 1170, -1]))])
            elif j == 1:
                ops.append([9, rng.choice([-1, 0, 9, 10, 30, 1200])])
            elif j == 2:
                ops.append([12, 3])                   # unknown opcode
            elif j == 3:
                ops.append([3, 1])                    # wrong arity
            elif j == 4:
                ops.append([6, 0])                    # drop everything
            else:
                ops.append([5])
    if rng.chance(1, 40):
        ops[0] = [2]
    return ops


def gen(rng, n):
    return [gen_case(rng) for _ in range(n)]


def _events(case, outs):
    ev = {"evict_in": 0, "evict_out": 0, "recv_some": 0, "wrote": 0, "codes": {}, "oversized_dropped": 0,
          "violation": 0, "max_len_admitted": 0}
    prev = None
    for op, o in zip(case, outs):
        if len(o) < 6:
            prev = None if len(o) != 6 else o
            continue
        if prev is not None:
            if op[0] == 4 and o[0] == 0 and o[4] <= prev[4]:
                ev["evict_in"] += 1
            if op[0] == 1 and o[0] == 0 and o[2] <= prev[2]:
                ev["evict_out"] += 1
        if op[0] == 1:
            ev["codes"][str(o[0])] = ev["codes"].get(str(o[0]), 0) + 1
        if op[0] == 4 and o[0] == 1:
            ev["violation"] += 1
        if op[0] == 5 and o[0] == 1:
            ev["recv_some"] += 1
        if op[0] == 3 and o[0] == 1:
            ev["wrote"] += 1
        if op[0] == 6 and o[0] == 1:
            ev["oversized_dropped"] += 1
        prev = o
    return ev


def nontrivial(case, outs):
    if outs == [[-999]]:
        return False
    ev = _events(case, outs)
    return (ev["evict_in"] + ev["evict_out"] > 0) and ev["recv_some"] > 0 and ev["wrote"] > 0


def stats(cases, outs):
    d = {"ops": {}, "panic_cases": 0, "evict_in": 0, "evict_out": 0, "recv_some": 0, "wrote": 0,
         "send_codes": {}, "oversized_dropped": 0, "received_rejected": 0, "payload_len_max": 0}
    for c, o in zip(cases, outs):
        if o == [[-999]]:
            d["panic_cases"] += 1
            continue
        ev = _events(c, o)
        for k in ("evict_in", "evict_out", "recv_some", "wrote", "oversized_dropped"):
            d[k] += ev[k]
        d["received_rejected"] += ev["violation"]
        for k, v in ev["codes"].items():
            d["send_codes"][k] = d["send_codes"].get(k, 0) + v
        for op in c:
            d["ops"][str(op[0])] = d["ops"].get(str(op[0]), 0) + 1
            if op[0] in (1, 4):
                d["payload_len_max"] = max(d["payload_len_max"], len(op) - 2)
    return d
