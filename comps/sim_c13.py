"""C13 system level: datagram sizes of real endpoints under changing link MTUs; coq/Sys/MonC13.v."""
from . import simlib as S
SUBCMD = "sim"
IS_TRACE = True
RUN = "monitor"
TAGS = {8, 1}
RULE = ("link MTU drawn from 1200..9000 and changed at a random instant, initial/min MTU and discovery upper bound "
        "combinations, GSO batch 1..10, loss, datagram workloads, client address changes with datagrams queued (path-validation datagrams padded to 1200); every transmit's segments are compared with the MTU "
        "estimate probed just before the call; non-trivial = at least one MTU probe was sent or one GSO batch of >= 2 datagrams")


def gen(rng, n):
    cases = []
    for i in range(n):
        d = S.base(rng, small=rng.chance(1, 2))
        d["STREAM_BYTES"] = rng.choice([3000, 20000, 60000])
        d["GSO"] = rng.choice([1, 2, 3, 5, 10])
        d["MTUD_UPPER"] = rng.choice([0, 1300, 1452, 1500, 4000, 9000])
        d["LINK_MTU"] = rng.choice([1200, 1250, 1350, 1452, 1500, 4000, 9000])
        d["INITIAL_MTU"] = rng.choice([1200, 1200, 1300, 1452])
        if d["INITIAL_MTU"] > d["LINK_MTU"]:
            d["MIN_MTU"] = 1200
        else:
            d["MIN_MTU"] = rng.choice([1200, min(1250, d["INITIAL_MTU"])])
        if rng.chance(1, 3):
            d["LINK_MTU_AT"] = rng.choice([30000, 80000, 200000])
            d["LINK_MTU2"] = rng.choice([1200, 1300, 1452, 9000])
        if rng.chance(1, 2):
            S.lossy(rng, d)
        if rng.chance(1, 3):
            d["NDGRAM"] = rng.range(1, 30)
            d["DGRAM_SIZE"] = rng.choice([8, 500, 1100, 1150])
        if rng.chance(1, 3):
            d["PAD_TO_MTU"] = 1
        if rng.chance(1, 4):
            d["ACK_FREQ"] = 2
        if rng.chance(1, 4):
            d["RETRY"] = 1
        if rng.chance(1, 4):
            # path validation (client address change) while datagrams / stream data are queued: the
            # PATH_CHALLENGE / PATH_RESPONSE datagrams may share a GSO batch with others
            d["MIGRATE_AT"] = rng.choice([40000, 60000, 100000, 150000])
            d["MIGRATE_KIND"] = rng.below(2)
            d["GSO"] = rng.choice([2, 3, 5, 10])
            d["NDGRAM"] = rng.range(5, 40)
            d["DGRAM_SIZE"] = rng.choice([900, 1000, 1100, 1150])
            d["DGRAM_INTERVAL"] = rng.choice([0, 2000, 5000])
            d["DGRAM_START"] = rng.choice([0, d["MIGRATE_AT"] - 5000, d["MIGRATE_AT"]])
            d["ECHO_BYTES"] = rng.choice([0, 20000])
            d["LINK_MTU"] = max(d["LINK_MTU"], 1452)
        if rng.chance(1, 5):
            # an application close with a reason about as long as a packet (truncated to fit), while ACK
            # ranges are pending: the close datagram must still respect the MTU
            d["CLOSE_REASON_LEN"] = rng.choice([1100, 1300, 1500, 3000])
            d["CLOSER"] = rng.choice([0, 1, 2])
            if rng.chance(1, 2):
                d["CLOSE_AT"] = rng.choice([40000, 80000, 150000])
        d["MAX_TIME"] = 20_000_000
        cases.append(S.case_of(d))
    return cases


def project(case, outs):
    return S.project(outs, TAGS)


def nontrivial(case, outs):
    mtu = {}
    for r in outs:
        if r[0] == 8:
            mtu[(r[2], r[3])] = r[4 + 7]
        elif r[0] == 1 and r[8] == 0:
            if r[6] > 0 and r[5] > r[6]:
                return True
            if r[6] == 0 and r[5] > mtu.get((r[2], r[3]), 1 << 30):
                return True
    return False


def stats(cases, outs):
    st = S.trace_stats(cases, outs)
    st["mtu_probes"] = 0
    st["gso_batches"] = 0
    for o in outs:
        mtu = {}
        for r in o:
            if r[0] == 8:
                mtu[(r[2], r[3])] = r[11]
            elif r[0] == 1 and r[8] == 0:
                if r[6] > 0 and r[5] > r[6]:
                    st["gso_batches"] += 1
                if r[6] == 0 and r[5] > mtu.get((r[2], r[3]), 1 << 30):
                    st["mtu_probes"] += 1
    return st


describe = S.describe
