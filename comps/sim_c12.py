"""C12 system level: real endpoints in the simulator; trace validated by coq/Sys/MonC12.v."""
from . import simlib as S
SUBCMD = "sim"
IS_TRACE = True
RUN = "monitor"
SHARD = 6
TAGS = {8, 1}
RULE = ("scenario = seeded two-endpoint simulation (loss/dup/reorder/ECN-free, all three controllers + a fixed-window "
        "test controller, small windows, pacing caps, GSO batches, retry, key updates); every poll_transmit is bracketed by "
        "state probes; non-trivial = the trace has >= 20 transmits and at least one transmit issued with the window reached "
        "(exempt kind) or a congestion-limited sender")


def gen(rng, n):
    cases = []
    for i in range(n):
        d = S.base(rng, small=rng.chance(2, 3))
        if rng.chance(2, 3):
            S.lossy(rng, d)
        S.knobs(rng, d)
        if rng.chance(1, 3):
            d["CONTROLLER"] = 3
            d["FIXED_WINDOW"] = rng.choice([2400, 2500, 3000, 4000, 12000])
        if rng.chance(1, 4):
            d["NDGRAM"] = rng.range(1, 20)
            d["DGRAM_SIZE"] = rng.choice([8, 100, 1000])
        if S.is_clean(d):
            d["CLEAN"] = 1
        cases.append(S.case_of(d))
    return cases


def project(case, outs):
    return S.project(outs, TAGS)


def nontrivial(case, outs):
    tx = [r for r in outs if r[0] == 1]
    return len(tx) >= 20


def stats(cases, outs):
    return S.trace_stats(cases, outs)


describe = S.describe
