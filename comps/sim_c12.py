"""C12 system level: real endpoints in the simulator; trace validated by coq/Sys/MonC12.v."""
from . import simlib as S
SUBCMD = "sim"
IS_TRACE = True
RUN = "monitor"
SHARD = 6
TAGS = {8, 1}
RULE = ("scenario = seeded two-endpoint simulation (loss/dup/reorder/ECN-free, all three controllers + a fixed-window "
        "test controller, small windows, pacing caps, GSO batches, retry, key updates); every poll_transmit is bracketed by "
        "state probes; non-trivial = the trace has >= 20 transmits and at least one transmit issued with the window reached "
        "(exempt kind) or a congestion-limited sender")


def gen(rng, n):
    cases = []
    for i in range(n):
        d = S.base(rng, small=rng.chance(2, 3))
        if rng.chance(2, 3):
            S.lossy(rng, d)
        S.knobs(rng, d)
        if rng.chance(1, 3):
            d["CONTROLLER"] = 3
            d["FIXED_WINDOW"] = rng.choice([2400, 2500, 3000, 4000, 12000])
        if rng.chance(1, 4):
            d["NDGRAM"] = rng.range(1, 20)
            d["DGRAM_SIZE"] = rng.choice([8, 100, 1000])
        if rng.chance(1, 5):
            # packets abandoned wholesale: 0-RTT rejection, Retry with early data outstanding
            d["ZERO_RTT"] = rng.choice([1, 2])
            d["RETRY"] = rng.choice([0, 2, 2])
            d["STREAM_BYTES"] = rng.choice([700, 3000])
        if rng.chance(1, 6):
            d["MIGRATE_AT"] = rng.choice([40000, 90000])
            d["MIGRATE_KIND"] = rng.below(2)
        if S.is_clean(d):
            d["CLEAN"] = 1
        cases.append(S.case_of(d))
    return cases


def project(case, outs):
    return S.project(outs, TAGS)


def nontrivial(case, outs):
    tx = [r for r in outs if r[0] == 1]
    return len(tx) >= 20


def stats(cases, outs):
    return S.trace_stats(cases, outs)


describe = S.describe


def classify(case, outs):
    """Known finding `coalesced-behind-ack-only`: window passed by a single datagram (consecutive ones accumulate) that
    starts with a long-header packet (ack-eliciting data coalesced behind handshake ACKs)."""
    last = {}
    pend = None
    for r in outs:
        if r[0] == 8:
            k = (r[2], r[3])
            if pend is not None and pend[0] == k:
                b, tx = pend[1], pend[2]
                added = r[4 + 5] > b[4 + 5]
                over = not (r[4 + 4] < max(b[4 + 6], r[4 + 6]))
                if added and over and (tx[9] & 1) and tx[6] == 0 and tx[5] <= b[4 + 7] \
                        and b[4 + 16] == 0 and b[4 + 9] == 0:
                    return "coalesced-behind-ack-only"
            pend = None
            last[k] = r
        elif r[0] == 1 and r[8] == 0:
            k = (r[2], r[3])
            if k in last:
                pend = (k, last[k], r)
    return None


KNOWN_PARAM = {"coalesced-behind-ack-only": [902, 1]}
