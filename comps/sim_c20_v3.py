"""C20 twin runs, variant 3 only (see comps/sim_c20.py). One component per variant keeps the peak memory of the python
driver bounded when a defect makes connections chatter (traces of millions of records)."""
from .sim_c20 import *   # noqa: F401,F403
from . import sim_c20 as _m


def gen(rng, n):
    return _m.gen(rng, n, twin=3)
