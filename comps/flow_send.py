"""Generator for the `flow_send` component (send side of StreamsState vs coq/Model/FlowSend.v)."""
RULE = ("case = [new(side, remote limits, send window)] [set_params p0] early application ops "
        "(0-RTT phase: open/write/finish/reset/transmit/Retry/set_send_window/poll) "
        "[acceptance: set_params p1 >= p0 | rejection: zero_rtt_rejected + set_params p1 | nothing] "
        "then application ops interleaved with MAX_DATA / MAX_STREAM_DATA / MAX_STREAMS / STOP_SENDING frames "
        "(lower, equal, higher, boundary values; for open, unopened, finished, reset, remote and junk ids), "
        "STREAM frame transmission, acknowledgement or loss of logged frames; write sizes are placed around the "
        "remaining credit of a python ledger (credit-1, credit, credit+1). One case in eight is undisciplined "
        "(ops in any order). non-trivial = at least one write was cut short or blocked by a limit AND at least one "
        "credit frame was delivered after it AND a later write was accepted")

SHARD = 125
B62 = (1 << 62) - 1
LIMS = [0, 1, 2, 63, 64, 100, 255, 1000, 5000, 16383, 16384, (1 << 30) - 1, 1 << 30, (1 << 30) + 1, B62]
SMALL = [0, 1, 50, 63, 64, 100, 200, 300, 1000, 3000]
COUNTS = [0, 1, 2, 3, 4, 5, 1 << 60, (1 << 60) + 1, B62]


WORK = [63, 64, 100, 200, 300, 1000, 3000, 5000, 16383, 16384, 20000]


def pick_limit(rng):
    k = rng.below(20)
    if k < 11:
        return rng.choice(WORK)
    if k < 13:
        return rng.choice(SMALL)
    if k < 18:
        return rng.choice(LIMS)
    return max(0, rng.choice(LIMS) + rng.range(-2, 2)) & B62


def pick_count(rng):
    k = rng.below(10)
    if k < 7:
        return rng.range(1, 5)
    if k < 8:
        return 0
    return rng.choice(COUNTS)


def pick_params(rng, at_least=None):
    p = [pick_limit(rng), pick_count(rng), pick_count(rng), pick_limit(rng), pick_limit(rng), pick_limit(rng)]
    if at_least is not None:
        p = [max(a, b) if rng.chance(3, 4) else min(B62, max(a, b) + rng.choice([0, 1, 64, 1000]))
             for a, b in zip(p, at_least)]
    return p


class Ledger:
    """What a correct implementation would allow (used only to aim write sizes at boundaries)."""

    def __init__(self, side, mrb, sw):
        self.side, self.mrb, self.sw = side, mrb, sw
        self.par = [0] * 6
        self.restart()

    def restart(self):
        self.conn_lim = 0
        self.conn_used = 0
        self.opened = [0, 0]
        self.max_streams = [0, 0]
        self.used = {}
        self.lim = {}
        self.par = [0] * 6
        self.unacked = 0
        self.frames = 0
        self.dirty = set()
        self.dead = set()
        self.next_ack = 0
        if not hasattr(self, "nr"):
            self.nr = 0      # static next_remote (Bi): raised by MAX_STREAM_DATA on peer-initiated ids
            self.rep = 0     # accepts that certainly succeeded

    def params(self, p):
        self.par = list(p)
        self.conn_lim = max(self.conn_lim, p[0])
        self.max_streams = [p[1], p[2]]

    def kind_limit(self, sid):
        if (sid >> 1) & 1:
            return self.par[5]
        return self.par[4] if (sid & 1) == self.side else self.par[3]

    def stream_lim(self, sid):
        return max(self.kind_limit(sid), self.lim.get(sid, 0))

    def avail(self, sid):
        return max(0, min(self.conn_lim - self.conn_used, self.stream_lim(sid) - self.used.get(sid, 0),
                          self.sw - self.unacked))

    def wrote(self, sid, n):
        n = min(n, self.avail(sid))
        self.used[sid] = self.used.get(sid, 0) + n
        self.conn_used += n
        self.unacked += n
        self.dirty.add(sid)

    def local_ids(self):
        return [(i << 2) | (d << 1) | self.side for d in (0, 1) for i in range(self.opened[d])]

    def live_ids(self):
        return [i for i in self.local_ids() if i not in self.dead]

    def ack_index(self, rng):
        if rng.chance(3, 4):
            k = self.next_ack
            self.next_ack += 1
            return k
        return rng.below(self.frames + 2)

    def remote_ids(self):
        return [(i << 2) | (1 - self.side) for i in range(self.mrb)]

    def accepted_ids(self):
        return [(i << 2) | (1 - self.side) for i in range(min(self.rep, self.mrb))]

    def app_safe(self, sid):
        """The application never names a peer-initiated stream that exists but was not accepted."""
        if (sid & 1) != self.side and not (sid >> 1) & 1 and self.rep <= (sid >> 2) < self.mrb:
            return ((self.mrb + (sid >> 2)) << 2) | (sid & 3)
        return sid


def pick_id(rng, L, local_only=False, app=False):
    sid = pick_id0(rng, L, local_only, app)
    return L.app_safe(sid) if app else sid


def pick_id0(rng, L, local_only, app):
    loc = L.live_ids() if rng.chance(9, 10) else L.local_ids()
    k = rng.below(20)
    if local_only:
        if loc and k < 18:
            return rng.choice(loc)
        d = rng.below(2)
        return ((L.opened[d] + rng.below(2)) << 2) | (d << 1) | L.side
    if loc and k < 12:
        return rng.choice(loc)
    rem = [i for i in (L.accepted_ids() if app else L.remote_ids()) if app is False or i not in L.dead or rng.chance(1, 5)]
    if rem and k < 16:
        return rng.choice(rem)
    if k < 17:      # unopened local / beyond-limit remote
        d = rng.below(2)
        return ((L.opened[d] + rng.below(3)) << 2) | (d << 1) | L.side
    if k < 18:      # remote uni (recv-only) or remote bidi beyond the limit
        return (rng.below(4) << 2) | (rng.below(2) << 1) | (1 - L.side)
    if k < 19:
        return rng.below(64)
    return rng.boundary() & B62


def write_size(rng, L, sid):
    a = L.avail(sid)
    k = rng.below(10)
    if k < 4 and a <= 4000:
        return max(0, min(4096, a + rng.range(-1, 1)))
    if k < 5:
        return 0
    if k < 6:
        return 1
    return rng.choice([10, 50, 63, 64, 100, 150, 500, 1200, 3000])


def app_op(rng, L, early):
    k = rng.below(100)
    if getattr(L, "owe_observe", False):
        L.owe_observe = False
        if rng.chance(2, 3):
            return [19]
    if not L.local_ids() and max(L.max_streams) > 0 and rng.chance(3, 5):
        k = 0
    if k < 12:
        d = rng.below(2)
        if L.opened[d] >= L.max_streams[d] and rng.chance(2, 3):
            d = 1 - d
        if L.opened[d] < L.max_streams[d]:
            L.opened[d] += 1
        return [2, d]
    if k < 58:
        sid = pick_id(rng, L, local_only=early, app=True)
        n = write_size(rng, L, sid)
        if sid in L.local_ids() or sid in L.remote_ids():
            L.wrote(sid, n)
        return [3, sid, n]
    if k < 63:
        sid = pick_id(rng, L, local_only=early, app=True)
        L.dirty.add(sid)
        L.dead.add(sid)
        return [4, sid]
    if k < 66:
        sid = pick_id(rng, L, local_only=early, app=True)
        L.dead.add(sid)
        return [5, sid]
    if k < 84:
        mb = rng.choice([0, 25, 26, 27, 40, 60, 100, 300, 1200, 1200, 1452, 3000])
        if mb > 26:
            L.frames += len(L.dirty) if mb >= 1200 else min(1, len(L.dirty))
            if mb >= 1200:
                L.dirty = set()
        return [9, mb]
    if k < 88:
        if early:
            # no loss can be detected before the handshake; a client may receive a Retry instead
            if L.side == 0:
                L.next_ack = L.frames
                L.owe_observe = True
                return [21]
            return [15]
        return [11, L.ack_index(rng)]
    if k < 91:
        w = rng.choice([0, 1, 100, 1000, 5000, 1 << 20, B62, (1 << 64) - 1])
        L.sw = w
        return [13, w]
    if k < 96:
        return [15]
    return [19]


def frame_op(rng, L):
    k = rng.below(100)
    if k < 22:
        cur = L.conn_lim
        v = rng.choice([cur, max(0, cur - rng.choice([1, 50])), cur + rng.choice([1, 50, 100, 1000]),
                        L.conn_used + rng.choice([0, 1, 100]), pick_limit(rng)])
        v = min(v, B62)
        L.conn_lim = max(L.conn_lim, v)
        return [6, v]
    if k < 50:
        sid = pick_id(rng, L)
        cur = L.stream_lim(sid)
        v = rng.choice([cur, max(0, cur - rng.choice([1, 20])), cur + rng.choice([1, 50, 100, 1000]),
                        L.used.get(sid, 0) + rng.choice([0, 1, 64]), pick_limit(rng)])
        v = min(v, B62)
        if sid in L.local_ids() or sid in L.remote_ids():
            L.lim[sid] = max(L.lim.get(sid, 0), v)
        if (sid & 1) != L.side and not (sid >> 1) & 1:
            L.nr = max(L.nr, (sid >> 2) + 1)
        return [7, sid, v]
    if k < 62:
        d = rng.below(2)
        cur = L.max_streams[d]
        v = rng.choice([cur, max(0, cur - 1), cur + 1, cur + 2, pick_count(rng)])
        if v <= 1 << 60:
            L.max_streams[d] = max(cur, v)
        return [8, d, min(v, (1 << 64) - 1)]
    if k < 82:
        return [10, L.ack_index(rng)]
    if k < 86:
        sid = pick_id(rng, L)
        L.dead.add(sid)
        return [16, sid, rng.below(100)]
    if k < 92:
        return [17, pick_id(rng, L)]
    d = 0 if rng.chance(3, 4) else 1
    if d == 0 and L.rep < L.nr:
        L.rep += 1
    return [18, d]


def remote_stream(rng, L):
    """The peer opens its next bidirectional stream (MAX_STREAM_DATA on it), the application accepts it and
    writes around the limit that applies to peer-initiated streams (initial_max_stream_data_bidi_local)."""
    if L.mrb == 0 or L.rep >= L.mrb or L.nr > L.rep:
        return []
    rid = (L.rep << 2) | (1 - L.side)
    cur = L.stream_lim(rid)
    v = rng.choice([0, cur, max(0, cur - 1), cur + 1, cur + rng.choice([10, 100])])
    L.lim[rid] = max(L.lim.get(rid, 0), v)
    L.nr = L.rep + 1
    L.rep += 1
    ops = [[7, rid, v], [18, 0]]
    for _ in range(rng.range(1, 3)):
        n = write_size(rng, L, rid)
        L.wrote(rid, n)
        ops.append([3, rid, n])
    return ops


def lone_fin(rng, L):
    """An early stream finished without data whose FIN was sent, then a Retry (client only)."""
    d = rng.below(2)
    if L.side != 0 or L.opened[d] >= L.max_streams[d]:
        return []
    sid = (L.opened[d] << 2) | (d << 1)
    L.opened[d] += 1
    L.dead.add(sid)
    ops = [[2, d]]
    if rng.chance(1, 3):
        ops.append(app_op(rng, L, True))
    ops += [[4, sid], [9, rng.choice([100, 1200, 1200, 3000])]]
    if rng.chance(1, 3):
        ops.append(app_op(rng, L, True))
    ops += [[21], [19]]
    L.next_ack = L.frames = L.frames + 2
    if rng.chance(1, 2):
        ops += [[9, 1200], [19]]
    return ops


def gen_wf(rng):
    side = rng.below(2)
    mrb = rng.choice([0, 0, 1, 2, 3])
    sw = rng.choice([0, 1, 100, 200, 300, 1000, 1000, 5000, 5000, 1 << 20, 1 << 20, 1 << 20, B62, (1 << 64) - 1])
    ops = [[0, side, rng.below(3), mrb, sw]]
    L = Ledger(side, mrb, sw)
    p0 = pick_params(rng)
    if rng.chance(1, 8):
        p0 = [0] * 6
    ops.append([1] + p0)
    L.params(p0)
    mode = rng.below(6)          # 0,1: no early phase; 2,3: accept; 4,5: reject
    if mode >= 2:
        for _ in range(rng.range(0, 14)):
            ops.append(app_op(rng, L, True))
            if rng.chance(1, 30):
                ops += lone_fin(rng, L)
        if mode < 4:
            p1 = pick_params(rng, at_least=p0)
            ops.append([1] + p1)
            L.params(p1)
        else:
            p1 = pick_params(rng)
            ops.append([14])
            ops.append([1] + p1)
            L.restart()
            L.params(p1)
    for _ in range(rng.range(6, 40)):
        if rng.chance(1, 10):
            ops += remote_stream(rng, L)
        elif rng.chance(3, 5):
            ops.append(app_op(rng, L, False))
        else:
            ops.append(frame_op(rng, L))
    return ops


def gen_wild(rng):
    side = rng.below(2)
    mrb = rng.choice([0, 1, 2])
    L = Ledger(side, mrb, 1 << 20)
    ops = []
    if rng.chance(7, 8):
        ops.append([0, side, rng.below(3), mrb, rng.choice([0, 100, 1 << 20])])
    for _ in range(rng.range(4, 36)):
        k = rng.below(20)
        if k < 2:
            p = pick_params(rng)
            if rng.chance(1, 10):
                p[rng.below(6)] = rng.choice([1 << 62, (1 << 64) - 1])
            ops.append([1] + p)
            L.params(p)
        elif k < 3:
            ops.append([14])
            L.opened = [0, 0]
        elif k < 4:
            ops.append(rng.choice([[6, 1 << 62], [16, pick_id(rng, L), 1 << 62], [12], [10, -1], [2, 7], [8, 3, 2], [21], [21]]))
        elif k < 12:
            ops.append(app_op(rng, L, False))
        else:
            ops.append(frame_op(rng, L))
    return ops


def gen(rng, n):
    return [gen_wild(rng) if rng.chance(1, 8) else gen_wf(rng) for _ in range(n)]


def nontrivial(case, outs):
    if outs == [[-999]] or len(outs) != len(case):
        return False
    limited = credit = False
    for op, o in zip(case, outs):
        if op[0] == 3:
            if o[0] == 1 or (o[0] == 0 and o[1] < op[2]):
                limited = True
            elif limited and credit and o[0] == 0 and o[1] > 0:
                return True
        elif op[0] in (6, 7, 10, 13) and limited and o[0] == 0:
            credit = True
    return False


def stats(cases, outs):
    d = {"ops": {}, "write": {"full": 0, "cut": 0, "blocked": 0, "stopped": 0, "closed": 0},
         "open": {"some": 0, "none": 0}, "msd": {}, "max_streams": {}, "frames_sent": 0, "acks": 0, "acks_dead": 0,
         "lost": 0, "panics": 0, "rejections": 0, "events": {}, "len": {"min": 10 ** 9, "max": 0},
         "writes_accepted_on_peer_initiated": 0, "accepts": 0}
    for c, o in zip(cases, outs):
        d["len"]["min"] = min(d["len"]["min"], len(c))
        d["len"]["max"] = max(d["len"]["max"], len(c))
        if o == [[-999]] or len(o) != len(c):
            d["panics"] += 1
            continue
        for op, r in zip(c, o):
            d["ops"][str(op[0])] = d["ops"].get(str(op[0]), 0) + 1
            if op[0] == 3 and r[0] == 0 and r[1] > 0 and c and c[0][0] == 0 and (op[1] & 1) != (1 if c[0][1] else 0):
                d["writes_accepted_on_peer_initiated"] += 1
            if op[0] == 18 and r[0] == 0:
                d["accepts"] += 1
            if op[0] == 3:
                key = {0: "full", 1: "blocked", 2: "stopped", 3: "closed"}.get(r[0], "closed")
                if r[0] == 0 and r[1] < op[2]:
                    key = "cut"
                d["write"][key] += 1
            elif op[0] == 2:
                d["open"]["some" if r[0] == 0 else "none"] += 1
            elif op[0] == 7:
                d["msd"][str(r[0])] = d["msd"].get(str(r[0]), 0) + 1
            elif op[0] == 8:
                d["max_streams"][str(r[0])] = d["max_streams"].get(str(r[0]), 0) + 1
            elif op[0] == 9 and r[0] >= 0:
                d["frames_sent"] += r[0]
            elif op[0] == 10:
                d["acks" if r[0] == 0 else "acks_dead"] += 1
            elif op[0] == 11 and r[0] == 0:
                d["lost"] += 1
            elif op[0] == 14:
                d["rejections"] += 1
            elif op[0] == 15:
                d["events"][str(r[0])] = d["events"].get(str(r[0]), 0) + 1
    return d
