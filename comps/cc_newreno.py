"""Generator for `cc_newreno` (NewReno vs coq/Model/NewReno.v, exact model)."""
from . import cc_common as C
from lib import qv

RULE = ("call histories of the Controller trait on a real NewReno: build(initial_window, mtu) then 6..40 "
        "calls with increasing times, packet numbers, sent times before/after the recovery start, "
        "MTU updates (shrinking, growing, more than doubling), persistent congestion, rare u64-overflowing "
        "byte counts; non-trivial = at least one congestion event that reduced the window and one MTU update")


def gen(rng, n):
    return [C.gen_case(rng, "newreno", overflow=True) for _ in range(n)]


def nontrivial(case, outs):
    if outs == qv.PANIC_OUT:
        return False
    drop = any(op[0] == 4 and b[0] < a[0] for op, a, b in zip(case[1:], outs, outs[1:]) if a != [-1] and b != [-1])
    return drop and any(op[0] == 6 for op in case)


def stats(cases, outs):
    return C.base_stats(cases, outs)
