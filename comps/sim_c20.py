"""C20 system level: twin runs of the REAL endpoints in the simulator (scenario key 901); the two
traces are compared by coq/Sys/MonC20.v."""
from . import simlib as S
SUBCMD = "sim"
IS_TRACE = True
RUN = "monitor"
SHARD = 6
# 99 = separator between run A and run B
TAGS = {1, 2, 3, 4, 5, 6, 7, 9, 10, 11, 12, 13, 14, 15, 99}
MAX_RECORDS = 600_000   # per projected twin trace (unchanged tree: < 150_000)
PROBE_SAMPLE = 37   # every 37th state probe (tag 8) is kept, plus the first probe of each run with the Pacing timer armed
RULE = ("every scenario is run twice on the real endpoints (key 901): 1 identical replay, 2 every supplied instant shifted by "
        "977_777_777 us, 3 spurious handle_timeout / poll calls (300 permille) and early wake-ups (300 permille) added, "
        "4 timers serviced up to 3 ms late; scenarios range over loss / duplication / reordering / drop masks, all "
        "controllers incl. BBR, pacing caps, MTU discovery, GSO, retry, migration, 0-RTT accepted and rejected, key updates, "
        "keep-alive, idle timeout, CID rotation, datagrams, many connections, close by either side; non-trivial = both runs "
        "transmitted at least 8 datagrams and (variants 1, 2, 3) the compared streams are non-empty")


def gen(rng, n, twin=None):
    cases = []
    for i in range(n):
        d = S.base(rng, small=rng.chance(2, 3))
        if rng.chance(2, 3):
            S.lossy(rng, d)
        S.knobs(rng, d)
        m = rng.below(10)
        d["CLOSER"] = rng.choice([0, 0, 1, 2, 3])
        if m == 0:
            d["CLOSE_AT"] = rng.choice([5000, 25000, 80000, 200000])
        elif m == 1:      # black-out: PTO back-off, then idle timeout (SILENCE_* makes the simulator spin: not used)
            if rng.chance(1, 2):
                d["LOSS"] = 1000
            else:
                k = rng.range(0, 14)
                d["DROP_MASK"] = ((1 << 60) - 1) ^ ((1 << k) - 1)
                d["DROP_MASK_DIR"] = rng.below(3)
            d["IDLE_MS"] = rng.choice([300, 1000, 3000])
            d["MAX_TIME"] = 40_000_000
        elif m == 2:      # idle / keep-alive
            d["CLOSER"] = 3
            d["IDLE_MS"] = rng.choice([200, 1000, 5000])
            if rng.chance(2, 3):
                d["KEEPALIVE_MS"] = max(50, d["IDLE_MS"] // rng.choice([2, 3, 10]))
                d["MAX_TIME"] = 8_000_000
        elif m == 3:      # migration
            d["MIGRATE_AT"] = rng.choice([5000, 30000, 60000, 150000])
            d["MIGRATE_KIND"] = rng.below(2)
            if rng.chance(1, 3):
                d["MIGRATE2_AT"] = d["MIGRATE_AT"] + rng.choice([1000, 50000])
            d["STREAM_BYTES"] = max(d["STREAM_BYTES"], 8000)
        elif m == 4:      # 0-RTT
            d["ZERO_RTT"] = rng.choice([1, 2])
            d.pop("MAX_BIDI", None)
            d.pop("MAX_UNI", None)
        elif m == 5:      # CID rotation timer (PushNewCid)
            d["CID_LIFETIME_MS"] = rng.choice([50, 200, 1000])
            d["CLOSE_AT"] = rng.choice([300000, 1500000])
            if rng.chance(1, 2):
                # close() exactly when the rotation timer fired (between NeedIdentifiers and its answer)
                d["CLOSE_ON_TIMER"] = 8
                d["CLOSE_ON_TIMER_N"] = rng.range(1, 3)
                d["CLOSER"] = rng.choice([0, 1, 2])
                d["CLOSE_AT"] = 3_000_000
            if d.get("CID_LEN") == 0:
                d["CID_LEN"] = 8
        elif m == 6:      # many connections
            if d.get("CID_LEN", 8) != 0:
                d["NCONNS"] = rng.range(2, 4)
        elif m == 7:      # bulk with a real controller + pacing
            d["STREAM_BYTES"] = rng.choice([100000, 300000])
            d["WRITE_CHUNK"] = 100000
            d["READ_MAX"] = 100000
            d["CONTROLLER"] = rng.choice([0, 1, 2])
            d.pop("FIXED_WINDOW", None)
        if rng.chance(1, 5):
            d["NDGRAM"] = rng.range(1, 10)
        if rng.chance(1, 6):
            d["ECHO_BYTES"] = rng.choice([1, 3000])
        if rng.chance(1, 8):
            d["KEEPALIVE_MS"] = rng.choice([20, 100])
            d.setdefault("MAX_TIME", 8_000_000)
        if d.get("PACING_BPS") and d["STREAM_BYTES"] > d["PACING_BPS"] // 2:
            d["STREAM_BYTES"] = d["PACING_BPS"] // 2
        if min(d["WRITE_CHUNK"], d["READ_MAX"]) < 100 and d["STREAM_BYTES"] > 3000:
            d["STREAM_BYTES"] = 3000    # byte-sized reads / writes: keep the APP record volume down
        d["TWIN"] = 1 + (i % 4) if not rng.chance(1, 6) else rng.range(1, 4)
        if twin is not None:
            d["TWIN"] = twin
        # bound every run in virtual time: a connection that never goes quiet (a mutant answering every poll) must
        # not produce an unbounded trace (the simulator's own bound is 200_000 steps per run, i.e. millions of
        # records); variant 3 multiplies the steps, so it gets the tightest bound
        cap = 1_500_000 if d["DELAY_MIN"] > 1000 else 800_000
        if d.get("ZERO_RTT"):
            cap = 2_200_000
        if d.get("LOSS", 0) == 1000:
            cap = 3_500_000             # nothing is ever delivered: only PTO back-off and the idle timeout run
        if d.get("CLOSE_AT", 0) > 1_000_000:
            d["CLOSE_AT"] = 1_000_000
        if d.get("LOSS", 0) != 1000 and d.get("IDLE_MS", 0) > 1000:
            d["IDLE_MS"] = rng.choice([300, 1000])
        if d["TWIN"] == 3 and rng.chance(2, 3):
            # keep most variant-3 workloads below the pacer's burst capacity (10 datagrams): the comparison then
            # covers the whole run instead of stopping when the Pacing timer is first armed
            nstreams = max(1, d.get("NCONNS", 1) * (d["NBIDI"] + d["NUNI"]))
            d["STREAM_BYTES"] = min(d["STREAM_BYTES"], 8000 // nstreams)
            d["ECHO_BYTES"] = min(d.get("ECHO_BYTES", 0), 1000)
            d.pop("PACING_BPS", None)
            d["NDGRAM"] = min(d.get("NDGRAM", 0), 3)
        if d["TWIN"] == 3 and not d.get("ZERO_RTT") and d.get("LOSS", 0) != 1000:
            cap = min(cap, 600_000)
        d["MAX_TIME"] = min(d.get("MAX_TIME", cap), cap)
        if d.get("IDLE_MS", 0) == 0 or d["IDLE_MS"] > 3000:
            d["IDLE_MS"] = rng.choice([1500, 3000])
        # the base run sometimes has a driver that is itself late (variants 1/2 must still agree)
        if d["TWIN"] in (1, 2) and rng.chance(1, 4):
            S.driver(rng, d)
        cases.append(S.case_of(d))
    return cases


def project(case, outs):
    """records with a tag in TAGS; of the state probes (tag 8): every PROBE_SAMPLE-th of each run, the
    first one of each run whose Pacing timer (probe field 24) is armed, the first one of each run that shows
    a timer armed in the past, and the first probe of a
    connection after each of its handle_timeout calls (the timer table right after the call)"""
    if outs == [[-999]]:
        return outs
    res = []
    k = 0
    paced_seen = False
    overdue_seen = False
    after_ht = set()
    for r in outs:
        if not r:
            continue
        if r[0] < 0:                        # -997 the simulator process died on this case, -998 it timed out
            res.append(r)
            continue
        if len(res) >= MAX_RECORDS:
            res.append([98, len(outs)])     # trace budget exceeded: rejected by the monitor
            break
        if r[0] == 99:
            k = 0
            paced_seen = False
            overdue_seen = False
            after_ht = set()
            res.append(r)
        elif r[0] == 8:
            k += 1
            armed = len(r) > 28 and r[4 + 24] != -1
            key = (r[2], r[3])
            # a timer armed in the past (it is due, a handle_timeout call at this instant is not spurious)
            overdue = len(r) > 30 and any(0 <= r[4 + 18 + j] < r[1] for j in range(9))
            if k % PROBE_SAMPLE == 0 or (armed and not paced_seen) or (overdue and not overdue_seen) or key in after_ht:
                res.append(r)
            after_ht.discard(key)
            paced_seen = paced_seen or armed
            overdue_seen = overdue_seen or overdue
        elif r[0] in TAGS or r[0] == 16:
            if r[0] == 7:
                after_ht.add((r[2], r[3]))
            res.append(r)
    return res


def halves(outs):
    for i, r in enumerate(outs):
        if r == [99]:
            return outs[:i], outs[i + 1:]
    return outs, []


def nontrivial(case, outs):
    a, b = halves(outs)
    na = sum(1 for r in a if r[0] == 1)
    nb = sum(1 for r in b if r[0] == 1)
    return na >= 8 and nb >= 8


def stats(cases, outs):
    st = S.trace_stats(cases, outs)
    tw = {}
    ht = 0
    ht_multi = 0
    zomb = 0
    for c, o in zip(cases, outs):
        k = str(S.get(c, "TWIN", 0))
        tw[k] = tw.get(k, 0) + 1
        ht += sum(1 for r in o if r[0] == 7)
        zomb += sum(1 for r in o if r[0] == 12)
    st["twin_variants"] = tw
    st["drained_events"] = sum(1 for o in outs for r in o if r[0] == 5 and r[4] == 1)
    v3 = [(c, o) for c, o in zip(cases, outs) if S.get(c, "TWIN", 0) == 3]
    st["variant3_comparison_cut_short"] = sum(1 for c, o in v3 if paced_at(o) is not None)
    st["variant3_compared_records"] = sum(
        sum(1 for r in halves(o)[0] if r[0] in V3_TAGS and r[1] < (paced_at(o) if paced_at(o) is not None else 1 << 62))
        for c, o in v3)
    st["handle_timeout_calls"] = ht
    st["zombie_records"] = zomb
    st["controllers"] = {}
    for c in cases:
        k = str(S.get(c, "CONTROLLER", 0))
        st["controllers"][k] = st["controllers"].get(k, 0) + 1
    return st


describe = S.describe


# ------------------------------------------------------------------------------------------------
# python reference of coq/Sys/MonC20.v (experiments / classification only; the Coq monitor decides)
SETTLE_MAX = 10
V3_TAGS = (1, 2, 3, 4, 5)


def ref_single(tr):
    """index of the first record violating a per-run rule, or None"""
    chain = {}
    pend = {}
    for i, r in enumerate(tr):
        if r[0] == 16:
            return i
        if r[0] == 7:
            pend[(r[2], r[3])] = r[1]
        if r[0] == 8 and (r[2], r[3]) in pend:
            t = pend.pop((r[2], r[3]))
            if r[1] == t:
                tm = r[4 + 18:4 + 27]
                for j, v in enumerate(tm):
                    if j in (0, 7) or v == -1:
                        continue
                    if v < t or (j == 5 and v <= t):
                        return i
        if r[0] == 7 and r[4] == 1:
            k = (r[2], r[3])
            t, n = chain.get(k, (-1, 0))
            n = n + 1 if t == r[1] else 1
            chain[k] = (r[1], n)
            if n > SETTLE_MAX:
                return i
        if r[0] == 12 and (r[4] != 0 or r[5] != 0 or r[7] != 0):
            return i
    return None


def paced_at(tr):
    """first instant with the Pacing timer armed, or with a drive ending on an already-due deadline"""
    ts = [r[1] for r in tr if (r[0] == 8 and r[4 + 24] != -1) or (r[0] == 6 and 0 <= r[4] <= r[1])]
    return min(ts) if ts else None


def refmon(case, proj):
    a, b = halves(proj)
    tw = S.get(case, "TWIN", 0)
    x = ref_single(a)
    if x is not None:
        return ("single-A", x)
    x = ref_single(b)
    if x is not None:
        return ("single-B", len(a) + 1 + x)
    if tw in (1, 2):
        if a != b:
            k = next((i for i in range(min(len(a), len(b))) if a[i] != b[i]), min(len(a), len(b)))
            return ("twin-equal", len(a) + 1 + k)
    if tw == 3:
        pa, pb = paced_at(a), paced_at(b)
        lim = min([x for x in (pa, pb) if x is not None] or [1 << 62])
        fa = [r for r in a if r[0] in V3_TAGS and r[1] < lim]
        fb = [r for r in b if r[0] in V3_TAGS and r[1] < lim]
        if fa != fb:
            k = next((i for i in range(min(len(fa), len(fb))) if fa[i] != fb[i]), min(len(fa), len(fb)))
            return ("twin-extra-calls", k, fa[k:k + 1], fb[k:k + 1])
    return None
