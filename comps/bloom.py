"""Generator for the `bloom` component (BloomTokenLog via the public TokenLog trait vs coq/Model/BloomLog.v).

Relational correspondence: the last argument of every check op is the false-positive oracle
(`hint`: 0 = the real log rejected).  It is filled in from a first pass over the REAL log; the model
honours a hint only while the addressed filter is in Bloom representation and the fingerprint is
not already in its set (where the model rejects by itself).  Hence: the implementation may reject
where the set model accepts only in Bloom mode, and must never accept where the model rejects."""
import os

RULE = ("op0 configures BloomTokenLog::new(max_bytes, k) and the lifetime; 70% of the cases use a budget large enough "
        "to stay in exact Set mode, the others a budget of 0..300 bytes so the Set->Bloom switch happens after 1..15 "
        "insertions; tokens are issued at ages 0..3 lifetimes before a clock that mostly advances, sometimes by whole "
        "periods (both turnover arms), sometimes backwards; expiry instants are placed exactly on period boundaries "
        "(k*L-1, k*L, k*L+1 past period_1_start); earlier (nonce, issued) pairs are re-presented, also with a different "
        "high nonce half (same fingerprint); zero and foreign lifetimes appear in a separate stream; non-trivial = at "
        "least 3 acceptances, a single turnover, a re-presentation of an accepted pair after a turnover")

WEEK2 = 14 * 24 * 3600 * 10**6
SHARD = 100


def gen_case(rng):
    exact = rng.chance(7, 10)
    if exact:
        max_bytes = rng.choice([1 << 20, 1 << 16, 10 << 20])
    else:
        max_bytes = rng.choice([0, 1, 2, 16, 47, 48, 49, 63, 64, 100, 111, 112, 113, 120, 224, 300])
    k_num = rng.choice([1, 2, 3, 7, 58]) if rng.chance(9, 10) else rng.choice([0, 1, 200])
    L = rng.choice([1, 2, 7, 1000, 10**6, 15 * 10**6, WEEK2])
    ops = [[0, max_bytes, k_num, L]]
    odd_lifetimes = rng.chance(1, 8)
    now = rng.choice([0, L, 10 * L, 1_700_000_000 * 10**6]) + rng.below(3 * L + 1)
    p1s = 0            # mirror of period_1_start, only used to aim at boundaries
    hist = []
    for _ in range(rng.range(8, 45)):
        k = rng.below(100)
        lt = L
        if k < 30 and hist:
            hi, lo, issued = rng.choice(hist)               # replay
            if rng.chance(1, 6):
                hi = rng.below(1 << 63)                      # same fingerprint, other nonce
        elif k < 42:
            # aim at a period boundary relative to period_1_start
            kk = rng.choice([0, 0, 1, 1, 1, 1, 2, 2, 3, 4])
            e = p1s + kk * L + rng.choice([-1, 0, 0, 1]) if L > 1 else p1s + kk * L + rng.choice([-1, 0])
            issued = max(0, e - L)
            hi, lo = rng.below(1 << 63), rng.below(1 << 64)
            if rng.chance(1, 5):
                lo = rng.choice([0, 1, (1 << 64) - 1])
        else:
            step = rng.below(10)
            if now + L < p1s and rng.chance(3, 4):
                now = p1s
            if step < 5:
                now += rng.below(L // 8 + 2)
            elif step < 6:
                now += rng.choice([L, 2 * L, 3 * L, 5 * L]) + rng.range(-1, 1)
            elif step < 7:
                now = max(0, now - rng.below(2 * L + 1))
            issued = max(0, now - rng.below((3 if rng.chance(1, 5) else 1) * L + 1))
            hi, lo = rng.below(1 << 63), rng.below(1 << 64)
        if odd_lifetimes and rng.chance(1, 4):
            lt = rng.choice([0, 0, 2 * L, L + 1, max(1, L // 2)])
            ops.append([2, hi, lo, issued, lt, 1])
        elif rng.chance(1, 20):
            ops.append([2, hi, lo, issued, 0, 1])
        else:
            ops.append([1, hi, lo, issued, 1])
        if lt > 0:
            e = issued + lt
            if e >= p1s:
                pf = (e - p1s) // lt
                if pf == 2:
                    p1s += lt
                elif pf > 2:
                    p1s = e
            if lt == L:
                hist.append((hi, lo, issued))
    return ops


def _binp():
    from lib import qv
    p = os.path.join(qv.target_dir(), "debug", "qvh")
    if not os.path.exists(p):
        ok, p, log = qv.build_harness()
    return p


def annotate(cases):
    """first pass over the real log: copy its accept/reject decision into the hint argument"""
    from lib import qv
    outs = qv.run_impl(_binp(), "bloom", cases)
    res = []
    for c, o in zip(cases, outs):
        c2 = []
        for k, op in enumerate(c):
            op = list(op)
            if op[0] in (1, 2) and o != [[-999]] and k < len(o) and o[k]:
                op[-1] = o[k][0]
            c2.append(op)
        res.append(c2)
    return res


def gen(rng, n):
    return annotate([gen_case(rng) for _ in range(n)])


def _walk(case, outs):
    """yield per check op: (accepted, kind)"""
    L = case[0][3]
    acc = set()
    fps = set()
    p1 = 0
    for op, o in zip(case[1:], outs[1:]):
        if op[0] not in (1, 2) or len(o) < 6:
            continue
        lt = L if op[0] == 1 else op[4]
        key = (op[1], op[2], op[3])
        turned = None
        if o[1] != p1:
            turned = "turn1" if o[1] == p1 + lt else "turn_all"
        info = {"accepted": o[0] == 1, "replay": key in acc, "turn": turned, "bloom": bool(o[2] or o[4]),
                "zero": lt == 0, "fp_reject": o[0] == 0 and lt == L and (op[2], op[3]) not in fps
                and op[3] + lt >= o[1], "past": lt > 0 and op[3] + lt < p1}
        p1 = o[1]
        if o[0] == 1:
            acc.add(key)
        if lt == L:
            fps.add((op[2], op[3]))
        yield info


def nontrivial(case, outs):
    if outs == [[-999]] or len(outs) != len(case):
        return False
    n_acc, turned, replay_after_turn = 0, False, False
    for inf in _walk(case, outs):
        n_acc += inf["accepted"]
        if inf["turn"] == "turn1":
            turned = True
        if turned and inf["replay"]:
            replay_after_turn = True
    return n_acc >= 3 and turned and replay_after_turn


def stats(cases, outs):
    d = {"checks": 0, "accepted": 0, "replays": 0, "turn1": 0, "turn_all": 0, "too_far_past": 0,
         "zero_lifetime": 0, "ops_with_bloom_filter": 0, "bloom_possible_fp_rejects": 0,
         "exact_mode_cases": 0, "bloom_mode_cases": 0, "panics": 0}
    for c, o in zip(cases, outs):
        if o == [[-999]] or len(o) != len(c):
            d["panics"] += 1
            continue
        anyb = False
        for inf in _walk(c, o):
            d["checks"] += 1
            d["accepted"] += inf["accepted"]
            d["replays"] += inf["replay"]
            if inf["turn"]:
                d[inf["turn"]] += 1
            d["too_far_past"] += inf["past"]
            d["zero_lifetime"] += inf["zero"]
            d["ops_with_bloom_filter"] += inf["bloom"]
            d["bloom_possible_fp_rejects"] += inf["fp_reject"] and inf["bloom"]
            anyb = anyb or inf["bloom"]
        d["bloom_mode_cases" if anyb else "exact_mode_cases"] += 1
    return d
