"""Scenario generation for the simulator (harness/src/sim.rs) and trace projection helpers."""

K = dict(
    SEED=1, LOSS=2, DUP=3, DELAY_MIN=4, DELAY_MAX=5, CORRUPT=6, LINK_MTU=7, NCONNS=8, NBIDI=9, NUNI=10,
    STREAM_BYTES=11, WRITE_CHUNK=12, READ_MAX=13, READ_ORDERED=14, NDGRAM=15, DGRAM_SIZE=16, ECHO_BYTES=17,
    CLOSE_AT=18, CLOSER=19, IDLE_MS=20, KEEPALIVE_MS=21, CONTROLLER=22, FIXED_WINDOW=23, SEND_WINDOW=24,
    STREAM_RWND=25, RWND=26, MAX_BIDI=27, MAX_UNI=28, INITIAL_MTU=29, MIN_MTU=30, MTUD_UPPER=31, GSO=32,
    RETRY=33, MIGRATE_AT=34, MIGRATE_KIND=35, MIGRATE2_AT=36, SILENCE_AFTER=37, SILENCE_SIDE=38, KEYUPD_C=39,
    KEYUPD_S=40, LATE_US=41, SPURIOUS=42, SHIFT_US=43, ZERO_RTT=44, DROP_MASK=45, REPLAY=46, SPOOF=47,
    GARBAGE=48, ACK_FREQ=49, DGRAM_RECV_BUF=50, DGRAM_SEND_BUF=51, MAX_TIME=52, SERVER_STREAMS=53,
    PACING_BPS=54, DUP_MASK=55, CID_LEN=56, CID_LIFETIME_MS=57, MIGRATION_ALLOWED=58, RESET_AT_BYTES=59,
    STOP_AT_BYTES=60, EARLY_POLL=61, DGRAM_DROP=62, NEW_RWND_AT=63, NEW_RWND=64, SERVER_RWND=65,
    LINK_MTU_AT=66, LINK_MTU2=67, DROP_MASK_DIR=68, FAIR_RUN=69, RECONNECT=70, SERVER_EARLY=71, HOSTILE_AT=72, HOSTILE_KIND=73, HOSTILE_SIDE=74, READ_SERIAL=75, PAD_TO_MTU=76, DGRAM_INTERVAL=77, DGRAM_ALT=78, EARLY_STOP=79, NO_REDO=80, DGRAM_START=81, HOSTILE_TP=82, HOSTILE_TP_SIDE=83, CLIENT_IDLE_MS=84, SERVER_IDLE2_MS=85, FORGET_AT=86, MIGRATE_SILENT=87, RETRY2=88, BUSY_NEAR_US=89, CLOSE_ON_TIMER=90, CLOSE_ON_TIMER_N=91, NEW_MAXSTREAMS_AT=92, NEW_MAX_BIDI=93, NEW_MAX_UNI=94, RESET_FORGE=95, CLOSE_REASON_LEN=96, SPOOF_FRESH_AT=97, SPOOF_FRESH_BLACKOUT=98, PREFERRED_ADDR=99, DGRAM_SIZE2=100, NEW_MAXSTREAMS_SIDE=101,
    CLEAN=900,   # monitor-only flag: the link is loss-free, in-order, constant-delay
    TWIN=901,    # twin-run variant (C20)
    DELIVER_SMALL=903,
    ALL_STREAMS_SEEN=904,
    FOLLOW_ONE=905,
    CID_ECHO_STRICT=906,
    EXPECT_SERVER_STREAMS=908,  # monitor-only (MonC02): the server application must have opened all SERVER_STREAMS streams
  # monitor-only (C14): the mutated transport parameters break the CID echo and must be rejected
  # monitor-only (C15): one genuine datagram from the new address obliges the server to follow
  # monitor-only: loss-free path, every stream the client opened reaches the server application  # monitor-only: every accepted small datagram must be delivered (loss-free path)
)
KN = {v: k for k, v in K.items()}


def sanitize(d):
    """configurations the library does not support (documented): zero-length CIDs allow only one
    connection per address tuple, so neither several connections nor a warm-up + resumed pair"""
    if d.get("CID_LEN", 8) == 0 and (d.get("NCONNS", 1) > 1 or d.get("ZERO_RTT", 0) > 0):
        d["CID_LEN"] = 4
    return d


def case_of(d):
    """dict name->value  ->  case (one op: flat key/value list)"""
    sanitize(d)
    op = []
    for name in sorted(d, key=lambda n: K[n]):
        op += [K[name], int(d[name])]
    return [op]


def describe(case):
    op = case[0]
    return {KN.get(op[i], str(op[i])): op[i + 1] for i in range(0, len(op) - 1, 2)}


def get(case, name, default):
    op = case[0]
    for i in range(0, len(op) - 1, 2):
        if op[i] == K[name]:
            return op[i + 1]
    return default


def project(outs, tags, probe_every=1):
    """keep only records whose tag is in `tags`"""
    if outs == [[-999]]:
        return outs
    return [r for r in outs if r and (r[0] in tags or r[0] == 16)]


def base(rng, small=True):
    d = {"SEED": rng.range(1, 1 << 30)}
    d["DELAY_MIN"] = rng.choice([1000, 5000, 10000, 30000])
    d["DELAY_MAX"] = d["DELAY_MIN"]
    d["NBIDI"] = rng.range(0, 2)
    d["NUNI"] = rng.range(0 if d["NBIDI"] else 1, 2)
    d["STREAM_BYTES"] = rng.choice([0, 1, 700, 1200, 3000, 8000, 20000] if small else [5000, 30000, 100000])
    d["WRITE_CHUNK"] = rng.choice([1, 100, 1000, 1200, 5000, 100000]) if d["STREAM_BYTES"] < 5000 else rng.choice([500, 1000, 1200, 5000, 100000])
    d["READ_MAX"] = rng.choice([1, 7, 100, 1024, 100000]) if d["STREAM_BYTES"] < 5000 else rng.choice([300, 1024, 100000])
    d["GSO"] = rng.choice([1, 1, 2, 5, 10])
    d["IDLE_MS"] = 30000
    return d


def lossy(rng, d, heavy=False):
    d["LOSS"] = rng.choice([0, 10, 30, 50, 100, 200] if not heavy else [100, 200, 300])
    d["DUP"] = rng.choice([0, 0, 20, 100])
    d["DELAY_MAX"] = d["DELAY_MIN"] * rng.choice([1, 1, 2, 4])
    if rng.chance(1, 3):
        d["DROP_MASK"] = rng.below(1 << rng.range(1, 12))
        d["DROP_MASK_DIR"] = rng.below(3)
    return d


def knobs(rng, d):
    """random transport configuration knobs"""
    if rng.chance(1, 3):
        d["CONTROLLER"] = rng.choice([1, 2, 3])
        if d["CONTROLLER"] == 3:
            d["FIXED_WINDOW"] = rng.choice([2500, 4000, 12000, 50000])
    if rng.chance(1, 4):
        d["SEND_WINDOW"] = rng.choice([100, 1200, 5000])
    if rng.chance(1, 4):
        d["STREAM_RWND"] = rng.choice([1, 100, 1500, 10000])
    if rng.chance(1, 4):
        d["RWND"] = rng.choice([100, 1500, 10000])
    if rng.chance(1, 4):
        d["MAX_BIDI"] = rng.choice([0, 1, 2])
        d["MAX_UNI"] = rng.choice([1, 2])
        if d["MAX_BIDI"] == 0:
            d["NBIDI"] = 0
            d["NUNI"] = max(1, d.get("NUNI", 1))
    if rng.chance(1, 4):
        d["MTUD_UPPER"] = rng.choice([1300, 1452, 1500, 9000])
        d["LINK_MTU"] = rng.choice([1200, 1350, 1452, 1500, 9000])
    if rng.chance(1, 5):
        d["ACK_FREQ"] = rng.choice([1, 2, 10])
    if rng.chance(1, 5):
        d["PACING_BPS"] = rng.choice([50000, 500000])
    if rng.chance(1, 5):
        d["KEYUPD_C"] = rng.range(20000, 400000)
    if rng.chance(1, 5):
        d["KEYUPD_S"] = rng.range(20000, 400000)
    if rng.chance(1, 4):
        d["RETRY"] = 1
    if rng.chance(1, 4):
        d["CID_LEN"] = rng.choice([0, 1, 4, 8, 20])
    return d


def driver(rng, d):
    if rng.chance(1, 3):
        d["LATE_US"] = rng.choice([1, 500, 5000, 50000])
    if rng.chance(1, 3):
        d["SPURIOUS"] = rng.choice([50, 300])
    if rng.chance(1, 3):
        d["EARLY_POLL"] = rng.choice([100, 500])
    return d


def is_clean(d):
    return (d.get("LOSS", 0) == 0 and d.get("DUP", 0) == 0 and d.get("CORRUPT", 0) == 0
            and d.get("DELAY_MAX", d.get("DELAY_MIN", 10000)) == d.get("DELAY_MIN", 10000)
            and d.get("DROP_MASK", 0) == 0 and d.get("DUP_MASK", 0) == 0 and d.get("REPLAY", 0) == 0
            and d.get("SPOOF", 0) == 0 and d.get("GARBAGE", 0) == 0
            and d.get("LINK_MTU", 1500) >= max(d.get("MTUD_UPPER", 0), d.get("INITIAL_MTU", 1200))
            and d.get("MIGRATE_AT", 0) == 0 and d.get("SILENCE_AFTER", -1) < 0
            and d.get("LINK_MTU_AT", 0) == 0 and d.get("LATE_US", 0) == 0
            and d.get("ZERO_RTT", 0) == 0 and d.get("HOSTILE_AT", 0) == 0)


def trace_stats(cases, outs):
    n_rec = sum(len(o) for o in outs)
    keys = {}
    for c in cases:
        for k in describe(c):
            keys[k] = keys.get(k, 0) + 1
    return {"records_after_projection": n_rec, "param_usage": keys,
            "panics": sum(1 for o in outs if o == [[-999]])}


def with_unprotected_probes(outs):
    """around every datagram that consists of an unprotected packet (header flags: Retry 16 / Version
    Negotiation 64, no other packet) and was handed to a connection: that connection's latest probe
    before it (a copy re-tagged 19, inserted before the RX record) and the probe taken right after it
    (tag 18) - all other tag-18 records are dropped.  Consumed by MonC04."""
    lastprobe, want, res = {}, None, []
    for r in outs:
        if r and r[0] in (8, 18):
            if r[0] == 18:
                if want == (r[2], r[3]):
                    res.append(r)
                    want = None
            else:
                res.append(r)
            lastprobe[(r[2], r[3])] = r
            continue
        if r and r[0] == 2 and len(r) > 10 and r[5] == 1 and r[6] >= 0 and (r[10] & 80) and not (r[10] & 46):
            kk = (r[2], r[6])
            if kk in lastprobe:
                res.append([19] + lastprobe[kk][1:])
                want = kk
        res.append(r)
    return res
