"""C03 system level: arbitrary datagrams (random bytes and structure-aware mutations of genuine
datagrams: truncation, extension, header-field / length / version / CID-length changes, bit
flips) handed to real endpoints in every connection state and local configuration. Validated by
coq/Sys/MonC04.v: no panic (record 16 is rejected by every monitor), no livelock (record 11), no
connection ended by unauthenticated input, untouched connections complete."""
from . import simlib as S
SUBCMD = "sim"
IS_TRACE = True
RUN = "monitor"
TAGS = {2, 3, 4, 8, 10, 11}
RULE = ("garbage injection 30-100% of wake-ups towards both endpoints from the peer's own and from foreign "
        "addresses, corruption of genuine datagrams, in all local configurations (ack-frequency on/off, zero-length "
        "and 1..20-byte CIDs, datagrams, tiny limits, retry, several connections); non-trivial = at least 20 "
        "hostile datagrams were handled")


def gen(rng, n):
    cases = []
    for i in range(n):
        d = S.base(rng, small=True)
        d["GARBAGE"] = rng.choice([300, 600, 1000])
        d["CORRUPT"] = rng.choice([0, 50, 200])
        d["REPLAY"] = rng.choice([0, 200])
        d["SPOOF"] = rng.choice([0, 200])
        S.knobs(rng, d)
        if rng.chance(1, 3):
            d["NCONNS"] = rng.range(2, 4)
        if rng.chance(1, 3):
            d["NDGRAM"] = rng.range(1, 6)
        if rng.chance(1, 4):
            d["DGRAM_RECV_BUF"] = rng.choice([-1, 0, 100])
        d["STREAM_BYTES"] = rng.choice([300, 3000, 10000])
        d["CLOSER"] = 0
        d["IDLE_MS"] = 30000
        cases.append(S.case_of(d))
    return cases


def project(case, outs):
    if outs == [[-999]]:
        return outs
    last = {}
    for i, r in enumerate(outs):
        if r[0] == 8:
            last[(r[2], r[3])] = i
    keep = set(last.values())
    others = [r for i, r in enumerate(S.with_unprotected_probes(outs)) if r[0] in (2, 4, 11, 16, 18, 19) or (r[0] == 5 and r[4] == 1) or (r[0] == 13 and r[2] == 11) or (r[0] == 3 and r[4] in (11, 20, 21))]
    probes = [r for i, r in enumerate(outs) if r[0] == 8 and i in keep]
    end = [r for r in outs if r[0] == 10]
    return others + probes + end


def nontrivial(case, outs):
    return sum(1 for r in outs if r[0] == 2 and r[9] in (3, 7)) >= 20


def stats(cases, outs):
    st = S.trace_stats(cases, outs)
    st["hostile_datagrams_handled"] = sum(1 for o in outs for r in o if r[0] == 2 and r[9] in (3, 5, 6, 7))
    oc = {}
    for o in outs:
        for r in o:
            if r[0] == 2 and r[9] == 7:
                oc[str(r[5])] = oc.get(str(r[5]), 0) + 1
    st["garbage_outcomes"] = oc
    return st


describe = S.describe
