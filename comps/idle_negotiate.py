"""Generator for the `idle_negotiate` component (negotiate_max_idle_timeout of connection/mod.rs vs
coq/Model/Lifecycle.v `negotiate`)."""
RULE = ("ops: negotiate(x, y) immediately followed by negotiate(y, x) (the oracle compares the two results of the "
        "implementation: commutativity) with x, y in {None, 0, boundary-biased VarInt ms}; one op reading the transport "
        "error codes NO_ERROR / APPLICATION_ERROR / AEAD_LIMIT_REACHED; non-trivial = a case with both-present, "
        "one-absent (None and 0) and both-absent pairs")


def val(rng):
    k = rng.below(8)
    if k == 0:
        return -1
    if k == 1:
        return 0
    if k < 5:
        return rng.choice([1, 2, 999, 1000, 10000, 30000, 60000, 3600000])
    return min(rng.boundary(), (1 << 50))   # Duration::from_millis(u64) * 1000 must stay below 2^64 us


def gen(rng, n):
    cases = []
    for _ in range(n):
        ops = [[1]]
        for _ in range(rng.range(4, 12)):
            x, y = val(rng), val(rng)
            ops.append([0, x, y])
            ops.append([0, y, x])
        cases.append(ops)
    return cases


def nontrivial(case, outs):
    kinds = set()
    for op in case:
        if op[0] == 0:
            kinds.add((op[1] > 0) + (op[2] > 0))
    return kinds == {0, 1, 2}


def stats(cases, outs):
    d = {"pairs": 0, "both_present": 0, "one_present": 0, "none_present": 0, "result_none": 0}
    for c, o in zip(cases, outs):
        for op, out in zip(c, o):
            if op[0] == 0:
                d["pairs"] += 1
                k = (op[1] > 0) + (op[2] > 0)
                d[["none_present", "one_present", "both_present"][k]] += 1
                if out == [-1]:
                    d["result_none"] += 1
    return d
