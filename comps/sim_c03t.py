"""C03 system level: hostile TRANSPORT PARAMETERS presented to a live connection (the victim's
crypto session is wrapped by harness/src/hostile_tp.rs; no hook). Monitor: coq/Sys/MonC03T.v."""
from . import simlib as S
SUBCMD = "sim"
IS_TRACE = True
RUN = "monitor"
NKINDS = 72
RULE = ("the victim (client or server) of pair 0 receives its peer's transport parameters after one of 72 mutations of "
        "their wire encoding: 34 legal-but-extreme values (limits 0 / 2^62-1 / 2^60 streams, max_udp_payload_size 1200, "
        "idle timeout 1 ms, ack_delay_exponent 20, min_ack_delay extremes, active_connection_id_limit 2 ...), 9 values the "
        "decoder must reject, seeded combinations, removed / duplicated / unknown / server-only parameters, preferred_address "
        "variants, malformed bodies, truncations, random bytes and bit flips; local configurations vary (ack-frequency, CID "
        "length, datagrams on/off, small limits, Retry, 0-RTT resumption, second untouched connection); non-trivial = the "
        "mutated parameters reached the victim")


def gen(rng, n):
    cases = []
    for i in range(n):
        d = S.base(rng, small=True)
        d["HOSTILE_TP"] = 1 + (i % NKINDS) if i < 2 * NKINDS else rng.range(1, NKINDS)
        d["HOSTILE_TP_SIDE"] = (i // NKINDS) % 2 if i < 2 * NKINDS else rng.below(2)
        d["DELAY_MIN"] = d["DELAY_MAX"] = rng.choice([1000, 5000, 10000])
        d["STREAM_BYTES"] = rng.choice([3000, 20000])
        d["NBIDI"] = 1
        d["NUNI"] = 1
        d["SERVER_STREAMS"] = rng.choice([0, 1])
        d["ECHO_BYTES"] = 500
        d["NDGRAM"] = rng.choice([0, 3])
        d["CLOSER"] = 0
        d["IDLE_MS"] = 2000
        d["MAX_TIME"] = 20_000_000
        d["NCONNS"] = rng.choice([1, 2, 2])
        if rng.chance(1, 3) or (d["HOSTILE_TP"] in (23, 24, 31, 32, 33, 34, 44, 45, 64, 71, 72) and rng.chance(2, 3)):
            d["ACK_FREQ"] = rng.choice([1, 2, 10])
        if rng.chance(1, 3):
            d["CID_LEN"] = rng.choice([0, 4, 20])
        if rng.chance(1, 4):
            d["DGRAM_RECV_BUF"] = rng.choice([-1, 0, 100])
        if rng.chance(1, 4):
            d["MAX_UNI"] = rng.choice([1, 8])
            d["MAX_BIDI"] = rng.choice([1, 8])
        if rng.chance(1, 4):
            d["STREAM_RWND"] = rng.choice([2000, 100000])
        if rng.chance(1, 5):
            d["RETRY"] = 1
        if rng.chance(1, 5):
            d["MTUD_UPPER"] = 1452
        if rng.chance(1, 6):
            d["ZERO_RTT"] = 1
            d["NCONNS"] = 1
        if rng.chance(1, 5):
            d["KEEPALIVE_MS"] = 500
        cases.append(S.case_of(d))
    return cases


def project(case, outs):
    if outs == [[-999]]:
        return outs
    return [r for r in outs if r[0] in (16, 10, 14) or (r[0] == 4 and r[4] == 3) or (r[0] == 3 and r[4] == 22) or (r[0] == 13 and r[2] in (9, 10))]


def nontrivial(case, outs):
    return any(r[0] == 13 and r[2] == 9 for r in outs)


def stats(cases, outs):
    st = S.trace_stats(cases, outs)
    kinds, errs, dec = {}, {}, {"decoded": 0, "rejected": 0}
    for o in outs:
        for r in o:
            if r[0] == 13 and r[2] == 9:
                kinds[str(r[5])] = kinds.get(str(r[5]), 0) + 1
                dec["decoded" if r[6] == 1 else "rejected"] += 1
            if r[0] == 4 and r[4] == 3 and r[5] == 2:
                errs[str(r[6])] = errs.get(str(r[6]), 0) + 1
    st["mutations_by_kind"] = kinds
    st["decode_outcome"] = dec
    st["transport_errors_by_code"] = errs
    return st


describe = S.describe
