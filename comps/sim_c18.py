"""C18 system level: the real quinn crate on a deterministic executor (harness/src/asyncsim.rs);
trace validated by coq/Sys/MonC18.v."""
SUBCMD = "async"
IS_TRACE = True
RUN = "monitor"
SHARD = 6
TIMEOUT = 600
K = dict(SEED=1, LOSS=2, DUP=3, DELAY_MIN=4, DELAY_MAX=5, NBIDI=9, NUNI=10, STREAM_BYTES=11, WRITE_CHUNK=12,
         READ_MAX=13, READ_MODE=14, NDGRAM=15, DGRAM_SIZE=16, ECHO_BYTES=17, CANCEL=18, END_MODE=19, IDLE_MS=20,
         SEND_WINDOW=24, STREAM_RWND=25, RWND=26, MAX_BIDI=27, MAX_UNI=28, NACCEPTORS=30, WRITE_MODE=31,
         STOPPED_WAIT=32, HANG_OPS=33, SEND_BLOCK=34, DGRAM_SEND_BUF=35, READ_DELAY_US=36, STOP_AT=37,
         RESET_AT=38, SPURIOUS=39, CLOSE_AT_US=40, IOERR_AFTER=41, IMPLICIT_FINISH=42, STOP_BY_DROP=43, ZRTT=44, STOP_EVERY=45, EARLY_BYTES=46, RESET_EVERY=47, RECV_RESET_MODE=48, RESET_POLL_DELAY_US=49,
         RESET_HOLD_US=50, MAX_TIME=52, KNOWN=902)
KN = {v: k for k, v in K.items()}
TAGS = {10, 20, 21, 22, 23, 24, 25, 26, 27, 28, 29, 30, 32, 33, 35, 36, 37, 39, 40, 41, 43, 44}
RULE = ("scripted client/server applications over one connection of the real quinn crate: uni/bidi streams with "
        "every read/write API variant, datagrams, several concurrent acceptors, tasks parked on operations that only "
        "a close can complete, small flow-control / stream-count windows (blocked writers, blocked openers), slow "
        "readers, stop/reset, all five ways of ending (close, dropping every handle, server close, Endpoint::close on "
        "either side) at the end or mid-transfer; seeded scheduler (one task poll per step, spurious polls), lossy / "
        "duplicating / reordering network, socket back-pressure, cancellation of pending cancel-safe futures at random "
        "poll boundaries with delayed restart; non-trivial = at least one future was dropped or one task blocked on a "
        "registered waker, and the run ended with every task finished")


def case_of(d):
    op = []
    for name in sorted(d, key=lambda n: K[n]):
        op += [K[name], int(d[name])]
    return [op]


def describe(case):
    op = case[0]
    return {KN.get(op[i], str(op[i])): op[i + 1] for i in range(0, len(op) - 1, 2)}


def gen(rng, n):
    cases = []
    for i in range(n):
        d = {"SEED": rng.range(1, 1 << 30)}
        d["DELAY_MIN"] = rng.choice([200, 2000, 5000, 20000])
        d["DELAY_MAX"] = d["DELAY_MIN"] * rng.choice([1, 1, 2, 4])
        if rng.chance(1, 2):
            d["LOSS"] = rng.choice([10, 30, 60, 100])
            d["DUP"] = rng.choice([0, 50, 200])
        d["CANCEL"] = rng.choice([0, 100, 300, 600, 900])
        d["NUNI"] = rng.range(0, 3)
        d["NBIDI"] = rng.range(0 if d["NUNI"] else 1, 2)
        d["STREAM_BYTES"] = rng.choice([0, 1, 900, 5000, 20000])
        d["WRITE_CHUNK"] = rng.choice([1, 300, 1000, 100000]) if d["STREAM_BYTES"] <= 900 else rng.choice([700, 4000, 100000])
        d["READ_MAX"] = rng.choice([1, 10, 500, 100000]) if d["STREAM_BYTES"] <= 900 else rng.choice([800, 4096, 100000])
        d["READ_MODE"] = rng.choice([0, 0, 1, 2, 3])
        d["WRITE_MODE"] = rng.choice([0, 0, 1, 2])
        d["ECHO_BYTES"] = rng.choice([0, 1, 3000])
        d["NACCEPTORS"] = rng.choice([1, 2, 3])
        d["STOPPED_WAIT"] = rng.choice([0, 1, 1])
        if rng.chance(1, 3):
            d["SPURIOUS"] = rng.choice([20, 100, 300])
        if rng.chance(1, 4):
            d["SEND_BLOCK"] = rng.choice([50, 300])
        if rng.chance(1, 4):
            d["IMPLICIT_FINISH"] = 1
        m = rng.below(11)
        if m == 1:      # blocked writers: small windows, slow readers
            d["STREAM_RWND"] = rng.choice([1, 100, 1500, 6000])
            if rng.chance(1, 2):
                d["RWND"] = rng.choice([100, 2000, 8000])
            if rng.chance(1, 2):
                d["SEND_WINDOW"] = rng.choice([100, 1500, 5000])
            d["READ_DELAY_US"] = rng.choice([0, 1000, 30000])
            small = min(d.get("STREAM_RWND", 1 << 30), d.get("RWND", 1 << 30), d.get("SEND_WINDOW", 1 << 30))
            d["STREAM_BYTES"] = rng.choice([1, 20, 60]) if small <= 1 else rng.choice([100, 900, 3000]) if small <= 100 else rng.choice([900, 5000, 20000])
            d["ECHO_BYTES"] = min(d["ECHO_BYTES"], d["STREAM_BYTES"])
            d["WRITE_CHUNK"] = rng.choice([700, 4000, 100000])
            d["READ_MAX"] = rng.choice([800, 4096, 100000])
        elif m == 2:    # blocked openers
            d["NUNI"] = rng.range(2, 5)
            d["NBIDI"] = rng.range(0, 3)
            d["MAX_UNI"] = rng.choice([1, 2])
            d["MAX_BIDI"] = rng.choice([1, 2])
            d["STREAM_BYTES"] = rng.choice([1, 900, 5000])
        elif m == 3:    # datagrams
            d["NDGRAM"] = rng.range(1, 30)
            d["DGRAM_SIZE"] = rng.choice([8, 100, 1000])
            if rng.chance(1, 2):
                d["DGRAM_SEND_BUF"] = rng.choice([1, 1200, 3000])
            else:       # FIFO loss-free link: the sender waits for every echo
                d.pop("LOSS", None)
                d.pop("DUP", None)
                d["DELAY_MAX"] = d["DELAY_MIN"]
        elif m == 4:    # stop / reset
            d["NUNI"] = max(1, d["NUNI"])
            if rng.chance(1, 2):
                d["STOP_AT"] = rng.choice([0, 1, 1000])
                d["STOP_BY_DROP"] = rng.below(2)
                if rng.chance(1, 2):
                    d["STREAM_RWND"] = 1500
            else:
                d["RESET_AT"] = rng.choice([0, 1000])
                d["STOPPED_WAIT"] = rng.choice([0, 1])
            d["STREAM_BYTES"] = rng.choice([5000, 20000])
        elif m == 5:    # close / teardown variants with parked tasks
            d["HANG_OPS"] = rng.below(32)
            d["END_MODE"] = rng.choice([0, 2, 3, 4])
            if rng.chance(1, 2) or d["END_MODE"] in (2, 3):
                d["CLOSE_AT_US"] = rng.choice([1, 3000, 12000, 30000, 60000, 200000])
        elif m == 6:    # implicit close by dropping every handle
            d["END_MODE"] = 1
            if rng.chance(1, 3):
                d["CLOSE_AT_US"] = rng.choice([12000, 40000])
        elif m == 7:    # close while writers are blocked on flow control / openers on the stream limit
            d["NUNI"] = rng.range(1, 3)
            d["STREAM_RWND"] = rng.choice([100, 1500])
            d["STREAM_BYTES"] = 20000
            d["WRITE_CHUNK"] = rng.choice([700, 4000, 100000])
            d["READ_MAX"] = rng.choice([800, 4096])
            d["READ_DELAY_US"] = 30000
            d["END_MODE"] = rng.choice([0, 2, 3, 4])
            d["CLOSE_AT_US"] = rng.choice([30000, 60000, 100000, 150000])
            if rng.chance(1, 2):
                d["MAX_UNI"] = 1
            d["HANG_OPS"] = rng.below(32)
        elif m == 8:    # streams stopped by the peer and then just DROPPED by the sender, under a small stream limit:
            #                 every stream must be released (RESET_STREAM on drop) or the later opens never complete
            zr_stop_family(rng, d)
        elif m == 9:    # 0-RTT accepted / rejected (C17): early uni + bidi streams, fresh streams afterwards
            zr_family(rng, d)
        elif m == 10:   # the sender resets, the receiver learns of it late (received_reset / read error / drop) while its
            #                 driver is idle; the freed stream's credit must still reach a sender blocked in open_uni
            reset_credit_family(rng, d)
        if rng.chance(1, 12) and m < 8:
            # the client's socket starts failing: its driver must fail the connection, not just exit
            d["IOERR_AFTER"] = rng.range(3, 40)
        if d.get("END_MODE", 0) == 1:
            d.pop("NDGRAM", None)
            d.pop("HANG_OPS", None)
        cases.append(case_of(d))
    return cases


def zr_stop_family(rng, d):
    for k2 in ("LOSS", "DUP", "SEND_BLOCK", "IMPLICIT_FINISH", "RESET_AT"):
        d.pop(k2, None)
    d["DELAY_MAX"] = d["DELAY_MIN"]
    d["NUNI"] = rng.range(3, 6)
    d["NBIDI"] = 0
    d["MAX_UNI"] = rng.choice([1, 1, 2])
    d["STOP_AT"] = rng.choice([0, 0, 1, 1000])
    d["STOP_EVERY"] = 1
    d["STOP_BY_DROP"] = rng.below(2)
    d["STREAM_RWND"] = rng.choice([1500, 6000])
    d["STREAM_BYTES"] = rng.choice([5000, 20000])
    d["WRITE_CHUNK"] = rng.choice([700, 4000])
    d["WRITE_MODE"] = rng.choice([0, 1, 2])
    d["READ_MAX"] = rng.choice([800, 4096])
    d["READ_DELAY_US"] = rng.choice([0, 1000])
    d["STOPPED_WAIT"] = rng.choice([0, 0, 1])
    d["END_MODE"] = 0
    d.pop("CLOSE_AT_US", None)


def reset_credit_family(rng, d):
    for k2 in ("LOSS", "DUP", "SEND_BLOCK", "IMPLICIT_FINISH", "STOP_AT", "NDGRAM", "HANG_OPS", "CLOSE_AT_US",
               "RWND", "SEND_WINDOW", "MAX_BIDI", "DGRAM_SEND_BUF", "SPURIOUS"):
        d.pop(k2, None)
    d["DELAY_MAX"] = d["DELAY_MIN"]
    d["NUNI"] = rng.range(3, 5)
    d["NBIDI"] = 0
    d["MAX_UNI"] = rng.choice([1, 1, 2])
    d["RESET_AT"] = rng.choice([0, 1, 1000])
    d["RESET_EVERY"] = 1
    d["STREAM_BYTES"] = rng.choice([5000, 20000])
    d["WRITE_CHUNK"] = rng.choice([700, 4000])
    d["WRITE_MODE"] = rng.choice([0, 2])
    d["STOPPED_WAIT"] = 0
    d["END_MODE"] = 0
    d["NACCEPTORS"] = rng.choice([1, 2])
    v = rng.below(4)
    if v <= 1:      # received_reset() long after the reset arrived, handle kept (past the idle timeout / for a while)
        d["RECV_RESET_MODE"] = 1
        d["RESET_POLL_DELAY_US"] = rng.choice([100000, 300000, 1000000])
        d["RESET_HOLD_US"] = rng.choice([35000000, 35000000, 500000])
    elif v == 2:    # received_reset() at once, handle dropped right away
        d["RECV_RESET_MODE"] = 1
        d["RESET_POLL_DELAY_US"] = 0
        d["RESET_HOLD_US"] = 0
    else:           # the reset is learnt through a read error, after a delay
        d["READ_DELAY_US"] = rng.choice([0, 100000, 300000])


def zr_family(rng, d, mode=None):
    for k2 in ("LOSS", "DUP", "IMPLICIT_FINISH", "RESET_AT", "STOP_AT", "NDGRAM", "HANG_OPS", "CLOSE_AT_US",
               "STREAM_RWND", "RWND", "SEND_WINDOW", "MAX_UNI", "MAX_BIDI", "READ_DELAY_US", "DGRAM_SEND_BUF"):
        d.pop(k2, None)
    d["ZRTT"] = mode if mode is not None else rng.choice([1, 2, 2])
    d["DELAY_MAX"] = d["DELAY_MIN"]
    d["NBIDI"] = rng.range(1, 2)
    d["NUNI"] = rng.range(0, 2)
    d["STREAM_BYTES"] = rng.choice([1, 900, 5000])
    d["WRITE_CHUNK"] = rng.choice([300, 1000, 100000])
    d["READ_MAX"] = rng.choice([10, 500, 100000]) if d["STREAM_BYTES"] <= 900 else rng.choice([800, 100000])
    d["ECHO_BYTES"] = rng.choice([1, 700, 3000])
    d["EARLY_BYTES"] = rng.choice([0, 1, 700, 3000])
    d["STOPPED_WAIT"] = rng.choice([0, 1])
    d["END_MODE"] = 0
    if rng.chance(1, 3):
        d["LOSS"] = rng.choice([10, 30])


def project(case, outs):
    if outs == [[-999]]:
        return outs
    return [r for r in outs if r and (r[0] in TAGS or r[0] == 16 or (r[0] == 31 and r[2] == 9))]


def nontrivial(case, outs):
    ended = any(r[0] == 10 and r[2] == 1 and r[4] == 0 for r in outs)
    dropped = any(r[0] == 24 for r in outs)
    blocked = any(r[0] == 27 and r[3] == 1 and (r[11] > 0) for r in outs if len(r) > 11)
    return ended and (dropped or blocked)


def stats(cases, outs):
    st = {"records_after_projection": sum(len(o) for o in outs), "panics": sum(1 for o in outs if o == [[-999]])}
    st["task_polls"] = sum(1 for o in outs for r in o if r[0] == 20)
    st["wakes"] = sum(1 for o in outs for r in o if r[0] == 21)
    st["futures_dropped"] = sum(1 for o in outs for r in o if r[0] == 24 and r[7] >= 0)
    st["quiescence_checks"] = sum(1 for o in outs for r in o if r[0] == 29)
    st["forced_polls"] = sum(1 for o in outs for r in o if r[0] == 30)
    st["lost_wakeups"] = sum(1 for o in outs for r in o if r[0] == 30 and r[7] == 1)
    st["snapshots"] = sum(1 for o in outs for r in o if r[0] == 27)
    kinds = {}
    for o in outs:
        for r in o:
            if r[0] == 23:
                kinds[str(r[5])] = kinds.get(str(r[5]), 0) + 1
    st["ops_completed_by_kind"] = kinds
    res = {}
    for o in outs:
        for r in o:
            if r[0] == 32:
                res[str(r[4])] = res.get(str(r[4]), 0) + 1
    st["results"] = res
    keys = {}
    for c in cases:
        for k2 in describe(c):
            keys[k2] = keys.get(k2, 0) + 1
    st["param_usage"] = keys
    return st


def classify(case, outs):
    """Known finding `stopped-after-reset`: a stopped() future pending while the local reset() is acknowledged."""
    resets = set()
    task_ep = {}
    for r in outs:
        if r[0] == 33:
            task_ep[r[2]] = r[4]
        elif r[0] == 37:
            resets.add((task_ep.get(r[2]), r[3]))
        elif r[0] == 30 and r[7] == 1:
            if r[5] == 9 and (task_ep.get(r[2]), r[6]) in resets:
                return "stopped-after-reset"
            return None
    return None


KNOWN_PARAM = {"stopped-after-reset": [902, 1]}
