"""Generator for `cc_bbr` (Bbr vs coq/Model/Bbr.v; exact except the float target-cwnd values, read back as hints)."""
from . import cc_common as C
from lib import qv

RULE = ("as cc_newreno, on a real Bbr observed through the cfg-guarded read-only probe Bbr::verif_state; every op "
        "carries three trailing hint arguments (get_target_cwnd(0.75), (1.0), (cwnd_gain) observed on the "
        "implementation after that call) which the Coq model uses as oracle values; non-trivial = the controller "
        "left Startup, entered recovery at least once, and there is an MTU update")
SHARD = 40


def pick(ob):
    if ob is None or len(ob) < 15:
        return [0, 0, 0]
    return [ob[12], ob[13], ob[14]]


def gen(rng, n):
    cases = [C.gen_case(rng, "bbr", maxops=50) for _ in range(n)]
    return C.add_hints("cc_bbr", cases, pick)


def nontrivial(case, outs):
    if outs == qv.PANIC_OUT:
        return False
    left = any(len(o) > 2 and o[1] != 0 for o in outs)
    rec = any(len(o) > 2 and o[2] != 0 for o in outs)
    return left and rec and any(op[0] == 6 for op in case)


def stats(cases, outs):
    d = C.base_stats(cases, outs)
    modes, recs, both = {}, {}, 0
    for c, o in zip(cases, outs):
        if o == qv.PANIC_OUT:
            continue
        for ob in o:
            if len(ob) > 2:
                modes[str(ob[1])] = modes.get(str(ob[1]), 0) + 1
                recs[str(ob[2])] = recs.get(str(ob[2]), 0) + 1
                if ob[2] != 0 and ob[1] in (1, 2):
                    both += 1
    d["mode_obs"] = modes
    d["recovery_obs"] = recs
    d["in_recovery_outside_startup_and_probe_rtt"] = both
    return d


def classify(case, outs):
    """F7 (fixed in the repository): the window is below two datagrams only in a run of calls that starts at an
    MTU update during recovery and contains no on_end_acks, with window() == recovery_window."""
    if outs == qv.PANIC_OUT:
        return None
    ms = C.mtu_track(case)
    bad = [k for k, (ob, m) in enumerate(zip(outs, ms)) if len(ob) > 4 and ob[0] < 2 * m]
    if not bad:
        return None
    for k in bad:
        if not (outs[k][2] != 0 and outs[k][0] == outs[k][4]):
            return None
        j = k
        while j > 0 and case[j][0] not in (3, 6):
            j -= 1
        if case[j][0] != 6:
            return None
    return "bbr-mtu-update-in-recovery"
