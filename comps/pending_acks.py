"""Generator for the `pending_acks` component (PendingAcks range bookkeeping in quinn-proto/src/connection/spaces.rs vs coq/Model/PendingAcks.v + AckRanges.v)."""
RULE = ("ops: insert_one(packet, now) / subtract_below(max) / ack_delay(now) / dump of all ranges; arrival orders: in order, "
        "every-other packet (one range per packet, so the MAX_ACK_BLOCKS cap is reached after 65 packets), "
        "descending, random permutation of a window, duplicates, gap filling (merges), huge numbers near 2^62; "
        "non-trivial = the case exceeded MAX_ACK_BLOCKS ranges at least once (a range was dropped) and "
        "contains a merge of two ranges or a subtract_below that cut a range")

CAP = 64
SHARD = 20


def gen_case(rng):
    ops = []
    now = 0
    base = rng.choice([0, 0, 0, 1, 1, 1000, 1000, (1 << 32) - 40, (1 << 62) - 400])
    mode = rng.below(6)
    n = rng.range(30, 120)
    holes = []
    hi = base
    sub = rng.choice([0, 1, 1, 4])       # subtract_below frequency (out of 40 ops)
    for j in range(n):
        now += rng.choice([0, 1, 10, 1000])
        k = rng.below(20)
        if k == 15 and rng.below(4) >= sub:
            k = 0
        if k < 15:
            if mode == 0:
                p = base + 2 * j                     # one new range per packet
            elif mode == 1:
                p = base + 2 * (n - j)               # descending, gaps
            elif mode == 2:
                p = base + rng.below(3 * n)          # random within a window
            elif mode == 3:
                p = base + 2 * j if j < 70 else (rng.choice(holes) if holes else base)  # fill gaps: merges
            elif mode == 4:
                p = base + 3 * j + rng.below(2)
            else:
                p = base + (j * 7919) % (2 * n + 1)
            if mode in (0, 3) and j < 70:
                holes.append(p + 1)
            if rng.chance(1, 25):
                p = rng.choice([0, 1, base, hi, hi + 1, hi + 2, (1 << 62) - 1])
            hi = max(hi, p)
            ops.append([0, p, now])
        elif k < 16:
            m = rng.choice([base + rng.below(n + 1), max(base, hi - rng.range(20, 120)), 0, base,
                            max(0, hi - rng.below(10)) if rng.chance(1, 4) else base + 3])
            ops.append([1, m])
        elif k < 17:
            ops.append([2, now + rng.choice([0, 0, 5, 100, -3 if now > 3 else 0])])
        elif k < 18:
            ops.append([3])
        else:
            ops.append([0, hi + 2, now])
            hi += 2
    ops.append([3])
    return ops


def gen(rng, n):
    return [gen_case(rng) for _ in range(n)]


def nontrivial(case, outs):
    if outs == [[-999]]:
        return False
    capped = merged = cut = False
    prev = 0
    plo = -1
    for op, o in zip(case, outs):
        if op[0] == 0:
            if prev == CAP and o[0] == CAP and o[1] > plo:
                capped = True        # the lowest range was dropped
            if o[0] < prev:
                merged = True
        elif op[0] == 1 and o[0] >= 1 and o[1] == op[1] + 1:
            cut = True
        if op[0] == 3:
            continue
        prev = o[0]
        plo = o[1]
    return capped and (merged or cut)


def stats(cases, outs):
    d = {"insert_one": 0, "subtract_below": 0, "ack_delay": 0, "max_ranges": 0, "at_cap_inserts": 0,
         "merging_inserts": 0, "panic_cases": 0}
    for c, o in zip(cases, outs):
        if o == [[-999]]:
            d["panic_cases"] += 1
            continue
        prev = 0
        for op, r in zip(c, o):
            d["max_ranges"] = max(d["max_ranges"], r[0])
            if op[0] == 0:
                d["insert_one"] += 1
                if prev == CAP:
                    d["at_cap_inserts"] += 1
                if r[0] < prev:
                    d["merging_inserts"] += 1
            elif op[0] == 1:
                d["subtract_below"] += 1
            elif op[0] == 2:
                d["ack_delay"] += 1
            else:
                d["dump"] = d.get("dump", 0) + 1
            prev = r[0]
    return d
