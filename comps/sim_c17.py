"""C17 system level: 0-RTT accepted / rejected between real endpoints (warm-up connection, then
resumption against the same or a restarted server); coq/Sys/MonC17.v, MonC01.v, MonC02.v."""
from . import simlib as S
SUBCMD = "sim"
IS_TRACE = True
RUN = "monitor"
TAGS = {3, 4, 13, 10, 11, 12, 14}
RULE = ("early workloads (streams of both directions, datagrams, finishes) written before the handshake completes, "
        "acceptance (same server) or rejection (server restarted with a fresh ticket key and different limits), Retry "
        "on/off, loss/duplication/reordering of the early and handshake datagrams (drop masks), late server reaction; "
        "non-trivial = early data was actually started (client had a ticket)")


def gen(rng, n):
    cases = []
    for i in range(n):
        d = S.base(rng, small=True)
        d["ZERO_RTT"] = rng.choice([1, 2])
        d["STREAM_BYTES"] = rng.choice([0, 0, 1, 700, 3000, 8000])
        d["NBIDI"] = rng.range(0, 2)
        d["NUNI"] = rng.range(0 if d["NBIDI"] else 1, 2)
        d["RETRY"] = rng.choice([0, 1, 2, 2])
        d["CLOSER"] = 0
        d["IDLE_MS"] = 0
        d["MAX_TIME"] = 200_000_000
        d["FAIR_RUN"] = 1
        if rng.chance(1, 2):
            d["LOSS"] = rng.choice([30, 100, 200])
            d["DUP"] = rng.choice([0, 100])
        if rng.chance(1, 2):
            d["DROP_MASK"] = rng.below(1 << rng.range(1, 10)) << rng.choice([0, 8, 12])
            d["DROP_MASK_DIR"] = rng.below(3)
        if rng.chance(1, 3):
            d["DUP_MASK"] = rng.below(1 << 12) << 8
        if d["ZERO_RTT"] == 2 and rng.chance(2, 3):
            # the restarted server advertises smaller limits than the remembered ones
            d["RWND"] = rng.choice([100000, 1000000])
            d["SERVER_RWND"] = rng.choice([100, 1000, 5000])
        if rng.chance(1, 3):
            d["SEND_WINDOW"] = rng.choice([100, 1200, 10000])
        if rng.chance(1, 4):
            d["NDGRAM"] = rng.range(1, 5)
        if rng.chance(1, 4):
            d["ECHO_BYTES"] = rng.choice([1, 2000])
        if d["ZERO_RTT"] == 2 and rng.chance(1, 3):
            # early operations whose control frames must vanish with the rejection
            d["NO_REDO"] = 1
            d["NBIDI"] = rng.range(1, 2)
            d["EARLY_STOP"] = rng.choice([0, 1, 300, 900])   # us after opening (1 = at once)
            d["DELAY_MIN"] = d["DELAY_MAX"] = rng.choice([1000, 5000])
            if rng.chance(1, 2):
                d["RESET_AT_BYTES"] = 1
            d.pop("NDGRAM", None)
        if rng.chance(1, 4):
            # loss-free, with a Retry forced on the resumed connection and an early stream that is
            # reset at once: its RESET_STREAM must survive the Retry
            d.update({"ZERO_RTT": 1, "RETRY": 2, "LOSS": 0, "DUP": 0, "RESET_AT_BYTES": rng.choice([1, 300]),
                      "NBIDI": rng.range(0, 1), "NUNI": rng.range(1, 2), "STREAM_BYTES": rng.choice([700, 3000]),
                      "ALL_STREAMS_SEEN": 1})
            for k in ("DROP_MASK", "DROP_MASK_DIR", "DUP_MASK", "NO_REDO", "EARLY_STOP", "SERVER_RWND", "NDGRAM", "SEND_WINDOW"):
                d.pop(k, None)
        elif rng.chance(1, 5):
            # the client raises the number of streams the server may open while the (accepted or rejected)
            # 0-RTT phase is running: the limit it announced in a 0-RTT packet must reach the server
            # again after a rejection - the server application needs all of it
            d.update({"ZERO_RTT": rng.choice([2, 2, 1]), "LOSS": 0, "DUP": 0, "MAX_UNI": rng.choice([0, 1]),
                      "SERVER_STREAMS": rng.choice([3, 4]), "NEW_MAXSTREAMS_SIDE": 0, "NEW_MAX_UNI": rng.choice([4, 8]),
                      "NEW_MAXSTREAMS_AT": 1, "NBIDI": 1, "NUNI": 0, "STREAM_BYTES": rng.choice([700, 3000]),
                      "EXPECT_SERVER_STREAMS": 1, "READ_SERIAL": 200000})
            for k in ("DROP_MASK", "DROP_MASK_DIR", "DUP_MASK", "NO_REDO", "EARLY_STOP", "SERVER_RWND", "NDGRAM", "SEND_WINDOW", "RETRY", "MAX_BIDI"):
                d.pop(k, None)
        w = min(d.get("SERVER_RWND", 1 << 40), d.get("SEND_WINDOW", 1 << 40))
        if d["STREAM_BYTES"] > 20 * w:
            d["STREAM_BYTES"] = 20 * w
        cases.append(S.case_of(d))
    return cases


def project(case, outs):
    if outs == [[-999]]:
        return outs
    return [r for r in outs if r[0] in TAGS or r[0] == 16]


def nontrivial(case, outs):
    return any(r[0] == 4 and r[4] == 2 and r[2] == 0 and r[6] == 1 for r in outs)


def stats(cases, outs):
    st = S.trace_stats(cases, outs)
    st["early_started"] = 0
    st["accepted"] = 0
    st["rejected"] = 0
    for o in outs:
        for r in o:
            if r[0] == 4 and r[4] == 2 and r[2] == 0 and r[6] == 1:
                st["early_started"] += 1
                st["accepted" if r[5] == 1 else "rejected"] += 1
    return st


describe = S.describe
