"""Generator for `cc_cubic` (Cubic vs coq/Model/Cubic.v, relational model with read-back hints)."""
from . import cc_common as C
from lib import qv

RULE = ("as cc_newreno, on a real Cubic; every op carries two trailing hint arguments (window, ssthresh observed "
        "on the implementation after that call, from a first run of the same sequence) which the Coq model "
        "uses as oracle values for the float-derived quantities; non-trivial = a congestion event reduced the "
        "window, the controller later grew in congestion avoidance or was restored by a spurious event, and "
        "there is an MTU update")


def pick(ob):
    if ob is None or len(ob) < 2:
        return [0, 0]
    return [ob[0], ob[1]]


def gen(rng, n):
    cases = [C.gen_case(rng, "cubic") for _ in range(n)]
    return C.add_hints("cc_cubic", cases, pick)


def nontrivial(case, outs):
    if outs == qv.PANIC_OUT:
        return False
    drop = False
    grew = False
    for op, a, b in zip(case[1:], outs, outs[1:]):
        if a == [-1] or b == [-1]:
            continue
        if op[0] == 4 and b[0] < a[0]:
            drop = True
        if drop and op[0] in (2, 5) and b[0] > a[0]:
            grew = True
    return drop and grew and any(op[0] == 6 for op in case)


def stats(cases, outs):
    return C.base_stats(cases, outs)
