"""dev helper: python3 tools_b2/simrun.py 'K=V K=V ...' [tags]  — run one simulator scenario, print records"""
import sys, os
sys.path.insert(0, os.path.dirname(os.path.dirname(os.path.abspath(__file__))))
from lib import qv
from comps import simlib as S
d = {}
for kv in sys.argv[1].split():
    k, v = kv.split("=")
    d[k] = int(v)
tags = set(int(x) for x in sys.argv[2].split(",")) if len(sys.argv) > 2 else {10, 14}
ok, binp, out = qv.build_harness()
assert ok, out[-2000:]
case = S.case_of(d)
outs = qv.run_impl(binp, "x", [case], subcmd="sim")[0]
for r in outs:
    if r[0] in tags:
        if r[0] == 8:
            print(r[:4], "p", r[4:36])
        else:
            print(r)
