"""dev helper: python3 tools_b2/trymon.py <comp> <QV.Sys.MonX> <n> [seed] — run traces through the extracted monitor"""
import sys, os, json, time
sys.path.insert(0, os.path.dirname(os.path.dirname(os.path.abspath(__file__))))
from lib import qv, runner
comp, module, n = sys.argv[1], sys.argv[2], int(sys.argv[3])
seed = int(sys.argv[4]) if len(sys.argv) > 4 else 1
ok, binp, out = qv.build_harness()
assert ok, out[-3000:]
cm = runner.load_comp(comp)
rng = qv.Rng(seed).fork(comp)
t0 = time.time()
cases = cm.gen(rng, n)
full = qv.run_impl(binp, comp, cases, subcmd="sim")
outs = [cm.project(c, o) for c, o in zip(cases, full)]
t1 = time.time()
fails, errs = qv.mon_eval_cases(module, cases, outs)
t2 = time.time()
print("seed", seed, "impl %.1fs mon %.1fs" % (t1 - t0, t2 - t1), "records", sum(len(o) for o in outs))
print("errors", errs[:2])
print("fails", [(f[0], f[2]) for f in fails][:20], len(fails))
print("nontrivial", sum(1 for c, o in zip(cases, outs) if cm.nontrivial(c, o)), "/", len(cases))
st = cm.stats(cases, outs)
st.pop("param_usage", None)
print(json.dumps(st))
ends = {}
for o in full:
    for r in o:
        if r[0] == 10:
            ends[r[2]] = ends.get(r[2], 0) + 1
print("end reasons", ends)
for f in fails[:int(os.environ.get("SHOW", "3"))]:
    i, rec = f[0], f[2]
    print("--- case", i, cm.describe(cases[i]))
    tr = outs[i]
    key = (tr[rec][2], tr[rec][3]) if 0 <= rec < len(tr) else None
    ctx = [r for r in tr[max(0, rec - 60):rec + 1] if (r[2], r[3]) == key][-8:]
    for r in ctx:
        print(r[:4], r[4:36] if r[0] == 8 else r[4:])
