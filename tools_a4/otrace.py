#!/usr/bin/env python3
"""tools_a4/otrace.py comp module n seed [caseindex]: per-op oracle verdicts for failing cases"""
import os, sys, json, importlib, re
sys.path.insert(0, os.path.dirname(os.path.dirname(os.path.abspath(__file__))))
from lib import qv
comp, module, n, seed = sys.argv[1], sys.argv[2], int(sys.argv[3]), int(sys.argv[4])
ok, binp, log = qv.build_harness(); assert ok
okm, mlog = qv.coq_make([module.replace("QV.", "").replace(".", "/") + ".vo"]); assert okm, mlog[-2000:]
cm = importlib.import_module("comps." + comp)
cases = cm.gen(qv.Rng(seed).fork(comp), n)
outs = qv.run_impl(binp, comp, cases)
wd = os.path.join(qv.CACHE, "run", "otrace"); os.makedirs(wd, exist_ok=True)
short = module.split(".")[-1]
idx = [int(x) for x in sys.argv[5:]] or list(range(min(n, 5)))
for i in idx:
    path = os.path.join(wd, "t.v")
    with open(path, "w") as f:
        f.write(f"Require Import QV.Lib.Corr {module}.\nFrom Coq Require Import ZArith List.\nImport ListNotations.\nOpen Scope Z_scope.\nSet Printing Width 100000.\nSet Printing Depth 100000.\n")
        f.write(f"Eval vm_compute in ({short}.oracle_trace {qv.coq_ll(cases[i])} {qv.coq_ll(outs[i])}).\n")
    rc, out = qv.sh(["coqc", "-noglob", "-Q", qv.COQ, "QV", path], cwd=wd)
    m = re.search(r"=\s*\[(.*?)\]\s*:", out, flags=re.S)
    if not m:
        print(out[-2000:]); continue
    bs = [x.strip() for x in m.group(1).split(";")]
    for j, b in enumerate(bs):
        if b != "true":
            print("case", i, "first failing op", j, cases[i][j])
            for k in range(max(0, j - 0), j + 1):
                print("   out", outs[i][k])
            print("   prefix", json.dumps(cases[i][:j + 1]))
            with open(path, "w") as f:
                f.write(f"Require Import QV.Lib.Corr {module}.\nFrom Coq Require Import ZArith List.\nImport ListNotations.\nOpen Scope Z_scope.\nSet Printing Width 100000.\n")
                f.write(f"Eval vm_compute in ({short}.parts_after {qv.coq_ll(cases[i][:j+1])} {qv.coq_ll(outs[i][:j+1])}).\n")
            rc, out2 = qv.sh(["coqc", "-noglob", "-Q", qv.COQ, "QV", path], cwd=wd)
            print("   global parts:", out2.strip()[:300])
            # previous probe of the same stream
            if len(cases[i][j]) > 1:
                for k in range(j - 1, 0, -1):
                    if len(cases[i][k]) > 1 and cases[i][k][1] == cases[i][j][1] and cases[i][k][0] not in (6, 7, 8, 9, 16, 19):
                        print("   prev same id op", k, cases[i][k], outs[i][k]); break
            break
    else:
        print("case", i, "all ok")
