#!/usr/bin/env python3
"""Fast differential loop: tools_a4/quick.py <comp> <module> <n> [seed]  (QV_REPO must be set)."""
import os, sys, json, importlib
sys.path.insert(0, os.path.dirname(os.path.dirname(os.path.abspath(__file__))))
from lib import qv
comp, module, n = sys.argv[1], sys.argv[2], int(sys.argv[3])
seed = int(sys.argv[4]) if len(sys.argv) > 4 else 1
ok, binp, log = qv.build_harness()
assert ok, log[-3000:]
okm, mlog = qv.coq_make([module.replace("QV.", "").replace(".", "/") + ".vo", "Lib/Corr.vo"])
assert okm, mlog[-3000:]
cm = importlib.import_module("comps." + comp)
rng = qv.Rng(seed).fork(comp)
cases = cm.gen(rng, n)
outs = qv.run_impl(binp, comp, cases)
wd = os.path.join(qv.CACHE, "run", "quick-%d" % os.getpid())
RUN=os.environ.get("RUN","run")
fails, errs = qv.coq_eval_cases(module, cases, outs, wd, shard=getattr(cm, "SHARD", 250), run_name=RUN)
print("cases", len(cases), "fails", len(fails), "errs", errs[:1])
print("nontrivial", sum(1 for c, o in zip(cases, outs) if cm.nontrivial(c, o)))
print(json.dumps(cm.stats(cases, outs)))
from collections import Counter
print(Counter(code for _, code in fails))
shown = 0
for i, code in fails[:int(os.environ.get("SHOW", "2"))]:
    mo = qv.coq_model_output(module, cases[i], wd, run_name=RUN)
    print("== case", i, "code", code)
    if mo is None:
        print("model output unavailable"); continue
    for j, (op, a, b) in enumerate(zip(cases[i], outs[i], mo)):
        mark = "" if a == b else "   <<<<<< DIFF"
        if mark or os.environ.get("ALL"):
            print(j, op, "\n   impl ", a, "\n   model", b, mark)
        if mark and not os.environ.get("ALL"):
            print("   prefix ops:", json.dumps(cases[i][:j + 1]))
            break
    if outs[i] == [[-999]] or mo == [[-999]]:
        print("impl", outs[i][:1], "model", mo[:1], json.dumps(cases[i]))
