#!/usr/bin/env python3
"""Run generated cases one process per case to find aborts: tools_a4/one.py comp n seed"""
import os, sys, json, importlib, subprocess
sys.path.insert(0, os.path.dirname(os.path.dirname(os.path.abspath(__file__))))
from lib import qv
comp, n, seed = sys.argv[1], int(sys.argv[2]), int(sys.argv[3])
cm = importlib.import_module("comps." + comp)
cases = cm.gen(qv.Rng(seed).fork(comp), n)
binp = os.path.join(qv.target_dir(), "debug", "qvh")
for i, c in enumerate(cases):
    p = subprocess.run([binp, "comp", comp], input=qv.fmt_cases([c]), capture_output=True, text=True)
    if p.returncode != 0 or "PANIC" in p.stdout:
        print(i, p.returncode, p.stderr[-300:], p.stdout[-200:] if "PANIC" in p.stdout else "")
        print(json.dumps(c))
