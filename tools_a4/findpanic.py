import json,subprocess,sys
c=json.loads(sys.stdin.read())
B=".cache/target-496761ab/debug/qvh"
comp=sys.argv[1] if len(sys.argv)>1 else "flow_recv"
for n in range(2,len(c)+1):
    inp="".join(" ".join(map(str,o))+"\n" for o in c[:n])+"#\n"
    p=subprocess.run([B,"comp",comp],input=inp,capture_output=True,text=True)
    if "PANIC" in p.stdout or p.returncode!=0:
        print(n, c[n-1], p.stdout[-300:], p.stderr[-1500:]); break
