#!/usr/bin/env python3
"""Generates the state Record and its setters for coq/Model/FlowRecv.v (pasted into the file; kept for regeneration)."""
fields = [
 ("side","Z"),("recvm","list (Z * rslot)"),("sendm","list (Z * sslot)"),("free_recv","Z"),
 ("nxt","Z * Z"),("maxl","Z * Z"),("max_remote","Z * Z"),("sent_max_remote","Z * Z"),
 ("alloc","Z * Z"),("max_conc","Z * Z"),("next_remote","Z * Z"),("opened","bool * bool"),
 ("next_rep","Z * Z"),("send_streams","Z"),("events","list (list Z)"),("pendq","list Z"),
 ("local_max","Z"),("rwin","Z"),("sent_max_data","Z"),("data_recvd","Z"),("swin","Z"),("debt","Z"),
 ("p_max_data","bool"),("p_msid","bool * bool"),("p_msd","list Z"),("p_stop","list (Z * Z)"),
 ("p_reset","list (Z * Z)"),("seen","list Z"),("slog","list ((Z * Z * Z * Z) * Z)"),("panic","bool"),
 ("g_closed","Z"),("g_credits","Z"),("g_expand","Z"),("g_fin","list Z"),("g_reset","list Z"),
]
print("Record st := mkSt {")
print(";\n".join(f"  {n} : {t}" for n,t in fields))
print("}.\n")
for i,(n,t) in enumerate(fields):
    args=" ".join(f"({m} s)" if m!=n else "v" for m,_ in fields)
    print(f"Definition set_{n} (v : {t}) (s : st) : st := mkSt {args}.")
