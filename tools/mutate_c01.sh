#!/bin/bash
# usage: mutate_c01.sh <name> <file relative to repo> <python-regex-old> <new>   (one literal replacement)
R=/work/a2/repo
cd $R
python3 - "$2" "$3" "$4" <<'PY'
import sys
p,old,new=sys.argv[1:4]
s=open(p).read()
assert s.count(old)==1, (s.count(old), old)
open(p,'w').write(s.replace(old,new))
PY
if [ $? -ne 0 ]; then echo "MUTATION $1: pattern not unique"; git checkout -- .; exit 1; fi
cd /work/a2/verif
OUT=$(QV_REPO=$R ./check C01 2>&1 | grep -E "VIOLATION|tier=|disagreements")
echo "=== MUTATION $1 ($2): '$3' -> '$4'"
echo "$OUT"
for f in $(echo "$OUT" | grep -o 'replay=[^ ]*' | cut -d= -f2); do python3 -c "
import json,sys
o=json.load(open('$f')); print('   kind:',o.get('kind'),'component:',o.get('component'),'case_len:',len(o.get('case',[])))
"; done
cd $R && git checkout -- .
