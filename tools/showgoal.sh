#!/bin/bash
# usage: showgoal.sh <file.v (relative to coq/)> <line>  -- prints goals just before that line
cd /work/a2/verif/coq
head -n $(($2 - 1)) $1 > dbg_tmp.v
echo "Show. Abort." >> dbg_tmp.v
timeout 120 coqc -Q . QV dbg_tmp.v 2>&1 | head -${3:-60}
rm -f dbg_tmp.* .dbg_tmp.aux
