"""dev helper: python3 tools/trycomp.py <comp> <module> <n> [seed] — correspondence only, no proof build"""
import sys, os, json, time
sys.path.insert(0, os.path.dirname(os.path.dirname(os.path.abspath(__file__))))
from lib import qv, runner
comp, module, n = sys.argv[1], sys.argv[2], int(sys.argv[3])
seed = int(sys.argv[4]) if len(sys.argv) > 4 else 1
ok, binp, out = qv.build_harness()
assert ok, out[-3000:]
okm, mlog = qv.coq_make([module.replace("QV.", "").replace(".", "/") + ".vo", "Lib/Corr.vo"])
assert okm, mlog[-3000:]
cm = runner.load_comp(comp)
rng = qv.Rng(seed).fork(comp)
t0 = time.time()
cases = cm.gen(rng, n)
outs = qv.run_impl(binp, comp, cases)
t1 = time.time()
wd = os.path.join(qv.CACHE, "try")
fails, errs = qv.coq_eval_cases(module, cases, outs, wd, shard=getattr(cm, "SHARD", 250))
t2 = time.time()
print("impl %.1fs coq %.1fs" % (t1 - t0, t2 - t1))
print("errors", errs[:2])
print("fails", fails[:20], len(fails))
print("nontrivial", sum(1 for c, o in zip(cases, outs) if cm.nontrivial(c, o)), "/", len(cases))
print(json.dumps(cm.stats(cases, outs), indent=0)[:3000])
for i, code in fails[:3]:
    mo = qv.coq_model_output(module, cases[i], wd)
    for k, (op, a) in enumerate(zip(cases[i], outs[i])):
        b = mo[k] if mo and k < len(mo) else None
        if a != b:
            print("case", i, "code", code, "op", op[:60], "\n impl ", a[:80], "\n model", (b or [])[:80])
            break
    else:
        print("case", i, "code", code, "impl", outs[i][:3], "model", mo[:3] if mo else mo)
