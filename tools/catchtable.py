#!/usr/bin/env python3
"""Regenerate DESIGN.md §10 (seeded changes and which checks catch them) from seeded/*/{meta,result}.json."""
import glob
import json
import os

V = os.path.dirname(os.path.dirname(os.path.abspath(__file__)))
rows, n, det, rep = [], 0, 0, 0
missed = []
for d in sorted(glob.glob(os.path.join(V, "seeded", "*"))):
    mp, rp = os.path.join(d, "meta.json"), os.path.join(d, "result.json")
    if not (os.path.exists(mp) and os.path.exists(rp)):
        continue
    m, r = json.load(open(mp)), json.load(open(rp))
    pid = os.path.basename(d)
    own = pid.split("-")[0]
    v = r["checks"].get(own, {})
    n += 1
    comps = sorted(set(os.path.basename(x.split("replay=")[1].split()[0]).replace(".json", "").split("-")[1]
                       for x in v.get("violations", []) if "replay=" in x))
    others = [c for c, w in r["checks"].items() if c != own and w.get("detected")]
    if v.get("detected"):
        det += 1
        rep += 1 if v.get("with_replay") else 0
        how = "concrete replay" if v.get("with_replay") else "tie broken (no-failing-input-found)"
    else:
        missed.append(pid)
        how = "MISSED by %s" % own + (" (caught by %s)" % ", ".join(others) if others else "")
    rows.append("| %s | %s | %s | %s |" % (pid, m.get("title", "").replace("|", "/")[:115], "; ".join(comps) + ((" (+ " + ", ".join(others) + ")") if others and v.get("detected") else ""), how))
txt = open(os.path.join(V, "DESIGN.md")).read()
a = txt.index("Result of the last full evaluation")
b = txt.index("| id | change | caught by component(s) | how |")
res = ("Result of the last full evaluation (quick tier, seed 1): **%d / %d detected by the check of the\nproperty they were seeded for**, %d with a concrete replay, %d through a broken tie only%s.\n\n"
       % (det, n, rep, det - rep, ("; missed: " + ", ".join(missed)) if missed else ""))
hist = txt[a:b]
k = hist.index("\n\n") + 2
txt = txt[:a] + res + hist[k:] + "| id | change | caught by component(s) | how |\n|---|---|---|---|\n" + "\n".join(rows) + "\n"
open(os.path.join(V, "DESIGN.md"), "w").write(txt)
print(det, n, rep, missed)
