"""C20 experiment helper: run twin scenarios and diff the two halves per record tag.
usage: QV_REPO=... python3 tools/c20exp.py <seed> <n> [twin]"""
import sys, os, json
sys.path.insert(0, os.path.dirname(os.path.dirname(os.path.abspath(__file__))))
from lib import qv
from comps import sim_c20 as C

seed = int(sys.argv[1]); n = int(sys.argv[2])
only = int(sys.argv[3]) if len(sys.argv) > 3 else 0
binp = os.path.join(qv.target_dir(), "debug", "qvh")
rng = qv.Rng(seed).fork("sim_c20")
cases = C.gen(rng, n)
if only:
    cases = [c for c in cases if C.S.get(c, "TWIN", 0) == only]
outs = qv.run_impl(binp, "sim_c20", cases, subcmd="sim")


def split(o):
    for i, r in enumerate(o):
        if r == [99]:
            return o[:i], o[i + 1:]
    return o, None


def key(r, tw):
    return tuple(r)


from collections import Counter
diffs = Counter()
for c, o in zip(cases, outs):
    tw = C.S.get(c, "TWIN", 0)
    a, b = split(o)
    if b is None:
        print("NO SPLIT", C.describe(c)); continue
    paced = any(r[0] == 8 and r[4 + 24] != -1 for r in o)
    diffs[(tw, "paced", paced)] += 1
    if os.environ.get("NOPACED") and paced:
        continue
    for tg in (1, 2, 3, 4, 5, 6, 7, 9, 10, 11, 12, 13, 14, 15, 16):
        pa = [r for r in a if r[0] == tg]
        pb = [r for r in b if r[0] == tg]
        if pa != pb:
            diffs[(tw, tg)] += 1
            if os.environ.get("SHOW") and int(os.environ["SHOW"]) == tg and (not only or tw == only):
                k = next((i for i in range(min(len(pa), len(pb))) if pa[i] != pb[i]), min(len(pa), len(pb)))
                print("DIFF tw", tw, "tag", tg, "at", k, "lens", len(pa), len(pb), json.dumps(C.describe(c)))
                print("  A:", pa[k - 1:k + 2]); print("  B:", pb[k - 1:k + 2])
        else:
            diffs[(tw, tg, "eq")] += 1
for k in sorted(diffs, key=str):
    print(k, diffs[k])
