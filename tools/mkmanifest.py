#!/usr/bin/env python3
"""Generate MANIFEST.json from checks/Cxx.py (SPEC + MANIFEST dict) — run after adding a check."""
import importlib
import json
import os
import subprocess
import sys

HERE = os.path.dirname(os.path.dirname(os.path.abspath(__file__)))
sys.path.insert(0, HERE)
os.chdir(HERE)

props = [json.loads(l) for l in open("properties.jsonl")]
checks, na = [], []
for p in props:
    pid = p["id"]
    path = os.path.join("checks", pid + ".py")
    if not os.path.exists(path):
        na.append({"property_id": pid, "reason": "no check registered yet: the Coq model and correspondence harness for this property are not built in this round (technique applies; see DESIGN.md §6)"})
        continue
    m = importlib.import_module("checks." + pid)
    info = getattr(m, "MANIFEST", {})
    if info.get("not_applicable"):
        na.append({"property_id": pid, "reason": info["not_applicable"]})
        continue
    checks.append({
        "property_id": pid,
        "quick_cmd": f"./check {pid} --tier quick",
        "thorough_cmd": f"./check {pid} --tier thorough",
        "evidence_file": f"/verif/evidence/{pid}.json",
        "replay_cmd_template": f"./check {pid} --replay {{path}}",
        "engine": "coq-proof+correspondence",
        "level_claimed": {
            "category": "proof",
            "text": info.get("text", ""),
            "design_ref": info.get("design_ref", f"DESIGN.md §6 {pid}"),
        },
        "level_note": info.get("note", ""),
        "technique": info.get("technique", "machine-checked proof in Coq 8.16.1 about a hand-written executable model, tied to the code by differential correspondence (model evaluated by vm_compute on the implementation's inputs/outputs)"),
    })

try:
    commits = subprocess.run(["git", "-C", "/repo", "log", "--format=%h %s"], capture_output=True, text=True).stdout.splitlines()
    hook_commits = [c.split()[0] for c in commits if c.split(" ", 1)[1].startswith("verif hooks")]
except Exception:
    hook_commits = []

man = {
    "version": 1,
    "setup_cmd": "./setup.sh",
    "hooks": {
        "guard": "quinn_rs_quinn_verif",
        "enable": "RUSTFLAGS='--cfg quinn_rs_quinn_verif' (set by lib/qv.py when it builds /verif/harness against /repo's working tree)",
        "baseline_off_cmd": "cd /repo && cargo test --workspace --no-fail-fast --offline",
        "source_commits": hook_commits,
        "add_only": True,
    },
    "engines": [{
        "name": "coq-proof+correspondence",
        "path": "/verif/check",
        "serves_properties": [c["property_id"] for c in checks],
        "kind_free_text": "Coq 8.16.1 theorems over executable Gallina models (coq/), models tied to /repo by running the model (vm_compute) and the real component (cfg-guarded hooks + harness/qvh) on the same generated operation sequences; simulator traces of real endpoints validated by Coq monitors",
    }],
    "checks": checks,
    "not_applicable": na,
    "notes": "See DESIGN.md. Known findings: known_findings.txt. Seeded mutants: seeded/.",
}
json.dump(man, open("MANIFEST.json", "w"), indent=1)
print(f"{len(checks)} checks, {len(na)} not_applicable")
