#!/bin/sh
# usage: tools/seedsweep.sh "C01 C05 ..." "1 2 3"   — runs checks for several seeds, prints one line each
cd "$(dirname "$0")/.."
for p in $1; do for s in $2; do
  out=$(VERIF_SEED=$s ./check $p 2>&1 | grep -E "VIOLATION|^\[$p\] tier" | tr '\n' ' ')
  echo "$p seed=$s :: $out"
done; done
