#!/bin/sh
# build the harness against $QV_REPO (default /repo) through the locked python path; prints errors
cd "$(dirname "$0")/.."
python3 -c "
import sys; sys.path.insert(0,'.')
from lib import qv
ok,b,log=qv.build_harness()
print(b if ok else log[-4000:])
sys.exit(0 if ok else 1)"
