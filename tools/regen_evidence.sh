#!/bin/sh
# regenerate evidence/*.json: every quick check once, seed 1, against /repo
cd "$(dirname "$0")/.."
for i in 01 02 03 04 05 06 07 08 09 10 11 12 13 14 15 16 17 18 19 20; do
  out=$(VERIF_SEED=1 ./check C$i --tier quick 2>&1 | grep -E "VIOLATION|^\[C$i\] tier" | tr '\n' ' ')
  echo "C$i :: $out"
done
