#!/usr/bin/env python3
"""Developer loop for one component: tools/c01dev.py <comp> <module> <n> [seed]"""
import os, sys, json, importlib
HERE = os.path.dirname(os.path.dirname(os.path.abspath(__file__)))
sys.path.insert(0, HERE); os.chdir(HERE)
from lib import qv
comp, module, n = sys.argv[1], sys.argv[2], int(sys.argv[3])
seed = int(sys.argv[4]) if len(sys.argv) > 4 else 1
ok, binp, log = qv.build_harness()
assert ok, log[-3000:]
qv.coq_project()
okm, mlog = qv.coq_make([module.replace("QV.", "").replace(".", "/") + ".vo", "Lib/Corr.vo"])
assert okm, mlog[-3000:]
cm = importlib.import_module("comps." + comp)
cases = cm.gen(qv.Rng(seed).fork(comp), n)
outs = qv.run_impl(binp, comp, cases)
wd = os.path.join(qv.CACHE, "run", "dev-%d" % os.getpid())
os.makedirs(wd, exist_ok=True)
RUN = os.environ.get("QV_RUN", "run")
fails, errs = qv.coq_eval_cases(module, cases, outs, wd, shard=getattr(cm, "SHARD", 250), run_name=RUN)
print("cases", len(cases), "fails", len(fails), "errs", errs[:2], "panics", sum(1 for o in outs if o == qv.PANIC_OUT),
      "nontrivial", sum(1 for c, o in zip(cases, outs) if cm.nontrivial(c, o)))
print(json.dumps(cm.stats(cases, outs)))
for i, code in fails[:3]:
    mo = qv.coq_model_output(module, cases[i], wd, run_name=RUN)
    print("FAIL code", code, "case", i)
    for j, (op, io) in enumerate(zip(cases[i], outs[i])):
        m = mo[j] if mo and j < len(mo) else None
        print("  ", "!!" if m != io else "  ", op, "impl", io, "model", m)
