#!/usr/bin/env python3
"""Confirm seeded mutants and evaluate which checks detect them.

  tools/mutants.py confirm <srcdir> ...   # in a scratch worktree: demo passes clean, fails with patch,
                                          # existing suite passes with patch; copies confirmed mutants to seeded/<id>/
  tools/mutants.py eval [ids...]          # apply each seeded patch in a scratch worktree of /repo and run the
                                          # property's check (QV_REPO=<worktree>); records seeded/<id>/result.json
"""
import json
import os
import re
import shutil
import subprocess
import sys

VERIF = os.path.dirname(os.path.dirname(os.path.abspath(__file__)))
SCRATCH = "/tmp/mutscratch"


def sh(cmd, cwd=None, env=None, timeout=3600):
    e = dict(os.environ)
    if env:
        e.update(env)
    p = subprocess.run(cmd, cwd=cwd, env=e, shell=isinstance(cmd, str), stdout=subprocess.PIPE,
                       stderr=subprocess.STDOUT, text=True, timeout=timeout)
    return p.returncode, p.stdout


def scratch(name):
    d = os.path.join(SCRATCH, name)
    if not os.path.exists(d):
        os.makedirs(SCRATCH, exist_ok=True)
        rc, out = sh(["git", "-C", "/repo", "worktree", "add", "--detach", "-f", d, "HEAD"])
        if rc != 0:
            raise RuntimeError(out)
    else:
        sh("git reset -q --hard && git clean -fdq && git checkout -q --detach $(git -C /repo rev-parse HEAD)", cwd=d)
    rc, head = sh("git rev-parse HEAD", cwd=d)
    rc2, want = sh("git -C /repo rev-parse HEAD")
    if head.strip() != want.strip():
        raise RuntimeError("scratch worktree %s is at %s, /repo at %s" % (d, head.strip(), want.strip()))
    return d


def test_summary(out):
    failed = re.findall(r"^test (\S+) \.\.\. FAILED", out, flags=re.M)
    passed = len(re.findall(r"^test \S+ \.\.\. ok", out, flags=re.M))
    ok = bool(re.search(r"test result: ok", out)) and not re.search(r"test result: FAILED", out)
    compiled = "error[" not in out and "could not compile" not in out
    return {"failed": failed, "passed": passed, "all_ok": ok, "compiled": compiled}


def crates_of(patch):
    cr = set()
    for m in re.finditer(r"^\+\+\+ b/(quinn-proto|quinn-udp|quinn)/", open(patch).read(), flags=re.M):
        cr.add(m.group(1))
    return sorted(cr) or ["quinn-proto"]


def confirm(srcdirs):
    wt = scratch("confirm")
    env = {"CARGO_TARGET_DIR": os.path.join(SCRATCH, "target-confirm"), "CARGO_NET_OFFLINE": "true"}
    for src in srcdirs:
        for name in sorted(os.listdir(src)):
            d = os.path.join(src, name)
            if not os.path.isfile(os.path.join(d, "patch.diff")):
                continue
            dst = os.path.join(VERIF, "seeded", name)
            if os.path.exists(os.path.join(dst, "meta.json")) and json.load(open(os.path.join(dst, "meta.json"))).get("confirmed"):
                continue
            meta = json.load(open(os.path.join(d, "meta.json"))) if os.path.exists(os.path.join(d, "meta.json")) else {}
            if meta.get("failed"):
                continue
            sh("git reset -q --hard && git clean -fdq", cwd=wt)
            crates = sorted(set(crates_of(os.path.join(d, "patch.diff")) + (crates_of(os.path.join(d, "demo.diff")) if os.path.exists(os.path.join(d, "demo.diff")) else [])))
            pk = " ".join("-p " + c for c in crates)
            res = {"crates": crates}
            # 1. suite with the patch only
            rc, out = sh(["git", "apply", os.path.join(d, "patch.diff")], cwd=wt)
            res["patch_applies"] = rc == 0
            if rc != 0:
                res["error"] = out[-500:]
            else:
                rc, out = sh(f"cargo test {pk} --offline 2>&1", cwd=wt, env=env)
                res["suite_with_patch"] = test_summary(out)
                # 2. demo + patch
                demo = os.path.join(d, "demo.diff")
                if os.path.exists(demo):
                    rc, o2 = sh(["git", "apply", demo], cwd=wt)
                    res["demo_applies_on_patch"] = rc == 0
                    rc, out = sh(f"cargo test {pk} --offline 2>&1", cwd=wt, env=env)
                    res["demo_with_patch"] = test_summary(out)
                    # 3. demo without patch
                    sh("git reset -q --hard && git clean -fdq", cwd=wt)
                    sh(["git", "apply", demo], cwd=wt)
                    rc, out = sh(f"cargo test {pk} --offline 2>&1", cwd=wt, env=env)
                    res["demo_without_patch"] = test_summary(out)
            ok = (res.get("patch_applies") and res.get("suite_with_patch", {}).get("all_ok")
                  and res.get("demo_with_patch", {}).get("compiled") and len(res.get("demo_with_patch", {}).get("failed", [])) >= 1
                  and res.get("demo_without_patch", {}).get("all_ok"))
            res["confirmed"] = bool(ok)
            print(name, "CONFIRMED" if ok else "REJECTED", json.dumps({k: v for k, v in res.items() if k != "error"})[:300], flush=True)
            if ok:
                os.makedirs(dst, exist_ok=True)
                shutil.copy(os.path.join(d, "patch.diff"), dst)
                if os.path.exists(os.path.join(d, "demo.diff")):
                    shutil.copy(os.path.join(d, "demo.diff"), dst)
                meta.update({"id": name, "confirmed": True, "confirmation": {
                    "what_i_ran": f"in a scratch worktree of /repo HEAD: cargo test {pk} --offline with patch only (all pass), with patch+demo (demo fails), with demo only (all pass)",
                    "suite_with_patch_passed": res["suite_with_patch"]["passed"],
                    "demo_tests_failing_with_patch": res["demo_with_patch"]["failed"],
                    "repo_head": sh(["git", "-C", "/repo", "rev-parse", "--short", "HEAD"])[1].strip()}})
                json.dump(meta, open(os.path.join(dst, "meta.json"), "w"), indent=1)
    sh("git reset -q --hard && git clean -fdq", cwd=wt)


def evaluate(ids):
    override = None
    wtname = "eval"
    while ids and ids[0].startswith("--"):
        if ids[0].startswith("--checks="):
            override = ids[0].split("=", 1)[1].split(",")
        elif ids[0].startswith("--wt="):
            wtname = ids[0].split("=", 1)[1]      # several evaluations may run in parallel, one worktree each
        ids = ids[1:]
    sd = os.path.join(VERIF, "seeded")
    wt = scratch(wtname)
    names = ids or sorted(os.listdir(sd))
    for name in names:
        d = os.path.join(sd, name)
        if not os.path.exists(os.path.join(d, "patch.diff")):
            continue
        meta = json.load(open(os.path.join(d, "meta.json")))
        prop = meta.get("property", name.split("-")[0])
        checks = override or ([prop] + [c for c in meta.get("also_check", []) if c != prop])
        sh("git reset -q --hard && git clean -fdq", cwd=wt)
        rc, out = sh(["git", "apply", os.path.join(d, "patch.diff")], cwd=wt)
        if rc != 0:
            rc, out = sh(["git", "apply", "--3way", os.path.join(d, "patch.diff")], cwd=wt)
        if rc != 0:
            print(name, "patch does not apply to current HEAD:", out[-200:], flush=True)
            continue
        result = {"repo_head": sh(["git", "-C", "/repo", "rev-parse", "--short", "HEAD"])[1].strip(), "checks": {}}
        rp = os.path.join(d, "result.json")
        if override and os.path.exists(rp):
            result["checks"] = json.load(open(rp)).get("checks", {})
        for c in checks:
            if not os.path.exists(os.path.join(VERIF, "checks", c + ".py")):
                result["checks"][c] = {"detected": False, "note": "no check registered"}
                continue
            env = {"QV_REPO": wt, "QV_EVIDENCE_DIR": "/tmp/mutscratch/evidence", "QV_REPLAY_DIR": os.path.join("/tmp/mutscratch/replays", name)}
            rc, out = sh(["./check", c, "--tier", "quick"], cwd=VERIF, env=env, timeout=3000)
            viol = re.findall(r"^VIOLATION .*", out, flags=re.M)
            broken = any("-build.json" in v for v in viol)
            result["checks"][c] = {"exit": rc, "detected": rc == 1 and bool(viol) and not broken, "broken_build": broken, "violations": viol[:4],
                                   "with_replay": any("no-failing-input-found" not in v for v in viol),
                                   "tail": out[-300:]}
        result["detected"] = any(v.get("detected") for v in result["checks"].values())
        json.dump(result, open(os.path.join(d, "result.json"), "w"), indent=1)
        print(name, "DETECTED" if result["detected"] else "MISSED",
              {c: (v.get("detected"), v.get("with_replay")) for c, v in result["checks"].items()}, flush=True)
    sh("git reset -q --hard && git clean -fdq", cwd=wt)


if __name__ == "__main__":
    if sys.argv[1] == "confirm":
        confirm(sys.argv[2:])
    elif sys.argv[1] == "eval":
        evaluate(sys.argv[2:])
