import sys,json,subprocess
sys.path.insert(0,'/verif')
from lib import qv
import importlib
rep=json.load(open(sys.argv[1])); comp=sys.argv[2]; mod=sys.argv[3]
cm=importlib.import_module('comps.'+comp)
case=rep['case']
binp='/verif/.cache/target-main/debug/qvh'
outs=qv.run_impl(binp,'x',[case],subcmd='sim')
full=outs[0]
proj=cm.project(case,full)
f,e=qv.mon_eval_cases(mod,[case],[proj])
print(f,e)
if f:
    i=f[0][2]
    for r in proj[max(0,i-8):i+2]: print(r[:30])
if len(sys.argv)>4:
    for r in full:
        if r[0] in (3,4,5) and r[2]==int(sys.argv[4]) and r[3]==int(sys.argv[5]): print(r)
