#!/bin/sh
# Independent re-check of every compiled Props file (and everything it depends on) with coqchk;
# prints the axioms / unsafe features the whole development relies on. Takes several minutes.
cd "$(dirname "$0")/../coq" || exit 1
mods=$(ls Props/C*.v | sed 's/\.v$//; s#/#.#; s/^/QV./')
timeout 3000 coqchk -silent -o -Q . QV $mods 2>&1 | tail -20
