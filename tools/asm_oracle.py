"""python mirror of Model/Assembler.v oracle, for diagnosing (dev only)"""
def w(salt, x): return (x*7+3+salt*13+x//256) % 256
def diagnose(case, outs):
    salt = case[0][1] if case and case[0][0] == 7 else 0
    unord=False; ret=[]; total=0; hi=0
    for k,(op,o) in enumerate(zip(case,outs)):
        if op[0]==0:
            hi=max(hi, op[1]+len(op)-3)
        elif op[0]==1:
            ordd = op[2]!=0
            if o==[2]:
                if not (ordd and unord): return k,"spurious illegal"
            elif o==[0]:
                if ordd and unord: return k,"ordered read allowed after unordered"
                unord = unord or not ordd
            else:
                off=o[1]; b=o[2:]; n=len(b)
                if any(x!=w(salt,off+i) for i,x in enumerate(b)): return k,"content"
                if n>max(0,op[1]): return k,"too long"
                if off+n>hi: return k,"beyond inserted"
                if ordd:
                    if unord or off!=total: return k,"ordered gap/order off=%d total=%d"%(off,total)
                else:
                    if any(a<off+n and off<bb for a,bb in ret): return k,"overlap with returned"
                unord = unord or not ordd
                if n>0: ret.append((off,off+n))
                total+=n
        elif op[0]==2:
            ordd=op[1]!=0
            if o[0]!=(1 if ordd and unord else 0): return k,"ensure"
            unord = unord or not ordd
        elif op[0]==3:
            if o[0]!=total: return k,"bytes_read %d vs %d"%(o[0],total)
        elif op[0]==5:
            unord=False;ret=[];total=0;hi=0
    return None
