(* Generic driver for monitors extracted from Coq (ExtrOcamlBasic only; Z kept as the extracted
   inductive). Protocol on stdin, per case:  op lines ... "=" trace record lines ... "#"
   Output per case: "-1" if the monitor accepts, else the index of the first rejected record. *)
open Mon

let rec pos_of_int (n : int) : positive =
  if n = 1 then XH
  else if n land 1 = 0 then XO (pos_of_int (n lsr 1))
  else XI (pos_of_int (n lsr 1))

let z_small (n : int) : z = if n = 0 then Z0 else if n > 0 then Zpos (pos_of_int n) else Zneg (pos_of_int (-n))

(* decimal string -> Z, for values beyond the native int range *)
let z_of_string (s : string) : z =
  match int_of_string_opt s with
  | Some n when n > min_int -> z_small n
  | _ ->
    let neg = String.length s > 0 && s.[0] = '-' in
    let acc = ref Z0 in
    let ten = z_small 10 in
    String.iter (fun c -> if c >= '0' && c <= '9' then
      acc := Z.add (Z.mul !acc ten) (z_small (Char.code c - 48))) s;
    if neg then Z.opp !acc else !acc

let rec int_of_pos = function XH -> 1 | XO p -> 2 * int_of_pos p | XI p -> 2 * int_of_pos p + 1
let int_of_z = function Z0 -> 0 | Zpos p -> int_of_pos p | Zneg p -> - (int_of_pos p)

let parse_line (l : string) : z list =
  List.filter_map (fun t -> if t = "" then None else Some (z_of_string t)) (String.split_on_char ' ' l)

let () =
  let name = Sys.argv.(1) in
  let mon = Dispatch.find name in
  let ops = ref [] and outs = ref [] and in_outs = ref false in
  (try
    while true do
      let l = String.trim (input_line stdin) in
      if l = "#" then begin
        let r = mon (List.rev !ops) (List.rev !outs) in
        (match r with None -> print_endline "-1" | Some i -> print_endline (string_of_int (int_of_z i)));
        ops := []; outs := []; in_outs := false
      end else if l = "=" then in_outs := true
      else if l <> "" then
        if !in_outs then outs := parse_line l :: !outs else ops := parse_line l :: !ops
    done
  with End_of_file -> ())
