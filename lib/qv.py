"""Core library of the /verif checks (see DESIGN.md §2, §5).

Pipeline of one property check:
  1. build the Rust harness from the repository's *current working tree* with hooks enabled;
  2. regenerate coq/gen/Constants.v from the compiled crate, rebuild the Coq development up to
     Props/<id>.vo (full .vo build), scan for forbidden vernacular, parse Print Assumptions;
  3. for every component of the property: generate op sequences, run them on the real component
     (harness), embed (ops, implementation outputs) in a cases.v and let Coq evaluate the model and
     the property oracle on them with vm_compute;
  4. on any broken proof / correspondence: search for a concrete failing input, shrink, write
     a replay file, print the VIOLATION line; known findings are reported as KNOWN-FINDING;
  5. write evidence/<id>.json.
"""
import fcntl
import hashlib
import json
import os
import re
import shutil
import subprocess
import sys
import time

VERIF = os.path.dirname(os.path.dirname(os.path.abspath(__file__)))
REPO = os.environ.get("QV_REPO", "/repo")
CACHE = os.environ.get("QV_CACHE", os.path.join(VERIF, ".cache"))
COQ = os.path.join(VERIF, "coq")
GUARD = "quinn_rs_quinn_verif"
RUSTFLAGS = f"--cfg {GUARD} --check-cfg cfg({GUARD})"
NPROC = 16

FORBIDDEN = [
    r"\bAdmitted\b", r"\badmit\b", r"\bAxiom\b", r"\bAxioms\b", r"\bParameter\b", r"\bParameters\b",
    r"\bConjecture\b", r"\bAdmit Obligations\b", r"Unset Guard Checking", r"bypass_check",
    r"-type-in-type", r"Unset Positivity Checking", r"Unset Universe Checking",
    r"-impredicative-set", r"\bnative_compute\b",
]
# Axioms of the standard library a theorem may depend on (each is named in the trusted base).
AXIOM_ALLOW = {
    "functional_extensionality_dep", "proof_irrelevance", "JMeq_eq", "classic",
    "Eqdep.Eq_rect_eq.eq_rect_eq", "eq_rect_eq", "propositional_extensionality",
}

TRUSTED_BASE = [
    "Coq 8.16.1 kernel (coqc, full .vo build; vm_compute used for constant side conditions and for evaluating the model on correspondence cases; native_compute not used)",
    "no axioms declared by the development; Print Assumptions of every Props theorem parsed on every run (expected: Closed under the global context)",
    "hand-written Gallina models under coq/Model (definitions only) — tied to the code by the differential correspondence check, which is sampling",
    "cfg-guarded hook interpreters in /repo (quinn-proto/src/**/verif_hooks) and the qvh harness binary",
    "python driver lib/qv.py, generators under comps/, Lib/Corr.v comparison function",
    "trace monitors (coq/Sys/Mon*.v) are run as OCaml extracted with ExtrOcamlBasic only (its Extract Inductive for bool, option, unit, list, prod, sumbool; no Extract Constant; Z kept as the extracted inductive) + hand-written monitor/driver.ml (parsing/printing); ocamlfind ocamlopt 4.13.1",
    "simulator harness/src/sim.rs (virtual time, seeded network, scripted applications) and its read-only probe hook",
]


# ----------------------------------------------------------------------------------------------
# deterministic PRNG (splitmix64): every random choice of a run derives from VERIF_SEED
class Rng:
    def __init__(self, seed):
        self.s = seed & 0xFFFFFFFFFFFFFFFF

    def next(self):
        self.s = (self.s + 0x9E3779B97F4A7C15) & 0xFFFFFFFFFFFFFFFF
        z = self.s
        z = ((z ^ (z >> 30)) * 0xBF58476D1CE4E5B9) & 0xFFFFFFFFFFFFFFFF
        z = ((z ^ (z >> 27)) * 0x94D049BB133111EB) & 0xFFFFFFFFFFFFFFFF
        return z ^ (z >> 31)

    def below(self, n):
        return self.next() % n if n > 0 else 0

    def range(self, lo, hi):
        """inclusive"""
        return lo + self.below(hi - lo + 1)

    def choice(self, xs):
        return xs[self.below(len(xs))]

    def chance(self, num, den):
        return self.below(den) < num

    def bytes(self, n):
        return [self.below(256) for _ in range(n)]

    def fork(self, tag):
        h = hashlib.sha256(f"{self.s}:{tag}".encode()).digest()
        return Rng(int.from_bytes(h[:8], "big"))

    def boundary(self, extra=()):
        """boundary-biased u62 value"""
        bs = [0, 1, 2, 63, 64, 65, 255, 256, 16383, 16384, 16385, 65535, 65536, (1 << 24) - 1,
              1 << 24, (1 << 30) - 1, 1 << 30, (1 << 30) + 1, (1 << 32) - 1, 1 << 32,
              (1 << 62) - 1] + list(extra)
        k = self.below(10)
        if k < 5:
            return self.choice(bs)
        if k < 7:
            return max(0, self.choice(bs) + self.range(-3, 3))
        if k < 9:
            return self.below(1 << self.range(1, 62))
        return self.below(1 << 62)


def seed_from_env():
    try:
        return int(os.environ.get("VERIF_SEED", "1"))
    except ValueError:
        return 1


def tier_from_env(default="quick"):
    t = os.environ.get("VERIF_TIER", default)
    return t if t in ("quick", "thorough") else default


# ----------------------------------------------------------------------------------------------
class Lock:
    def __init__(self, name):
        os.makedirs(CACHE, exist_ok=True)
        self.path = os.path.join(CACHE, name + ".lock")

    def __enter__(self):
        self.f = open(self.path, "w")
        fcntl.flock(self.f, fcntl.LOCK_EX)
        return self

    def __exit__(self, *a):
        fcntl.flock(self.f, fcntl.LOCK_UN)
        self.f.close()


def sh(cmd, cwd=None, env=None, timeout=None, input=None):
    e = dict(os.environ)
    if env:
        e.update(env)
    p = subprocess.run(cmd, cwd=cwd, env=e, timeout=timeout, input=input,
                       stdout=subprocess.PIPE, stderr=subprocess.STDOUT, text=True)
    return p.returncode, p.stdout


# ----------------------------------------------------------------------------------------------
# harness build
def harness_dir():
    return os.path.join(VERIF, "harness")


def target_dir():
    # one target dir per repository path, so that scratch worktrees do not thrash /repo's cache
    tag = "main" if REPO == "/repo" else hashlib.sha1(REPO.encode()).hexdigest()[:8]
    return os.path.join(CACHE, "target-" + tag)


def build_harness(release=False):
    """cargo-build qvh against REPO's working tree; returns (ok, binary path, log).
    The manifest is generated per repository path under .cache/ (concurrent runs against
    different worktrees must not share a mutable Cargo.toml); sources stay in harness/src."""
    hd = harness_dir()
    tag = "main" if REPO == "/repo" else hashlib.sha1(REPO.encode()).hexdigest()[:8]
    md = os.path.join(CACHE, "harness-" + tag)
    with Lock("cargo-" + tag):
        os.makedirs(os.path.join(md, ".cargo"), exist_ok=True)
        tmpl = open(os.path.join(hd, "Cargo.toml.in")).read().replace("@REPO@", REPO)
        tmpl += '\n[[bin]]\nname = "qvh"\npath = "%s"\n' % os.path.join(hd, "src", "main.rs")
        ct = os.path.join(md, "Cargo.toml")
        if not os.path.exists(ct) or open(ct).read() != tmpl:
            open(ct, "w").write(tmpl)
        cfgp = os.path.join(md, ".cargo", "config.toml")
        if not os.path.exists(cfgp):
            open(cfgp, "w").write("[net]\noffline = true\n")
        # Cargo.lock: start from the repository's lock file so that the same crate versions are used
        cl = os.path.join(md, "Cargo.lock")
        if not os.path.exists(cl):
            shutil.copy(os.path.join(REPO, "Cargo.lock"), cl)
        env = {"CARGO_TARGET_DIR": target_dir(), "RUSTFLAGS": RUSTFLAGS,
               "CARGO_NET_OFFLINE": "true"}
        cmd = ["cargo", "build", "--offline", "--quiet"] + (["--release"] if release else [])
        rc, out = sh(cmd, cwd=md, env=env, timeout=1800)
        if rc != 0 and "lock file" in out:
            shutil.copy(os.path.join(REPO, "Cargo.lock"), cl)
            rc, out = sh(cmd, cwd=md, env=env, timeout=1800)
    binp = os.path.join(target_dir(), "release" if release else "debug", "qvh")
    return rc == 0, binp, out


# ----------------------------------------------------------------------------------------------
# running cases on the implementation
PANIC_OUT = [[-999]]


def fmt_cases(cases):
    lines = []
    for ops in cases:
        for op in ops:
            lines.append(" ".join(str(x) for x in op))
        lines.append("#")
    return "\n".join(lines) + "\n"


def parse_outs(text):
    res, cur, panic = [], [], None
    for line in text.splitlines():
        if line == "#":
            res.append(PANIC_OUT if panic is not None else cur)
            cur, panic = [], None
        elif line.startswith("PANIC"):
            panic = line
        elif line.startswith("UNKNOWN-COMPONENT"):
            raise RuntimeError(line)
        else:
            cur.append([int(x) for x in line.split()])
    return res


def run_impl(binp, comp, cases, subcmd="comp", timeout=900):
    """Run cases on the real component; returns list of outs (one per case)."""
    if not cases:
        return []
    # simulator runs are heavy (one trace each): one process per core; cheap component cases are batched
    n = min(NPROC, max(1, len(cases) // (1 if subcmd in ("sim", "async") else 8)))
    chunks = [cases[i::n] for i in range(n)]
    procs = []
    for ch in chunks:
        p = subprocess.Popen([binp, subcmd, comp], stdin=subprocess.PIPE, stdout=subprocess.PIPE,
                             stderr=subprocess.PIPE, text=True)
        procs.append((p, ch))
    import threading
    results = [None] * n

    def work(i, p, ch):
        try:
            out, err = p.communicate(fmt_cases(ch), timeout=timeout)
        except subprocess.TimeoutExpired:
            p.kill()
            out, err = p.communicate()
            results[i] = ("timeout", out, err)
            return
        results[i] = (p.returncode, out, err)

    ths = [threading.Thread(target=work, args=(i, p, ch)) for i, (p, ch) in enumerate(procs)]
    for t in ths:
        t.start()
    for t in ths:
        t.join()
    outs = [None] * len(cases)
    for i, (rc, out, err) in enumerate(results):
        parsed = parse_outs(out)
        ch = chunks[i]
        if rc != 0 or len(parsed) != len(ch):
            # the process died (abort/stack overflow/hang): the first unanswered case is the culprit
            while len(parsed) < len(ch):
                parsed.append([[-998]] if rc == "timeout" and len(parsed) == len(parse_outs(out)) else [[-997]])
        for j, o in enumerate(parsed):
            outs[i + j * n] = o
    return outs


# ----------------------------------------------------------------------------------------------
# Coq side
def coq_term_int(x):
    return str(x) if x >= 0 else f"({x})"


def coq_list(xs, f):
    return "[" + "; ".join(f(x) for x in xs) + "]"


def coq_ll(ll):
    return coq_list(ll, lambda l: coq_list(l, coq_term_int))


def coq_project():
    """(Re)generate _CoqProject and Makefile when the set of .v files changed."""
    files = []
    for d in ("Lib", "gen", "Model", "Sys", "Proofs", "Props"):
        for root, _, fs in os.walk(os.path.join(COQ, d)):
            for f in sorted(fs):
                if f.endswith(".v"):
                    files.append(os.path.relpath(os.path.join(root, f), COQ))
    files.sort()
    txt = "-Q . QV\n-arg -w -arg -notation-overridden,-deprecated-hint-without-locality,-deprecated-syntactic-definition,-deprecated-instance-without-locality\n" + "\n".join(files) + "\n"
    cp = os.path.join(COQ, "_CoqProject")
    mk = os.path.join(COQ, "Makefile")
    if not os.path.exists(cp) or open(cp).read() != txt or not os.path.exists(mk):
        open(cp, "w").write(txt)
        rc, out = sh(["coq_makefile", "-f", "_CoqProject", "-o", "Makefile"], cwd=COQ)
        if rc != 0:
            raise RuntimeError("coq_makefile failed: " + out)


def coq_make(targets, timeout=3000):
    with Lock("coq"):
        coq_project()
        rc, out = sh(["timeout", str(timeout), "make", "-j%d" % NPROC] + targets, cwd=COQ)
    return rc == 0, out


def scan_forbidden():
    hits = []
    for root, _, fs in os.walk(COQ):
        for f in fs:
            if not f.endswith(".v"):
                continue
            p = os.path.join(root, f)
            txt = open(p).read()
            # strip comments (non-nested is enough for our sources; nested handled by loop)
            prev = None
            while prev != txt:
                prev = txt
                txt = re.sub(r"\(\*(?:(?!\(\*|\*\)).)*?\*\)", " ", txt, flags=re.S)
            for pat in FORBIDDEN:
                for m in re.finditer(pat, txt):
                    hits.append(f"{os.path.relpath(p, VERIF)}: {m.group(0)}")
    return hits


def props_build(pid):
    """Build Props/<pid>.vo from scratch (its own file always recompiled so that Print Assumptions
    output is captured). Returns dict(ok, log, theorems, closed, axioms, bad_axioms)."""
    vfile = os.path.join(COQ, "Props", pid + ".v")
    res = {"ok": False, "log": "", "theorems": [], "closed": 0, "axioms": [], "bad_axioms": []}
    if not os.path.exists(vfile):
        res["log"] = "missing " + vfile
        return res
    for ext in (".vo", ".glob", ".vos", ".vok"):
        try:
            os.remove(vfile[:-2] + ext)
        except OSError:
            pass
    ok, out = coq_make([f"Props/{pid}.vo"])
    res["log"] = out
    src = open(vfile).read()
    res["theorems"] = re.findall(r"^\s*(?:Theorem|Corollary)\s+(\w+)", src, flags=re.M)
    n_print = len(re.findall(r"^\s*Print Assumptions\s+(\w+)", src, flags=re.M))
    res["closed"] = out.count("Closed under the global context")
    axioms = []
    for blk in re.findall(r"Axioms:\n((?:.+\n?)+?)(?=\n\S|\Z|COQC|make)", out):
        for m in re.finditer(r"^(\S+)\s*:", blk, flags=re.M):
            axioms.append(m.group(1))
    res["axioms"] = sorted(set(axioms))
    res["bad_axioms"] = [a for a in res["axioms"] if a.split(".")[-1] not in AXIOM_ALLOW and a not in AXIOM_ALLOW]
    res["n_print"] = n_print
    res["ok"] = ok and not res["bad_axioms"] and n_print >= len(res["theorems"]) \
        and (res["closed"] + (1 if res["axioms"] else 0) >= 1 or n_print == 0)
    return res


def coq_eval_cases(module, cases, outs, workdir, shard=250, run_name="run", oracle_name="oracle",
                   timeout=1200, trace=False):
    """Evaluate `failures <module>.run <module>.oracle` over (case, impl outs) pairs.
    Returns (failures: list of (index, code), errors: list of str)."""
    os.makedirs(workdir, exist_ok=True)
    short = module.split(".")[-1]
    idxs = list(range(len(cases)))
    shards = [idxs[i:i + shard] for i in range(0, len(idxs), shard)]
    files = []
    for k, sh_idx in enumerate(shards):
        name = f"cases_{short}_{k}"
        path = os.path.join(workdir, name + ".v")
        with open(path, "w") as f:
            f.write(f"Require Import QV.Lib.Corr {module}.\n")
            f.write("From Coq Require Import ZArith List.\nImport ListNotations.\nOpen Scope Z_scope.\n")
            f.write("Set Printing Width 1000000.\nSet Printing Depth 1000000.\n")
            f.write("Definition cases : list (ops * outs) := [\n")
            f.write(";\n".join(f"({coq_ll(cases[i])}, {coq_ll(outs[i])})" for i in sh_idx))
            f.write("\n].\n")
            if trace:
                f.write("Require Import QV.Sys.Trace.\n")
                f.write(f"Eval vm_compute in (trace_failures {short}.{run_name} cases).\n")
            else:
                f.write(f"Eval vm_compute in (failures {short}.{run_name} {short}.{oracle_name} cases).\n")
        files.append((path, sh_idx))
    failures, errors = [], []
    running = []

    def reap(block):
        nonlocal running
        still = []
        for (p, path, sh_idx, t0) in running:
            if block or p.poll() is not None:
                try:
                    out, _ = p.communicate(timeout=timeout)
                except subprocess.TimeoutExpired:
                    p.kill()
                    out, _ = p.communicate()
                    errors.append(f"coqc timeout on {path}")
                    continue
                if p.returncode != 0:
                    errors.append(f"coqc failed on {path}: {out[-2000:]}")
                    continue
                m = re.search(r"=\s*(\[.*?\])\s*:\s*list \(Z \* Z\)", out, flags=re.S)
                if not m:
                    errors.append(f"unparsable coqc output on {path}: {out[-500:]}")
                    continue
                for a, b in re.findall(r"\((\d+),\s*(\d+)\)", m.group(1)):
                    failures.append((sh_idx[int(a)], 2 if trace else int(b), int(b)))
            else:
                still.append((p, path, sh_idx, t0))
        running = still

    for (path, sh_idx) in files:
        while len(running) >= NPROC:
            reap(False)
            time.sleep(0.02)
        p = subprocess.Popen(["coqc", "-noglob", "-Q", COQ, "QV", path], cwd=workdir,
                             stdout=subprocess.PIPE, stderr=subprocess.STDOUT, text=True)
        running.append((p, path, sh_idx, time.time()))
    reap(True)
    failures.sort()
    return failures, errors


def build_mondriver():
    """(Re)build the OCaml driver extracted from coq/Sys/Mon*.v when any source is newer."""
    md = os.path.join(VERIF, "monitor")
    drv = os.path.join(md, "mondriver")
    with Lock("mon"):
        srcs = [os.path.join(COQ, "Sys", f) for f in os.listdir(os.path.join(COQ, "Sys")) if f.endswith(".v")]
        srcs += [os.path.join(md, "driver.ml"), os.path.join(md, "build.sh"), os.path.join(COQ, "Lib", "Corr.v")]
        newest = max(os.path.getmtime(x) for x in srcs)
        if os.path.exists(drv) and os.path.getmtime(drv) >= newest:
            return True, drv, ""
        mods = sorted("Sys/" + f[:-2] + ".vo" for f in os.listdir(os.path.join(COQ, "Sys")) if f.endswith(".v"))
    ok, out = coq_make(mods)
    if not ok:
        return False, drv, out
    with Lock("mon"):
        rc, out = sh(["sh", os.path.join(md, "build.sh")], timeout=900)
    return rc == 0, drv, out


def mon_eval_cases(module, cases, outs, timeout=1200):
    """Evaluate the extracted monitor `<module>.monitor` on (scenario, trace) pairs.
    Returns (failures [(case index, 2, record index)], errors)."""
    ok, drv, blog = build_mondriver()
    if not ok:
        return [], ["monitor driver build failed: " + blog[-1500:]]
    short = module.split(".")[-1]
    n = min(NPROC, max(1, len(cases)))
    idxs = list(range(len(cases)))
    chunks = [idxs[i::n] for i in range(n)]
    procs = []
    for ch in chunks:
        if not ch:
            continue
        buf = []
        for i in ch:
            for op in cases[i]:
                buf.append(" ".join(str(x) for x in op))
            buf.append("=")
            for r in outs[i]:
                buf.append(" ".join(str(x) for x in r))
            buf.append("#")
        p = subprocess.Popen([drv, short], stdin=subprocess.PIPE, stdout=subprocess.PIPE,
                             stderr=subprocess.PIPE, text=True)
        procs.append((p, ch, "\n".join(buf) + "\n"))
    import threading
    results = {}

    def work(p, ch, data):
        try:
            out, err = p.communicate(data, timeout=timeout)
            results[id(p)] = (p.returncode, out, err)
        except subprocess.TimeoutExpired:
            p.kill()
            results[id(p)] = ("timeout", "", "")

    ths = [threading.Thread(target=work, args=a) for a in procs]
    for t in ths:
        t.start()
    for t in ths:
        t.join()
    failures, errors = [], []
    for (p, ch, _) in procs:
        rc, out, err = results[id(p)]
        lines = out.split()
        if rc != 0 or len(lines) != len(ch):
            errors.append(f"monitor driver {short}: rc={rc} answered {len(lines)}/{len(ch)} {err[-300:]}")
            continue
        for i, l in zip(ch, lines):
            if int(l) >= 0:
                failures.append((i, 2, int(l)))
    failures.sort()
    return failures, errors


def coq_model_output(module, case, workdir, run_name="run"):
    """The model's own outputs for one case (for the replay file)."""
    short = module.split(".")[-1]
    path = os.path.join(workdir, f"show_{short}.v")
    with open(path, "w") as f:
        f.write(f"Require Import QV.Lib.Corr {module}.\n")
        f.write("From Coq Require Import ZArith List.\nImport ListNotations.\nOpen Scope Z_scope.\n")
        f.write("Set Printing Width 1000000.\nSet Printing Depth 1000000.\n")
        f.write(f"Eval vm_compute in ({short}.{run_name} {coq_ll(case)}).\n")
    rc, out = sh(["coqc", "-noglob", "-Q", COQ, "QV", path], cwd=workdir, timeout=300)
    m = re.search(r"=\s*(\[.*\])\s*:\s*outs", out, flags=re.S)
    if rc != 0 or not m:
        return None
    txt = m.group(1)
    res = []
    for inner in re.findall(r"\[([^\[\]]*)\]", txt):
        res.append([int(x) for x in re.findall(r"-?\d+", inner)])
    return res


# ----------------------------------------------------------------------------------------------
# known findings
def load_known(pid):
    known = {}
    p = os.path.join(VERIF, "known_findings.txt")
    if os.path.exists(p):
        for line in open(p):
            m = re.match(r"known:\s+property=(\S+)\s+key=(\S+)\s+(.*)", line.strip())
            if m and m.group(1) == pid:
                known[m.group(2)] = m.group(3)
    return known


# ----------------------------------------------------------------------------------------------
def write_json(path, obj):
    os.makedirs(os.path.dirname(path), exist_ok=True)
    tmp = path + ".tmp"
    with open(tmp, "w") as f:
        json.dump(obj, f, indent=1, sort_keys=True)
        f.write("\n")
    os.replace(tmp, path)
