"""Regenerate coq/gen/Constants.v from the compiled crate (DESIGN §2.1)."""
import os
from . import qv


def regenerate(binp):
    rc, out = qv.sh([binp, "constants"], timeout=60)
    if rc != 0:
        return {"ok": False, "error": out[-500:]}
    lines = ["(** GENERATED on every run from the compiled crate by `qvh constants`",
             "    (hooks: quinn-proto/src/verif_hooks/constants.rs). Do not edit. *)",
             "From Coq Require Import ZArith.", "Open Scope Z_scope.", ""]
    vals = {}
    for l in out.splitlines():
        parts = l.split()
        if len(parts) != 2:
            continue
        k, v = parts[0], int(parts[1])
        vals[k] = v
        lines.append(f"Definition {k} : Z := {v if v >= 0 else '(%d)' % v}.")
    txt = "\n".join(lines) + "\n"
    p = os.path.join(qv.COQ, "gen", "Constants.v")
    os.makedirs(os.path.dirname(p), exist_ok=True)
    with qv.Lock("coq"):
        if not os.path.exists(p) or open(p).read() != txt:
            open(p, "w").write(txt)
    return {"ok": True, "values": vals}
