"""Property check runner: proof obligations + correspondence + failing-input search + evidence."""
import importlib
import json
import os
import re
import sys
import time

from . import qv


def log(*a):
    print(*a, flush=True)


def load_comp(name):
    return importlib.import_module("comps." + name)


def corpus_cases(comp):
    d = os.path.join(qv.VERIF, "corpus", comp)
    cases = []
    if os.path.isdir(d):
        for f in sorted(os.listdir(d)):
            if f.endswith(".json"):
                try:
                    cases.append(json.load(open(os.path.join(d, f)))["case"])
                except Exception:
                    pass
    return cases


def shrink(binp, cm, comp, module, case, want_code, workdir, budget=24):
    """Delta-debug the op list keeping `code >= want_code`."""
    def test(c):
        if not c:
            return False
        outs = qv.run_impl(binp, comp, [c], subcmd=getattr(cm, "SUBCMD", "comp"))
        fails, errs = qv.coq_eval_cases(module, [c], outs, workdir,
                                        run_name=getattr(cm, "RUN", "run"),
                                        oracle_name=getattr(cm, "ORACLE", "oracle"))
        return any(f[1] >= want_code for f in fails)

    cur = list(case)
    n = 2
    steps = 0
    while len(cur) >= 2 and steps < budget:
        chunk = max(1, len(cur) // n)
        reduced = False
        for i in range(0, len(cur), chunk):
            cand = cur[:i] + cur[i + chunk:]
            steps += 1
            if steps > budget:
                break
            if test(cand):
                cur = cand
                n = max(n - 1, 2)
                reduced = True
                break
        if not reduced:
            if chunk == 1:
                break
            n = min(len(cur), n * 2)
    return cur


class Result:
    def __init__(self, pid):
        self.pid = pid
        self.violations = []   # (replay path, suffix)
        self.known = []
        self.coverage = {"evaluations": 0, "distinct_nontrivial": 0, "samples": [],
                         "components": {}, "traces_validated_against_impl": 0}
        self.notes = []


def write_replay(pid, name, obj):
    d = os.environ.get("QV_REPLAY_DIR", os.path.join(qv.VERIF, "replays"))
    os.makedirs(d, exist_ok=True)
    p = os.path.join(d, f"{pid}-{name}.json")
    qv.write_json(p, obj)
    return p


def check_component(res, binp, entry, tier, seed, workdir, proof_broken=None):
    """Run the correspondence for one component. Returns True if clean."""
    pid = res.pid
    comp = entry["comp"]
    cm = load_comp(entry.get("pymod", comp))
    module = entry["module"]
    n = entry[tier] if tier in entry else entry["quick"]
    rng = qv.Rng(seed).fork(comp)
    subcmd = getattr(cm, "SUBCMD", "comp")
    run_name = getattr(cm, "RUN", "run")
    oracle_name = getattr(cm, "ORACLE", "oracle")
    shard = getattr(cm, "SHARD", 250)
    known = qv.load_known(pid)
    clean = True

    is_trace = getattr(cm, "IS_TRACE", False)

    def evaluate(cases):
        outs = qv.run_impl(binp, comp, cases, subcmd=subcmd, timeout=getattr(cm, "TIMEOUT", 900))
        if is_trace:
            outs = [cm.project(c, o) for c, o in zip(cases, outs)]
            fails, errs = qv.mon_eval_cases(module, cases, outs)
            return outs, fails, errs
        fails, errs = qv.coq_eval_cases(module, cases, outs, workdir, shard=shard,
                                        run_name=run_name, oracle_name=oracle_name)
        return outs, fails, errs

    t0 = time.time()
    cases = corpus_cases(comp)
    n_corpus = len(cases)
    cases += cm.gen(rng, n)
    outs, fails, errs = evaluate(cases)
    # coverage
    seen = set()
    nontriv = 0
    for c, o in zip(cases, outs):
        key = json.dumps(c)
        if key in seen:
            continue
        seen.add(key)
        if cm.nontrivial(c, o):
            nontriv += 1
    cov = {"evaluations": len(cases), "distinct_nontrivial": nontriv, "corpus": n_corpus,
           "rule": getattr(cm, "RULE", ""), "model": module, "wall_s": round(time.time() - t0, 1),
           "panics": sum(1 for o in outs if o == qv.PANIC_OUT)}
    if hasattr(cm, "stats"):
        cov["distribution"] = cm.stats(cases, outs)
    res.coverage["components"][comp] = cov
    res.coverage["evaluations"] += len(cases)
    res.coverage["distinct_nontrivial"] += nontriv
    if getattr(cm, "IS_TRACE", False):
        res.coverage["traces_validated_against_impl"] += len(cases)
    for c, o in list(zip(cases, outs))[:2]:
        res.coverage["samples"].append({"component": comp, "ops": c[:12], "impl_outputs": o[:12] + ([["...", len(o), "records"]] if len(o) > 12 else [])})

    if errs:
        clean = False
        p = write_replay(pid, f"{comp}-coqerror", {
            "property": pid, "component": comp, "kind": "correspondence-evaluation-error",
            "what": "the model could not be evaluated on the implementation's outputs",
            "errors": errs[:3]})
        res.violations.append((p, " no-failing-input-found"))
        return False

    if not fails:
        return True

    # ---- something disagrees: search for a concrete failing input
    code2 = [f[0] for f in fails if f[1] == 2]
    code1 = [f[0] for f in fails if f[1] == 1]
    where = {f[0]: f[2] for f in fails}
    log(f"[{pid}] {comp}: {len(code1)} model/implementation disagreements, "
        f"{len(code2)} cases where the property oracle fails on the implementation")
    classify = getattr(cm, "classify", None)
    unknown2, unknown1 = [], []
    known_param = getattr(cm, "KNOWN_PARAM", {})
    for i in code2 + code1:
        key = classify(cases[i], outs[i]) if (classify and i in code2) else None
        still_bad = False
        if key is not None and key in known and is_trace and key in known_param:
            # re-validate the rest of the trace with exactly this known class exempted
            c2 = [cases[i][0] + known_param[key]]
            f2, e2 = qv.mon_eval_cases(module, [c2], [outs[i]])
            still_bad = bool(f2 or e2)
            if still_bad:
                where[i] = f2[0][2] if f2 else -1
        if key is not None and key in known and not still_bad:
            if key not in [k for k, _ in res.known]:
                res.known.append((key, known[key]))
        elif i in code2:
            unknown2.append(i)
        else:
            unknown1.append(i)
    if not unknown2 and not unknown1:
        return True
    clean = False
    if not unknown2:
        # extra batches looking for an oracle failure
        for extra in range(2):
            more = cm.gen(rng.fork(f"search{extra}"), n)
            o2, f2, e2 = evaluate(more)
            hit = [f[0] for f in f2 if f[1] == 2 and
                   not (classify and classify(more[f[0]], o2[f[0]]) in known)]
            if hit:
                base = len(cases)
                cases += more
                outs += o2
                unknown2 = [base + i for i in hit]
                break
    if unknown2 and is_trace:
        i = unknown2[0]
        rec = where.get(i, -1)
        tr = outs[i]
        p = write_replay(pid, f"{comp}-{seed}", {
            "property": pid, "component": comp, "kind": "trace-rejected-by-monitor",
            "what": f"the trace of the real endpoints is not a run the system model {module}.{run_name} allows",
            "seed": seed, "case": cases[i], "violating_record_index": rec,
            "violating_record": tr[rec] if 0 <= rec < len(tr) else None,
            "context": tr[max(0, rec - 6):rec + 2] if rec >= 0 else [],
            "scenario": getattr(cm, "describe", lambda c: {})(cases[i]),
            "how_to_replay": f"./check {pid} --replay <this file>"})
        res.violations.append((p, ""))
    elif unknown2:
        i = unknown2[0]
        small = shrink(binp, cm, comp, module, cases[i], 2, workdir)
        so = qv.run_impl(binp, comp, [small], subcmd=subcmd)[0]
        mo = qv.coq_model_output(module, small, workdir, run_name=run_name)
        p = write_replay(pid, f"{comp}-{seed}", {
            "property": pid, "component": comp, "kind": "property-oracle-fails-on-implementation",
            "seed": seed, "case": small, "impl_outputs": so, "model_outputs": mo,
            "original_case_len": len(cases[i]),
            "how_to_replay": f"./check {pid} --replay <this file>"})
        res.violations.append((p, ""))
    else:
        i = unknown1[0]
        small = shrink(binp, cm, comp, module, cases[i], 1, workdir)
        so = qv.run_impl(binp, comp, [small], subcmd=subcmd)[0]
        mo = qv.coq_model_output(module, small, workdir, run_name=run_name)
        p = write_replay(pid, f"{comp}-{seed}", {
            "property": pid, "component": comp, "kind": "correspondence-broken",
            "what": f"model {module}.{run_name} and the implementation disagree; the property oracle "
                    f"holds on every implementation output explored, so no failing input was found; "
                    f"the theorems in Props/{pid}.v are no longer tied to this code",
            "seed": seed, "case": small, "impl_outputs": so, "model_outputs": mo,
            "disagreements": len(unknown1),
            "how_to_replay": f"./check {pid} --replay <this file>"})
        res.violations.append((p, " no-failing-input-found"))
    return clean


def run_property(spec, tier=None, seed=None):
    pid = spec["id"]
    tier = tier or qv.tier_from_env()
    seed = seed if seed is not None else qv.seed_from_env()
    t0 = time.time()
    res = Result(pid)
    workdir = os.path.join(qv.CACHE, "run", f"{pid}-{os.getpid()}")
    os.makedirs(workdir, exist_ok=True)
    evidence_path = os.path.join(os.environ.get("QV_EVIDENCE_DIR", os.path.join(qv.VERIF, "evidence")), pid + ".json")

    # 1. harness
    ok, binp, blog = qv.build_harness()
    if not ok:
        p = write_replay(pid, "build", {"property": pid, "kind": "harness-build-failed",
                                        "what": "the repository no longer builds with the verification hooks; the tie cannot be checked",
                                        "log": blog[-4000:]})
        res.violations.append((p, " no-failing-input-found"))
        return finish(spec, res, tier, seed, t0, None, evidence_path, workdir)

    # 2. constants + proofs
    from . import constants
    cres = constants.regenerate(binp)
    hits = qv.scan_forbidden()
    pb = qv.props_build(pid)
    proof_ok = pb["ok"] and not hits and cres.get("ok", True)
    if hits:
        res.notes.append("forbidden vernacular: " + "; ".join(hits[:5]))
    if not proof_ok:
        failing = re.findall(r'File "\./([^"]+)", line (\d+)', pb["log"])
        log(f"[{pid}] proof obligations no longer check: {failing[:3]} {hits[:3]}")

    # 3. correspondence (models are compiled independently of the proofs)
    mods = sorted({e["module"].replace("QV.", "").replace(".", "/") + ".vo" for e in spec.get("components", [])})
    if mods:
        okm, mlog = qv.coq_make(mods + ["Lib/Corr.vo"])
        if not okm:
            res.notes.append("model build failed: " + mlog[-1500:])
    for entry in spec.get("components", []):
        try:
            check_component(res, binp, entry, tier, seed, workdir)
        except Exception as e:  # harness crash etc.
            p = write_replay(pid, entry["comp"] + "-error", {
                "property": pid, "component": entry["comp"], "kind": "harness-error", "error": repr(e)})
            res.violations.append((p, " no-failing-input-found"))

    # extra python-level steps (static inventories etc.)
    for extra in spec.get("extra", []):
        try:
            extra(res, binp, tier, seed, workdir)
        except Exception as e:
            p = write_replay(pid, "extra-error", {"property": pid, "kind": "extra-step-error", "error": repr(e)})
            res.violations.append((p, " no-failing-input-found"))

    if not proof_ok:
        has_input = any(sfx == "" for _, sfx in res.violations)
        if not has_input:
            failing = re.findall(r'File "\./([^"]+)", line (\d+)', pb["log"])
            p = write_replay(pid, "proof", {
                "property": pid, "kind": "proof-obligation-broken",
                "what": "a theorem or constant side condition of Props/%s.v no longer checks" % pid,
                "failing_files": failing[:5], "forbidden": hits[:5], "bad_axioms": pb["bad_axioms"],
                "constants": cres, "log_tail": pb["log"][-3000:]})
            res.violations.append((p, " no-failing-input-found"))
    return finish(spec, res, tier, seed, t0, pb, evidence_path, workdir)


def finish(spec, res, tier, seed, t0, pb, evidence_path, workdir):
    pid = res.pid
    cov = res.coverage
    if pb is not None:
        cov["obligations"] = len(pb["theorems"])
        cov["discharged"] = len(pb["theorems"]) if pb["ok"] else 0
        cov["theorems"] = pb["theorems"]
        cov["axioms_reported"] = pb["axioms"]
    else:
        cov["obligations"] = 0
        cov["discharged"] = 0
    cov["checker_cmd"] = f"cd /verif/coq && make -j16 Props/{pid}.vo  (coqc 8.16.1, full .vo build; Print Assumptions parsed)"
    cov["trusted_base"] = qv.TRUSTED_BASE + spec.get("trusted_extra", [])
    cov["rule"] = spec.get("rule", "per component, see components.*.rule")
    if not cov["samples"]:
        cov["samples"] = [{"theorems": cov.get("theorems", [])}]
    cov["notes"] = res.notes
    ev = {"property_id": pid, "tier": tier, "seed": seed, "level": "proof", "coverage": cov,
          "assumptions": spec.get("assumptions", []), "wall_s": round(time.time() - t0, 1),
          "violations": len(res.violations)}
    qv.write_json(evidence_path, ev)
    for key, text in res.known:
        log(f"KNOWN-FINDING: property={pid} key={key} {text}")
    for p, sfx in res.violations:
        log(f"VIOLATION property={pid} replay={p}{sfx}")
    try:
        import shutil
        shutil.rmtree(workdir, ignore_errors=True)
    except Exception:
        pass
    log(f"[{pid}] tier={tier} seed={seed} evaluations={cov['evaluations']} nontrivial={cov['distinct_nontrivial']} "
        f"theorems={cov['obligations']}/{cov['discharged']} violations={len(res.violations)} wall={ev['wall_s']}s")
    return 1 if res.violations else 0


def replay(spec, path):
    obj = json.load(open(path))
    pid = spec["id"]
    if "case" not in obj:
        log(f"[{pid}] replay file names a broken obligation, not an input: {obj.get('kind')}: {obj.get('what')}")
        # re-run the whole check
        return run_property(spec)
    ok, binp, blog = qv.build_harness()
    if not ok:
        log(blog[-2000:])
        return 1
    comp = obj["component"]
    entry = [e for e in spec["components"] if e["comp"] == comp][0]
    cm = load_comp(entry.get("pymod", comp))
    workdir = os.path.join(qv.CACHE, "run", f"{pid}-replay-{os.getpid()}")
    qv.coq_make([f"Props/{pid}.vo"])
    outs = qv.run_impl(binp, comp, [obj["case"]], subcmd=getattr(cm, "SUBCMD", "comp"))
    is_trace = getattr(cm, "IS_TRACE", False)
    if is_trace:
        outs = [cm.project(obj["case"], outs[0])]
        fails, errs = qv.mon_eval_cases(entry["module"], [obj["case"]], outs)
    else:
        fails, errs = qv.coq_eval_cases(entry["module"], [obj["case"]], outs, workdir,
                                        run_name=getattr(cm, "RUN", "run"),
                                        oracle_name=getattr(cm, "ORACLE", "oracle"))
    mo = None if is_trace else qv.coq_model_output(entry["module"], obj["case"], workdir, run_name=getattr(cm, "RUN", "run"))
    log(json.dumps({"case": obj["case"], "impl_outputs": outs[0][:40], "model_outputs": mo, "codes": fails, "errors": errs}))
    # a failure of a listed known class is reported as such (same rule as in the checks: the rest of
    # the trace is re-validated with the class exempted)
    if fails and not errs and all(f[1] == 2 for f in fails) and hasattr(cm, "classify"):
        key = cm.classify(obj["case"], outs[0])
        known = qv.load_known(pid) if key else {}
        if key in known:
            kp = getattr(cm, "KNOWN_PARAM", {}).get(key)
            still = fails
            if kp and is_trace:
                c2 = [list(obj["case"][0]) + list(kp)]
                still, errs = qv.mon_eval_cases(entry["module"], [c2], outs)
            elif not is_trace:
                still = []
            if not still and not errs:
                log(f"KNOWN-FINDING: property={pid} key={key} {known[key]}")
                log(f"[{pid}] replay shows only the listed known finding")
                return 0
    if fails or errs:
        log(f"VIOLATION property={pid} replay={path}" + ("" if any(f[1] == 2 for f in fails) else " no-failing-input-found"))
        return 1
    log(f"[{pid}] replay passes")
    return 0
