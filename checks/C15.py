SPEC = {
    "id": "C15",
    "components": [
        {"comp": "sim_c15", "module": "QV.Sys.MonC15", "quick": 480, "thorough": 4000},
    ],
    "assumptions": [
        "the model covers a connection in state Established whose datagrams are single short-header packets; a coalesced datagram is covered only by the simulator-level byte ledger",
        "authentication (AEAD), the duplicate filter's answer for numbers older than its window, the random path-challenge tokens and the PTO values are environment inputs of the model, universally quantified in every theorem; token unguessability is not modelled",
        "the liveness clause (the server follows a client that keeps sending from its new address, and the transfer completes) is observed on sampled schedules by the trace monitor, not proved",
    ],
}

MANIFEST = {
    "text": ("partial. Proved in Coq on the path state machine Model/PathSM.v (handle_event address gate, duplicate/authentication "
             "drop, PATH_CHALLENGE/PATH_RESPONSE processing, the migration trigger, migrate, the PathValidation timeout, "
             "send_path_challenge and the off-path PATH_RESPONSE), for all operation sequences and all environment choices: "
             "non_migrating_ignores_strangers (state' = state) and non_migrating_never_moves; migrate_requires_fresh_authentic "
             "(authentic, not a duplicate, non-probing, number above every accepted one) with replayed_packet_never_migrates; "
             "migration_starts_limited (validated = false always, there is no port-only exemption; counters restart; timer = "
             "now + 3 * max(PTO after, PTO before); prev_path = the path validated last), new_path_amplification_bound (C07's "
             "theorem imported for the new path's counters), validation_only_by (matching token FROM the path's address) and "
             "response_elsewhere_changes_nothing; unvalidated_path_is_on_the_clock (invariant over overlapping/repeated "
             "migrations: timer armed, prev_path is the most recently validated path) and fallback_at_deadline; "
             "validated_path_resumes; transmit_destinations (decides DESIGN F9: the previous-path challenge goes to a validated "
             "address; the padded off-path PATH_RESPONSE is not limited by what its address sent — model-level witness, needs a "
             "peer holding the keys that sends unpadded challenges). Tied to the code by the trace monitor Sys/MonC15.v that "
             "replays the model against the probes of real endpoints in the simulator on every run (client address changes, "
             "spoofed and own-address replays, loss, reordering, silent clients) with an independent byte ledger. NOT proved, only "
             "observed on the sampled schedules: the server follows a client that keeps sending from the new address. Two defects were "
             "found by the monitor and repaired in the code (corpus/sim_c15): handle_coalesced credited coalesced bytes from ANY "
             "address to the unvalidated path's budget (coalesced_credit_refuted / coalesced_credit_fixed), and migrate() left the "
             "previous path's loss-detection timer armed (debug assertion failure in pto_time_and_space)."),
    "note": ("Trusted: Coq kernel + vm_compute; the hand-written model, whose agreement with connection/mod.rs is checked on sampled "
             "traces only (no component-level hook: a Connection needs a crypto session); simulator, probe hook, extraction "
             "(ExtrOcamlBasic) and the OCaml driver; python generator. Packet numbers are not in the trace: the monitor checks "
             "the highest-number condition only through its consequence that a former client address can never be migrated back "
             "to once a later one was reached. No axioms."),
}
