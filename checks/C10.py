SPEC = {
    "id": "C10",
    "components": [
        {"comp": "varint", "module": "QV.Model.Varint", "quick": 1500, "thorough": 40000},
        {"comp": "pn", "module": "QV.Model.PacketNumber", "quick": 1500, "thorough": 40000},
        {"comp": "frames", "module": "QV.Model.Frames", "quick": 1500, "thorough": 30000},
        {"comp": "header", "module": "QV.Model.Header", "quick": 1000, "thorough": 20000},
        {"comp": "tparams", "module": "QV.Model.TParams", "quick": 800, "thorough": 15000},
    ],
    "assumptions": [
        "masks/shifts are modelled arithmetically; the equivalence with the bit-level Rust code is checked by the correspondence on all boundary classes, not proved",
    ],
}

MANIFEST = {
    "text": ("Round-trip and totality of the wire codecs are proved in Coq for all values (unbounded, by proof): "
             "varint encode/decode/size, packet-number truncation and RFC 9000 A.3 expansion for every sender/receiver "
             "state in the window. The models are hand-written and tied to the Rust code on every run by differential "
             "correspondence (same op sequences through the real codec and the model, evaluated by vm_compute)."),
    "note": ("Trusted: Coq kernel + vm_compute; hand-written models (bit operations modelled arithmetically) whose agreement "
             "with the code is sampled, not proved; hook interpreters; python driver. No axioms."),
}
