SPEC = {
    "id": "C10",
    "components": [
        {"comp": "varint", "module": "QV.Model.Varint", "quick": 1500, "thorough": 40000},
        {"comp": "pn", "module": "QV.Model.PacketNumber", "quick": 1500, "thorough": 40000},
        {"comp": "frames", "module": "QV.Model.Frames", "quick": 1500, "thorough": 30000},
        {"comp": "header", "module": "QV.Model.Header", "quick": 1000, "thorough": 20000},
        {"comp": "tparams", "module": "QV.Model.TParams", "quick": 800, "thorough": 15000},
        {"comp": "token", "module": "QV.Model.Token", "quick": 800, "thorough": 15000},
    ],
    "assumptions": [
        "masks/shifts are modelled arithmetically; the equivalence with the bit-level Rust code is checked by the correspondence on all boundary classes, not proved",
        "packet headers are the plaintext headers: header protection is the identity (hook-supplied HeaderKey) and no AEAD is applied",
        "token codec: the AEAD is a Section variable of the theorem with the single hypothesis open n (seal n x) = Some x; the correspondence runs under a transparent toy AEAD supplied by the hook",
        "frames that quinn encodes inline (PING, MAX_*, *_BLOCKED, RETIRE_CONNECTION_ID, PATH_*, HANDSHAKE_DONE, IMMEDIATE_ACK) have no encoder function; the hook writes them with the same write(FrameType::X)/write_var calls",
    ],
}

MANIFEST = {
    "text": ("Round-trip and totality of the wire codecs are proved in Coq for all values (unbounded, by proof): "
             "varint encode/decode/size; packet-number truncation and RFC 9000 A.3 expansion for every sender/receiver state in the window; "
             "every frame type through frame::Iter (frame_roundtrip, STREAM/DATAGRAM with and without length, CLOSE with reason truncation and "
             "the bound |encoding| <= max_len, whole payloads), Ack::encode over a range set vs scan_ack_blocks/AckIter (ack_ranges_roundtrip), "
             "decoder totality on arbitrary bytes with bounds, no u64 overflow, no fuel exhaustion, AckIter safe after scan (ack_iter_safe); "
             "packet headers Initial/Handshake/0-RTT/Retry/Short/VersionNegotiate (header_roundtrip) and the coalescing split at exactly the "
             "encoded Length (coalesced_split_exact); transport parameters read(write p) = p for every valid p in any write order "
             "(tparams_roundtrip) and totality of read; connection IDs in long form; the token payload codec under an abstract AEAD. "
             "The models are hand-written and tied to the Rust code on every run by differential correspondence (same op sequences "
             "through the real codec and the model, evaluated by vm_compute), with an oracle stating the round trip on the implementation's own outputs."),
    "note": ("Trusted: Coq kernel + vm_compute; hand-written models (bit operations modelled arithmetically) whose agreement "
             "with the code is sampled, not proved; hook interpreters; python driver. No axioms. Not modelled: header protection and AEAD bytes, "
             "HashedConnectionIdGenerator, PartialEncode::finish's crypto, frame encoders that live inline in connection/mod.rs and streams/state.rs "
             "(mirrored in the hook). The model of Close::encode follows the repaired code (fix: commit in the repository worktree)."),
}
