SPEC = {
    "id": "C16",
    "components": [
        {"comp": "datagrams", "module": "QV.Model.DatagramState", "quick": 1500, "thorough": 40000},
        {"comp": "sim_c16", "module": "QV.Sys.MonC01", "quick": 60, "thorough": 1500},
    ],
    "assumptions": [
        "debug build semantics (usize underflow is a panic)",
        "the hook runs the real Datagrams::{send,max_size,recv,send_buffer_space} on a real client Connection that is never driven "
        "(no packet built; 1-RTT keys absent so tag_len_1rtt() takes its 16-byte default); peer max_datagram_frame_size and the "
        "path MTU are written into the connection's fields by the hook",
        "component level only: end-to-end delivery (loss/duplication/reordering, Dedup) and the DatagramsUnblocked event are simulator-level",
    ],
}

MANIFEST = {
    "text": ("Component level (DatagramState + Datagrams API arithmetic, modelled verbatim). Proved in Coq for ALL operation "
             "sequences (inductive invariant with a ghost history): payloads returned by recv followed by those still queued "
             "form a subsequence of the accepted received payloads (byte-identical, in order, each at most once), likewise "
             "write w.r.t. accepted sends; byte counters equal the sums of queued lengths, never underflow, the send queue "
             "never exceeds the configured bound and send_buffer_space is exactly the difference; receive overflow and "
             "send(drop=true) evict a prefix (oldest first), no more than necessary, keeping the newest; send's result code is "
             "exactly the admission table; max_size + SIZE_BOUND + overhead <= MTU and max_size <= peer limit - SIZE_BOUND; "
             "write emits exactly the head frame; drop_oversized keeps exactly len < max (boundary asymmetry with admission "
             "len <= max recorded as an observation). The two-peer 'every received datagram was sent by the peer' statement is "
             "simulator-level."),
    "note": ("Trusted: Coq kernel + vm_compute; hand-written model Model/DatagramState.v (+ Model/Varint.v for the frame length) tied "
             "to datagrams.rs by differential correspondence (sampling); hook interpreter incl. its Connection construction; python "
             "driver. No axioms."),
}
