SPEC = {
    "id": "C16",
    "components": [
        {"comp": "datagrams", "module": "QV.Model.DatagramState", "quick": 1500, "thorough": 40000},
    ],
    "assumptions": [
        "debug build semantics (usize underflow is a panic)",
    ],
}

MANIFEST = {
    "text": "component level only (DatagramState inside a real, undriven client Connection); see coq/Props/C16.v",
    "note": "Trusted: Coq kernel + vm_compute; hand-written model Model/DatagramState.v tied to datagrams.rs by differential correspondence (sampling); hook interpreter; python driver. No axioms.",
}
