SPEC = {
    "id": "C09",
    "components": [
        {"comp": "routing", "module": "QV.Model.Routing", "quick": 1200, "thorough": 30000},
        {"comp": "sim_c09", "module": "QV.Sys.MonC04", "quick": 50, "thorough": 1200},
        {"comp": "sim_c09_data", "pymod": "sim_c09", "module": "QV.Sys.MonC01", "quick": 50, "thorough": 1200},
    ],
    "assumptions": [
        "cryptography is replaced by null keys and a session that never progresses (the routing code does not depend on it); "
        "the CID generator is an oracle stream supplied by the operations (so collisions are forced); running dry = the new_cid loop diverges (reported as a panic outcome)",
        "Incoming buffer limits (10 MiB / 100 MiB, max_incoming 65536) are modelled but not reached by the generated histories; Retry is not exercised",
        "zero-length CIDs: when a second connection claims an address tuple that a live connection holds (precondition 'distinct tuples' violated), the last claimant keeps the tuple and the older connection does not regain it when the claimant drains - also when the claimant is a server connection whose first packet is rejected inside accept(); the ledger oracle states exactly this",
        "address, token and byte fields are generated inside the ranges on which the hook's encodings are injective (remote < 16384, local < 256, token < 65536)",
    ],
}

MANIFEST = {
    "text": ("Component level of C09. Proved in Coq for ALL histories of connect / accept / refuse / ignore / NeedIdentifiers / "
             "RetireConnectionId (any order, allow_more) / ResetToken / Drained / datagrams on one endpoint, with slab slot reuse "
             "and CID lengths 0..20: the routing invariant (C09_reachable_inv) and its consequences index_sound, index_complete, "
             "cids_disjoint, no_stale_after_drain, new_handle_fresh, route_unique, route_owner, and isolation as a frame theorem (isolation_partial: a step labelled a leaves b's record and CID routes unchanged and gives b no new entry). The model covers ConnectionIndex "
             "(five maps), ConnectionMeta, the connection slab, new_cid, cids_exhausted and the Endpoint call sequences; it is tied "
             "on every run to a REAL quinn-proto Endpoint (driven through connect/handle/accept/refuse/ignore/handle_event with null "
             "crypto and an oracle CID generator) by exact output equality plus an independent ownership-ledger oracle that predicts "
             "every routing result from the history. Two defects of the code were found and repaired by fix: commits (unconditional "
             "removal of tuple/reset-token entries on drain, DESIGN F10; connect() leaking a routed CID when the crypto session fails); "
             "both are kept as computed counterexamples of the unrepaired model. Not proved: the 'b loses no entry' half of isolation for the initial-DCID / tuple / token maps, "
             "tuple_route completeness under distinct tuples, views_in_step (full statements kept as Definitions)."),
    "note": ("Trusted: Coq kernel + vm_compute; the hand-written model, whose agreement with the code is sampled; the hook (null crypto, "
             "oracle generator, datagram builder); python driver. No axioms. Simulator-level (Layer C) components are added separately."),
}
