SPEC = {
    "id": "C13",
    "components": [
        {"comp": "mtud", "module": "QV.Model.Mtud", "quick": 1500, "thorough": 40000},
        {"comp": "sim_c13", "module": "QV.Sys.MonC13", "quick": 120, "thorough": 1500},
    ],
    "assumptions": [
        "debug build semantics (debug_assert!/overflow checks are panics); release-build wrapping is not modelled",
        "caller contract of Connection assumed by the invariant theorems (and tracked by the oracle on every generated sequence): "
        "on_probe_lost only for the in-flight probe, new/reset with current >= min_mtu, minimum_change >= 3, "
        "initial_mtu <= MAX_UDP_PAYLOAD when no peer limit is known",
        "component level only: datagram sizes of Connection::poll_transmit are covered by the simulator level",
    ],
}

MANIFEST = {
    "text": ("Component level (MtuDiscovery incl. EnabledMtuDiscovery, SearchState, BlackHoleDetector, modelled verbatim, "
             "debug build). Proved in Coq for ALL contract-respecting operation sequences (inductive invariant over reachable "
             "states): a probe returned by poll_transmit is strictly above the current MTU and at most "
             "min(config.upper_bound, peer max_udp_payload_size), only one probe is in flight; the estimate rises only by "
             "acknowledgement of the in-flight probe to exactly its size (step-local, any state); it never falls below "
             "min(min_mtu, lowest peer limit received) and, with discovery enabled, never exceeds the peer limit; a black "
             "hole is declared only with more than BLACK_HOLE_THRESHOLD recorded bursts, each made only of packets larger "
             "than min_mtu. Refuted with vm_compute witnesses: F8 on the code before the fix commit (fallback raised the "
             "estimate above the peer limit), F8b (disabled MtuDiscovery forgets the peer limit; known finding), "
             "minimum_change 0/1/2 (MtuDiscoveryConfig::minimum_change validates nothing: probes not above the current MTU, estimate lowered below min_mtu; known finding mtud-minimum-change-below-3; initial_mtu > upper_bound itself is legal and proved harmless: no probe). NOT proved: search_terminates (log bound; statement kept as "
             "C13_full_search_terminates) and the 'larger than any more recently acknowledged packet' clause of "
             "black_hole_needs_evidence — both only covered by the differential correspondence. The 'keeps delivering' "
             "liveness clause and datagram sizes are simulator-level."),
    "note": ("Trusted: Coq kernel + vm_compute; hand-written model Model/Mtud.v tied to mtud.rs by differential correspondence "
             "(sampling: link simulation, detector sequences, op soup incl. documented panics); hook interpreter; python driver. "
             "No axioms. Constants MAX_PROBE_RETRANSMITS/BLACK_HOLE_THRESHOLD are read from the compiled crate."),
}
