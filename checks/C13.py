SPEC = {
    "id": "C13",
    "components": [
        {"comp": "mtud", "module": "QV.Model.Mtud", "quick": 1500, "thorough": 40000},
    ],
    "assumptions": [
        "debug build semantics (debug_assert!/overflow checks are panics); release-build wrapping is not modelled",
        "caller contract of Connection assumed by the theorems (checked on the generated sequences by the oracle's contract tracker): on_probe_lost only for the in-flight probe, reset/new with current >= min_mtu",
    ],
}

MANIFEST = {
    "text": "component level only (MtuDiscovery); see coq/Props/C13.v",
    "note": "Trusted: Coq kernel + vm_compute; hand-written model Model/Mtud.v tied to mtud.rs by differential correspondence (sampling); hook interpreter; python driver. No axioms.",
}
