SPEC = {
    "id": "C01",
    "components": [
        {"comp": "assembler", "module": "QV.Model.Assembler", "quick": 1200, "thorough": 30000},
        {"comp": "send_buffer", "module": "QV.Model.SendBuffer", "quick": 1200, "thorough": 30000},
        {"comp": "range_set", "module": "QV.Model.RangeSet", "quick": 1000, "thorough": 30000},
        {"comp": "array_range_set", "module": "QV.Model.ArrayRangeSet", "quick": 1000, "thorough": 30000},
        {"comp": "sim_c01", "module": "QV.Sys.MonC01", "quick": 120, "thorough": 1500},
    ],
    "assumptions": [
        "a frame delivered to the receiver is a frame produced by the sender (authenticity: C04); an acknowledged or lost range was in flight (C12)",
        "theorems hold for executions on which the models do not panic; absence of panics for valid environments is checked by the oracles on the implementation, not proved",
        "Bytes reference counting, VecDeque capacity management and the BTreeMap/TinyVec internals are not modelled (BTreeMap = sorted association list, TinyVec = list; partition_point = linear scan, equal on the sorted vectors the invariant guarantees)",
        "std::collections::BinaryHeap is modelled from its algorithm (sift_up / sift_down_range / sift_down_to_bottom / in-place heap sort, rustc 1.95); agreement including the pop order of equal keys is checked through a probe of the heap's backing vector",
        "the inline constants of Assembler::insert (32768, 3/2, 1024) and try_mark_defragment (6/5) are literals in the model (no constants() hook is registered for this component); a change is caught by the correspondence, not by a broken side condition",
        "the quinn code is checked AFTER the two repairs `fix: Assembler::defragment discards data below bytes_read in ordered mode` and `fix: Assembler::insert ignores empty frames`; on the unrepaired code the check reports a VIOLATION with a replay (refutation witnesses C01_unfixed_*_refuted)",
    ],
}

MANIFEST = {
    "text": ("Proved in Coq for ALL op sequences / schedules (induction over executions of the executable models, unbounded): "
             "C01_stream_no_alteration and C01_stream_exactly_once — in the composed one-stream system (SendBuffer sender, network "
             "delivering any produced frame any number of times in any order or never, Assembler receiver, any interleaving of writes, "
             "poll_transmit sizes, acks, losses, re-chunked retransmits, 0-RTT restart, reads of any size, mode switch, clear) the bytes "
             "returned by ordered reads are a gap-free in-order prefix of the bytes written, every chunk returned by any read (ordered "
             "or unordered) equals the written bytes at its offset and lies within what was written, and no stream offset is returned "
             "twice; C01_assembler_ordered_prefix / _reads_exact / _exactly_once / _unordered_disjoint (same for the Assembler alone, "
             "including the ordered->unordered switch), C01_assembler_defragment_preserves_content, C01_heap_ops_permute (the exact "
             "BinaryHeap model never loses or invents a buffer), C01_range_set_replace / C01_range_set_insert (BTree RangeSet: invariant "
             "incl. non-adjacency, union semantics, the Replace iterator reports exactly the part already present), "
             "C01_array_range_set_insert, C01_sendbuffer_frames_sound (every frame produced by poll_transmit + copy loop is the slice "
             "of the written bytes at its offsets, after any acks / retransmits / 0-RTT restart), C01_sendbuffer_get_progress (local "
             "form). NOT proved, checked on every run by executable oracles on the implementation's outputs (sampling): no-loss / "
             "progress of reads (needs the heap-order invariant), SendBuffer ownership invariant (no byte forgotten or sent while "
             "acked; the strict form has a benign counterexample recorded in Props/C01.v: a 0-RTT restart with a lost range pending "
             "transmits that range twice), ArrayRangeSet.remove (against the reference specification Lib/RangeSpec.v). End-of-stream / "
             "reset code are at the Recv/Chunks level (C11). The models are hand-written and tied to the Rust code on every run by "
             "differential correspondence (same op sequences through the real component and the model, outputs incl. probes of the "
             "internal heap vector / segment list compared verbatim by vm_compute). Two genuine defects were found and repaired "
             "(see assumptions)."),
    "note": ("Trusted: Coq kernel + vm_compute; hand-written models whose agreement with the code is sampled, not proved; hook "
             "interpreters (connection/verif_hooks/{assembler,send_buffer}.rs, verif_hooks/range_set.rs, read-only probes "
             "Assembler::verif_probe / SendBuffer::verif_probe); python driver and generators. No axioms "
             "(every Print Assumptions: Closed under the global context)."),
}
