SPEC = {
    "id": "C01",
    "components": [
        {"comp": "assembler", "module": "QV.Model.Assembler", "quick": 1200, "thorough": 30000},
        {"comp": "send_buffer", "module": "QV.Model.SendBuffer", "quick": 1200, "thorough": 30000},
        {"comp": "range_set", "module": "QV.Model.RangeSet", "quick": 1000, "thorough": 30000},
        {"comp": "array_range_set", "module": "QV.Model.ArrayRangeSet", "quick": 1000, "thorough": 30000},
    ],
    "assumptions": [
        "a frame delivered to the receiver is a frame produced by the sender (authenticity: C04); an acknowledged or lost range was in flight (C12)",
        "Bytes reference counting, VecDeque capacity management and the BTreeMap/TinyVec internals are not modelled (BTreeMap = sorted association list, TinyVec = list)",
        "std::collections::BinaryHeap is modelled from the documented algorithm (sift_up / sift_down_range / sift_down_to_bottom, rustc 1.95); agreement including the pop order of equal keys is checked through a probe of the heap's backing vector",
    ],
}

MANIFEST = {
    "text": "filled in below",
    "note": "filled in below",
}
