SPEC = {
    "id": "C06",
    "components": [
        {"comp": "flow_recv", "module": "QV.Model.FlowRecv", "quick": 1500, "thorough": 40000},
        {"comp": "datagrams", "module": "QV.Model.DatagramState", "quick": 500, "thorough": 10000},
        {"comp": "sim_c06h", "module": "QV.Sys.MonC03", "quick": 112, "thorough": 3000, "pymod": "sim_c03h"},
    ],
    "assumptions": [
        "stream data is modelled by offsets and lengths (contents: C01); reads are observed as the number of bytes returned by a Chunks::next loop with a byte budget, so chunk boundaries are not observed",
        "Assembler over-allocation defragmentation and the chunk-count cap are not modelled (cases keep every stream below the 32 KiB threshold); CRYPTO buffer limits belong to other checks (sim_c06h); DatagramState.received is covered by the `datagrams` component shared with C16",
        "set_max_concurrent is not exercised: max_concurrent_remote_count stays at its initial value",
        "send-side flow control limits are set large (2^30 per stream, 2^40 per connection) and never bind",
    ],
}

MANIFEST = {
    "text": ("Unread DATAGRAM payloads never exceed datagram_receive_buffer_size: an accepted datagram evicts the oldest ones, as many as "
             "needed, an oversized one is refused (C06_datagram_buffer_bounded, C06_oversized_datagram_refused on Model/DatagramState.v, "
             "`datagrams` correspondence). Receive-side enforcement of StreamsState/Recv/Chunks (stream and connection flow control, stream-count limit, "
             "final-size consistency, credit issuance, stream credit on termination) is modelled in Coq (Model/FlowRecv.v) and the "
             "C06 theorems over_limit_rejected (per frame, all states) and accounting_exact (all op sequences: frames interleaved with "
             "ordered/unordered reads, stops, resets, window changes, control frames; includes the assembler invariant bytes_read <= end) "
             "are proved by induction over the sequence; buffered_bounded, credit_only_for_consumed and stream_credit_only_when_terminal "
             "are stated in full and enforced by the oracle only. The model is tied to the Rust code on every run by differential correspondence through the "
             "flow_recv hook (all probes compared verbatim) and by an independent ledger oracle evaluated on the implementation's outputs. "
             "Three defects were found by the faithful model and are repaired by fix: commits (double credit for stopped+reset streams, "
             "FIN below the high-water mark accepted, F2 stream dropped on IllegalOrderedRead); their witnesses are kept as _refuted "
             "theorems about the pre-repair model and as corpus cases."),
    "note": ("Trusted: Coq kernel + vm_compute; hand-written model whose agreement with the code is sampled, not proved; hook interpreter "
             "flow_recv.rs and the two cfg-guarded read-only probes (Recv::verif_probe, StreamsState::verif_probe); python driver. No axioms."),
}
