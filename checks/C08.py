SPEC = {
    "id": "C08",
    "components": [
        {"comp": "idle_negotiate", "module": "QV.Model.Lifecycle", "quick": 300, "thorough": 20000},
        {"comp": "sim_c08", "module": "QV.Sys.MonC08", "quick": 150, "thorough": 2000},
        {"comp": "sim_c08_model", "module": "QV.Sys.MonLifecycle", "quick": 150, "thorough": 2000},
    ],
    "assumptions": [
        "the lifecycle model takes the PTO, the key/space situation, anti-amplification, the congestion/pacing gate, pending stream events and the classification of every received packet as inputs; the theorems hold for all of them",
        "LossDetection / KeyDiscard / PathValidation / Pacing / PushNewCid / MaxAckDelay timers are not modelled (a KeyDiscard deadline may outlive Drained; it produces no output)",
        "the endpoint forgetting a drained connection (routing tables) is C09's model; here only open_connections and zombie activity are checked on traces (MonC08)",
    ],
}

MANIFEST = {
    "text": ("Proved in Coq for ALL operation sequences of the lifecycle model coq/Model/Lifecycle.v (State, close flag, error, "
             "Drained queue, Close/Idle/KeepAlive timers, permit_idle_reset, idle-timeout negotiation; operations close(), "
             "handle_packet by packet outcome, handle_timeout, poll, poll_endpoint_events, poll_transmit close branch incl. the "
             "PacketBuilder confidentiality-limit paths), with every environment input arbitrary: ConnectionLost is reported at most "
             "once, never after a local close, and with the peer's code (C08_lost_reported_at_most_once_except_known, "
             "C08_never_lost_after_local_close, C08_peer_close_reported_with_its_code); Drained events emitted + queued = 1 iff the "
             "state is Drained, Drained is final (C08_drained_once, C08_drained_is_final); entering Closed/Draining arms Timer::Close "
             "at exactly t + 3 PTO, nothing moves it, its expiry drains (C08_close_timer_bounds_drain); after Drained no timer, no "
             "transmit, no effect of handle_timeout (C08_after_drain_silence); TimedOut only at/after the Idle deadline, every armed "
             "Idle deadline is >= idle timeout after every accepted packet, it only ever moves to instant + max(idle, 3 PTO) on an "
             "accepted packet or the first ack-eliciting send after one, a fed connection does not time out "
             "(C08_timed_out_only_at_deadline, C08_idle_window_lower/upper, C08_fed_connection_never_times_out); while no idle timeout is negotiated the Idle timer is not armed and TimedOut is never reported (C08_no_negotiated_timeout_no_idle_timer, C08_timed_out_needs_negotiated_timeout - true of the code since the stale-idle-timer repair, C08_stale_idle_timer_refuted_before_fix is the witness on the code as found); "
             "negotiate_max_idle_timeout laws (C08_negotiate_idle_laws); the close packet follows close() at once whatever the "
             "congestion/pacing gate, announcing the code in 1-RTT and APPLICATION_ERROR before (C08_local_close_announced_at_once). "
             "Main theorems are stated as forall h, ~KnownClass h -> ...; the known class (error result of packet processing "
             "arriving while already closed: known finding lost-after-local-close) is proved real by vm_compute witnesses "
             "(C08_lost_after_local_close_refuted, C08_drained_twice_refuted_in_known_class), as is the pre-repair F1 gate "
             "(C08_local_close_announced_refuted_before_fix). "
             "Tie to the code (sampling): MonLifecycle runs that same model alongside every real connection of simulator traces and "
             "rejects any probe (state, close flag, error recorded, permit_idle_reset, Close/Idle/KeepAlive deadlines) or "
             "ConnectionLost/Drained delivery the model cannot produce; MonC08 checks the observable conclusions directly "
             "(once-only events, drain within the armed deadline, silence of drained connections, open_connections, close announced "
             "by the next poll); negotiate_max_idle_timeout is tied by differential correspondence through a hook."),
    "note": ("Trace-validated only, not proved: that poll() delivers no stream data after close (stream events are an input of the "
             "model); that the endpoint forgets the connection (open_connections, no zombie activity); the abstraction of packets into "
             "outcomes. C08_idle_window_lower needs the premise stable_run (no transport-parameter update enlarges the timeout of an "
             "armed Idle timer): it can fail only for a 0-RTT client whose remembered peer max_idle_timeout differs from the real one "
             "(reset_idle_timeout never recomputes or stops an armed timer when idle_timeout changes or becomes None) - a suspected "
             "defect shown on the model (C08_stale_idle_timer_model_witness), not reproduced on the real code because the simulator "
             "cannot change the server's idle timeout between ticket and resumption. KnownClass also excludes the confidentiality "
             "limit being exceeded while the close packet is built (> 2^23 packets under handshake keys). Trusted: Coq kernel + "
             "vm_compute, the hand-written model, the extracted monitors + OCaml driver, simulator, hooks, python driver. No axioms."),
}
