SPEC = {
    "id": "C08",
    "components": [
        {"comp": "sim_c08", "module": "QV.Sys.MonC08", "quick": 80, "thorough": 2000},
    ],
}
