SPEC = {
    "id": "C04",
    "components": [
        {"comp": "dedup", "module": "QV.Model.Dedup", "quick": 2000, "thorough": 60000},
    ],
    "assumptions": [
        "the u128 window is modelled as a Z kept below 2^128 by explicit mod; shifts/or/and/leading_zeros are the Z bit operations (Z.shiftl, Z.lor, Z.land, Z.log2), checked against the Rust code by the correspondence on every run",
    ],
}

MANIFEST = {
    "text": ("Component level of C04, proved in Coq for all insert sequences (unbounded, by induction): the RFC 4303-style "
             "Dedup window reports every packet number that was inserted before - whatever happened in between, including "
             "jumps >= 128 - and every number left of the window as duplicate (dedup_at_most_once), reports a number never "
             "inserted and inside the window as new (no false duplicates), never panics below u64::MAX and keeps next = "
             "highest + 1; smallest_missing_in_interval is exact w.r.t. that membership and total under its preconditions. The model (u128 window as Z with explicit mod 2^128 and Z bit operations) is tied to the Rust code "
             "on every run by differential correspondence including the window bits, smallest_missing_in_interval / "
             "missing_in_interval and the debug-assertion panics; WINDOW_SIZE is read from the compiled crate."),
    "note": ("Trusted: Coq kernel + vm_compute; hand-written model whose agreement with the code is sampled, not proved; hook "
             "interpreter; python driver. No axioms. The packet-acceptance pipeline (key selection, stateless reset, first-Initial "
             "duplicate F5) is not covered at this level."),
}
