SPEC = {
    "id": "C04",
    "components": [
        {"comp": "dedup", "module": "QV.Model.Dedup", "quick": 2000, "thorough": 24000},
        {"comp": "pkt_accept", "module": "QV.Model.PktAccept", "quick": 600, "thorough": 6000},
        {"comp": "cid_queue", "module": "QV.Model.CidQueue", "quick": 400, "thorough": 10000},
        {"comp": "sim_c04", "module": "QV.Sys.MonC04", "quick": 60, "thorough": 1500},
    ],
    "assumptions": [
        "pkt_accept: the hook states are those in which packet rx_packet HAS been received (Dedup non-empty); the state before the first packet of a space (rx_packet = 0 as a sentinel, fix e626ca9) is exercised by the simulator only (corpus/sim_c02/key-update-first-packet.json)",
        "packet protection is an oracle in the key-selection model: a packet opens iff it was sealed under the key the table selects (stub keys in the hook); AEAD itself and header-protection masks are not modelled",
        "the u128 window is modelled as a Z kept below 2^128 by explicit mod; shifts/or/and/leading_zeros are the Z bit operations (Z.shiftl, Z.lor, Z.land, Z.log2), checked against the Rust code by the correspondence on every run",
    ],
}

MANIFEST = {
    "text": ("Component level of C04, proved in Coq for all insert sequences (unbounded, by induction): the RFC 4303-style "
             "Dedup window reports every packet number that was inserted before - whatever happened in between, including "
             "jumps >= 128 - and every number left of the window as duplicate (dedup_at_most_once), reports a number never "
             "inserted and inside the window as new (no false duplicates), never panics below u64::MAX and keeps next = "
             "highest + 1; smallest_missing_in_interval is exact w.r.t. that membership and total under its preconditions. The model (u128 window as Z with explicit mod 2^128 and Z bit operations) is tied to the Rust code "
             "on every run by differential correspondence including the window bits, smallest_missing_in_interval / "
             "missing_in_interval and the debug-assertion panics; WINDOW_SIZE is read from the compiled crate. "
             "Also proved on a decision model of packet_crypto.rs (correspondence-tested with stub keys): decrypt_packet_body accepts "
             "a packet only under the key legitimate for its header/key phase/packet number (incl. KEY_UPDATE_ERROR conditions), and "
             "unprotect_header flags a stateless reset iff the datagram is >= 21 bytes and ends with exactly the expected token; "
             "and on the CidQueue model (shared with C03): the reset token handed to the endpoint whenever the active remote CID "
             "changes is the token issued with the CID active afterwards (C04_reset_token_follows_active_cid)."),
    "note": ("Trusted: Coq kernel + vm_compute; hand-written model whose agreement with the code is sampled, not proved; hook "
             "interpreter; python driver. No axioms. The rest of the packet-acceptance pipeline (handle_first_packet / first-Initial duplicate F5, Retry and "
             "Version Negotiation acceptance, the glue from decrypt result to dedup.insert) is not covered at this level."),
}
