SPEC = {
    "id": "C04",
    "components": [
        {"comp": "dedup", "module": "QV.Model.Dedup", "quick": 2000, "thorough": 60000},
    ],
    "assumptions": [
        "the u128 window is modelled as a Z kept below 2^128 by explicit mod; shifts/or/and/leading_zeros are the Z bit operations (Z.shiftl, Z.lor, Z.land, Z.log2), checked against the Rust code by the correspondence on every run",
    ],
}

MANIFEST = {
    "text": "",
    "note": "",
}
