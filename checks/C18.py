SPEC = {
    "id": "C18",
    "components": [
        {"comp": "sim_c18", "module": "QV.Sys.MonC18", "quick": 160, "thorough": 4000},
    ],
    "assumptions": [
        "tokio::sync::Notify / mpsc / oneshot behave as documented (notify_waiters wakes every Notified created before the call)",
        "quinn-proto emits the StreamEvent/Event for every condition change (C02 blocked_writer_renotified)",
    ],
}
MANIFEST = {
    "text": ("PARTIAL. Proved in Coq for ALL schedules (invariant over fold_left step of Model/AsyncConn.v, whose steps are "
             "whole critical sections of the connection mutex: application poll, future drop, driver poll with any event "
             "list, close, stop/finish/reset, handle clone/drop): no lost wake-up (a pending operation whose condition "
             "holds has a runnable task), the driver's own wake-up, close wakes every pending operation and no later poll "
             "pends, dropping a pending future changes no protocol state and loses no data (reads deliver exactly the "
             "arrived bytes in order across drops), Notify-based futures leave no registration, stream futures leave one "
             "stale waker that is overwritten/cleared and can only wake spuriously, the debug_assert in RecvStream::drop "
             "cannot fire, ref_count tracks the live handles, the last handle closes. Refuted (witnesses in Props/C18.v): "
             "stopped() pending while a local reset() is acknowledged is never woken (known finding stopped-after-reset); "
             "ref_count is off by one after the driver exits. The model is tied to the code by asyncsim: the real quinn "
             "crate on a deterministic single-threaded executor (custom Runtime, virtual time, in-memory lossy network, "
             "seeded scheduler, cancellation at poll boundaries); the extracted monitor checks the invariant on hook "
             "snapshots after every step, quiescence with a satisfiable pending future, data integrity across cancelled "
             "futures, ref_count, and teardown (drivers finished, endpoint bookkeeping released)."),
    "note": ("partial: tokio's Notify/mpsc/oneshot correctness assumed per documentation; OS-thread interleavings inside a "
             "critical section are not modelled (the Mutex makes them irrelevant to protocol state) and asyncsim is "
             "single-threaded; Notify waiter lists are not visible to the hook snapshot (only the three maps, the driver "
             "waker and ref_count are); the protocol core's event emission is C02's obligation; layer C is sampling."),
}
