SPEC = {
    "id": "C18",
    "components": [
        {"comp": "sim_c18", "module": "QV.Sys.MonC18", "quick": 160, "thorough": 4000},
    ],
    "assumptions": [
        "tokio::sync::Notify / mpsc / oneshot behave as documented (notify_waiters wakes every Notified created before the call)",
        "quinn-proto emits the StreamEvent/Event for every condition change (C02 blocked_writer_renotified)",
    ],
}
MANIFEST = {
    "text": ("PARTIAL. Proved in Coq for ALL schedules (inductive invariant Inv over run = fold_left step' of "
             "Model/AsyncConn.v, whose steps are whole critical sections of the connection mutex: application poll of any "
             "operation, drop of a pending future, driver poll with an arbitrary event list, close, stop/finish/reset, handle "
             "clone/drop; Model/AsyncEndpoint.v likewise for Accept, wait_idle, Endpoint::close and the endpoint driver): "
             "no lost wake-up (a pending operation whose condition holds has a runnable task; also for both drivers), close / "
             "ConnectionLost / socket error wake every pending operation and no later poll pends (buffered items first, then "
             "the error), dropping a pending future changes no protocol state, nothing received is lost or duplicated whatever "
             "is dropped and when, a fresh future gets the same result, Notify-based futures leave no registration; stream "
             "futures leave ONE stale waker per stream (witness) that is cleared by the next event / poll / handle drop and can "
             "only wake spuriously; the debug_assert in RecvStream::drop cannot fire; ref_count = live handles while the driver "
             "lives; dropping a RecvStream stops, a SendStream finishes, the last handle closes; a drained connection's driver "
             "exits and releases the endpoint entry. Refuted with witnesses: stopped() pending while a local reset() is "
             "acknowledged is never woken (KNOWN finding stopped-after-reset, confirmed on the real crate); ref_count is off "
             "by one once the driver has exited; a socket send error used to end the driver without terminate (FIXED, "
             "ade9d8a). Tie: asyncsim runs the real quinn crate on a deterministic single-threaded executor (custom Runtime, "
             "virtual time, in-memory lossy/reordering network, socket back-pressure and injected errors, seeded scheduler "
             "with spurious polls, cancellation of pending futures at random poll boundaries with delayed restart, five ways "
             "of ending incl. mid-transfer); the extracted monitor checks after EVERY scheduler step the registered-or-runnable "
             "part of the invariant, the driver-waker invariant and ref_count on hook snapshots, at every clock jump and at "
             "quiescence that no pending operation completes when polled afresh, data integrity across cancelled futures, no "
             "double completion, errors only after a close, and teardown (all tasks and drivers finished, endpoint "
             "bookkeeping back to 0)."),
    "note": ("partial: tokio's Notify/mpsc/oneshot correctness assumed per documentation; OS-thread interleavings inside a "
             "critical section are not modelled (the Mutex makes them irrelevant to protocol state) and asyncsim is "
             "single-threaded; the Notify waiter lists are not visible to the hook snapshot (only blocked_readers, "
             "blocked_writers, stopped, the driver waker and ref_count are); that quinn-proto emits an event for every "
             "condition change is C02's obligation (the model's driver events carry their state change); 0-RTT rejection "
             "paths (exercised by asyncsim, parameter 44, incl. stream-id reuse) and Endpoint::rebind are not modelled; layer C is sampling (160 traces quick, 4000 thorough)."),
}
