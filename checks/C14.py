SPEC = {
    "id": "C14",
    "components": [
        {"comp": "bloom", "module": "QV.Model.BloomLog", "quick": 1200, "thorough": 10000},
        {"comp": "token_cache", "module": "QV.Model.TokenCache", "quick": 1500, "thorough": 15000},
        {"comp": "token_decision", "module": "QV.Model.TokenDecision", "quick": 1000, "thorough": 8000},
        {"comp": "sim_c14", "module": "QV.Sys.MonC02", "quick": 60, "thorough": 1500},
        {"comp": "sim_c14t", "module": "QV.Sys.MonC03T", "quick": 40, "thorough": 800},
    ],
    "assumptions": [
        "AEAD unforgeability of Token::decode (whatever opens under the server's token key is the unmodified encoding of a token that "
        "server sealed) is a Section hypothesis of the token-decision theorems; the correspondence checks it on every bit-flip / "
        "truncation / extension / splice / foreign-key presentation it generates",
        "Bloom-filter false positives are an oracle value quantified universally in the theorems; in the correspondence they are "
        "taken from a first pass over the real log and honoured by the model only while the addressed filter is in Bloom "
        "representation (so: the implementation may reject more than the set model only in Bloom mode, and may never accept what "
        "the model rejects); std HashSet capacity growth (3,7,14,28,...) decides the Set->Bloom switch and is checked by the probe",
        "token issue times are whole seconds on the wire (encode_unix_secs); the model truncates accordingly",
    ],
}

MANIFEST = {
    "text": ("System level (trace-validated on real endpoints, sim_c14): a client that has followed one Retry discards a second, "
             "well-formed Retry injected by an on-path attacker before the server's Initial, and the handshake completes; a client whose server's transport parameters do not echo the connection IDs actually used (initial_source / original_destination / retry_source connection ID wrong, missing or unexpected) ends the handshake with TRANSPORT_PARAMETER_ERROR (sim_c14t). "
             "Component level of C14, proved in Coq for all histories (unbounded, by induction): BloomTokenLog accepts no "
             "(nonce, issued) pair twice for any non-zero lifetime, any clock behaviour, both turnover arms, any point of the "
             "Set->Bloom switch and any false-positive behaviour (bloom_single_use), zero lifetime always rejects; "
             "TokenMemoryCache never panics, respects both capacities (incl. 0), keeps queues non-empty, hands out each stored "
             "(server, token) at most once (multiset inclusion), takes FIFO and evicts least-recently-used "
             "(cache_hands_out_once, cache_eviction_is_lru); IncomingToken::from_header over an abstract decoded token: "
             "validated implies a genuine token of this server's key presented from the exact address+port within the Retry "
             "lifetime, or from the same IP within the lifetime and accepted by the log at that call; altered/foreign tokens are "
             "exactly absent; stale or misplaced Retry tokens give InvalidRetryTokenError; NEW_TOKEN tokens validate at most once "
             "over any history (validation_token_single_use, composing the log invariant). The models are tied to the Rust code "
             "on every run by differential correspondence through the public TokenLog/TokenStore traits and from_header on a real "
             "ServerConfig with real AEAD-sealed tokens."),
    "note": ("Trusted: Coq kernel + vm_compute; hand-written models whose agreement with the code is sampled, not proved; hook "
             "interpreters; python driver. AEAD/HKDF are not modelled (premise `unforgeable`). No axioms. Not covered at this level: "
             "client Retry acceptance, transport-parameter CID echo, Endpoint glue (simulator level)."),
}
