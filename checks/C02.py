SPEC = {
    "id": "C02",
    "components": [
        {"comp": "sim_c02", "module": "QV.Sys.MonC02", "quick": 80, "thorough": 2500},
    ],
}
