SPEC = {
    "id": "C02",
    "components": [
        {"comp": "sim_c02", "module": "QV.Sys.MonC02", "quick": 160, "thorough": 2500},
        {"comp": "sim_c02r", "module": "QV.Sys.MonRecovery", "quick": 96, "thorough": 3000},
    ],
    "assumptions": [
        "RTT-derived durations (pto_base, max_ack_delay, loss_delay) and the pacer's answer are oracle values: the theorems quantify over all of them; the pacer contract deadline > now is an explicit premise of C02_pacing_deadline_in_future (Pacer::delay does not guarantee it: now + (unscaled_delay / 5) * 4 equals now for a deficit of a few bytes at a large window)",
        "path migration is not modelled (a new PathData restarts the in-flight counters; the probe and the model both use the current path's count)",
        "the Recovery model is tied to the code by trace validation only (no op-by-op differential hook): Sys/MonRecovery evaluates the proved invariants on probe snapshots after every drive of every real connection",
    ],
}

MANIFEST = {
    "text": ("PARTIAL. Proved in Coq for ALL operation sequences of the loss-detection model (Model/Recovery.v: packets sent, acks, "
             "datagram receipt incl. the was_anti_amplification_blocked re-arm, key installation/discard, Retry, handshake completion, "
             "close, handle_timeout with loss-time and PTO branches) and the send-gate model (Model/SendGate.v): "
             "timer_armed_when_needed (open, not anti-amplification blocked, timer needed => LossDetection armed, except on a "
             "connection that has sent nothing yet; receipt of any datagram while blocked re-arms), the refutation of the same "
             "invariant for the code before repo commit 81a82d1 (Established with 1-RTT packets in flight and no timer: a real "
             "wedge, replayed on the real endpoints) and its weaker form with the ghost flag; pto_backoff_bounded (deadline = last "
             "ack-eliciting send + (pto_base [+ max_ack_delay]) * 2^min(pto_count, MAX_BACKOFF_EXPONENT), positive and bounded; "
             "constant from the compiled crate); probes are never blocked by congestion or pacing and are sent when there is "
             "anti-amplification budget; blocked-by-pacing arms Timer::Pacing (in the future under the pacer contract). "
             "Proved only under the bookkeeping well-formedness hypothesis wf (kept as _partial, full statements as Definitions): "
             "pto_yields_probe (probe space has keys) and the readable per-space form of timer_armed_when_needed. "
             "NOT proved: credit_update_not_withheld / blocked_writer_renotified (flow-control half; only exercised by the completion "
             "monitor and mutation-tested), idle_progress, and the end-to-end bounded-time claim fair_loss_completes (stated as a "
             "Definition): completion under fair loss is OBSERVED on sampled schedules (Sys/MonC02: every event-driven workload under "
             "loss/dup/reorder/drop masks/small windows/pacing/key updates/0-RTT ends quiescent with every stream finished), and the "
             "timer invariants are checked on the probe snapshot after every drive of every real connection (Sys/MonRecovery)."),
    "note": ("Trusted: Coq kernel + vm_compute; hand-written models whose agreement with the code is sampled by trace validation, "
             "not proved; the simulator and probe hook; extraction (ExtrOcamlBasic); python driver. No axioms."),
}
