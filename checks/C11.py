SPEC = {
    "id": "C11",
    "components": [
        {"comp": "stream_sm", "module": "QV.Model.StreamSM", "quick": 1500, "thorough": 40000},
        # send half under flow control: write() results (accepted / Blocked / Stopped / ClosedStream) in the order the
        # state machine prescribes - Stopped takes precedence over Blocked (model and hook shared with C05)
        {"comp": "flow_send", "module": "QV.Model.FlowSend", "quick": 800, "thorough": 20000},
    ],
    "assumptions": [
        "send-side flow control is configured large by the hook (2^30 per stream, 2^40 per connection) and never binds: write accepts every byte; Writable/Available events, set_priority and connection_blocked are not exercised",
        "whether an incoming frame is acceptable (flow control, final size, stream limit) is taken from the implementation's result: that is C06; the spec predicts the stream-state consequences and every API result",
        "stream data is modelled by offsets and lengths (contents: C01); STREAM frame transmission uses an unbounded packet (1 MiB) so a pending stream is flushed completely",
        "application operations on a remotely initiated bidirectional stream that was never accept()ed make send_streams underflow (debug panic); such cases are generated rarely and compared as panics",
    ],
}

MANIFEST = {
    "text": ("The stream state machine of StreamsState (both halves, map presence, Free/Open/None slots, counters, event queue) "
             "is modelled in Coq (Model/StreamSM.v over Model/FlowRecv.v) and related to a short specification (Model/StreamSpec.v: "
             "RFC 9000 section 3 state tables extended with the result of every application operation). Proved for all op sequences: "
             "Finished is emitted at most once per stream and never for a reset stream (C11_finished_once), the window of permitted "
             "remote streams is always full and one stream_freed call credits exactly one stream iff both halves are gone "
             "(C11_concurrency_accounting, C11_stream_credit_exact); per state: stop / received_reset results equal the spec's. The tie to the Rust code is differential correspondence through the stream_sm hook "
             "(all probes compared verbatim) and the specification itself is the oracle: run on the op sequence it must predict every "
             "API result, event, counter and half presence reported by the implementation. Defect F2 (stream dropped on "
             "IllegalOrderedRead) is repaired by a fix: commit; its witness is kept as a _refuted theorem about the pre-repair model."),
    "note": ("Trusted: Coq kernel + vm_compute; hand-written model and spec whose agreement with the code is sampled, not proved; hook "
             "interpreter flow_recv.rs (shared by stream_sm.rs) and two cfg-guarded read-only probes; python driver. No axioms."),
}
