SPEC = {
    "id": "C17",
    "components": [
        {"comp": "zero_rtt", "module": "QV.Model.ZeroRtt", "quick": 1200, "thorough": 30000},
        {"comp": "sim_c17", "module": "QV.Sys.MonC17", "quick": 60, "thorough": 1500},
        {"comp": "sim_c17_data", "pymod": "sim_c17", "module": "QV.Sys.MonC01", "quick": 60, "thorough": 1500},
        {"comp": "sim_c17_done", "pymod": "sim_c17", "module": "QV.Sys.MonC02", "quick": 60, "thorough": 1500},
        # the async API (quinn crate) on the deterministic executor: early handles after a rejection, id reuse
        {"comp": "sim_c17_async", "module": "QV.Sys.MonC18", "quick": 60, "thorough": 1500},
    ],
    "assumptions": [
        "stream / flow-control part of C17 only (StreamsState); packet-space, TLS acceptance decision, server-side invisibility and early-data buffers are other components",
        "during the 0-RTT phase no peer frame and no acknowledgement is processed and the application uses only streams it opened (Connection cannot deliver 1-RTT frames before the handshake completes)",
    ],
}

MANIFEST = {
    "text": ("Proved in Coq: for any state with the shape of an ended 0-RTT phase and ANY new transport parameters, "
             "zero_rtt_rejected + set_params yields a state EQUAL (whole record: next, max, max_data, data_sent, unacked_data, stream map, "
             "pending/blocked/event queues, flags) to a brand-new state that received the parameters, hence identical behaviour afterwards; "
             "the brand-new state has that shape. That every early operation sequence preserves the shape is stated (C17_rejected_is_fresh_full) "
             "and correspondence-tested only: the real rejected StreamsState is compared field by field, and on every later operation, with a real "
             "fresh StreamsState. The code as found refuted the property (F3 unacked_data, F6 max_data, plus the streams_blocked flags): "
             "witnesses proved by vm_compute, replayed on the implementation (corpus/zero_rtt) and repaired by a fix: commit. "
             "Async API (sim_c17_async, sampled): the real quinn crate on the deterministic executor, second connection via into_0rtt() "
             "with accepted and rejected early data; the extracted monitor MonC18 checks that after a rejection every operation on an "
             "early handle reports ZeroRttRejected, that fresh streams reusing the early ids deliver exactly their own bytes while the "
             "stale handles are used and dropped, and the C18 wake-up invariants throughout (this found and fixed c61f15e)."),
    "note": ("Trusted: Coq kernel + vm_compute; hand-written models Model/ZeroRtt.v + Model/FlowSend.v (sampled agreement); hook zero_rtt.rs; "
             "python driver. No axioms. Partial: see C17_rejected_is_fresh_full and C17_retry_resends_everything_full in Props/C17.v; Retry (retransmit_all_for_0rtt) is modelled as op 21, checked by the FIN ledger and by before/after-fix vm_compute witnesses."),
}
