from comps import udp_loop, udp_split

SPEC = {
    "id": "C19",
    "components": [
        {"comp": "udp_cmsg", "module": "QV.Model.Cmsg", "quick": 1200, "thorough": 30000},
    ],
    # real loopback sockets (relational correspondence) and the source-shape tie of the split loop
    "extra": [udp_loop.step, udp_split.step],
    "assumptions": [
        "kernel: UDP_GRO_CNT_MAX = 64 segments per coalesced receive (C19_gro_buffer_holds_batch; gro_segments() of the compiled crate is read on every run as UDP_GRO_SEGMENTS)",
        "kernel: UDP_SEGMENT sends chunks of gso_size with a shorter last one; UDP_GRO merges only equal-size datagrams of "
        "one flow plus an optional shorter last one and reports the size of the first as stride, never 0 (with stride 0 the "
        "split loop of poll_socket would not terminate: theorem C19_split_stride_zero_hangs; not peer-controlled)",
        "kernel emits receive control messages in the order timestamp, UDP_GRO, pktinfo, TOS/TCLASS and drops what does not fit",
        "the caller respects max_gso_segments() and provides receive buffers of at least gro_segments() datagrams",
        "64-bit little-endian Linux ABI for the byte-level payload layout (side condition UDP_LITTLE_ENDIAN = 1, sizes generated)",
        "the split loop of quinn/src/endpoint.rs is tied by a source-shape comparison, not by execution (the harness does not link quinn)",
    ],
    "trusted_extra": [
        "comps/udp_loop.py: relational correspondence driver (environment choices read off the observation; offsets are witnesses checked in Coq)",
        "quinn-udp/src/verif_hooks.rs: lossless chunk encoding of received bytes (self-checked by decoding before it is emitted)",
    ],
}

MANIFEST = {
    "text": ("Proved in Coq for all payloads, segment sizes and kernel coalescing choices (unbounded, by induction): segmentation "
             "offload yields non-empty chunks of exactly seg bytes with a shorter last one whose concatenation is the payload; "
             "splitting every GRO message by its reported stride (the poll_socket loop) returns exactly the original datagrams; the "
             "loop terminates iff stride > 0; effective_segment_size is None exactly for single-datagram transmits and never changes "
             "the datagrams. Proved by exhaustive evaluation over the finite option space (288 send / 16 receive combinations, "
             "enumeration proved complete) with the layout constants of the compiled crate: the control messages of prepare_msg and "
             "everything the kernel attaches on receive fit cmsg::LEN (every prefix too); decode-after-encode of timestamp, GRO stride, "
             "destination address and ECN bits. Tied to the code on every run: prepare_msg / Encoder / Iter / decode_recv by "
             "differential correspondence over the whole option space; send/recv on REAL loopback sockets (v4, v6, dual-stack, "
             "v4-mapped; GSO and GRO exercised when the kernel has them, otherwise recorded as not exercised) where every received "
             "byte, boundary, ECN codepoint and address must equal the model's prediction. Partial: delivery fidelity is observed on "
             "this kernel only; the split loop is tied by source shape."),
    "note": ("Trusted: Coq kernel + vm_compute; hand-written models; hook interpreters incl. the loopback driver; python drivers; the "
             "kernel behaviour listed under assumptions; unsafe pointer code's memory safety and non-Linux back ends are not modelled. "
             "No axioms. Finding: cmsg::LEN = 96 dropped the ECN codepoint of every GRO-coalesced message (fixed by LEN = 128)."),
}
