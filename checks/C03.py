SPEC = {
    "id": "C03",
    "components": [
        {"comp": "cid_queue", "module": "QV.Model.CidQueue", "quick": 1200, "thorough": 40000},
        {"comp": "cid_state", "module": "QV.Model.CidState", "quick": 1000, "thorough": 30000},
        {"comp": "path_responses", "module": "QV.Model.PathResponses", "quick": 500, "thorough": 15000},
        {"comp": "pending_acks", "module": "QV.Model.PendingAcks", "quick": 200, "thorough": 6000},
        {"comp": "ack_frequency", "module": "QV.Model.AckFrequency", "quick": 1000, "thorough": 30000},
        # decoders of peer-controlled bytes (models and totality theorems shared with C10)
        {"comp": "frames", "module": "QV.Model.Frames", "quick": 600, "thorough": 15000},
        {"comp": "header", "module": "QV.Model.Header", "quick": 400, "thorough": 10000},
        {"comp": "tparams", "module": "QV.Model.TParams", "quick": 500, "thorough": 10000},
        {"comp": "sim_c03", "module": "QV.Sys.MonC04", "quick": 60, "thorough": 1500},
        {"comp": "sim_c03h", "module": "QV.Sys.MonC03", "quick": 112, "thorough": 3000},
        {"comp": "sim_c03t", "module": "QV.Sys.MonC03T", "quick": 144, "thorough": 3000},
    ],
    "assumptions": [
        "CidQueue ring-buffer arithmetic is proved for the compiled value CidQueue::LEN = 5 (Props/C03.v instantiates the lemma with the generated constant by reflexivity, so another value breaks the build)",
        "u64 overflow inside CidQueue is not modelled: all sums are bounded by 2^62 + 2*LEN because sequence numbers are varints and the active sequence number is 0 or an inserted one (proved)",
        "CidQueue::update_initial_cid is only called before the first insert/next (handshake), as Connection does; later calls hit a debug assertion (modelled as a panic, exempt in the oracle)",
        "CidState::new_cids is driven with consecutive sequence numbers starting at `issued`, which is what Endpoint::send_new_identifiers supplies",
        "the NEW_CONNECTION_ID arm of process_payload (RetireQueue.v) and the frame legality table (FrameLegality.v) are model-only: they cannot be called without a full Connection; MAX_PENDING_RETIRED_CIDS = 10 * CidQueue::LEN is tied through CID_QUEUE_LEN only",
        "MAX_PATH_RESPONSES is a function-local constant; the generated value is measured behaviourally (queue length after 1000 distinct remotes)",
        "should_send_ack_frequency's boolean is float-derived and not compared; only its panic behaviour is modelled",
    ],
}

MANIFEST = {
    "text": ("System level (trace-validated on real endpoints): unauthenticated garbage and structure-aware forgeries (sim_c03), 29 kinds of "
             "illegal frame sequences from an authenticated peer with the error class RFC 9000 prescribes (sim_c03h / MonC03), and 72 "
             "mutations of the peer's transport parameters presented to a live connection through a wrapped crypto session "
             "(sim_c03t / MonC03T: no panic, no unbounded loop, an undecodable encoding ends exactly the victim with "
             "TRANSPORT_PARAMETER_ERROR, every other connection completes untouched). Component level of C03, proved in Coq for all op sequences (unbounded, by induction over the run): "
             "CidQueue (remote CIDs under arbitrary NEW_CONNECTION_ID sequence/retire_prior_to: no expect/unwrap reachable, "
             "cursor slot occupied, retired ranges of length 1..LEN, active sequence number is an inserted one and not below any "
             "accepted retire_prior_to); CidState (arbitrary RETIRE_CONNECTION_ID: no panic, active_seq within issued, un-issued "
             "sequence numbers rejected with PROTOCOL_VIOLATION, the boundary sequence == issued proved to be a no-op); "
             "PathResponses (at most MAX_PATH_RESPONSES entries, one per remote, never older than the last challenge); PendingAcks "
             "(at most MAX_ACK_BLOCKS canonical ranges for every arrival order, no panic, exact set semantics of insert_one / "
             "subtract_below: only the lowest run is ever dropped; the equality with the element-list specification, "
             "C03_pending_acks_full, is checked by the correspondence oracle only); AckFrequencyState (defect F4 refuted on the "
             "pre-fix code with a witness replayed on the real code, then total for ALL parameters after the fix); the "
             "NEW_CONNECTION_ID arm (model only): unbounded growth of the pending-retire queue proved for the code as found "
             "(C03_retire_queue_bounded_refuted), bound 10*LEN+4 proved for the repaired arm; the frame x packet-space x side "
             "legality table (model only, 192 rows checked by vm_compute against RFC 9000 Table 3 with the deviations listed). "
             "Every model except RetireQueue and FrameLegality is tied to the Rust code on every run by differential "
             "correspondence through cfg-guarded hooks, with property oracles evaluated on the implementation's outputs."),
    "note": ("Trusted: Coq kernel + vm_compute; hand-written models whose agreement with the code is sampled, not proved; "
             "hook interpreters; python driver. No axioms. RetireQueue.v and FrameLegality.v have no hook: they are tied only "
             "through CID_QUEUE_LEN / by reading until the simulator injects frames. The simulator level is sampling, not proof."),
}
