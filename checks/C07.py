SPEC = {
    "id": "C07",
    "components": [
        {"comp": "antiamp", "module": "QV.Model.AntiAmp", "quick": 1500, "thorough": 40000},
        {"comp": "endpoint_gate", "module": "QV.Model.StatelessReset", "quick": 1000, "thorough": 20000},
        {"comp": "sim_c07", "module": "QV.Sys.MonC07", "quick": 96, "thorough": 1500},
    ],
    "assumptions": [
        "the datagram loop of Connection::poll_transmit is abstracted to its use of anti_amplification_blocked (the hook drives the real predicate with the loop's argument expression); the call sites that update the counters and the transmit kinds that bypass the predicate are covered by the simulator-level check, not here",
        "the padding length of a stateless reset is random: the model accepts every size in the interval the code can produce (relational tie)",
        "the amplification factor 3 is an inline literal: pinned by the budget probe of the antiamp correspondence (not yet exported to gen/Constants.v)",
    ],
}

MANIFEST = {
    "text": ("Component level. amplification_bound, no_datagram_when_exhausted and counters_saturate_safely are proved in Coq for all "
             "histories of receives and poll_transmit batches on an unvalidated path (bound stated on the bytes really sent and "
             "received, so u64 saturation cannot reset it); reset_smaller_and_rate_limited is proved for all arrival sequences and "
             "all admissible padding choices; the short-Initial gate is stated on the model. The models are tied to the real "
             "PathData predicate and to a real Endpoint on every run by differential correspondence."),
    "note": ("Trusted: Coq kernel + vm_compute; hand-written models whose agreement with the code is sampled, not proved; "
             "hook interpreters (the antiamp hook performs the callers' saturating counter updates itself; the endpoint hook uses a "
             "recording crypto layer instead of certificates); python driver. No axioms."),
}
