SPEC = {
    "id": "C05",
    "components": [
        {"comp": "flow_send", "module": "QV.Model.FlowSend", "quick": 1600, "thorough": 40000},
    ],
    "assumptions": [
        "stream byte content is abstracted to lengths (SendBuffer content is C01's model); receive halves are not modelled (remote bidirectional streams exist from the start and are never freed)",
        "operation discipline of Connection (set_params only at start / at the end of a 0-RTT phase, peer frames only after it, each sent frame acknowledged or lost at most once, remote streams used only after accept) is assumed by the theorems and by the ledger oracle; undisciplined sequences are still compared with the model",
        "write sizes are at most a few KB per call, so stream offsets above 2^30 are not reached in the correspondence (limits up to 2^62-1 are)",
    ],
}

MANIFEST = {
    "text": ("Proved in Coq for every interleaving (unbounded) of write / MAX_DATA / set_send_window / accept from the initial state: "
             "per-stream offset <= stream limit <= largest delivered limit, data_sent = sum of offsets <= max_data = largest delivered "
             "connection limit, next <= max = largest delivered stream count and open = None exactly when equal, the exact formula of "
             "write (min of request, connection credit, send-window room, stream credit; Blocked iff 0), and that a write never raises "
             "unacked_data above the send window. The invariant for the remaining operations (open, finish, reset, MAX_STREAM_DATA, "
             "MAX_STREAMS, transmission, acknowledgement/loss, 0-RTT acceptance) and unacked_data = sum of per-stream unacked are stated "
             "(C05_full) but only correspondence-tested: the model reproduces the real StreamsState on every generated sequence and an "
             "independent credit ledger evaluated on the implementation's outputs re-derives every limit."),
    "note": ("Trusted: Coq kernel + vm_compute; hand-written model Model/FlowSend.v whose agreement with the code is sampled; hook "
             "interpreter flow_send.rs; python driver. No axioms. Partial: see C05_full in Props/C05.v."),
}
