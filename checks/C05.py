SPEC = {
    "id": "C05",
    "components": [
        {"comp": "flow_send", "module": "QV.Model.FlowSend", "quick": 1600, "thorough": 40000},
    ],
    "assumptions": [
        "stream byte content is abstracted to lengths (SendBuffer content is C01's model); receive halves are not modelled (remote bidirectional streams exist from the start and are never freed)",
        "operation discipline of Connection (set_params only at start / at the end of a 0-RTT phase, peer frames only after it, each sent frame acknowledged or lost at most once, remote streams used only after accept) is assumed by the theorems and by the ledger oracle; undisciplined sequences are still compared with the model",
        "write sizes are at most a few KB per call, so stream offsets above 2^30 are not reached in the correspondence (limits up to 2^62-1 are)",
    ],
}

MANIFEST = {
    "text": ("Proved in Coq for EVERY reachable state of the full model (all operations of FlowSend.apply: open, write, finish, reset, "
             "MAX_DATA, MAX_STREAM_DATA, MAX_STREAMS, STOP_SENDING, transmission, acknowledgement, loss, reset_acked, poll, accept, "
             "Retry, 0-RTT acceptance and rejection; any interleaving respecting Connection's calling discipline): per-stream offset <= "
             "stream limit <= largest delivered limit; data_sent = sum of offsets <= max_data = largest delivered connection limit; "
             "next <= max = largest delivered stream count and open = None exactly when equal; exact formula of write; "
             "unacked_data = sum of per-stream unacknowledged bytes; acknowledged / to-retransmit / in-flight ranges partition the sent "
             "part of every stream, so acknowledging an in-flight frame never underflows; send_streams >= streams held. "
             "Not assembled: one theorem 'no operation panics' (C05_full). The model is tied to the code by differential correspondence and "
             "an independent credit + FIN ledger evaluated on the implementation's outputs."),
    "note": ("Trusted: Coq kernel + vm_compute; hand-written model Model/FlowSend.v (sampled agreement); hook flow_send.rs; python driver. "
             "No axioms. KNOWN ISSUE: a from-scratch build of Proofs/FlowSendProofs.v + FlowSendFull.v takes ~14 min (cached afterwards)."),
}
