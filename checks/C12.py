SPEC = {
    "id": "C12",
    "components": [
        {"comp": "cc_newreno", "module": "QV.Model.NewReno", "quick": 600, "thorough": 15000},
        {"comp": "cc_cubic", "module": "QV.Model.Cubic", "quick": 600, "thorough": 15000},
        {"comp": "cc_bbr", "module": "QV.Model.Bbr", "quick": 480, "thorough": 8000},
        {"comp": "sent_packets", "module": "QV.Model.SentPackets", "quick": 800, "thorough": 20000},
        {"comp": "inflight", "module": "QV.Model.InFlight", "quick": 800, "thorough": 20000},
        {"comp": "sim_c12", "module": "QV.Sys.MonC12", "quick": 60, "thorough": 1500},
        {"comp": "sim_c12m", "module": "QV.Sys.MonC12", "quick": 30, "thorough": 600},
    ],
    "assumptions": [
        "float arithmetic of the controllers is not modelled: every float-derived quantity is an oracle value; the theorems quantify over all oracle values, the correspondence reads them back from the implementation (relational tie for Cubic and BBR; exact IEEE f32 result for NewReno's default factor 0.5)",
        "BBR's pacing gain cycle (random offset) and pacing rate are not modelled: they do not feed back into window()",
        "in_flight_is_sum is stated for packets stamped with the path's own generation (as PacketBuilder stamps them); packets of an older path generation are not debited by design and are outside the sum",
    ],
}

MANIFEST = {
    "text": ("Component level. Proved in Coq: controller_floor for NewReno, Cubic and BBR (for all call histories with "
             "arbitrary u64 arguments and arbitrary outcomes of the float computations, window() >= 2 * current MTU given "
             "an initial window of at least that; BBR for the repaired on_mtu_update, the unrepaired one is refuted by a "
             "vm_compute witness that was replayed on the real code, DESIGN F7); in_flight_is_sum (bytes in flight and the "
             "ack-eliciting count equal the sums over the tracked packets in every reachable state, the debit never "
             "underflows), all_acked_implies_zero and leaves_once for every history of sent/acked/lost/abandoned/discard. "
             "The models are tied to the real code on every run: NewReno, SentPackets and the PathData/PacketSpace ledger "
             "exactly, Cubic and BBR relationally. Not covered at this level: window_respected (send gate), ack_check_sound, "
             "fifo_no_loss (simulator level)."),
    "note": ("Trusted: Coq kernel + vm_compute; hand-written models whose agreement with the code is sampled, not proved; "
             "hook interpreters (incl. the read-only probe Bbr::verif_state); python driver. No axioms."),
}
