SPEC = {
    "id": "C12",
    "components": [
        {"comp": "cc_newreno", "module": "QV.Model.NewReno", "quick": 600, "thorough": 20000},
        {"comp": "cc_cubic", "module": "QV.Model.Cubic", "quick": 600, "thorough": 20000},
        {"comp": "cc_bbr", "module": "QV.Model.Bbr", "quick": 480, "thorough": 12000},
        {"comp": "sent_packets", "module": "QV.Model.SentPackets", "quick": 800, "thorough": 30000},
        {"comp": "inflight", "module": "QV.Model.InFlight", "quick": 800, "thorough": 30000},
    ],
    "assumptions": [
        "float arithmetic of the controllers is not modelled: every float-derived quantity is an oracle value; the theorems quantify over all oracle values, the correspondence reads them back from the implementation (relational tie for Cubic and BBR; exact IEEE f32 result for NewReno's default factor 0.5)",
        "BBR's pacing gain cycle (random offset) and pacing rate are not modelled: they do not feed back into window()",
    ],
}

MANIFEST = {
    "text": ("Component level. controller_floor is proved in Coq for NewReno, Cubic and BBR: for all call histories with "
             "arbitrary u64 arguments and arbitrary outcomes of the float computations, window() >= 2 * current MTU "
             "given an initial window of at least that (BBR: for the repaired on_mtu_update; the unrepaired one is "
             "refuted by a vm_compute witness that was replayed on the real code, DESIGN F7). The models are tied to "
             "the real controllers on every run: NewReno exactly, Cubic and BBR relationally."),
    "note": ("Trusted: Coq kernel + vm_compute; hand-written models whose agreement with the code is sampled, not proved; "
             "hook interpreters (incl. the read-only probe Bbr::verif_state); python driver. No axioms."),
}
