SPEC = {
    "id": "C12",
    "components": [
        {"comp": "sim_c12", "module": "QV.Sys.MonC12", "quick": 60, "thorough": 1500},
    ],
}
