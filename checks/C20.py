"""C20 — the protocol core is deterministic and driven only by its inputs.

Three ties, run on every invocation:
  * `sim_c20_v1..v5` (comps/sim_c20.py) / coq/Sys/MonC20.v: twin runs of the REAL endpoints (identical replay, all instants shifted, spurious
    calls + early wake-ups, late timers) compared record by record; per-run settle / drained-silent rules;
  * `timer_table` / coq/Model/TimerTable.v: exact correspondence of the model of `TimerTable` with the real one
    (hook quinn-proto/src/connection/verif_hooks/timer.rs) + oracle next_timeout = min of armed;
  * `ambient_inventory` (below): static inventory of ambient time / entropy sources in quinn-proto/src, compared
    with the allowlist established by reading every site.
"""
import os
import re

from lib import qv
from lib import runner

# ------------------------------------------------------------------------------------------------
# Static inventory of ambient sources
PATTERNS = [
    ("Instant::now", r"\bInstant::now\b"),
    ("SystemTime::now", r"\bSystemTime::now\b"),
    ("rand::rng", r"\brand::rng\s*\(\s*\)"),
    ("rand::random", r"\brand::random\b"),
    ("thread_rng", r"\bthread_rng\b"),
    ("SysRng", r"\bSysRng\b"),
    ("OsRng", r"\bOsRng\b"),
    ("getrandom", r"\bgetrandom\b"),
    ("from_os_rng", r"\bfrom_os_rng\b"),
    ("from_entropy", r"\bfrom_entropy\b"),
    ("std::env", r"\bstd::env::|\benv::var(_os)?\b|\benv::args\b"),
]

# (file relative to quinn-proto/src, enclosing function, pattern) -> why it does not feed the state machine's outputs
# when the embedder supplies seeds / keys / generators / time source (as the simulator does), established by reading:
ALLOW = {
    ("config/mod.rs", "EndpointConfig::default", "rand::rng"):
        "random stateless-reset HMAC key of a DEFAULT EndpointConfig; EndpointConfig::new(key) takes the key as input "
        "(the simulator and every deterministic embedder use new); affects only reset-token bytes",
    ("config/mod.rs", "ServerConfig::with_crypto", "rand::rng"):
        "random address-validation token master key of the convenience constructor; ServerConfig::new / token_key() "
        "take the key as input; affects only token bytes (fixed length), never sizes or instants",
    ("config/mod.rs", "StdSystemTime::now", "SystemTime::now"):
        "the DEFAULT TimeSource; ServerConfig::time_source() replaces it (simulator: virtual clock); used only for "
        "token issue / expiry stamps",
    ("config/transport.rs", "QlogConfig::default", "Instant::now"):
        "feature qlog only: reference instant of the qlog stream (diagnostic output, replaced by start_time())",
    ("endpoint.rs", "Endpoint::new", "SysRng"):
        "taken ONLY when EndpointConfig::rng_seed is None; with a seed the endpoint RNG and every per-connection RNG "
        "derived from it in add_connection are functions of the seed",
    ("cid_generator.rs", "RandomConnectionIdGenerator::generate_cid", "rand::rng"):
        "thread RNG inside the default CID generator (a pluggable ConnectionIdGenerator: the embedder chooses it); "
        "affects CID bytes of fixed length only",
    ("cid_generator.rs", "HashedConnectionIdGenerator::new", "rand::rng"):
        "random key of the hashed CID generator; from_key() takes it as input",
    ("cid_generator.rs", "HashedConnectionIdGenerator::generate_cid", "rand::rng"):
        "nonce of a hashed CID (pluggable generator, fixed length): CID bytes only",
    ("congestion/bbr/mod.rs", "Bbr::new", "rand::rng"):
        "BBR seeds a private Pcg32 from the thread RNG for the gain-cycle start offset in enter_probe_bandwidth_mode; "
        "pacing_gain only feeds pacing_rate, which quinn-proto exposes through ControllerMetrics (qlog) and never uses "
        "for window() or the Pacer: twin runs with BBR are observed equal (sim_c20). NOTE: it is ambient entropy that a "
        "seed cannot remove; it reaches the qlog metrics stream",
}

SCOPE_NOTE = ("scope: quinn-proto/src/**/*.rs without tests/, verif_hooks, items under a #[cfg(..test..)] attribute, comments "
              "and string literals; HashMap RandomState / iteration order is out of scope")


def _blank(s):
    return re.sub(r"[^\n]", " ", s)


def strip_comments_strings(src):
    """replace comments, string and char literals by blanks (newlines kept)"""
    out = []
    i, n = 0, len(src)
    while i < n:
        c = src[i]
        two = src[i:i + 2]
        if two == "//":
            j = src.find("\n", i)
            j = n if j < 0 else j
            out.append(" " * (j - i))
            i = j
        elif two == "/*":
            depth, j = 1, i + 2
            while j < n and depth:
                if src[j:j + 2] == "/*":
                    depth += 1
                    j += 2
                elif src[j:j + 2] == "*/":
                    depth -= 1
                    j += 2
                else:
                    j += 1
            out.append(_blank(src[i:j]))
            i = j
        elif c == "r" and re.match(r'r#*"', src[i:i + 12]) and (i == 0 or not (src[i - 1].isalnum() or src[i - 1] == "_")):
            m = re.match(r'r(#*)"', src[i:])
            close = '"' + m.group(1)
            j = src.find(close, i + len(m.group(0)))
            j = n if j < 0 else j + len(close)
            out.append(_blank(src[i:j]))
            i = j
        elif c == '"':
            j = i + 1
            while j < n and src[j] != '"':
                j += 2 if src[j] == "\\" else 1
            j = min(n, j + 1)
            out.append(_blank(src[i:j]))
            i = j
        elif c == "'":
            m = re.match(r"'(\\.[^']*|[^'\\])'", src[i:])
            if m:
                out.append(" " * len(m.group(0)))
                i += len(m.group(0))
            else:
                out.append(c)   # lifetime
                i += 1
        else:
            out.append(c)
            i += 1
    return "".join(out)


def _item_end(src, i):
    """end of the item starting at i: the first `;` before any `{`, else the matching `}`"""
    n = len(src)
    j = i
    while j < n and src[j] not in ";{":
        j += 1
    if j >= n or src[j] == ";":
        return min(n, j + 1)
    depth = 0
    while j < n:
        if src[j] == "{":
            depth += 1
        elif src[j] == "}":
            depth -= 1
            if depth == 0:
                return j + 1
        j += 1
    return n


def strip_test_items(src):
    """blank every item that carries a cfg attribute mentioning `test`"""
    pat = re.compile(r"#\[cfg\((?:[^\[\]]*\W)?test(?:\W[^\[\]]*)?\)\]")
    while True:
        m = pat.search(src)
        if not m:
            return src
        e = _item_end(src, m.end())
        src = src[:m.start()] + _blank(src[m.start():e]) + src[e:]


def strip_use(src):
    return re.sub(r"(?m)^[ \t]*(?:pub(?:\([^)]*\))?[ \t]+)?use\s[^;]*;", lambda m: _blank(m.group(0)), src)


def scan_file(text):
    """[(qualified function, pattern name, line)]"""
    src = strip_use(strip_test_items(strip_comments_strings(text)))
    # scope stack of (kind, name, depth-before-open)
    events = []
    for m in re.finditer(r"\bfn\s+([A-Za-z_]\w*)", src):
        events.append((m.start(), "fn", m.group(1)))
    for m in re.finditer(r"\bimpl\b([^{;]*)\{", src):
        head = m.group(1)
        head = re.sub(r"^\s*<[^>]*(?:<[^>]*>[^>]*)*>", "", head)      # generics of the impl
        if " for " in head:
            head = head.split(" for ", 1)[1]
        head = head.split(" where ")[0].strip()
        name = re.match(r"[&\s]*(?:dyn\s+)?([A-Za-z_][\w:]*)", head)
        events.append((m.start(), "impl", name.group(1).split("::")[-1] if name else "?"))
    for name, rx in PATTERNS:
        for m in re.finditer(rx, src):
            events.append((m.start(), "hit", name))
    events.sort()
    res = []
    stack = []        # (kind, name, depth at which its block was opened)
    pending = None    # (kind, name, bracket depth) waiting for its `{`
    depth = 0
    pd = 0            # ( [ nesting: a `;` inside `[u8; 32]` does not end a signature
    ei = 0
    i, n = 0, len(src)
    while i < n:
        while ei < len(events) and events[ei][0] == i:
            _, kind, name = events[ei]
            ei += 1
            if kind == "hit":
                fns = [s for s in stack if s[0] == "fn"]
                impls = [s for s in stack if s[0] == "impl"]
                fn = fns[0][1] if fns else (pending[1] if pending and pending[0] == "fn" else "<item>")
                # outermost fn: closures / nested fns are attributed to it
                q = (impls[-1][1] + "::" if impls else "") + fn
                res.append((q, name, src.count("\n", 0, i) + 1))
            else:
                pending = (kind, name, pd)
        c = src[i]
        if c in "([":
            pd += 1
        elif c in ")]":
            pd -= 1
        if c == "{":
            if pending:
                stack.append((pending[0], pending[1], depth))
                pending = None
            depth += 1
        elif c == "}":
            depth -= 1
            while stack and stack[-1][2] >= depth:
                stack.pop()
        elif c == ";" and pending and pending[0] == "fn" and pd == pending[2]:
            pending = None
        i += 1
    return res


def inventory(repo):
    root = os.path.join(repo, "quinn-proto", "src")
    found = {}
    for d, dirs, files in os.walk(root):
        dirs[:] = sorted(x for x in dirs if x not in ("tests", "verif_hooks"))
        for f in sorted(files):
            if not f.endswith(".rs") or f == "verif_hooks.rs":
                continue
            p = os.path.join(d, f)
            rel = os.path.relpath(p, root)
            if rel.split(os.sep)[0] == "tests":
                continue
            for (fn, pat, line) in scan_file(open(p, encoding="utf-8").read()):
                found.setdefault((rel, fn, pat), []).append(line)
    return found


def ambient_inventory(res, binp, tier, seed, workdir):
    found = inventory(qv.REPO)
    new = sorted(k for k in found if k not in ALLOW)
    gone = sorted(k for k in ALLOW if k not in found)
    res.coverage["components"]["ambient_inventory"] = {
        "rule": "static inventory of ambient time/entropy sources; " + SCOPE_NOTE,
        "patterns": [p for p, _ in PATTERNS],
        "sites_found": [{"file": k[0], "function": k[1], "pattern": k[2], "lines": v,
                         "allowlisted": k in ALLOW} for k, v in sorted(found.items())],
        "allowlisted_sites_no_longer_present": [list(k) for k in gone],
        "evaluations": len(found), "distinct_nontrivial": len(found),
    }
    res.coverage["evaluations"] += len(found)
    if gone:
        res.notes.append("ambient inventory: allowlisted sites no longer present: %s" % gone)
    if new:
        runner.log(f"[{res.pid}] ambient-source inventory: {len(new)} site(s) not in the allowlist: {new[:4]}")
        p = runner.write_replay(res.pid, "ambient-inventory", {
            "property": res.pid, "kind": "ambient-source-inventory",
            "what": "the protocol core reads a clock or an entropy source that is not one of the inputs it is given: "
                    "site(s) not in the allowlist of checks/C20.py (each allowlisted site was read and justified)",
            "new_sites": [{"file": "quinn-proto/src/" + k[0], "function": k[1], "pattern": k[2], "lines": found[k]}
                          for k in new],
            "allowlist": [{"file": k[0], "function": k[1], "pattern": k[2], "why": v} for k, v in sorted(ALLOW.items())],
            "how_to_replay": "./check C20   (the inventory is recomputed from the working tree)"})
        res.violations.append((p, " no-failing-input-found"))


SPEC = {
    "id": "C20",
    "components": [
        {"comp": "timer_table", "module": "QV.Model.TimerTable", "quick": 1500, "thorough": 40000},
        # one component per twin variant (sequential: bounds the driver's peak memory on chatty mutants)
        {"comp": "sim_c20_v1", "module": "QV.Sys.MonC20", "quick": 32, "thorough": 600},
        {"comp": "sim_c20_v2", "module": "QV.Sys.MonC20", "quick": 32, "thorough": 600},
        {"comp": "sim_c20_v3", "module": "QV.Sys.MonC20", "quick": 40, "thorough": 800},
        {"comp": "sim_c20_v4", "module": "QV.Sys.MonC20", "quick": 24, "thorough": 400},
        {"comp": "sim_c20_v5", "module": "QV.Sys.MonC20", "quick": 16, "thorough": 300},
        {"comp": "sim_c20_cot", "module": "QV.Sys.MonC20", "quick": 16, "thorough": 300},
    ],
    "extra": [ambient_inventory],
    "assumptions": [
        "the twin-run comparison observes the real state machine on generated histories; it is sampling, not proof",
        "variant 3 (extra calls) compares TX/RX/APP/EVENT/EPEVENT records up to the first instant at which (a) the Pacing timer is "
        "armed: an early poll_transmit legitimately releases pacing-limited data before the Pacing timer (lazy token refill; the "
        "timer waits for a full burst) — the stated footprint of poll_transmit; or (b) a drive ends with an already-due deadline "
        "(a timer armed in the past while a datagram was handled): a handle_timeout call there is not an extra call, it services the "
        "timer before instead of after the pending transmit (different packetisation). After that instant only the per-run rules apply",
        "handler contract of TimerTable.handle_timeout (timeouts_settle): established by reading the nine handlers, not proved "
        "about the Rust code; the PTO handler may re-arm at an instant <= now only while the back-off still doubles "
        "(pto_count < MAX_BACKOFF_EXPONENT) — lateness bound made explicit in the theorem",
        "the static inventory is a textual scan (patterns listed in evidence); an ambient source reached through a "
        "dependency (e.g. HashMap RandomState) is out of scope",
    ],
    "trusted_extra": [
        "checks/C20.py ambient_inventory: textual scanner (comment / string / cfg(test) stripping, enclosing-function attribution)",
        "harness/src/sim.rs twin mode (key 901): run B built from the same scenario with SHIFT_US / SPURIOUS+EARLY_POLL / LATE_US",
    ],
}

MANIFEST = {
    "text": ("Proved in Coq (unbounded, for all states, op sequences and shifts d): time-translation equivariance "
             "(step (shift d s) (shift d op) = shift d (step s op), lifted to op sequences) of the time-carrying component "
             "models TimerTable, Mtud, PendingAcks, StatelessReset, CidState and BloomLog (AckFrequency holds durations only; Lifecycle / Recovery / PathSM were not in the tree) — every use of an instant is a comparison, a "
             "difference or instant + duration; the driver contract on the model of TimerTable + the handle_timeout dispatch loop: "
             "spurious_timeout_noop (no expired timer: state unchanged, no handler runs), timeouts_settle (handlers that re-arm only "
             "at instants > now: ONE call leaves next_timeout None or > now) and timeouts_settle_bounded (a handler may re-arm at an "
             "instant <= now only while a back-off measure decreases: at most measure + 1 calls), next_timeout = minimum of the armed "
             "timers, poll_on_empty_queues_is_noop. TimerTable is tied to the real table by exact correspondence on every run. "
             "PARTIAL: that the Rust state machine has no hidden ambient input is OBSERVED, not proved — twin runs of the real endpoints "
             "(identical replay and all instants shifted by 977_777_777 us must give record-for-record equal traces; added spurious "
             "handle_timeout/poll calls and early wake-ups must leave TX/RX/APP/EVENT/EPEVENT unchanged up to the first instant the "
             "Pacing timer is armed or a timer is armed in the past; timeouts settle within 10 calls at one instant; right after a "
             "handle_timeout call no timer but LossDetection/PushNewCid is due; drained connections are silent) plus a static "
             "inventory of Instant::now / SystemTime::now / thread RNG / SysRng sites compared with a justified allowlist. The handler "
             "contract is established by reading the nine handlers, not proved about the Rust code."),
    "note": ("Trusted: Coq kernel + vm_compute; hand-written models (definitions only) tied by sampling; hook interpreter timer.rs; "
             "simulator twin mode; python driver and the textual inventory scanner. No axioms. Determinism of a Gallina function is "
             "trivial and claims nothing about Rust. Observations: Bbr::new seeds its gain-cycle RNG from the thread RNG (unobservable "
             "in transmits/events; reaches qlog pacing_rate only); a Drained connection may keep its KeyDiscard timer armed "
             "(poll_timeout still Some; no transmit/event)."),
}
