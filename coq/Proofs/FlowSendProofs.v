(** Proofs about Model/FlowSend.v (C05): the credit invariants over all disciplined
    interleavings of application calls with credit frames. *)
From QV Require Import Lib.Tac Lib.Corr Model.FlowSend Proofs.FlowSendAcc.
Open Scope Z_scope.

(** Reduce comparisons of literals ([Z.eqb] is [simpl never]). *)
Ltac red_eqb :=
  repeat match goal with
  | |- context [Z.eqb (Zpos ?a) (Zpos ?b)] =>
      let v := eval vm_compute in (Z.eqb (Zpos a) (Zpos b)) in
      change (Z.eqb (Zpos a) (Zpos b)) with v
  | |- context [Z.eqb Z0 (Zpos ?b)] => change (Z.eqb Z0 (Zpos b)) with false
  | |- context [Z.eqb (Zpos ?b) Z0] => change (Z.eqb (Zpos b) Z0) with false
  | |- context [Z.eqb Z0 Z0] => change (Z.eqb Z0 Z0) with true
  end.
Ltac red_eqb_in H :=
  repeat match type of H with
  | context [Z.eqb (Zpos ?a) (Zpos ?b)] =>
      let v := eval vm_compute in (Z.eqb (Zpos a) (Zpos b)) in
      change (Z.eqb (Zpos a) (Zpos b)) with v in H
  | context [Z.eqb Z0 (Zpos ?b)] => change (Z.eqb Z0 (Zpos b)) with false in H
  | context [Z.eqb (Zpos ?b) Z0] => change (Z.eqb (Zpos b) Z0) with false in H
  | context [Z.eqb Z0 Z0] => change (Z.eqb Z0 Z0) with true in H
  end.

(* ------------------------------------------------------------------------------------------ *)
(** * The stream map *)

Definition offo (v : option Send) : Z := match v with Some x => x.(s_offset) | None => 0 end.
Fixpoint sum_off (m : SMap) : Z :=
  match m with [] => 0 | (_, v) :: t => offo v + sum_off t end.
Definition keys (m : SMap) : list Z := map fst m.

Lemma lookup_update k id v m :
  lookup k (update id v m) =
  if k =? id then match lookup id m with Some _ => Some v | None => None end else lookup k m.
Proof.
  induction m as [|[a w] t IH]; cbn [update lookup].
  - destruct (k =? id); reflexivity.
  - destruct (a =? id) eqn:Ea; cbn [lookup].
    + destruct (k =? id) eqn:Ek.
      * assert (a =? k = true) as -> by lia. reflexivity.
      * destruct (a =? k) eqn:Eak; [lia|reflexivity].
    + destruct (a =? k) eqn:Eak.
      * assert (k =? id = false) as -> by lia. reflexivity.
      * exact IH.
Qed.

Lemma sum_off_update id v m :
  sum_off (update id v m) =
  match lookup id m with Some old => sum_off m - offo old + offo v | None => sum_off m end.
Proof.
  induction m as [|[a w] t IH]; cbn [update lookup sum_off]; [reflexivity|].
  destruct (a =? id) eqn:Ea; cbn [sum_off].
  - lia.
  - rewrite IH. destruct (lookup id t); lia.
Qed.

Lemma keys_update id v m : keys (update id v m) = keys m.
Proof.
  induction m as [|[a w] t IH]; cbn [update keys map fst]; [reflexivity|].
  destruct (a =? id); cbn [map fst]; [reflexivity|]. f_equal. exact IH.
Qed.

Lemma lookup_none_keys id m : lookup id m = None <-> ~ In id (keys m).
Proof.
  induction m as [|[a w] t IH]; cbn [lookup keys map fst In].
  - tauto.
  - destruct (a =? id) eqn:Ea.
    + split; [discriminate|]. intros H. exfalso. apply H. left. lia.
    + rewrite IH. split; intros H; [intros [H1|H1]; [lia|tauto]|tauto].
Qed.

Lemma lookup_remove_neq k id m : k <> id -> lookup k (remove id m) = lookup k m.
Proof.
  intros Hk. induction m as [|[a w] t IH]; cbn [remove lookup]; [reflexivity|].
  destruct (a =? id) eqn:Ea; cbn [lookup].
  - destruct (a =? k) eqn:Eak; [lia|reflexivity].
  - destruct (a =? k); [reflexivity|exact IH].
Qed.

Lemma keys_remove_subset id m k : In k (keys (remove id m)) -> In k (keys m).
Proof.
  induction m as [|[a w] t IH]; cbn [remove keys map fst In]; [tauto|].
  destruct (a =? id); cbn [map fst In]; [tauto|]. intros [H|H]; [tauto|]. right. apply IH. exact H.
Qed.

Lemma NoDup_remove id m : NoDup (keys m) -> NoDup (keys (remove id m)).
Proof.
  induction m as [|[a w] t IH]; cbn [remove keys map fst]; intros H; [constructor|].
  inversion H as [|? ? Hn Hd]; subst.
  destruct (a =? id); cbn [map fst]; [exact Hd|].
  constructor; [|apply IH; exact Hd].
  intros Hin. apply Hn. eapply keys_remove_subset. exact Hin.
Qed.

Lemma lookup_remove_eq id m : NoDup (keys m) -> lookup id (remove id m) = None.
Proof.
  induction m as [|[a w] t IH]; cbn [remove lookup keys map fst]; intros H; [reflexivity|].
  inversion H as [|? ? Hn Hd]; subst.
  destruct (a =? id) eqn:Ea; cbn [lookup].
  - apply lookup_none_keys. assert (a = id) by lia. subst. exact Hn.
  - rewrite Ea. apply IH. exact Hd.
Qed.

Lemma sum_off_remove id m :
  sum_off (remove id m) = match lookup id m with Some old => sum_off m - offo old | None => sum_off m end.
Proof.
  induction m as [|[a w] t IH]; cbn [remove lookup sum_off]; [reflexivity|].
  destruct (a =? id) eqn:Ea; cbn [sum_off]; [lia|].
  rewrite IH. destruct (lookup id t); lia.
Qed.

Lemma lookup_insert k id v m :
  lookup id m = None ->
  lookup k (insert id v m) = if k =? id then Some v else lookup k m.
Proof.
  induction m as [|[a w] t IH]; cbn [insert lookup]; intros Hn.
  - destruct (id =? k) eqn:E1, (k =? id) eqn:E2; try lia; reflexivity.
  - destruct (a =? id) eqn:Ea; [discriminate|].
    destruct (id <? a) eqn:El; cbn [lookup].
    + destruct (id =? k) eqn:E1, (k =? id) eqn:E2; try lia; reflexivity.
    + destruct (a =? k) eqn:Eak.
      * assert (k =? id = false) as -> by lia. reflexivity.
      * apply IH. exact Hn.
Qed.

Lemma keys_insert k id v m : In k (keys (insert id v m)) <-> k = id \/ In k (keys m).
Proof.
  induction m as [|[a w] t IH]; cbn [insert keys map fst In].
  - intuition.
  - destruct (id <? a); cbn [map fst In].
    + intuition.
    + fold (keys (insert id v t)). fold (keys t). rewrite IH. intuition.
Qed.

Lemma NoDup_insert id v m : NoDup (keys m) -> lookup id m = None -> NoDup (keys (insert id v m)).
Proof.
  induction m as [|[a w] t IH]; cbn [insert keys map fst lookup]; intros H Hn.
  - constructor; [intros []|constructor].
  - destruct (a =? id) eqn:Ea; [discriminate|].
    inversion H as [|? ? Hna Hd]; subst.
    destruct (id <? a); cbn [map fst].
    + constructor; [|exact H]. cbn [In]. intros [H1|H1]; [lia|].
      apply lookup_none_keys in Hn. apply Hn. exact H1.
    + constructor.
      * fold (keys (insert id v t)). rewrite keys_insert. intros [H1|H1]; [lia|]. apply Hna. exact H1.
      * apply IH; assumption.
Qed.

Lemma sum_off_insert_none id m : sum_off (insert id None m) = sum_off m.
Proof.
  induction m as [|[a w] t IH]; cbn [insert sum_off offo]; [reflexivity|].
  destruct (id <? a); cbn [sum_off offo]; lia.
Qed.

(** Stream-id arithmetic *)
Lemma id_init_sid i d k : 0 <= i <= 1 -> 0 <= d <= 1 -> 0 <= k -> id_init (sid i d k) = i.
Proof. unfold id_init, sid. intros. lia. Qed.
Lemma id_dir_sid i d k : 0 <= i <= 1 -> 0 <= d <= 1 -> 0 <= k -> id_dir (sid i d k) = d.
Proof. unfold id_dir, sid. intros. lia. Qed.
Lemma id_index_sid i d k : 0 <= i <= 1 -> 0 <= d <= 1 -> 0 <= k -> id_index (sid i d k) = k.
Proof. unfold id_index, sid. intros. lia. Qed.
Lemma sid_decompose id : 0 <= id -> id = sid (id_init id) (id_dir id) (id_index id).
Proof. unfold sid, id_init, id_dir, id_index. intros. lia. Qed.
Lemma norm_dir_range d : 0 <= norm_dir d <= 1.
Proof. unfold norm_dir. destruct (d =? 0); lia. Qed.

(* ------------------------------------------------------------------------------------------ *)
(** * Ghost state: what the peer has actually delivered since the last (re)start *)

Record Ghost := mkGhost {
  g_phase : Z;                 (** 0 early (0-RTT), 1 rejected — awaiting the new parameters, 2 main *)
  g_par : Params;              (** the transport parameters in force *)
  g_md : list Z;               (** connection limits delivered: initial_max_data and MAX_DATA values *)
  g_msd : list (Z * Z);        (** MAX_STREAM_DATA (id, value) frames delivered *)
  g_ms : list (Z * Z);         (** stream-count limits delivered (dir, count): parameters and MAX_STREAMS *)
  g_closed : Z                 (** final offsets of streams already removed from the map *)
}.

Definition lmax (l : list Z) : Z := fold_right Z.max 0 l.
Definition kmax (k : Z) (l : list (Z * Z)) : Z :=
  lmax (map snd (filter (fun kv : Z * Z => fst kv =? k) l)).

Definition par_for (p : Params) (sd id : Z) : Z :=
  if id_dir id =? 1 then p.(p_sd_uni)
  else if id_init id =? sd then p.(p_sd_bidi_remote)
  else p.(p_sd_bidi_local).

(** The limit of stream [id] "current" in the sense of the property: the largest value conveyed in
    the transport parameters or in MAX_STREAM_DATA frames that actually arrived. *)
Definition delivered_stream_limit (g : Ghost) (sd id : Z) : Z :=
  Z.max (par_for g.(g_par) sd id) (kmax id g.(g_msd)).

Definition pge_params (p q : Params) : bool :=
  (q.(p_max_data) <=? p.(p_max_data)) && (q.(p_streams_bidi) <=? p.(p_streams_bidi))
  && (q.(p_streams_uni) <=? p.(p_streams_uni)) && (q.(p_sd_bidi_local) <=? p.(p_sd_bidi_local))
  && (q.(p_sd_bidi_remote) <=? p.(p_sd_bidi_remote)) && (q.(p_sd_uni) <=? p.(p_sd_uni)).

Definition in_map_remote (s : State) (id : Z) : bool :=
  negb (id_init id =? s.(side)) && match lookup id s.(send) with Some _ => true | None => false end.

(** The application uses a remote stream that exists only after [accept] returned it. *)
Definition app_ok (s : State) (id : Z) : bool :=
  (0 <=? id) && (negb (in_map_remote s id) || (id_index id <? s.(next_reported_bi))).

Definition is_app (c : Z) : bool := (c =? 3) || (c =? 4) || (c =? 5).
Definition is_neutral (c : Z) : bool :=
  (c =? 2) || (c =? 9) || (c =? 13) || (c =? 15) || (c =? 19) || (c =? 21).

(** Admissible operations (the discipline of [Connection], see Model/FlowSend.v [wf_static]). *)
Definition adm (g : Ghost) (s : State) (op : list Z) : bool :=
  let c := arg op 0 in
  let id := arg op 1 in
  if g.(g_phase) =? 1 then (c =? 1) && params_valid (params_of op)
  else if c =? 21 then (g.(g_phase) =? 0) && (s.(side) =? 0)
  else if is_neutral c then true
  else if is_app c then app_ok s id && (0 <=? arg op 2)
  else if c =? 1 then (g.(g_phase) =? 0) && params_valid (params_of op) && pge_params (params_of op) g.(g_par)
  else if c =? 14 then g.(g_phase) =? 0
  else if c =? 6 then is_varint id
  else if c =? 7 then (0 <=? id) && (0 <=? arg op 2)
  else if c =? 8 then 0 <=? arg op 2
  else if (c =? 10) || (c =? 11) || (c =? 17) || (c =? 18) then true
  else if c =? 16 then (0 <=? id) && is_varint (arg op 2)
  else false.

Definition removed_off (id : Z) (s s' : State) : Z :=
  match lookup id s.(send), lookup id s'.(send) with
  | Some (Some x), None => x.(s_offset)
  | _, _ => 0
  end.

Definition frame_id (k : Z) (s : State) : Z :=
  if k <? 0 then -1
  else match log_get (Z.to_nat k) s.(log) with Some ((id, _, _, _), _) => id | None => -1 end.

(** Ghost update for an executed operation ([s] before, [s'] after, [r] the result). *)
Definition gupd (g : Ghost) (s : State) (op : list Z) (s' : State) (r : list Z) : Ghost :=
  let c := arg op 0 in
  let id := arg op 1 in
  if c =? 14 then mkGhost 1 g.(g_par) [] [] g.(g_ms) 0
  else if c =? 1 then
    let p := params_of op in
    if params_valid p then
      mkGhost 2 p (p.(p_max_data) :: g.(g_md)) g.(g_msd)
              ((0, p.(p_streams_bidi)) :: (1, p.(p_streams_uni))
               :: (if g.(g_phase) =? 1 then [] else g.(g_ms))) g.(g_closed)
    else g
  else
    let ph := if (g.(g_phase) =? 0) && (is_neutral c || (is_app c && id_local s.(side) id))
              then 0 else 2 in
    let md := if (c =? 6) && is_varint id then id :: g.(g_md) else g.(g_md) in
    let msd := if (c =? 7) && (arg r 0 =? 0) then (id, arg op 2) :: g.(g_msd) else g.(g_msd) in
    let ms := if (c =? 8) && (arg r 0 =? 0) then (norm_dir id, arg op 2) :: g.(g_ms) else g.(g_ms) in
    let cl := if c =? 10 then g.(g_closed) + removed_off (frame_id id s) s s'
              else if c =? 17 then g.(g_closed) + removed_off id s s'
              else g.(g_closed) in
    mkGhost ph g.(g_par) md msd ms cl.

(** One step of the ghost-instrumented machine: inadmissible operations are skipped; a panic
    stops the machine in the state it was in (the theorems below show which checked operations can
    never fail). *)
Definition gstep (sg : State * Ghost) (op : list Z) : State * Ghost :=
  let '(s, g) := sg in
  if adm g s op then
    match apply op s with
    | Some (s', r) => (s', gupd g s op s' r)
    | None => (s, g)
    end
  else (s, g).

Definition ghost0 (p : Params) : Ghost :=
  mkGhost 0 p [p.(p_max_data)] [] [(0, p.(p_streams_bidi)); (1, p.(p_streams_uni))] 0.

Definition start (sd mrb sw : Z) (p0 : Params) : State * Ghost :=
  (do_set_params p0 (init sd mrb sw), ghost0 p0).

Definition grun (i : ops) (sg : State * Ghost) : State * Ghost := fold_left gstep i sg.

(* ------------------------------------------------------------------------------------------ *)
(** * The invariant *)

Definition early_facts (s : State) (g : Ghost) : Prop :=
  (forall id v, lookup id s.(send) = Some v -> id_init id <> s.(side) -> v = None)
  /\ g.(g_msd) = []
  /\ (g.(g_phase) = 0 ->
        s.(max_bi) = g.(g_par).(p_streams_bidi) /\ s.(max_uni) = g.(g_par).(p_streams_uni)
        /\ forall d i, 0 <= d <= 1 -> 0 <= i < get_next d s -> lookup (sid s.(side) d i) s.(send) <> None)
  /\ (g.(g_phase) = 1 ->
        s.(next_bi) = 0 /\ s.(next_uni) = 0 /\ s.(data_sent) = 0 /\ s.(max_data) = 0
        /\ s.(unacked_data) = 0
        /\ g.(g_md) = [] /\ g.(g_closed) = 0).

Record Inv (s : State) (g : Ghost) : Prop := mkInv {
  i_side : 0 <= s.(side) <= 1;
  i_phase : 0 <= g.(g_phase) <= 2;
  i_pv : params_valid g.(g_par) = true;
  i_par : s.(sd_uni) = g.(g_par).(p_sd_uni) /\ s.(sd_bidi_local) = g.(g_par).(p_sd_bidi_local)
          /\ s.(sd_bidi_remote) = g.(g_par).(p_sd_bidi_remote);
  i_md : s.(max_data) = lmax g.(g_md);
  i_ds : 0 <= s.(data_sent) <= s.(max_data);
  i_sum : s.(data_sent) = sum_off s.(send) + g.(g_closed);
  i_str : forall id x, lookup id s.(send) = Some (Some x) ->
            0 <= x.(s_offset) <= x.(s_max_data)
            /\ x.(s_max_data) <= delivered_stream_limit g s.(side) id;
  i_cnt : forall d, 0 <= d <= 1 ->
            0 <= get_next d s <= get_max d s /\ get_max d s = kmax d g.(g_ms);
  i_nodup : NoDup (keys s.(send));
  i_keys : forall id, In id (keys s.(send)) ->
             0 <= id /\ (id_init id = s.(side) -> id_index id < get_next (id_dir id) s);
  i_unacked : 0 <= s.(unacked_data);
  i_early : g.(g_phase) <> 2 -> early_facts s g
}.

(** The fields the invariant reads. *)
Definition core (s : State) :=
  (s.(side), s.(max_data), s.(data_sent), s.(unacked_data), s.(send),
   (s.(sd_uni), s.(sd_bidi_local), s.(sd_bidi_remote)),
   (s.(next_bi), s.(next_uni), s.(max_bi), s.(max_uni))).

Lemma Inv_ext s s' g : core s = core s' -> Inv s g -> Inv s' g.
Proof.
  destruct s, s'. unfold core. cbn. intros H. injection H as; subst.
  intros [A B C D E F G H I J K L M].
  constructor; unfold early_facts, get_next, get_max in *; cbn in *; assumption.
Qed.

Ltac solve_core := unfold put, push_pending; repeat match goal with s : State |- _ => destruct s end; reflexivity.

(* ------------------------------------------------------------------------------------------ *)
(** * Credit-preserving changes *)

Definition rest (s : State) :=
  (s.(side), s.(max_data), s.(data_sent), s.(unacked_data),
   (s.(sd_uni), s.(sd_bidi_local), s.(sd_bidi_remote)),
   (s.(next_bi), s.(next_uni), s.(max_bi), s.(max_uni))).

Definition entry_rel (a b : option (option Send)) : Prop :=
  match a, b with
  | None, None => True
  | Some None, Some None => True
  | Some (Some x), Some (Some x') => x'.(s_offset) = x.(s_offset) /\ x'.(s_max_data) = x.(s_max_data)
  | _, _ => False
  end.

(** [sc s s']: [s'] differs from [s] only in fields the invariant does not read and in
    per-stream fields other than offset and limit. *)
Definition sc (s s' : State) : Prop :=
  rest s = rest s' /\ keys s.(send) = keys s'.(send) /\ sum_off s.(send) = sum_off s'.(send)
  /\ forall id, entry_rel (lookup id s.(send)) (lookup id s'.(send)).

Lemma entry_rel_refl a : entry_rel a a.
Proof. destruct a as [[x|]|]; cbn; auto. Qed.

Lemma sc_refl s : sc s s.
Proof. repeat split; auto. intros. apply entry_rel_refl. Qed.

Lemma sc_trans a b c : sc a b -> sc b c -> sc a c.
Proof.
  intros (R1 & K1 & S1 & E1) (R2 & K2 & S2 & E2). repeat split; try congruence.
  intros id. specialize (E1 id). specialize (E2 id).
  destruct (lookup id (send a)) as [[x|]|], (lookup id (send b)) as [[y|]|], (lookup id (send c)) as [[z|]|];
    cbn in *; try tauto. destruct E1, E2. split; congruence.
Qed.

Lemma sc_core s s' : core s = core s' -> sc s s'.
Proof.
  destruct s, s'. unfold core. cbn. intros H. injection H as; subst.
  unfold sc, rest. cbn. repeat split. intros. apply entry_rel_refl.
Qed.

Ltac sc_irrel := apply sc_core; solve_core.

Lemma sc_put s id x x' :
  lookup id s.(send) = Some (Some x) ->
  x'.(s_offset) = x.(s_offset) -> x'.(s_max_data) = x.(s_max_data) ->
  sc s (put id x' s).
Proof.
  intros L Ho Hm. unfold put. destruct s. unfold sc, rest. cbn in *.
  split; [reflexivity|]. split; [|split].
  - symmetry. apply keys_update.
  - rewrite sum_off_update, L. cbn [offo]. lia.
  - intros k. rewrite lookup_update. destruct (k =? id) eqn:E.
    + assert (k = id) by lia. subst. rewrite L. cbn. auto.
    + apply entry_rel_refl.
Qed.

Lemma sc_inv s s' g : Inv s g -> sc s s' -> Inv s' g.
Proof.
  intros I (R & K & S & E). destruct s, s'. unfold rest in R. cbn in *. injection R as; subst.
  destruct I as [A B C D E1 F G H I J K1 L M].
  unfold early_facts, get_next, get_max in *; cbn in *.
  constructor; cbn; try assumption.
  - lia.
  - intros id x Lk. specialize (E id). rewrite Lk in E.
    destruct (lookup id send) as [[y|]|] eqn:Ly; cbn in E; try tauto.
    destruct E as [Eo Em]. specialize (H id y Ly). rewrite Eo, Em. exact H.
  - rewrite <- K. exact J.
  - rewrite <- K. exact K1.
  - intros Hp. specialize (M Hp). destruct M as (M1 & M2 & M3 & M4). repeat split; try assumption; try (cbn; apply M4; assumption).
    + intros id v Lk Hr. cbn in Lk, Hr. specialize (E id). rewrite Lk in E.
      destruct (lookup id send) as [[y|]|] eqn:Ly; cbn in E.
      * specialize (M1 id (Some y) Ly Hr). discriminate.
      * destruct v; [tauto|reflexivity].
      * destruct v as [v|]; tauto.
    + apply M3; assumption.
    + apply M3; assumption.
    + intros d i Hd Hi. cbn in *. destruct (M3 H0) as (_ & _ & M5). specialize (M5 d i Hd Hi).
      specialize (E (sid side0 d i)).
      destruct (lookup (sid side0 d i) send) as [[y|]|]; [| |congruence];
        destruct (lookup (sid side0 d i) send0) as [[z|]|]; cbn in E; try tauto; discriminate.
Qed.

(** Setting one entry (touch, or raising the stream limit). *)
Lemma inv_set_entry s g id old x' :
  Inv s g -> lookup id s.(send) = Some old -> offo old = x'.(s_offset) ->
  0 <= x'.(s_offset) <= x'.(s_max_data) ->
  x'.(s_max_data) <= delivered_stream_limit g s.(side) id ->
  (g.(g_phase) <> 2 -> id_init id = s.(side)) ->
  Inv (put id x' s) g.
Proof.
  intros I L Ho Hr Hl Hloc. unfold put. destruct s.
  destruct I as [A B C D E1 F G H I J K1 L1 M].
  unfold early_facts, get_next, get_max in *; cbn in *.
  constructor; cbn; try assumption.
  - rewrite sum_off_update, L. cbn [offo]. lia.
  - intros k x Lk. rewrite lookup_update in Lk. destruct (k =? id) eqn:E.
    + assert (k = id) by lia. subst. rewrite L in Lk. injection Lk as <-. split; assumption.
    + apply H. exact Lk.
  - rewrite keys_update. exact J.
  - rewrite keys_update. exact K1.
  - intros Hp. specialize (M Hp). specialize (Hloc Hp). destruct M as (M1 & M2 & M3 & M4).
    repeat split; try assumption; try (cbn; apply M4; assumption).
    + intros k v Lk Hr'. cbn in Lk, Hr'. rewrite lookup_update in Lk. destruct (k =? id) eqn:E.
      * assert (k = id) by lia. subst. contradiction.
      * eapply M1; eassumption.
    + apply M3; assumption.
    + apply M3; assumption.
    + intros d i Hd Hi. cbn in *. destruct (M3 H0) as (_ & _ & M5). specialize (M5 d i Hd Hi).
      rewrite lookup_update. destruct (sid side d i =? id) eqn:E; [|exact M5].
      rewrite L. discriminate.
Qed.

Lemma par_nonneg g sd id : params_valid g.(g_par) = true -> 0 <= par_for g.(g_par) sd id.
Proof.
  unfold params_valid, is_varint, par_for. intros H.
  destruct (id_dir id =? 1), (id_init id =? sd); lia.
Qed.

Lemma msd_par s g id : Inv s g -> max_send_data s id = par_for g.(g_par) s.(side) id.
Proof.
  intros I. destruct (i_par _ _ I) as (A & B & C). unfold max_send_data, par_for.
  rewrite A, B, C. reflexivity.
Qed.

(** [touch]: either the entry existed, or it is created with the parameter in force. *)
Lemma touch_inv s g id x s1 :
  Inv s g -> touch id s = Some (x, s1) -> (g.(g_phase) <> 2 -> id_init id = s.(side)) ->
  Inv s1 g /\ lookup id s1.(send) = Some (Some x) /\ rest s1 = rest s
  /\ (forall k, k <> id -> lookup k s1.(send) = lookup k s.(send))
  /\ (lookup id s.(send) = Some (Some x) \/ lookup id s.(send) = Some None /\ x.(s_offset) = 0).
Proof.
  intros I T Hloc. unfold touch in T.
  destruct (lookup id (send s)) as [[y|]|] eqn:L; [| |discriminate].
  - injection T as <- <-. split; [exact I|]. split; [first [exact L|reflexivity]|]. split; [reflexivity|].
    split; [auto|left; first [exact L|reflexivity]].
  - injection T as <- <-.
    assert (Hi : Inv (put id (new_send (max_send_data s id)) s) g).
    { eapply inv_set_entry; eauto; cbn.
      - rewrite (msd_par _ _ _ I). pose proof (par_nonneg g (side s) id (i_pv _ _ I)). lia.
      - rewrite (msd_par _ _ _ I). unfold delivered_stream_limit. lia. }
    unfold put in *. split; [exact Hi|]. split; [|split; [|split]].
    + destruct s; cbn in *. rewrite lookup_update, Z.eqb_refl, L. reflexivity.
    + destruct s; reflexivity.
    + intros k Hk. destruct s; cbn in *. rewrite lookup_update.
      destruct (k =? id) eqn:E; [lia|reflexivity].
    + right. split; [reflexivity|reflexivity].
Qed.

(** Ghost changes that only enlarge what was delivered. *)
Lemma inv_phase2 s g :
  Inv s g -> Inv s (mkGhost 2 g.(g_par) g.(g_md) g.(g_msd) g.(g_ms) g.(g_closed)).
Proof.
  intros [A B C D E1 F G H I J K1 L M]. constructor; cbn; try assumption; try lia.
Qed.

Lemma ghost_eta g : mkGhost g.(g_phase) g.(g_par) g.(g_md) g.(g_msd) g.(g_ms) g.(g_closed) = g.
Proof. destruct g; reflexivity. Qed.

(* ------------------------------------------------------------------------------------------ *)
(** * Per-operation preservation *)

Lemma write_limit_some s g : Inv s g ->
  write_limit s = Some (Z.min (s.(max_data) - s.(data_sent)) (Z.max 0 (s.(send_window) - s.(unacked_data)))).
Proof.
  intros I. unfold write_limit. pose proof (i_ds _ _ I).
  destruct (max_data s <? data_sent s) eqn:E; [lia|reflexivity].
Qed.

(** The heart of [write]: [w] more bytes on stream [id]. *)
Lemma inv_write_core s g id x x' w :
  Inv s g -> lookup id s.(send) = Some (Some x) ->
  0 <= w -> w <= x.(s_max_data) - x.(s_offset) -> w <= s.(max_data) - s.(data_sent) ->
  x'.(s_offset) = x.(s_offset) + w -> x'.(s_max_data) = x.(s_max_data) ->
  Inv (set_unacked_data (s.(unacked_data) + w) (set_data_sent (s.(data_sent) + w) (put id x' s))) g.
Proof.
  intros I L Hw Hb Hc Ho Hm. unfold put. destruct s.
  destruct I as [A B C D E1 F G H I J K1 L1 M].
  unfold early_facts, get_next, get_max in *; cbn in *.
  pose proof (H id x L) as Hx.
  constructor; cbn; try assumption; try lia.
  - rewrite sum_off_update, L. cbn [offo]. lia.
  - intros k y Lk. rewrite lookup_update in Lk. destruct (k =? id) eqn:E.
    + assert (k = id) by lia. subst. rewrite L in Lk. injection Lk as <-. rewrite Ho, Hm. lia.
    + apply H. exact Lk.
  - rewrite keys_update. exact J.
  - rewrite keys_update. exact K1.
  - intros Hp. specialize (M Hp). destruct M as (M1 & M2 & M3 & M4).
    repeat split; try assumption.
    + intros k v Lk Hr'. cbn in Lk, Hr'. rewrite lookup_update in Lk. destruct (k =? id) eqn:E.
      * assert (k = id) by lia. subst. specialize (M1 id (Some x) L Hr'). discriminate.
      * eapply M1; eassumption.
    + apply M3; assumption.
    + apply M3; assumption.
    + intros d i Hd Hi. cbn in *. destruct (M3 H0) as (_ & _ & M5). specialize (M5 d i Hd Hi).
      rewrite lookup_update. destruct (sid side d i =? id) eqn:E; [|exact M5].
      rewrite L. discriminate.
    + cbn. destruct (M4 H0) as (_ & _ & Q1 & Q2 & _). lia.
    + cbn. destruct (M4 H0) as (_ & _ & Q1 & Q2 & _). lia.
    + cbn. destruct (M4 H0) as (_ & _ & Q1 & Q2 & _). lia.
    + cbn. destruct (M4 H0) as (_ & _ & Q1 & Q2 & Q3 & _). lia.
    + cbn. destruct (M4 H0) as (_ & _ & Q1 & Q2 & Q3 & _). lia.
    + apply M4; assumption.
    + apply M4; assumption.
Qed.

Lemma rest_fields s1 s : rest s1 = rest s ->
  side s1 = side s /\ max_data s1 = max_data s /\ data_sent s1 = data_sent s
  /\ unacked_data s1 = unacked_data s.
Proof. unfold rest. intros H. injection H as. auto. Qed.

Lemma write_inv s g id n s' r :
  Inv s g -> do_write id n s = Some (s', r) -> 0 <= n ->
  (g.(g_phase) <> 2 -> id_init id = s.(side)) -> Inv s' g.
Proof.
  intros I W Hn Hloc. unfold do_write in W. rewrite (write_limit_some _ _ I) in W.
  destruct (touch id s) as [[x s1]|] eqn:T.
  2:{ injection W as <- _. exact I. }
  destruct (touch_inv _ _ _ _ _ I T Hloc) as (I1 & L1 & R1 & _ & _).
  destruct (rest_fields _ _ R1) as (Rs & Rm & Rd & Ru).
  set (limit := Z.min (max_data s - data_sent s) (Z.max 0 (send_window s - unacked_data s))) in *.
  destruct (limit =? 0) eqn:El.
  { destruct (s_cb x).
    - injection W as <- _. exact I1.
    - injection W as <- _. eapply sc_inv; [exact I1|].
      eapply sc_trans; [apply (sc_put s1 id x (set_s_cb true x) L1); destruct x; reflexivity|]. sc_irrel. }
  destruct (negb (s_state x =? 0)); [injection W as <- _; exact I1|].
  destruct (s_stop x); [injection W as <- _; exact I1|].
  destruct (s_max_data x <? s_offset x) eqn:Eb; [discriminate|].
  destruct (s_max_data x - s_offset x =? 0) eqn:Eb0; [injection W as <- _; exact I1|].
  set (w := Z.min n (Z.min limit (s_max_data x - s_offset x))) in *.
  set (x' := set_s_ulen (s_ulen x + w) (set_s_offset (s_offset x + w) x)) in *.
  assert (Hcore : Inv (set_unacked_data (unacked_data s1 + w)
                         (set_data_sent (data_sent s1 + w) (put id x' s1))) g).
  { pose proof (i_ds _ _ I) as Hds.
    apply (inv_write_core s1 g id x x' w I1 L1); subst w x' limit; try lia;
      try (destruct x; reflexivity). }
  unfold ok in W.
  match type of W with Some (?st, _) = _ => assert (Hs : core st = core (set_unacked_data (unacked_data s1 + w)
                         (set_data_sent (data_sent s1 + w) (put id x' s1)))) end.
  { destruct (is_pending x); solve_core. }
  injection W as <- _. eapply Inv_ext; [symmetry; exact Hs|exact Hcore].
Qed.

(** Connection-level credit frame. *)
Lemma max_data_inv s g v :
  Inv s g -> 0 <= v -> g.(g_phase) <> 1 ->
  Inv (do_max_data v s) (mkGhost g.(g_phase) g.(g_par) (v :: g.(g_md)) g.(g_msd) g.(g_ms) g.(g_closed)).
Proof.
  intros I Hv Hp1. unfold do_max_data. destruct s.
  destruct I as [A B C D E1 F G H I J K1 L M].
  unfold early_facts, get_next, get_max, delivered_stream_limit in *; cbn in *.
  constructor; cbn; try assumption; try lia.
  - unfold lmax in *. cbn [fold_right] in *. lia.
  - intros Hp. specialize (M Hp). destruct M as (M1 & M2 & M3 & M4).
    unfold early_facts, get_next; cbn.
    split; [exact M1|]. split; [exact M2|]. split; [exact M3|]. intros Hq. contradiction.
Qed.

(* ------------------------------------------------------------------------------------------ *)
(** * The initial state satisfies the invariant *)

Lemma remote_bi_spec sd n : 0 <= sd <= 1 ->
  NoDup (keys (remote_bi sd n [])) /\
  (forall k, In k (keys (remote_bi sd n [])) -> exists j, 0 <= j < Z.of_nat n /\ k = sid (1 - sd) 0 j) /\
  (forall k v, lookup k (remote_bi sd n []) = Some v -> v = None) /\
  sum_off (remote_bi sd n []) = 0.
Proof.
  intros Hs. induction n as [|n IH]; cbn [remote_bi].
  - repeat split; cbn; try constructor; try tauto; try discriminate.
  - destruct IH as (N & K & V & S).
    assert (Ln : lookup (sid (1 - sd) 0 (Z.of_nat n)) (remote_bi sd n []) = None).
    { apply lookup_none_keys. intros Hin. destruct (K _ Hin) as (j & Hj & E). unfold sid in E. lia. }
    split; [apply NoDup_insert; assumption|]. split; [|split].
    + intros k Hin. apply keys_insert in Hin. destruct Hin as [->|Hin].
      * exists (Z.of_nat n). lia.
      * destruct (K _ Hin) as (j & Hj & E). exists j. lia.
    + intros k v Lk. rewrite lookup_insert in Lk by assumption.
      destruct (k =? sid (1 - sd) 0 (Z.of_nat n)); [congruence|eapply V; eassumption].
    + rewrite sum_off_insert_none. exact S.
Qed.

Lemma Forall_insert (P : Z * option Send -> Prop) id v m :
  P (id, v) -> Forall P m -> Forall P (insert id v m).
Proof.
  intros Hp. induction m as [|[a w] t IH]; intros H; cbn [insert].
  - constructor; [exact Hp|constructor].
  - inversion H; subst. destruct (id <? a); constructor; auto.
Qed.

Lemma remote_bi_allnone sd n : Forall (fun kv : Z * option Send => snd kv = None) (remote_bi sd n []).
Proof.
  induction n as [|n IH]; cbn [remote_bi]; [constructor|].
  apply Forall_insert; [reflexivity|exact IH].
Qed.

Lemma set_remote_limits_none sd lim m :
  Forall (fun kv : Z * option Send => snd kv = None) m -> set_remote_limits sd lim m = m.
Proof.
  induction 1 as [|[k v] t Hv _ IH]; cbn [set_remote_limits map]; [reflexivity|].
  cbn in Hv. subst v. f_equal. exact IH.
Qed.

Lemma kmax_two d b u : 0 <= d <= 1 -> 0 <= b -> 0 <= u ->
  kmax d [(0, b); (1, u)] = if d =? 0 then b else u.
Proof.
  intros Hd Hb Hu. unfold kmax, lmax. cbn [filter fst snd].
  assert (d = 0 \/ d = 1) as [Hd0|Hd0] by lia; rewrite Hd0; red_eqb; cbn; lia.
Qed.

Lemma start_state sd mrb sw p :
  do_set_params p (init sd mrb sw) =
  mkState sd mrb 0 0 p.(p_streams_bidi) p.(p_streams_uni) (Z.max 0 p.(p_max_data)) 0 0 sw 0
          p.(p_sd_uni) p.(p_sd_bidi_local) p.(p_sd_bidi_remote) false false
          (set_remote_limits sd p.(p_sd_bidi_local) (remote_bi sd (Z.to_nat mrb) []))
          [] [] [] false 0 0 [].
Proof. reflexivity. Qed.

Lemma inv_start sd mrb sw p0 :
  0 <= sd <= 1 -> params_valid p0 = true ->
  Inv (fst (start sd mrb sw p0)) (snd (start sd mrb sw p0)).
Proof.
  intros Hs Hv. unfold start. cbn [fst snd]. rewrite start_state.
  destruct (remote_bi_spec sd (Z.to_nat mrb) Hs) as (N & K & V & S).
  pose proof (remote_bi_allnone sd (Z.to_nat mrb)) as An.
  rewrite (set_remote_limits_none _ _ _ An).
  pose proof Hv as Hv'. unfold params_valid, is_varint in Hv'.
  constructor; unfold early_facts, get_next, get_max, ghost0; cbn [side max_data data_sent unacked_data send sd_uni sd_bidi_local sd_bidi_remote next_bi next_uni max_bi max_uni g_phase g_par g_md g_msd g_ms g_closed]; try lia; auto.
  - unfold lmax. cbn [fold_right]. lia.
  - intros id x L. apply V in L. discriminate.
  - intros d Hd. rewrite kmax_two by lia. destruct (d =? 0); lia.
  - intros id Hin. destruct (K _ Hin) as (j & Hj & ->). split; [unfold sid; lia|].
    intros E. rewrite id_init_sid in E by lia. lia.
  - intros _. repeat split; try lia; auto.
    + intros id v L _. eapply V; eassumption.
    + intros d i Hd Hi. destruct (d =? 0); lia.
Qed.

(* ------------------------------------------------------------------------------------------ *)
(** * Consequences *)

(** The exact amount a [write] accepts. *)
Lemma write_exact s id n x limit :
  write_limit s = Some limit -> lookup id s.(send) = Some (Some x) ->
  x.(s_state) = 0 -> x.(s_stop) = None -> x.(s_offset) <= x.(s_max_data) -> 0 <= n ->
  exists s', do_write id n s =
             Some (s', if Z.min limit (x.(s_max_data) - x.(s_offset)) =? 0 then [1]
                       else [0; Z.min n (Z.min limit (x.(s_max_data) - x.(s_offset)))]).
Proof.
  intros WL L St Sp Ho Hn. unfold do_write, touch. rewrite WL, L.
  assert (Hl : 0 <= limit).
  { unfold write_limit in WL. destruct (max_data s <? data_sent s) eqn:E; [discriminate|].
    injection WL as <-. lia. }
  destruct (limit =? 0) eqn:El.
  { assert (Z.min limit (s_max_data x - s_offset x) =? 0 = true) as -> by lia.
    destruct (s_cb x); eexists; reflexivity. }
  rewrite St. change (0 =? 0) with true. cbn [negb]. rewrite Sp.
  destruct (s_max_data x <? s_offset x) eqn:E1; [lia|].
  destruct (s_max_data x - s_offset x =? 0) eqn:E2.
  { assert (Z.min limit (s_max_data x - s_offset x) =? 0 = true) as -> by lia. eexists; reflexivity. }
  assert (Z.min limit (s_max_data x - s_offset x) =? 0 = false) as -> by lia.
  eexists; reflexivity.
Qed.

(** [open] answers [None] exactly when no stream credit remains. *)
Lemma open_none_iff s d :
  get_next (norm_dir d) s <= get_max (norm_dir d) s ->
  ((exists s', do_open d s = Some (s', [1])) <-> get_next (norm_dir d) s = get_max (norm_dir d) s).
Proof.
  intros Hle. unfold do_open. destruct (get_max (norm_dir d) s <=? get_next (norm_dir d) s) eqn:E.
  - split; [lia|]. intros _. eexists; reflexivity.
  - split; [|lia]. intros (s' & H).
    destruct (lookup _ _); [discriminate|]. unfold ok in H. injection H as _ H. discriminate.
Qed.

(** A [write] never raises [unacked_data] above the send window (unless it already was above),
    and it raises [unacked_data] and [data_sent] by exactly the accepted length. *)
Lemma write_send_window s id n s' r :
  do_write id n s = Some (s', r) -> 0 <= n -> 0 <= s.(unacked_data) ->
  s'.(unacked_data) <= Z.max s.(unacked_data) s.(send_window)
  /\ s'.(send_window) = s.(send_window)
  /\ s'.(unacked_data) - s.(unacked_data) = s'.(data_sent) - s.(data_sent)
  /\ 0 <= s'.(unacked_data) - s.(unacked_data)
  /\ (forall w, r = [0; w] -> s'.(unacked_data) = s.(unacked_data) + w).
Proof.
  intros W Hn Hu. unfold do_write, write_limit, touch, put, push_pending, ok in W.
  destruct s. cbn in *.
  destruct (max_data <? data_sent) eqn:E0; [discriminate|].
  destruct (lookup id send) as [[y|]|] eqn:L; cbn in W.
  3:{ injection W as <- <-. cbn. repeat split; try lia. intros w Hw. discriminate. }
  all: repeat match type of W with
       | (if ?c then _ else _) = _ => destruct c eqn:?
       | match ?c with _ => _ end = _ => destruct c eqn:?
       end; try discriminate; injection W as <- <-;
       repeat match goal with |- context [if is_pending ?q then _ else _] => destruct (is_pending q) end;
       cbn; repeat split; try lia;
       try (intros w Hw; discriminate); try (intros w Hw; injection Hw as <-; lia).
Qed.

(* ------------------------------------------------------------------------------------------ *)
(** * Preservation for the remaining operations *)

Ltac st := unfold put, push_pending in *; autorewrite with st in *.
Ltac core_eq := unfold core, put, push_pending; autorewrite with st; reflexivity.

Lemma early_facts_ext s s' g :
  core s = core s' -> early_facts s g -> early_facts s' g.
Proof.
  unfold core. intros H. injection H as H1 H2 H3 H4 H5 H6 H7 H8 H9 H10 H11 H12.
  unfold early_facts, get_next. rewrite <- H1, <- H2, <- H3, <- H4, <- H5, <- H9, <- H10, <- H11, <- H12.
  auto.
Qed.

Lemma inv_unacked s g v :
  Inv s g -> 0 <= v -> g.(g_phase) <> 1 -> Inv (set_unacked_data v s) g.
Proof.
  intros [A B C D E1 F G H I J K1 L M] Hv Hp.
  constructor; unfold get_next, get_max in *; st; auto.
  intros Hq. specialize (M Hq). unfold early_facts, get_next in *. st.
  destruct M as (M1 & M2 & M3 & M4). repeat split; auto; try (apply M3; assumption); contradiction.
Qed.

Lemma inv_remove s g id x :
  Inv s g -> lookup id s.(send) = Some (Some x) ->
  Inv (set_send (remove id s.(send)) s)
      (mkGhost 2 g.(g_par) g.(g_md) g.(g_msd) g.(g_ms) (g.(g_closed) + x.(s_offset))).
Proof.
  intros [A B C D E1 F G H I J K1 L M] Lk.
  constructor; unfold get_next, get_max, delivered_stream_limit in *; st; cbn; auto; try lia.
  - rewrite sum_off_remove, Lk. cbn [offo]. lia.
  - intros k y Ly. destruct (Z.eq_dec k id) as [->|Hn].
    + rewrite lookup_remove_eq in Ly by assumption. discriminate.
    + rewrite lookup_remove_neq in Ly by assumption. apply H. exact Ly.
  - apply NoDup_remove. exact J.
  - intros k Hk. apply K1. eapply keys_remove_subset. exact Hk.
Qed.

Ltac destr_if :=
  repeat match goal with
  | H : context [if ?c then _ else _] |- _ => destruct c eqn:?
  | |- context [if ?c then _ else _] => destruct c eqn:?
  end.

Lemma inv_open s g d :
  Inv s g -> g.(g_phase) <> 1 -> 0 <= d <= 1 -> get_next d s < get_max d s ->
  lookup (sid s.(side) d (get_next d s)) s.(send) = None ->
  Inv (set_send (insert (sid s.(side) d (get_next d s)) None s.(send))
         (set_next d (get_next d s + 1) s)) g.
Proof.
  intros I Hp1 Hd Hlt Ln.
  pose proof (i_side _ _ I) as Hs.
  destruct (i_cnt _ _ I d Hd) as (Hn & Hk).
  remember (sid (side s) d (get_next d s)) as id eqn:Eid.
  assert (Hii : id_init id = side s) by (subst id; apply id_init_sid; lia).
  assert (Hid : id_dir id = d) by (subst id; apply id_dir_sid; lia).
  assert (Hix : id_index id = get_next d s) by (subst id; apply id_index_sid; lia).
  assert (Hid0 : 0 <= id) by (subst id; unfold sid; lia).
  assert (Hinj : forall d0 i, 0 <= d0 <= 1 -> 0 <= i -> sid (side s) d0 i = id -> d0 = d /\ i = get_next d s).
  { intros d0 i H1 H2 H3. subst id. unfold sid in H3. lia. }
  destruct I as [A B C D E1 F G H I J K1 L M].
  assert (Hcase : d = 0 \/ d = 1) by lia.
  constructor; auto.
  all: unfold early_facts in *; unfold set_next, get_next, get_max in *.
  all: destruct Hcase as [Hc|Hc]; rewrite Hc in *;
       change (0 =? 0) with true in *; change (1 =? 0) with false in *; cbv iota in *; st; auto.
  all: try (rewrite sum_off_insert_none; assumption).
  all: try (intros k x Lk; rewrite lookup_insert in Lk by assumption;
            destruct (k =? id); [discriminate|apply H; exact Lk]).
  all: try (intros d0 Hd0; specialize (I d0 Hd0); destr_if; lia).
  all: try (apply NoDup_insert; assumption).
  all: try (intros k Hk'; apply (proj1 (keys_insert k id None _)) in Hk'; destruct Hk' as [Hk'|Hk'];
            [subst k; split; [lia|intros _; rewrite Hid, Hix; red_eqb; cbv iota; lia]
            |destruct (K1 k Hk') as (K2 & K3); split; [exact K2|];
             intros Hq; specialize (K3 Hq); destr_if; lia]).
  all: intros Hp; specialize (M Hp); destruct M as (M1 & M2 & M3 & M4);
       (split; [|split; [exact M2|split; [|intros Hq; contradiction]]]).
  all: try (intros k v Lk Hr; rewrite lookup_insert in Lk by assumption;
            destruct (k =? id) eqn:Ek; [assert (k = id) by lia; subst k; congruence|eapply M1; eassumption]).
  all: intros Hq; destruct (M3 Hq) as (Q1 & Q2 & Q3); (split; [exact Q1|split; [exact Q2|]]).
  all: intros d0 i Hd0 Hi; rewrite lookup_insert by assumption.
  all: destruct (sid (side s) d0 i =? id) eqn:Ek; [discriminate|].
  all: apply Q3; [exact Hd0|].
  all: assert (Hx : sid (side s) d0 i <> id) by lia.
  all: destr_if; try lia.
  all: unfold sid in *; lia.
Qed.
