(** Proofs about Model/FlowSend.v (C05): the credit invariants over all disciplined
    interleavings of application calls with credit frames. *)
From QV Require Import Lib.Tac Lib.Corr Model.FlowSend Proofs.FlowSendAcc.
Open Scope Z_scope.

(** Reduce comparisons of literals ([Z.eqb] is [simpl never]). *)
Ltac red_eqb :=
  repeat match goal with
  | |- context [Z.eqb (Zpos ?a) (Zpos ?b)] =>
      let v := eval vm_compute in (Z.eqb (Zpos a) (Zpos b)) in
      change (Z.eqb (Zpos a) (Zpos b)) with v
  | |- context [Z.eqb Z0 (Zpos ?b)] => change (Z.eqb Z0 (Zpos b)) with false
  | |- context [Z.eqb (Zpos ?b) Z0] => change (Z.eqb (Zpos b) Z0) with false
  | |- context [Z.eqb Z0 Z0] => change (Z.eqb Z0 Z0) with true
  end.
Ltac red_eqb_in H :=
  repeat match type of H with
  | context [Z.eqb (Zpos ?a) (Zpos ?b)] =>
      let v := eval vm_compute in (Z.eqb (Zpos a) (Zpos b)) in
      change (Z.eqb (Zpos a) (Zpos b)) with v in H
  | context [Z.eqb Z0 (Zpos ?b)] => change (Z.eqb Z0 (Zpos b)) with false in H
  | context [Z.eqb (Zpos ?b) Z0] => change (Z.eqb (Zpos b) Z0) with false in H
  | context [Z.eqb Z0 Z0] => change (Z.eqb Z0 Z0) with true in H
  end.

(* ------------------------------------------------------------------------------------------ *)
(** * The stream map *)

Definition offo (v : option Send) : Z := match v with Some x => x.(s_offset) | None => 0 end.
Fixpoint sum_off (m : SMap) : Z :=
  match m with [] => 0 | (_, v) :: t => offo v + sum_off t end.
Definition keys (m : SMap) : list Z := map fst m.

Lemma lookup_update k id v m :
  lookup k (update id v m) =
  if k =? id then match lookup id m with Some _ => Some v | None => None end else lookup k m.
Proof.
  induction m as [|[a w] t IH]; cbn [update lookup].
  - destruct (k =? id); reflexivity.
  - destruct (a =? id) eqn:Ea; cbn [lookup].
    + destruct (k =? id) eqn:Ek.
      * assert (a =? k = true) as -> by lia. reflexivity.
      * destruct (a =? k) eqn:Eak; [lia|reflexivity].
    + destruct (a =? k) eqn:Eak.
      * assert (k =? id = false) as -> by lia. reflexivity.
      * exact IH.
Qed.

Lemma sum_off_update id v m :
  sum_off (update id v m) =
  match lookup id m with Some old => sum_off m - offo old + offo v | None => sum_off m end.
Proof.
  induction m as [|[a w] t IH]; cbn [update lookup sum_off]; [reflexivity|].
  destruct (a =? id) eqn:Ea; cbn [sum_off].
  - lia.
  - rewrite IH. destruct (lookup id t); lia.
Qed.

Lemma keys_update id v m : keys (update id v m) = keys m.
Proof.
  induction m as [|[a w] t IH]; cbn [update keys map fst]; [reflexivity|].
  destruct (a =? id); cbn [map fst]; [reflexivity|]. f_equal. exact IH.
Qed.

Lemma lookup_none_keys id m : lookup id m = None <-> ~ In id (keys m).
Proof.
  induction m as [|[a w] t IH]; cbn [lookup keys map fst In].
  - tauto.
  - destruct (a =? id) eqn:Ea.
    + split; [discriminate|]. intros H. exfalso. apply H. left. lia.
    + rewrite IH. split; intros H; [intros [H1|H1]; [lia|tauto]|tauto].
Qed.

Lemma lookup_remove_neq k id m : k <> id -> lookup k (remove id m) = lookup k m.
Proof.
  intros Hk. induction m as [|[a w] t IH]; cbn [remove lookup]; [reflexivity|].
  destruct (a =? id) eqn:Ea; cbn [lookup].
  - destruct (a =? k) eqn:Eak; [lia|reflexivity].
  - destruct (a =? k); [reflexivity|exact IH].
Qed.

Lemma keys_remove_subset id m k : In k (keys (remove id m)) -> In k (keys m).
Proof.
  induction m as [|[a w] t IH]; cbn [remove keys map fst In]; [tauto|].
  destruct (a =? id); cbn [map fst In]; [tauto|]. intros [H|H]; [tauto|]. right. apply IH. exact H.
Qed.

Lemma NoDup_remove id m : NoDup (keys m) -> NoDup (keys (remove id m)).
Proof.
  induction m as [|[a w] t IH]; cbn [remove keys map fst]; intros H; [constructor|].
  inversion H as [|? ? Hn Hd]; subst.
  destruct (a =? id); cbn [map fst]; [exact Hd|].
  constructor; [|apply IH; exact Hd].
  intros Hin. apply Hn. eapply keys_remove_subset. exact Hin.
Qed.

Lemma lookup_remove_eq id m : NoDup (keys m) -> lookup id (remove id m) = None.
Proof.
  induction m as [|[a w] t IH]; cbn [remove lookup keys map fst]; intros H; [reflexivity|].
  inversion H as [|? ? Hn Hd]; subst.
  destruct (a =? id) eqn:Ea; cbn [lookup].
  - apply lookup_none_keys. assert (a = id) by lia. subst. exact Hn.
  - rewrite Ea. apply IH. exact Hd.
Qed.

Lemma sum_off_remove id m :
  sum_off (remove id m) = match lookup id m with Some old => sum_off m - offo old | None => sum_off m end.
Proof.
  induction m as [|[a w] t IH]; cbn [remove lookup sum_off]; [reflexivity|].
  destruct (a =? id) eqn:Ea; cbn [sum_off]; [lia|].
  rewrite IH. destruct (lookup id t); lia.
Qed.

Lemma lookup_insert k id v m :
  lookup id m = None ->
  lookup k (insert id v m) = if k =? id then Some v else lookup k m.
Proof.
  induction m as [|[a w] t IH]; cbn [insert lookup]; intros Hn.
  - destruct (id =? k) eqn:E1, (k =? id) eqn:E2; try lia; reflexivity.
  - destruct (a =? id) eqn:Ea; [discriminate|].
    destruct (id <? a) eqn:El; cbn [lookup].
    + destruct (id =? k) eqn:E1, (k =? id) eqn:E2; try lia; reflexivity.
    + destruct (a =? k) eqn:Eak.
      * assert (k =? id = false) as -> by lia. reflexivity.
      * apply IH. exact Hn.
Qed.

Lemma keys_insert k id v m : In k (keys (insert id v m)) <-> k = id \/ In k (keys m).
Proof.
  induction m as [|[a w] t IH]; cbn [insert keys map fst In].
  - intuition.
  - destruct (id <? a); cbn [map fst In].
    + intuition.
    + fold (keys (insert id v t)). fold (keys t). rewrite IH. intuition.
Qed.

Lemma NoDup_insert id v m : NoDup (keys m) -> lookup id m = None -> NoDup (keys (insert id v m)).
Proof.
  induction m as [|[a w] t IH]; cbn [insert keys map fst lookup]; intros H Hn.
  - constructor; [intros []|constructor].
  - destruct (a =? id) eqn:Ea; [discriminate|].
    inversion H as [|? ? Hna Hd]; subst.
    destruct (id <? a); cbn [map fst].
    + constructor; [|exact H]. cbn [In]. intros [H1|H1]; [lia|].
      apply lookup_none_keys in Hn. apply Hn. exact H1.
    + constructor.
      * fold (keys (insert id v t)). rewrite keys_insert. intros [H1|H1]; [lia|]. apply Hna. exact H1.
      * apply IH; assumption.
Qed.

Lemma sum_off_insert_none id m : sum_off (insert id None m) = sum_off m.
Proof.
  induction m as [|[a w] t IH]; cbn [insert sum_off offo]; [reflexivity|].
  destruct (id <? a); cbn [sum_off offo]; lia.
Qed.

(** Stream-id arithmetic *)
Lemma id_init_sid i d k : 0 <= i <= 1 -> 0 <= d <= 1 -> 0 <= k -> id_init (sid i d k) = i.
Proof. unfold id_init, sid. intros. lia. Qed.
Lemma id_dir_sid i d k : 0 <= i <= 1 -> 0 <= d <= 1 -> 0 <= k -> id_dir (sid i d k) = d.
Proof. unfold id_dir, sid. intros. lia. Qed.
Lemma id_index_sid i d k : 0 <= i <= 1 -> 0 <= d <= 1 -> 0 <= k -> id_index (sid i d k) = k.
Proof. unfold id_index, sid. intros. lia. Qed.
Lemma sid_decompose id : 0 <= id -> id = sid (id_init id) (id_dir id) (id_index id).
Proof. unfold sid, id_init, id_dir, id_index. intros. lia. Qed.
Lemma norm_dir_range d : 0 <= norm_dir d <= 1.
Proof. unfold norm_dir. destruct (d =? 0); lia. Qed.

(* ------------------------------------------------------------------------------------------ *)
(** * Ghost state: what the peer has actually delivered since the last (re)start *)

Record Ghost := mkGhost {
  g_phase : Z;                 (** 0 early (0-RTT), 1 rejected — awaiting the new parameters, 2 main *)
  g_par : Params;              (** the transport parameters in force *)
  g_md : list Z;               (** connection limits delivered: initial_max_data and MAX_DATA values *)
  g_msd : list (Z * Z);        (** MAX_STREAM_DATA (id, value) frames delivered *)
  g_ms : list (Z * Z);         (** stream-count limits delivered (dir, count): parameters and MAX_STREAMS *)
  g_closed : Z                 (** final offsets of streams already removed from the map *)
}.

Definition lmax (l : list Z) : Z := fold_right Z.max 0 l.
Definition kmax (k : Z) (l : list (Z * Z)) : Z :=
  lmax (map snd (filter (fun kv : Z * Z => fst kv =? k) l)).

Definition par_for (p : Params) (sd id : Z) : Z :=
  if id_dir id =? 1 then p.(p_sd_uni)
  else if id_init id =? sd then p.(p_sd_bidi_remote)
  else p.(p_sd_bidi_local).

(** The limit of stream [id] "current" in the sense of the property: the largest value conveyed in
    the transport parameters or in MAX_STREAM_DATA frames that actually arrived. *)
Definition delivered_stream_limit (g : Ghost) (sd id : Z) : Z :=
  Z.max (par_for g.(g_par) sd id) (kmax id g.(g_msd)).

Definition pge_params (p q : Params) : bool :=
  (q.(p_max_data) <=? p.(p_max_data)) && (q.(p_streams_bidi) <=? p.(p_streams_bidi))
  && (q.(p_streams_uni) <=? p.(p_streams_uni)) && (q.(p_sd_bidi_local) <=? p.(p_sd_bidi_local))
  && (q.(p_sd_bidi_remote) <=? p.(p_sd_bidi_remote)) && (q.(p_sd_uni) <=? p.(p_sd_uni)).

Definition in_map_remote (s : State) (id : Z) : bool :=
  negb (id_init id =? s.(side)) && match lookup id s.(send) with Some _ => true | None => false end.

(** The application uses a remote stream that exists only after [accept] returned it. *)
Definition app_ok (s : State) (id : Z) : bool :=
  (0 <=? id) && (negb (in_map_remote s id) || (id_index id <? s.(next_reported_bi))).

Definition is_app (c : Z) : bool := (c =? 3) || (c =? 4) || (c =? 5).
Definition is_neutral (c : Z) : bool :=
  (c =? 2) || (c =? 9) || (c =? 13) || (c =? 15) || (c =? 19) || (c =? 21).

(** Admissible operations (the discipline of [Connection], see Model/FlowSend.v [wf_static]). *)
Definition adm (g : Ghost) (s : State) (op : list Z) : bool :=
  let c := arg op 0 in
  let id := arg op 1 in
  if g.(g_phase) =? 1 then (c =? 1) && params_valid (params_of op)
  else if c =? 21 then (g.(g_phase) =? 0) && (s.(side) =? 0)
  else if is_neutral c then true
  else if is_app c then app_ok s id && (0 <=? arg op 2)
  else if c =? 1 then (g.(g_phase) =? 0) && params_valid (params_of op) && pge_params (params_of op) g.(g_par)
  else if c =? 14 then g.(g_phase) =? 0
  else if c =? 6 then is_varint id
  else if c =? 7 then (0 <=? id) && (0 <=? arg op 2)
  else if c =? 8 then 0 <=? arg op 2
  else if (c =? 10) || (c =? 11) || (c =? 17) || (c =? 18) then true
  else if c =? 16 then (0 <=? id) && is_varint (arg op 2)
  else false.

Definition removed_off (id : Z) (s s' : State) : Z :=
  match lookup id s.(send), lookup id s'.(send) with
  | Some (Some x), None => x.(s_offset)
  | _, _ => 0
  end.

Definition frame_id (k : Z) (s : State) : Z :=
  if k <? 0 then -1
  else match log_get (Z.to_nat k) s.(log) with Some ((id, _, _, _), _) => id | None => -1 end.

(** Ghost update for an executed operation ([s] before, [s'] after, [r] the result). *)
Definition gupd (g : Ghost) (s : State) (op : list Z) (s' : State) (r : list Z) : Ghost :=
  let c := arg op 0 in
  let id := arg op 1 in
  if c =? 14 then mkGhost 1 g.(g_par) [] [] g.(g_ms) 0
  else if c =? 1 then
    let p := params_of op in
    if params_valid p then
      mkGhost 2 p (p.(p_max_data) :: g.(g_md)) g.(g_msd)
              ((0, p.(p_streams_bidi)) :: (1, p.(p_streams_uni))
               :: (if g.(g_phase) =? 1 then [] else g.(g_ms))) g.(g_closed)
    else g
  else
    let ph := if (g.(g_phase) =? 0) && (is_neutral c || (is_app c && id_local s.(side) id))
              then 0 else 2 in
    let md := if (c =? 6) && is_varint id then id :: g.(g_md) else g.(g_md) in
    let msd := if (c =? 7) && (arg r 0 =? 0) then (id, arg op 2) :: g.(g_msd) else g.(g_msd) in
    let ms := if (c =? 8) && (arg r 0 =? 0) then (norm_dir id, arg op 2) :: g.(g_ms) else g.(g_ms) in
    let cl := if c =? 10 then g.(g_closed) + removed_off (frame_id id s) s s'
              else if c =? 17 then g.(g_closed) + removed_off id s s'
              else g.(g_closed) in
    mkGhost ph g.(g_par) md msd ms cl.

(** One step of the ghost-instrumented machine: inadmissible operations are skipped; a panic
    stops the machine in the state it was in (the theorems below show which checked operations can
    never fail). *)
Definition gstep (sg : State * Ghost) (op : list Z) : State * Ghost :=
  let '(s, g) := sg in
  if adm g s op then
    match apply op s with
    | Some (s', r) => (s', gupd g s op s' r)
    | None => (s, g)
    end
  else (s, g).

Definition ghost0 (p : Params) : Ghost :=
  mkGhost 0 p [p.(p_max_data)] [] [(0, p.(p_streams_bidi)); (1, p.(p_streams_uni))] 0.

Definition start (sd mrb sw : Z) (p0 : Params) : State * Ghost :=
  (do_set_params p0 (init sd mrb sw), ghost0 p0).

Definition grun (i : ops) (sg : State * Ghost) : State * Ghost := fold_left gstep i sg.

(* ------------------------------------------------------------------------------------------ *)
(** * The invariant *)

Definition early_facts (s : State) (g : Ghost) : Prop :=
  (forall id v, lookup id s.(send) = Some v -> id_init id <> s.(side) -> v = None)
  /\ g.(g_msd) = []
  /\ (g.(g_phase) = 0 ->
        s.(max_bi) = g.(g_par).(p_streams_bidi) /\ s.(max_uni) = g.(g_par).(p_streams_uni)
        /\ forall d i, 0 <= d <= 1 -> 0 <= i < get_next d s -> lookup (sid s.(side) d i) s.(send) <> None)
  /\ (g.(g_phase) = 1 ->
        s.(next_bi) = 0 /\ s.(next_uni) = 0 /\ s.(data_sent) = 0 /\ s.(max_data) = 0
        /\ s.(unacked_data) = 0
        /\ g.(g_md) = [] /\ g.(g_closed) = 0).

Record Inv (s : State) (g : Ghost) : Prop := mkInv {
  i_side : 0 <= s.(side) <= 1;
  i_phase : 0 <= g.(g_phase) <= 2;
  i_pv : params_valid g.(g_par) = true;
  i_par : s.(sd_uni) = g.(g_par).(p_sd_uni) /\ s.(sd_bidi_local) = g.(g_par).(p_sd_bidi_local)
          /\ s.(sd_bidi_remote) = g.(g_par).(p_sd_bidi_remote);
  i_md : s.(max_data) = lmax g.(g_md);
  i_ds : 0 <= s.(data_sent) <= s.(max_data);
  i_sum : s.(data_sent) = sum_off s.(send) + g.(g_closed);
  i_str : forall id x, lookup id s.(send) = Some (Some x) ->
            0 <= x.(s_offset) <= x.(s_max_data)
            /\ x.(s_max_data) <= delivered_stream_limit g s.(side) id;
  i_cnt : forall d, 0 <= d <= 1 ->
            0 <= get_next d s <= get_max d s /\ get_max d s = kmax d g.(g_ms);
  i_nodup : NoDup (keys s.(send));
  i_keys : forall id, In id (keys s.(send)) ->
             0 <= id /\ (id_init id = s.(side) -> id_index id < get_next (id_dir id) s);
  i_unacked : 0 <= s.(unacked_data);
  i_early : g.(g_phase) <> 2 -> early_facts s g
}.

(** The fields the invariant reads. *)
Definition core (s : State) :=
  (s.(side), s.(max_data), s.(data_sent), s.(unacked_data), s.(send),
   (s.(sd_uni), s.(sd_bidi_local), s.(sd_bidi_remote)),
   (s.(next_bi), s.(next_uni), s.(max_bi), s.(max_uni))).

Lemma Inv_ext s s' g : core s = core s' -> Inv s g -> Inv s' g.
Proof.
  destruct s, s'. unfold core. cbn. intros H. injection H as; subst.
  intros [A B C D E F G H I J K L M].
  constructor; unfold early_facts, get_next, get_max in *; cbn in *; assumption.
Qed.

Ltac solve_core := unfold put, push_pending; repeat match goal with s : State |- _ => destruct s end; reflexivity.

(* ------------------------------------------------------------------------------------------ *)
(** * Credit-preserving changes *)

Definition rest (s : State) :=
  (s.(side), s.(max_data), s.(data_sent), s.(unacked_data),
   (s.(sd_uni), s.(sd_bidi_local), s.(sd_bidi_remote)),
   (s.(next_bi), s.(next_uni), s.(max_bi), s.(max_uni))).

Definition entry_rel (a b : option (option Send)) : Prop :=
  match a, b with
  | None, None => True
  | Some None, Some None => True
  | Some (Some x), Some (Some x') => x'.(s_offset) = x.(s_offset) /\ x'.(s_max_data) = x.(s_max_data)
  | _, _ => False
  end.

(** [sc s s']: [s'] differs from [s] only in fields the invariant does not read and in
    per-stream fields other than offset and limit. *)
Definition sc (s s' : State) : Prop :=
  rest s = rest s' /\ keys s.(send) = keys s'.(send) /\ sum_off s.(send) = sum_off s'.(send)
  /\ forall id, entry_rel (lookup id s.(send)) (lookup id s'.(send)).

Lemma entry_rel_refl a : entry_rel a a.
Proof. destruct a as [[x|]|]; cbn; auto. Qed.

Lemma sc_refl s : sc s s.
Proof. repeat split; auto. intros. apply entry_rel_refl. Qed.

Lemma sc_trans a b c : sc a b -> sc b c -> sc a c.
Proof.
  intros (R1 & K1 & S1 & E1) (R2 & K2 & S2 & E2). repeat split; try congruence.
  intros id. specialize (E1 id). specialize (E2 id).
  destruct (lookup id (send a)) as [[x|]|], (lookup id (send b)) as [[y|]|], (lookup id (send c)) as [[z|]|];
    cbn in *; try tauto. destruct E1, E2. split; congruence.
Qed.

Lemma sc_core s s' : core s = core s' -> sc s s'.
Proof.
  destruct s, s'. unfold core. cbn. intros H. injection H as; subst.
  unfold sc, rest. cbn. repeat split. intros. apply entry_rel_refl.
Qed.

Ltac sc_irrel := apply sc_core; solve_core.

Lemma sc_put s id x x' :
  lookup id s.(send) = Some (Some x) ->
  x'.(s_offset) = x.(s_offset) -> x'.(s_max_data) = x.(s_max_data) ->
  sc s (put id x' s).
Proof.
  intros L Ho Hm. unfold put. destruct s. unfold sc, rest. cbn in *.
  split; [reflexivity|]. split; [|split].
  - symmetry. apply keys_update.
  - rewrite sum_off_update, L. cbn [offo]. lia.
  - intros k. rewrite lookup_update. destruct (k =? id) eqn:E.
    + assert (k = id) by lia. subst. rewrite L. cbn. auto.
    + apply entry_rel_refl.
Qed.

Lemma sc_inv s s' g : Inv s g -> sc s s' -> Inv s' g.
Proof.
  intros I (R & K & S & E). destruct s, s'. unfold rest in R. cbn in *. injection R as; subst.
  destruct I as [A B C D E1 F G H I J K1 L M].
  unfold early_facts, get_next, get_max in *; cbn in *.
  constructor; cbn; try assumption.
  - lia.
  - intros id x Lk. specialize (E id). rewrite Lk in E.
    destruct (lookup id send) as [[y|]|] eqn:Ly; cbn in E; try tauto.
    destruct E as [Eo Em]. specialize (H id y Ly). rewrite Eo, Em. exact H.
  - rewrite <- K. exact J.
  - rewrite <- K. exact K1.
  - intros Hp. specialize (M Hp). destruct M as (M1 & M2 & M3 & M4). repeat split; try assumption; try (cbn; apply M4; assumption).
    + intros id v Lk Hr. cbn in Lk, Hr. specialize (E id). rewrite Lk in E.
      destruct (lookup id send) as [[y|]|] eqn:Ly; cbn in E.
      * specialize (M1 id (Some y) Ly Hr). discriminate.
      * destruct v; [tauto|reflexivity].
      * destruct v as [v|]; tauto.
    + apply M3; assumption.
    + apply M3; assumption.
    + intros d i Hd Hi. cbn in *. destruct (M3 H0) as (_ & _ & M5). specialize (M5 d i Hd Hi).
      specialize (E (sid side0 d i)).
      destruct (lookup (sid side0 d i) send) as [[y|]|]; [| |congruence];
        destruct (lookup (sid side0 d i) send0) as [[z|]|]; cbn in E; try tauto; discriminate.
Qed.

(** Setting one entry (touch, or raising the stream limit). *)
Lemma inv_set_entry s g id old x' :
  Inv s g -> lookup id s.(send) = Some old -> offo old = x'.(s_offset) ->
  0 <= x'.(s_offset) <= x'.(s_max_data) ->
  x'.(s_max_data) <= delivered_stream_limit g s.(side) id ->
  (g.(g_phase) <> 2 -> id_init id = s.(side)) ->
  Inv (put id x' s) g.
Proof.
  intros I L Ho Hr Hl Hloc. unfold put. destruct s.
  destruct I as [A B C D E1 F G H I J K1 L1 M].
  unfold early_facts, get_next, get_max in *; cbn in *.
  constructor; cbn; try assumption.
  - rewrite sum_off_update, L. cbn [offo]. lia.
  - intros k x Lk. rewrite lookup_update in Lk. destruct (k =? id) eqn:E.
    + assert (k = id) by lia. subst. rewrite L in Lk. injection Lk as <-. split; assumption.
    + apply H. exact Lk.
  - rewrite keys_update. exact J.
  - rewrite keys_update. exact K1.
  - intros Hp. specialize (M Hp). specialize (Hloc Hp). destruct M as (M1 & M2 & M3 & M4).
    repeat split; try assumption; try (cbn; apply M4; assumption).
    + intros k v Lk Hr'. cbn in Lk, Hr'. rewrite lookup_update in Lk. destruct (k =? id) eqn:E.
      * assert (k = id) by lia. subst. contradiction.
      * eapply M1; eassumption.
    + apply M3; assumption.
    + apply M3; assumption.
    + intros d i Hd Hi. cbn in *. destruct (M3 H0) as (_ & _ & M5). specialize (M5 d i Hd Hi).
      rewrite lookup_update. destruct (sid side d i =? id) eqn:E; [|exact M5].
      rewrite L. discriminate.
Qed.

Lemma par_nonneg g sd id : params_valid g.(g_par) = true -> 0 <= par_for g.(g_par) sd id.
Proof.
  unfold params_valid, is_varint, par_for. intros H.
  destruct (id_dir id =? 1), (id_init id =? sd); lia.
Qed.

Lemma msd_par s g id : Inv s g -> max_send_data s id = par_for g.(g_par) s.(side) id.
Proof.
  intros I. destruct (i_par _ _ I) as (A & B & C). unfold max_send_data, par_for.
  rewrite A, B, C. reflexivity.
Qed.

(** [touch]: either the entry existed, or it is created with the parameter in force. *)
Lemma touch_inv s g id x s1 :
  Inv s g -> touch id s = Some (x, s1) -> (g.(g_phase) <> 2 -> id_init id = s.(side)) ->
  Inv s1 g /\ lookup id s1.(send) = Some (Some x) /\ rest s1 = rest s
  /\ (forall k, k <> id -> lookup k s1.(send) = lookup k s.(send))
  /\ (lookup id s.(send) = Some (Some x) \/ lookup id s.(send) = Some None /\ x.(s_offset) = 0).
Proof.
  intros I T Hloc. unfold touch in T.
  destruct (lookup id (send s)) as [[y|]|] eqn:L; [| |discriminate].
  - injection T as <- <-. split; [exact I|]. split; [first [exact L|reflexivity]|]. split; [reflexivity|].
    split; [auto|left; first [exact L|reflexivity]].
  - injection T as <- <-.
    assert (Hi : Inv (put id (new_send (max_send_data s id)) s) g).
    { eapply inv_set_entry; eauto; cbn.
      - rewrite (msd_par _ _ _ I). pose proof (par_nonneg g (side s) id (i_pv _ _ I)). lia.
      - rewrite (msd_par _ _ _ I). unfold delivered_stream_limit. lia. }
    unfold put in *. split; [exact Hi|]. split; [|split; [|split]].
    + destruct s; cbn in *. rewrite lookup_update, Z.eqb_refl, L. reflexivity.
    + destruct s; reflexivity.
    + intros k Hk. destruct s; cbn in *. rewrite lookup_update.
      destruct (k =? id) eqn:E; [lia|reflexivity].
    + right. split; [reflexivity|reflexivity].
Qed.

(** Ghost changes that only enlarge what was delivered. *)
Lemma inv_phase2 s g :
  Inv s g -> Inv s (mkGhost 2 g.(g_par) g.(g_md) g.(g_msd) g.(g_ms) g.(g_closed)).
Proof.
  intros [A B C D E1 F G H I J K1 L M]. constructor; cbn; try assumption; try lia.
Qed.

Lemma ghost_eta g : mkGhost g.(g_phase) g.(g_par) g.(g_md) g.(g_msd) g.(g_ms) g.(g_closed) = g.
Proof. destruct g; reflexivity. Qed.

(* ------------------------------------------------------------------------------------------ *)
(** * Per-operation preservation *)

Lemma write_limit_some s g : Inv s g ->
  write_limit s = Some (Z.min (s.(max_data) - s.(data_sent)) (Z.max 0 (s.(send_window) - s.(unacked_data)))).
Proof.
  intros I. unfold write_limit. pose proof (i_ds _ _ I).
  destruct (max_data s <? data_sent s) eqn:E; [lia|reflexivity].
Qed.

(** The heart of [write]: [w] more bytes on stream [id]. *)
Lemma inv_write_core s g id x x' w :
  Inv s g -> lookup id s.(send) = Some (Some x) ->
  0 <= w -> w <= x.(s_max_data) - x.(s_offset) -> w <= s.(max_data) - s.(data_sent) ->
  x'.(s_offset) = x.(s_offset) + w -> x'.(s_max_data) = x.(s_max_data) ->
  Inv (set_unacked_data (s.(unacked_data) + w) (set_data_sent (s.(data_sent) + w) (put id x' s))) g.
Proof.
  intros I L Hw Hb Hc Ho Hm. unfold put. destruct s.
  destruct I as [A B C D E1 F G H I J K1 L1 M].
  unfold early_facts, get_next, get_max in *; cbn in *.
  pose proof (H id x L) as Hx.
  constructor; cbn; try assumption; try lia.
  - rewrite sum_off_update, L. cbn [offo]. lia.
  - intros k y Lk. rewrite lookup_update in Lk. destruct (k =? id) eqn:E.
    + assert (k = id) by lia. subst. rewrite L in Lk. injection Lk as <-. rewrite Ho, Hm. lia.
    + apply H. exact Lk.
  - rewrite keys_update. exact J.
  - rewrite keys_update. exact K1.
  - intros Hp. specialize (M Hp). destruct M as (M1 & M2 & M3 & M4).
    repeat split; try assumption.
    + intros k v Lk Hr'. cbn in Lk, Hr'. rewrite lookup_update in Lk. destruct (k =? id) eqn:E.
      * assert (k = id) by lia. subst. specialize (M1 id (Some x) L Hr'). discriminate.
      * eapply M1; eassumption.
    + apply M3; assumption.
    + apply M3; assumption.
    + intros d i Hd Hi. cbn in *. destruct (M3 H0) as (_ & _ & M5). specialize (M5 d i Hd Hi).
      rewrite lookup_update. destruct (sid side d i =? id) eqn:E; [|exact M5].
      rewrite L. discriminate.
    + cbn. destruct (M4 H0) as (_ & _ & Q1 & Q2 & _). lia.
    + cbn. destruct (M4 H0) as (_ & _ & Q1 & Q2 & _). lia.
    + cbn. destruct (M4 H0) as (_ & _ & Q1 & Q2 & _). lia.
    + cbn. destruct (M4 H0) as (_ & _ & Q1 & Q2 & Q3 & _). lia.
    + cbn. destruct (M4 H0) as (_ & _ & Q1 & Q2 & Q3 & _). lia.
    + apply M4; assumption.
    + apply M4; assumption.
Qed.

Lemma rest_fields s1 s : rest s1 = rest s ->
  side s1 = side s /\ max_data s1 = max_data s /\ data_sent s1 = data_sent s
  /\ unacked_data s1 = unacked_data s.
Proof. unfold rest. intros H. injection H as. auto. Qed.

Lemma write_inv s g id n s' r :
  Inv s g -> do_write id n s = Some (s', r) -> 0 <= n ->
  (g.(g_phase) <> 2 -> id_init id = s.(side)) -> Inv s' g.
Proof.
  intros I W Hn Hloc. unfold do_write in W. rewrite (write_limit_some _ _ I) in W.
  destruct (touch id s) as [[x s1]|] eqn:T.
  2:{ injection W as <- _. exact I. }
  destruct (touch_inv _ _ _ _ _ I T Hloc) as (I1 & L1 & R1 & _ & _).
  destruct (rest_fields _ _ R1) as (Rs & Rm & Rd & Ru).
  set (limit := Z.min (max_data s - data_sent s) (Z.max 0 (send_window s - unacked_data s))) in *.
  destruct (limit =? 0) eqn:El.
  { destruct (s_cb x).
    - injection W as <- _. exact I1.
    - injection W as <- _. eapply sc_inv; [exact I1|].
      eapply sc_trans; [apply (sc_put s1 id x (set_s_cb true x) L1); destruct x; reflexivity|]. sc_irrel. }
  destruct (negb (s_state x =? 0)); [injection W as <- _; exact I1|].
  destruct (s_stop x); [injection W as <- _; exact I1|].
  destruct (s_max_data x <? s_offset x) eqn:Eb; [discriminate|].
  destruct (s_max_data x - s_offset x =? 0) eqn:Eb0; [injection W as <- _; exact I1|].
  set (w := Z.min n (Z.min limit (s_max_data x - s_offset x))) in *.
  set (x' := set_s_ulen (s_ulen x + w) (set_s_offset (s_offset x + w) x)) in *.
  assert (Hcore : Inv (set_unacked_data (unacked_data s1 + w)
                         (set_data_sent (data_sent s1 + w) (put id x' s1))) g).
  { pose proof (i_ds _ _ I) as Hds.
    apply (inv_write_core s1 g id x x' w I1 L1); subst w x' limit; try lia;
      try (destruct x; reflexivity). }
  unfold ok in W.
  match type of W with Some (?st, _) = _ => assert (Hs : core st = core (set_unacked_data (unacked_data s1 + w)
                         (set_data_sent (data_sent s1 + w) (put id x' s1)))) end.
  { destruct (is_pending x); solve_core. }
  injection W as <- _. eapply Inv_ext; [symmetry; exact Hs|exact Hcore].
Qed.

(** Connection-level credit frame. *)
Lemma max_data_inv s g v :
  Inv s g -> 0 <= v -> g.(g_phase) <> 1 ->
  Inv (do_max_data v s) (mkGhost g.(g_phase) g.(g_par) (v :: g.(g_md)) g.(g_msd) g.(g_ms) g.(g_closed)).
Proof.
  intros I Hv Hp1. unfold do_max_data. destruct s.
  destruct I as [A B C D E1 F G H I J K1 L M].
  unfold early_facts, get_next, get_max, delivered_stream_limit in *; cbn in *.
  constructor; cbn; try assumption; try lia.
  - unfold lmax in *. cbn [fold_right] in *. lia.
  - intros Hp. specialize (M Hp). destruct M as (M1 & M2 & M3 & M4).
    unfold early_facts, get_next; cbn.
    split; [exact M1|]. split; [exact M2|]. split; [exact M3|]. intros Hq. contradiction.
Qed.

(* ------------------------------------------------------------------------------------------ *)
(** * The initial state satisfies the invariant *)

Lemma remote_bi_spec sd n : 0 <= sd <= 1 ->
  NoDup (keys (remote_bi sd n [])) /\
  (forall k, In k (keys (remote_bi sd n [])) -> exists j, 0 <= j < Z.of_nat n /\ k = sid (1 - sd) 0 j) /\
  (forall k v, lookup k (remote_bi sd n []) = Some v -> v = None) /\
  sum_off (remote_bi sd n []) = 0.
Proof.
  intros Hs. induction n as [|n IH]; cbn [remote_bi].
  - repeat split; cbn; try constructor; try tauto; try discriminate.
  - destruct IH as (N & K & V & S).
    assert (Ln : lookup (sid (1 - sd) 0 (Z.of_nat n)) (remote_bi sd n []) = None).
    { apply lookup_none_keys. intros Hin. destruct (K _ Hin) as (j & Hj & E). unfold sid in E. lia. }
    split; [apply NoDup_insert; assumption|]. split; [|split].
    + intros k Hin. apply keys_insert in Hin. destruct Hin as [->|Hin].
      * exists (Z.of_nat n). lia.
      * destruct (K _ Hin) as (j & Hj & E). exists j. lia.
    + intros k v Lk. rewrite lookup_insert in Lk by assumption.
      destruct (k =? sid (1 - sd) 0 (Z.of_nat n)); [congruence|eapply V; eassumption].
    + rewrite sum_off_insert_none. exact S.
Qed.

Lemma Forall_insert (P : Z * option Send -> Prop) id v m :
  P (id, v) -> Forall P m -> Forall P (insert id v m).
Proof.
  intros Hp. induction m as [|[a w] t IH]; intros H; cbn [insert].
  - constructor; [exact Hp|constructor].
  - inversion H; subst. destruct (id <? a); constructor; auto.
Qed.

Lemma remote_bi_allnone sd n : Forall (fun kv : Z * option Send => snd kv = None) (remote_bi sd n []).
Proof.
  induction n as [|n IH]; cbn [remote_bi]; [constructor|].
  apply Forall_insert; [reflexivity|exact IH].
Qed.

Lemma set_remote_limits_none sd lim m :
  Forall (fun kv : Z * option Send => snd kv = None) m -> set_remote_limits sd lim m = m.
Proof.
  induction 1 as [|[k v] t Hv _ IH]; cbn [set_remote_limits map]; [reflexivity|].
  cbn in Hv. subst v. f_equal. exact IH.
Qed.

Lemma kmax_two d b u : 0 <= d <= 1 -> 0 <= b -> 0 <= u ->
  kmax d [(0, b); (1, u)] = if d =? 0 then b else u.
Proof.
  intros Hd Hb Hu. unfold kmax, lmax. cbn [filter fst snd].
  assert (d = 0 \/ d = 1) as [Hd0|Hd0] by lia; rewrite Hd0; red_eqb; cbn; lia.
Qed.

Lemma start_state sd mrb sw p :
  do_set_params p (init sd mrb sw) =
  mkState sd mrb 0 0 p.(p_streams_bidi) p.(p_streams_uni) (Z.max 0 p.(p_max_data)) 0 0 sw 0
          p.(p_sd_uni) p.(p_sd_bidi_local) p.(p_sd_bidi_remote) false false
          (set_remote_limits sd p.(p_sd_bidi_local) (remote_bi sd (Z.to_nat mrb) []))
          [] [] [] false 0 0 [].
Proof. reflexivity. Qed.

Lemma inv_start sd mrb sw p0 :
  0 <= sd <= 1 -> params_valid p0 = true ->
  Inv (fst (start sd mrb sw p0)) (snd (start sd mrb sw p0)).
Proof.
  intros Hs Hv. unfold start. cbn [fst snd]. rewrite start_state.
  destruct (remote_bi_spec sd (Z.to_nat mrb) Hs) as (N & K & V & S).
  pose proof (remote_bi_allnone sd (Z.to_nat mrb)) as An.
  rewrite (set_remote_limits_none _ _ _ An).
  pose proof Hv as Hv'. unfold params_valid, is_varint in Hv'.
  constructor; unfold early_facts, get_next, get_max, ghost0; cbn [side max_data data_sent unacked_data send sd_uni sd_bidi_local sd_bidi_remote next_bi next_uni max_bi max_uni g_phase g_par g_md g_msd g_ms g_closed]; try lia; auto.
  - unfold lmax. cbn [fold_right]. lia.
  - intros id x L. apply V in L. discriminate.
  - intros d Hd. rewrite kmax_two by lia. destruct (d =? 0); lia.
  - intros id Hin. destruct (K _ Hin) as (j & Hj & ->). split; [unfold sid; lia|].
    intros E. rewrite id_init_sid in E by lia. lia.
  - intros _. repeat split; try lia; auto.
    + intros id v L _. eapply V; eassumption.
    + intros d i Hd Hi. destruct (d =? 0); lia.
Qed.

(* ------------------------------------------------------------------------------------------ *)
(** * Consequences *)

(** The exact amount a [write] accepts. *)
Lemma write_exact s id n x limit :
  write_limit s = Some limit -> lookup id s.(send) = Some (Some x) ->
  x.(s_state) = 0 -> x.(s_stop) = None -> x.(s_offset) <= x.(s_max_data) -> 0 <= n ->
  exists s', do_write id n s =
             Some (s', if Z.min limit (x.(s_max_data) - x.(s_offset)) =? 0 then [1]
                       else [0; Z.min n (Z.min limit (x.(s_max_data) - x.(s_offset)))]).
Proof.
  intros WL L St Sp Ho Hn. unfold do_write, touch. rewrite WL, L.
  assert (Hl : 0 <= limit).
  { unfold write_limit in WL. destruct (max_data s <? data_sent s) eqn:E; [discriminate|].
    injection WL as <-. lia. }
  destruct (limit =? 0) eqn:El.
  { assert (Z.min limit (s_max_data x - s_offset x) =? 0 = true) as -> by lia.
    destruct (s_cb x); eexists; reflexivity. }
  rewrite St. change (0 =? 0) with true. cbn [negb]. rewrite Sp.
  destruct (s_max_data x <? s_offset x) eqn:E1; [lia|].
  destruct (s_max_data x - s_offset x =? 0) eqn:E2.
  { assert (Z.min limit (s_max_data x - s_offset x) =? 0 = true) as -> by lia. eexists; reflexivity. }
  assert (Z.min limit (s_max_data x - s_offset x) =? 0 = false) as -> by lia.
  eexists; reflexivity.
Qed.

(** [open] answers [None] exactly when no stream credit remains. *)
Lemma open_none_iff s d :
  get_next (norm_dir d) s <= get_max (norm_dir d) s ->
  ((exists s', do_open d s = Some (s', [1])) <-> get_next (norm_dir d) s = get_max (norm_dir d) s).
Proof.
  intros Hle. unfold do_open. destruct (get_max (norm_dir d) s <=? get_next (norm_dir d) s) eqn:E.
  - split; [lia|]. intros _. eexists; reflexivity.
  - split; [|lia]. intros (s' & H).
    destruct (lookup _ _); [discriminate|]. unfold ok in H. injection H as _ H. discriminate.
Qed.

(** A [write] never raises [unacked_data] above the send window (unless it already was above),
    and it raises [unacked_data] and [data_sent] by exactly the accepted length. *)
Lemma write_send_window s id n s' r :
  do_write id n s = Some (s', r) -> 0 <= n -> 0 <= s.(unacked_data) ->
  s'.(unacked_data) <= Z.max s.(unacked_data) s.(send_window)
  /\ s'.(send_window) = s.(send_window)
  /\ s'.(unacked_data) - s.(unacked_data) = s'.(data_sent) - s.(data_sent)
  /\ 0 <= s'.(unacked_data) - s.(unacked_data)
  /\ (forall w, r = [0; w] -> s'.(unacked_data) = s.(unacked_data) + w).
Proof.
  intros W Hn Hu. unfold do_write, write_limit, touch, put, push_pending, ok in W.
  destruct s. cbn in *.
  destruct (max_data <? data_sent) eqn:E0; [discriminate|].
  destruct (lookup id send) as [[y|]|] eqn:L; cbn in W.
  3:{ injection W as <- <-. cbn. repeat split; try lia. intros w Hw. discriminate. }
  all: repeat match type of W with
       | (if ?c then _ else _) = _ => destruct c eqn:?
       | match ?c with _ => _ end = _ => destruct c eqn:?
       end; try discriminate; injection W as <- <-;
       repeat match goal with |- context [if is_pending ?q then _ else _] => destruct (is_pending q) end;
       cbn; repeat split; try lia;
       try (intros w Hw; discriminate); try (intros w Hw; injection Hw as <-; lia).
Qed.

(* ------------------------------------------------------------------------------------------ *)
(** * Preservation for the remaining operations *)

Ltac st := unfold put, push_pending in *; autorewrite with st in *.
Ltac core_eq :=
  unfold core, put, push_pending, set_next, set_max, set_blocked;
  repeat match goal with |- context [if ?c then _ else _] => destruct c end;
  autorewrite with st; reflexivity.

Lemma early_facts_ext s s' g :
  core s = core s' -> early_facts s g -> early_facts s' g.
Proof.
  unfold core. intros H. injection H as H1 H2 H3 H4 H5 H6 H7 H8 H9 H10 H11 H12.
  unfold early_facts, get_next. rewrite <- H1, <- H2, <- H3, <- H4, <- H5, <- H9, <- H10, <- H11, <- H12.
  auto.
Qed.

Lemma inv_unacked s g v :
  Inv s g -> 0 <= v -> g.(g_phase) <> 1 -> Inv (set_unacked_data v s) g.
Proof.
  intros [A B C D E1 F G H I J K1 L M] Hv Hp.
  constructor; unfold get_next, get_max in *; st; auto.
  intros Hq. specialize (M Hq). unfold early_facts, get_next in *. st.
  destruct M as (M1 & M2 & M3 & M4). repeat split; auto; try (apply M3; assumption); contradiction.
Qed.

Lemma inv_remove s g id x :
  Inv s g -> lookup id s.(send) = Some (Some x) ->
  Inv (set_send (remove id s.(send)) s)
      (mkGhost 2 g.(g_par) g.(g_md) g.(g_msd) g.(g_ms) (g.(g_closed) + x.(s_offset))).
Proof.
  intros [A B C D E1 F G H I J K1 L M] Lk.
  constructor; unfold get_next, get_max, delivered_stream_limit in *; st; cbn; auto; try lia.
  - rewrite sum_off_remove, Lk. cbn [offo]. lia.
  - intros k y Ly. destruct (Z.eq_dec k id) as [->|Hn].
    + rewrite lookup_remove_eq in Ly by assumption. discriminate.
    + rewrite lookup_remove_neq in Ly by assumption. apply H. exact Ly.
  - apply NoDup_remove. exact J.
  - intros k Hk. apply K1. eapply keys_remove_subset. exact Hk.
Qed.

Ltac destr_if :=
  repeat match goal with
  | H : context [if ?c then _ else _] |- _ => destruct c eqn:?
  | |- context [if ?c then _ else _] => destruct c eqn:?
  end.

Lemma inv_open s g d :
  Inv s g -> g.(g_phase) <> 1 -> 0 <= d <= 1 -> get_next d s < get_max d s ->
  lookup (sid s.(side) d (get_next d s)) s.(send) = None ->
  Inv (set_send (insert (sid s.(side) d (get_next d s)) None s.(send))
         (set_next d (get_next d s + 1) s)) g.
Proof.
  intros I Hp1 Hd Hlt Ln.
  pose proof (i_side _ _ I) as Hs.
  destruct (i_cnt _ _ I d Hd) as (Hn & Hk).
  remember (sid (side s) d (get_next d s)) as id eqn:Eid.
  assert (Hii : id_init id = side s) by (subst id; apply id_init_sid; lia).
  assert (Hid : id_dir id = d) by (subst id; apply id_dir_sid; lia).
  assert (Hix : id_index id = get_next d s) by (subst id; apply id_index_sid; lia).
  assert (Hid0 : 0 <= id) by (subst id; unfold sid; lia).
  assert (Hinj : forall d0 i, 0 <= d0 <= 1 -> 0 <= i -> sid (side s) d0 i = id -> d0 = d /\ i = get_next d s).
  { intros d0 i H1 H2 H3. subst id. unfold sid in H3. lia. }
  destruct I as [A B C D E1 F G H I J K1 L M].
  assert (Hcase : d = 0 \/ d = 1) by lia.
  constructor; auto.
  all: unfold early_facts in *; unfold set_next, get_next, get_max in *.
  all: destruct Hcase as [Hc|Hc]; rewrite Hc in *;
       change (0 =? 0) with true in *; change (1 =? 0) with false in *; cbv iota in *; st; auto.
  all: try (rewrite sum_off_insert_none; assumption).
  all: try (intros k x Lk; rewrite lookup_insert in Lk by assumption;
            destruct (k =? id); [discriminate|apply H; exact Lk]).
  all: try (intros d0 Hd0; specialize (I d0 Hd0); destr_if; lia).
  all: try (apply NoDup_insert; assumption).
  all: try (intros k Hk'; apply (proj1 (keys_insert k id None _)) in Hk'; destruct Hk' as [Hk'|Hk'];
            [subst k; split; [lia|intros _; rewrite Hid, Hix; red_eqb; cbv iota; lia]
            |destruct (K1 k Hk') as (K2 & K3); split; [exact K2|];
             intros Hq; specialize (K3 Hq); destr_if; lia]).
  all: intros Hp; specialize (M Hp); destruct M as (M1 & M2 & M3 & M4);
       (split; [|split; [exact M2|split; [|intros Hq; contradiction]]]).
  all: try (intros k v Lk Hr; rewrite lookup_insert in Lk by assumption;
            destruct (k =? id) eqn:Ek; [assert (k = id) by lia; subst k; congruence|eapply M1; eassumption]).
  all: intros Hq; destruct (M3 Hq) as (Q1 & Q2 & Q3); (split; [exact Q1|split; [exact Q2|]]).
  all: intros d0 i Hd0 Hi; rewrite lookup_insert by assumption.
  all: destruct (sid (side s) d0 i =? id) eqn:Ek; [discriminate|].
  all: apply Q3; [exact Hd0|].
  all: assert (Hx : sid (side s) d0 i <> id) by lia.
  all: destr_if; try lia.
  all: unfold sid in *; lia.
Qed.

(** Ghost bookkeeping *)
Ltac gcbn := cbn [g_phase g_par g_md g_msd g_ms g_closed] in *.
Lemma kmax_cons k k' v l :
  kmax k ((k', v) :: l) = if k' =? k then Z.max v (kmax k l) else kmax k l.
Proof. unfold kmax. cbn [filter fst]. destruct (k' =? k); reflexivity. Qed.

Lemma kmax_nonneg k l : 0 <= kmax k l.
Proof.
  unfold kmax, lmax. induction (map snd (filter (fun kv : Z * Z => fst kv =? k) l)) as [|a t IH];
    cbn [fold_right]; lia.
Qed.

Lemma inv_ghost_msd s g id v :
  Inv s g -> g.(g_phase) = 2 ->
  Inv s (mkGhost 2 g.(g_par) g.(g_md) ((id, v) :: g.(g_msd)) g.(g_ms) g.(g_closed)).
Proof.
  intros [A B C D E1 F G H I J K1 L M] Hp.
  constructor; gcbn; auto; try lia.
  intros k x Lk. destruct (H k x Lk) as (H1 & H2). split; [exact H1|].
  unfold delivered_stream_limit in *. gcbn. rewrite kmax_cons. destruct (id =? k); lia.
Qed.

Lemma inv_ghost_ms_noop s g d c :
  Inv s g -> g.(g_phase) = 2 -> 0 <= d <= 1 -> c <= get_max d s ->
  Inv s (mkGhost 2 g.(g_par) g.(g_md) g.(g_msd) ((d, c) :: g.(g_ms)) g.(g_closed)).
Proof.
  intros [A B C D E1 F G H I J K1 L M] Hp Hd Hc.
  constructor; gcbn; auto; try lia.
  intros d0 Hd0. destruct (I d0 Hd0) as (I1 & I2). split; [exact I1|].
  rewrite kmax_cons. destruct (d =? d0) eqn:E; [|exact I2].
  assert (d = d0) by lia. subst d0. lia.
Qed.

Lemma inv_max_streams s g d c :
  Inv s g -> g.(g_phase) = 2 -> 0 <= d <= 1 -> get_max d s < c ->
  Inv (set_max d c s) (mkGhost 2 g.(g_par) g.(g_md) g.(g_msd) ((d, c) :: g.(g_ms)) g.(g_closed)).
Proof.
  intros [A B C D E1 F G H I J K1 L M] Hp Hd Hc.
  assert (Hcase : d = 0 \/ d = 1) by lia.
  constructor; gcbn; auto; try lia.
  all: unfold set_max, get_next, get_max, delivered_stream_limit in *.
  all: destruct Hcase as [Hc0|Hc0]; rewrite Hc0 in *;
       change (0 =? 0) with true in *; change (1 =? 0) with false in *; cbv iota in *; st; auto.
  all: intros d0 Hd0; destruct (I d0 Hd0) as (I1 & I2); rewrite kmax_cons;
       destruct (d0 =? 0) eqn:E0; red_eqb; cbv iota.
  all: try (assert (d0 = 0) by lia; subst d0); try (assert (d0 = 1) by lia; subst d0); red_eqb; cbv iota; lia.
Qed.

(** [set_params]: the fields the invariant reads, by computation. *)
Lemma sp_side p s : side (do_set_params p s) = side s. Proof. reflexivity. Qed.
Lemma sp_max_data p s : max_data (do_set_params p s) = Z.max (max_data s) (p_max_data p). Proof. reflexivity. Qed.
Lemma sp_data_sent p s : data_sent (do_set_params p s) = data_sent s. Proof. reflexivity. Qed.
Lemma sp_unacked p s : unacked_data (do_set_params p s) = unacked_data s. Proof. reflexivity. Qed.
Lemma sp_send p s : send (do_set_params p s) = set_remote_limits (side s) (p_sd_bidi_local p) (send s). Proof. reflexivity. Qed.
Lemma sp_sd_uni p s : sd_uni (do_set_params p s) = p_sd_uni p. Proof. reflexivity. Qed.
Lemma sp_sd_bl p s : sd_bidi_local (do_set_params p s) = p_sd_bidi_local p. Proof. reflexivity. Qed.
Lemma sp_sd_br p s : sd_bidi_remote (do_set_params p s) = p_sd_bidi_remote p. Proof. reflexivity. Qed.
Lemma sp_next_bi p s : next_bi (do_set_params p s) = next_bi s. Proof. reflexivity. Qed.
Lemma sp_next_uni p s : next_uni (do_set_params p s) = next_uni s. Proof. reflexivity. Qed.
Lemma sp_max_bi p s : max_bi (do_set_params p s) = p_streams_bidi p. Proof. reflexivity. Qed.
Lemma sp_max_uni p s : max_uni (do_set_params p s) = p_streams_uni p. Proof. reflexivity. Qed.
Global Hint Rewrite sp_side sp_max_data sp_data_sent sp_unacked sp_send sp_sd_uni sp_sd_bl sp_sd_br
  sp_next_bi sp_next_uni sp_max_bi sp_max_uni : sp.

Lemma In_lookup k v m : NoDup (keys m) -> In (k, v) m -> lookup k m = Some v.
Proof.
  induction m as [|[a w] t IH]; cbn [keys map fst lookup In]; intros N Hin; [tauto|].
  inversion N as [|? ? Hn Hd]; subst. destruct Hin as [E|Hin].
  - injection E as -> ->. rewrite Z.eqb_refl. reflexivity.
  - destruct (a =? k) eqn:Ea.
    + exfalso. apply Hn. assert (a = k) by lia. subst a. change (In (fst (k, v)) (map fst t)).
      apply in_map. exact Hin.
    + apply IH; assumption.
Qed.

Lemma lookup_In k v m : lookup k m = Some v -> In (k, v) m.
Proof.
  induction m as [|[a w] t IH]; cbn [lookup In]; [discriminate|].
  destruct (a =? k) eqn:Ea.
  - intros E. injection E as ->. left. f_equal. lia.
  - intros E. right. apply IH. exact E.
Qed.

Lemma set_remote_limits_id sd lim m :
  NoDup (keys m) ->
  (forall id v, lookup id m = Some v -> id_init id <> sd -> v = None) ->
  set_remote_limits sd lim m = m.
Proof.
  intros N H. unfold set_remote_limits.
  rewrite <- (map_id m) at 2. apply map_ext_in. intros [k v] Hin.
  destruct v as [x|]; [|reflexivity].
  destruct ((id_dir k =? 0) && negb (id_init k =? sd)) eqn:E; [|reflexivity].
  exfalso. assert (Hl := In_lookup _ _ _ N Hin).
  assert (id_init k <> sd) by lia. specialize (H _ _ Hl H0). discriminate.
Qed.

Lemma lmax_cons v l : lmax (v :: l) = Z.max v (lmax l).
Proof. reflexivity. Qed.

(** 0-RTT accepted: parameters that are at least the remembered ones. *)
Lemma inv_params_accept s g p :
  Inv s g -> g.(g_phase) = 0 -> params_valid p = true -> pge_params p g.(g_par) = true ->
  Inv (do_set_params p s)
      (mkGhost 2 p (p.(p_max_data) :: g.(g_md)) g.(g_msd)
               ((0, p.(p_streams_bidi)) :: (1, p.(p_streams_uni)) :: g.(g_ms)) g.(g_closed)).
Proof.
  intros I Hp Hv Hge.
  destruct I as [A B C D E1 F G H I J K1 L M].
  destruct (M ltac:(lia)) as (M1 & M2 & M3 & _). destruct (M3 Hp) as (Q1 & Q2 & Q3).
  pose proof (set_remote_limits_id (side s) (p_sd_bidi_local p) _ J M1) as Hrl.
  unfold pge_params in Hge. unfold params_valid, is_varint in Hv, C.
  constructor; gcbn; unfold get_next, get_max, delivered_stream_limit in *;
    autorewrite with sp; rewrite ?Hrl; auto; try lia.
  - rewrite lmax_cons. lia.
  - intros k x Lk. destruct (H k x Lk) as (X1 & X2). split; [exact X1|].
    rewrite M2 in *. unfold kmax, lmax in *. cbn [filter map fold_right] in *.
    unfold par_for in *. gcbn. destr_if; lia.
  - intros d Hd. destruct (I d Hd) as (I1 & I2). rewrite !kmax_cons.
    assert (d = 0 \/ d = 1) as [Hd0|Hd0] by lia; rewrite Hd0 in *; red_eqb; cbv iota in *;
      change (0 =? 0) with true in *; change (1 =? 0) with false in *; cbv iota in *; lia.
Qed.

(** After a rejection: any parameters. *)
Lemma inv_params_fresh s g p :
  Inv s g -> g.(g_phase) = 1 -> params_valid p = true ->
  Inv (do_set_params p s)
      (mkGhost 2 p (p.(p_max_data) :: g.(g_md)) g.(g_msd)
               [(0, p.(p_streams_bidi)); (1, p.(p_streams_uni))] g.(g_closed)).
Proof.
  intros I Hp Hv.
  destruct I as [A B C D E1 F G H I J K1 L M].
  destruct (M ltac:(lia)) as (M1 & M2 & _ & M4).
  destruct (M4 Hp) as (N1 & N2 & N3 & N4 & N5 & N6 & N7).
  pose proof (set_remote_limits_id (side s) (p_sd_bidi_local p) _ J M1) as Hrl.
  unfold params_valid, is_varint in Hv.
  constructor; gcbn; unfold get_next, get_max, delivered_stream_limit in *;
    autorewrite with sp; rewrite ?Hrl; auto; try lia.
  - rewrite lmax_cons, N6. unfold lmax. cbn [fold_right]. lia.
  - intros k x Lk. exfalso.
    assert (Hin : In k (keys (send s))).
    { change (In (fst (k, Some x)) (map fst (send s))). apply in_map. apply lookup_In. exact Lk. }
    destruct (K1 k Hin) as (K2 & K3).
    destruct (Z.eq_dec (id_init k) (side s)) as [El|El].
    + specialize (K3 El). unfold id_index in K3. destr_if; lia.
    + specialize (M1 _ _ Lk El). discriminate.
  - intros d Hd. rewrite kmax_two by lia. destr_if; lia.
Qed.

(** [zero_rtt_rejected] *)
Definition is_loc (sd d : Z) (n : nat) (k : Z) : Prop :=
  exists i, 0 <= i < Z.of_nat n /\ k = sid sd d i.

Lemma remove_locals_spec sd d n : forall m m',
  remove_locals sd d n m = Some m' -> NoDup (keys m) ->
  NoDup (keys m')
  /\ (forall k, is_loc sd d n k -> lookup k m' = None)
  /\ (forall k, ~ is_loc sd d n k -> lookup k m' = lookup k m).
Proof.
  induction n as [|n IH]; intros m m' R N; cbn [remove_locals] in R.
  - injection R as <-. split; [exact N|]. split; [|auto].
    intros k (i & Hi & _). lia.
  - destruct (remove_locals sd d n m) as [m1|] eqn:R1; [|discriminate].
    destruct (IH m m1 R1 N) as (N1 & A1 & B1).
    destruct (lookup (sid sd d (Z.of_nat n)) m1) eqn:L1; [|discriminate].
    injection R as <-. split; [apply NoDup_remove; exact N1|]. split.
    + intros k (i & Hi & Ek). subst k. destruct (Z.eq_dec i (Z.of_nat n)) as [Ei|Hn]; [subst i|].
      * apply lookup_remove_eq. exact N1.
      * rewrite lookup_remove_neq by (unfold sid; lia). apply A1. exists i. split; [lia|reflexivity].
    + intros k Hk. rewrite lookup_remove_neq.
      * apply B1. intros (i & Hi & E). apply Hk. exists i. split; [lia|exact E].
      * intros E. apply Hk. exists (Z.of_nat n). split; [lia|exact E].
Qed.

Lemma remove_locals_some sd d n : forall m,
  (forall i, 0 <= i < Z.of_nat n -> lookup (sid sd d i) m <> None) -> NoDup (keys m) ->
  exists m', remove_locals sd d n m = Some m'.
Proof.
  induction n as [|n IH]; intros m H N; cbn [remove_locals]; [eexists; reflexivity|].
  destruct (IH m) as (m1 & R1); [intros i Hi; apply H; lia|exact N|].
  rewrite R1. destruct (remove_locals_spec _ _ _ _ _ R1 N) as (_ & _ & B1).
  rewrite B1.
  - destruct (lookup (sid sd d (Z.of_nat n)) m) eqn:L; [eexists; reflexivity|].
    exfalso. apply (H (Z.of_nat n)); [lia|exact L].
  - intros (i & Hi & E). unfold sid in E. lia.
Qed.

Lemma sum_off_none m : (forall k v, In (k, v) m -> v = None) -> sum_off m = 0.
Proof.
  induction m as [|[k v] t IH]; intros H; cbn [sum_off]; [reflexivity|].
  rewrite (H k v) by (left; reflexivity). cbn [offo]. rewrite IH; [reflexivity|].
  intros k' v' Hin. apply (H k'). right. exact Hin.
Qed.

Lemma in_keys_lookup k m : In k (keys m) -> lookup k m <> None.
Proof. intros Hin Hn. apply lookup_none_keys in Hn. contradiction. Qed.

Lemma lookup_in_keys k v m : lookup k m = Some v -> In k (keys m).
Proof.
  intros L. change (In (fst (k, v)) (map fst m)). apply in_map. apply lookup_In. exact L.
Qed.

Lemma local_is_loc s g k :
  Inv s g -> In k (keys s.(send)) -> id_init k = s.(side) ->
  is_loc s.(side) 0 (Z.to_nat s.(next_bi)) k \/ is_loc s.(side) 1 (Z.to_nat s.(next_uni)) k.
Proof.
  intros I Hin Hl. destruct (i_keys _ _ I k Hin) as (K2 & K3). specialize (K3 Hl).
  pose proof (sid_decompose k K2) as Hd. rewrite Hl in Hd.
  unfold get_next in K3. unfold is_loc.
  assert (0 <= id_index k) by (unfold id_index; lia).
  assert (id_dir k = 0 \/ id_dir k = 1) as [E|E] by (unfold id_dir; lia); rewrite E in *;
    red_eqb_in K3; cbv iota in K3.
  - left. exists (id_index k). split; [lia|exact Hd].
  - right. exists (id_index k). split; [lia|exact Hd].
Qed.

Lemma reject_some s g :
  Inv s g -> g.(g_phase) = 0 -> exists s', do_reject s = Some s'.
Proof.
  intros I Hp. destruct (i_early _ _ I ltac:(lia)) as (_ & _ & M3 & _).
  destruct (M3 Hp) as (_ & _ & Q3).
  destruct (i_cnt _ _ I 0 ltac:(lia)) as (N0 & _). destruct (i_cnt _ _ I 1 ltac:(lia)) as (N1 & _).
  unfold get_next in *. red_eqb_in N0. red_eqb_in N1. cbv iota in *.
  unfold do_reject, reject_with.
  destruct (remove_locals_some (side s) 0 (Z.to_nat (next_bi s)) (send s)) as (m1 & R1).
  { intros i Hi. apply (Q3 0 i); [lia|]. red_eqb. cbv iota. lia. }
  { exact (i_nodup _ _ I). }
  rewrite R1. destruct (remove_locals_spec _ _ _ _ _ R1 (i_nodup _ _ I)) as (Nd1 & A1 & B1).
  destruct (remove_locals_some (side s) 1 (Z.to_nat (next_uni s)) m1) as (m2 & R2).
  { intros i Hi. rewrite B1.
    - apply (Q3 1 i); [lia|]. red_eqb. cbv iota. lia.
    - intros (j & Hj & E). unfold sid in E. lia. }
  { exact Nd1. }
  rewrite R2. eexists. reflexivity.
Qed.

Lemma reject_inv s g s' :
  Inv s g -> g.(g_phase) = 0 -> do_reject s = Some s' ->
  Inv s' (mkGhost 1 g.(g_par) [] [] g.(g_ms) 0).
Proof.
  intros I Hp R. unfold do_reject, reject_with, CODE_FIXED in R.
  destruct (remove_locals (side s) 0 (Z.to_nat (next_bi s)) (send s)) as [m1|] eqn:R1; [|discriminate].
  destruct (remove_locals (side s) 1 (Z.to_nat (next_uni s)) m1) as [m2|] eqn:R2; [|discriminate].
  injection R as <-.
  destruct (remove_locals_spec _ _ _ _ _ R1 (i_nodup _ _ I)) as (Nd1 & A1 & B1).
  destruct (remove_locals_spec _ _ _ _ _ R2 Nd1) as (Nd2 & A2 & B2).
  destruct (i_early _ _ I ltac:(lia)) as (M1 & M2 & _ & _).
  (* every entry of [m2] is an untouched remote entry of the old map *)
  assert (Hm2 : forall k v, lookup k m2 = Some v ->
                 lookup k (send s) = Some v /\ id_init k <> side s /\ v = None).
  { intros k v L.
    destruct (Z.eq_dec (id_init k) (side s)) as [El|El].
    - exfalso.
      assert (~ is_loc (side s) 1 (Z.to_nat (next_uni s)) k) as Hn2
        by (intros Hl; rewrite (A2 k Hl) in L; discriminate).
      rewrite (B2 k Hn2) in L.
      assert (~ is_loc (side s) 0 (Z.to_nat (next_bi s)) k) as Hn1
        by (intros Hl; rewrite (A1 k Hl) in L; discriminate).
      rewrite (B1 k Hn1) in L.
      destruct (local_is_loc s g k I (lookup_in_keys _ _ _ L) El); contradiction.
    - assert (Hn2 : ~ is_loc (side s) 1 (Z.to_nat (next_uni s)) k).
      { intros (i & Hi & E). subst k. rewrite id_init_sid in El; pose proof (i_side _ _ I); lia. }
      assert (Hn1 : ~ is_loc (side s) 0 (Z.to_nat (next_bi s)) k).
      { intros (i & Hi & E). subst k. rewrite id_init_sid in El; pose proof (i_side _ _ I); lia. }
      rewrite (B2 k Hn2), (B1 k Hn1) in L. split; [exact L|]. split; [exact El|].
      eapply M1; eassumption. }
  destruct I as [A B C D E1 F G H I J K1 L M].
  constructor; gcbn; unfold get_next, get_max, early_facts in *; st; auto; try lia.
  - rewrite sum_off_none; [reflexivity|]. intros k v Hin.
    destruct (Hm2 k v (In_lookup _ _ _ Nd2 Hin)) as (_ & _ & E). exact E.
  - intros k x Lk. destruct (Hm2 _ _ Lk) as (_ & _ & E). discriminate.
  - intros d Hd. destruct (I d Hd) as (I1 & I2). destr_if; lia.
  - intros k Hk. destruct (lookup k m2) as [v|] eqn:Lk; [|apply in_keys_lookup in Hk; contradiction].
    destruct (Hm2 _ _ Lk) as (L0 & El & _).
    destruct (K1 k (lookup_in_keys _ _ _ L0)) as (K2 & _). split; [exact K2|]. intros E. contradiction.
  - intros _. split; [|split; [reflexivity|split; [intros Hq; discriminate|intros _; repeat split; lia]]].
    intros k v Lk _. destruct (Hm2 _ _ Lk) as (_ & _ & E). exact E.
Qed.

(* ------------------------------------------------------------------------------------------ *)
(** * Credit-preserving operations: [sc] *)

Lemma sc_of_core s s' : core s = core s' -> sc s s'.
Proof. exact (sc_core s s'). Qed.

Ltac sc_core_eq := apply sc_of_core; core_eq.

Lemma lookup_put k id x s :
  lookup k (send (put id x s)) =
  if k =? id then match lookup id (send s) with Some _ => Some (Some x) | None => None end
  else lookup k (send s).
Proof. unfold put. autorewrite with st. apply lookup_update. Qed.

Lemma poll_transmit_credit m x a b enc x1 :
  poll_transmit m x = (a, b, enc, x1) ->
  s_offset x1 = s_offset x /\ s_max_data x1 = s_max_data x /\ s_state x1 = s_state x.
Proof.
  unfold poll_transmit. destruct (s_retx x) as [|[rs re] t]; intros E; injection E as _ _ _ <-;
    autorewrite with st; auto.
Qed.

Lemma tx_loop_sc fuel : forall maxb buf s acc s' buf' fs okf,
  tx_loop fuel maxb buf s acc = (s', buf', fs, okf) -> sc s s'.
Proof.
  induction fuel as [|fuel IH]; intros maxb buf s acc s' buf' fs okf T; cbn [tx_loop] in T.
  - injection T as <- _ _ _. apply sc_refl.
  - destruct (buf + 25 <? maxb); [|injection T as <- _ _ _; apply sc_refl].
    destruct (pendq s) as [|id q] eqn:Pq; [injection T as <- _ _ _; apply sc_refl|].
    assert (S1 : sc s (set_pendq q s)) by sc_core_eq.
    destruct (lookup id (send (set_pendq q s))) as [[x|]|] eqn:L.
    + destruct (s_state x =? 3).
      * eapply sc_trans; [exact S1|eapply IH; exact T].
      * destruct (poll_transmit (maxb - buf - 1 - vsize id) x) as [[[a b] enc] x1] eqn:P.
        destruct (poll_transmit_credit _ _ _ _ _ _ P) as (Po & Pm & _).
        eapply sc_trans; [exact S1|]. eapply sc_trans; [|eapply IH; exact T].
        match goal with |- sc _ (if ?c then push_pending _ ?t else _) =>
          assert (S2 : sc (set_pendq q s) t) end.
        { eapply sc_put; [exact L| |]; destruct ((b =? s_offset x1) && ((s_state x1 =? 1) || (s_state x1 =? 2)));
            autorewrite with st; congruence. }
        destruct (is_pending _); [|exact S2].
        eapply sc_trans; [exact S2|]. sc_core_eq.
    + eapply sc_trans; [exact S1|eapply IH; exact T].
    + eapply sc_trans; [exact S1|eapply IH; exact T].
Qed.

Lemma cb_loop_sc st : forall s, sc s (fst (cb_loop st s)).
Proof.
  induction st as [|id t IH]; intros s; cbn [cb_loop].
  - cbn [fst]. sc_core_eq.
  - destruct (lookup id (send s)) as [[x|]|] eqn:L; try apply IH.
    assert (S1 : sc s (put id (set_s_cb false x) s))
      by (eapply sc_put; [exact L| |]; autorewrite with st; reflexivity).
    destruct ((s_state x =? 0) && (s_offset x <? s_max_data x)).
    + cbn [fst]. eapply sc_trans; [exact S1|]. sc_core_eq.
    + eapply sc_trans; [exact S1|apply IH].
Qed.

Lemma retry_stream_sc fixed id s s' : retry_stream fixed id s = Some s' -> sc s s'.
Proof.
  unfold retry_stream. destruct (lookup id (send s)) as [[x|]|] eqn:L;
    try (intros E; injection E as <-; apply sc_refl).
  destruct ((s_ulen x =? 0) && negb (s_fin_pending x)) eqn:Q; cbn [andb negb].
  - destruct (negb (fixed && ((s_state x =? 1) || (s_state x =? 2)))); cbn [andb];
      [intros E; injection E as <-; apply sc_refl|].
    autorewrite with st. destruct (s_offset x =? s_ulen x); [|discriminate].
    intros E; injection E as <-.
    match goal with |- sc s (put id ?y (if ?c then s else push_pending id s)) =>
      destruct c end.
    + eapply sc_put; [exact L| |]; autorewrite with st; reflexivity.
    + eapply sc_trans; [|eapply sc_put; [rewrite <- L; unfold push_pending; autorewrite with st; reflexivity| |];
                          autorewrite with st; reflexivity]. sc_core_eq.
  - destruct (s_offset x =? s_ulen x); [|discriminate].
    intros E; injection E as <-.
    match goal with |- sc s (put id ?y (if ?c then s else push_pending id s)) =>
      destruct c end.
    + eapply sc_put; [exact L| |]; autorewrite with st; reflexivity.
    + eapply sc_trans; [|eapply sc_put; [rewrite <- L; unfold push_pending; autorewrite with st; reflexivity| |];
                          autorewrite with st; reflexivity]. sc_core_eq.
Qed.

Lemma retry_dir_sc fixed d n : forall s s', retry_dir fixed d n s = Some s' -> sc s s'.
Proof.
  induction n as [|n IH]; intros s s' R; cbn [retry_dir] in R.
  - injection R as <-. apply sc_refl.
  - destruct (retry_dir fixed d n s) as [s1|] eqn:R1; [|discriminate].
    eapply sc_trans; [apply IH; exact R1|eapply retry_stream_sc; exact R].
Qed.

Lemma retry_sc s s' : do_retry s = Some s' -> sc s s'.
Proof.
  unfold do_retry, retry_with.
  destruct (retry_dir RETRY_FIXED 0 (Z.to_nat (next_bi s)) s) as [s1|] eqn:R1; [|discriminate].
  destruct (retry_dir RETRY_FIXED 1 (Z.to_nat (next_uni s1)) s1) as [s2|] eqn:R2; [|discriminate].
  intros E; injection E as <-.
  eapply sc_trans; [eapply retry_dir_sc; exact R1|].
  eapply sc_trans; [eapply retry_dir_sc; exact R2|]. sc_core_eq.
Qed.

(* ------------------------------------------------------------------------------------------ *)
(** * Per-operation lemmas (credit invariant) *)

Lemma finish_inv s g id s' r :
  Inv s g -> (g.(g_phase) <> 2 -> id_init id = s.(side)) -> do_finish id s = Some (s', r) -> Inv s' g.
Proof.
  intros I Hloc F. unfold do_finish in F.
  destruct (touch id s) as [[x s1]|] eqn:T; [|injection F as <- _; exact I].
  destruct (touch_inv _ _ _ _ _ I T Hloc) as (I1 & L1 & _).
  destruct (s_stop x); [injection F as <- _; exact I1|].
  destruct (s_state x =? 0); [|injection F as <- _; exact I1].
  injection F as <- _. eapply sc_inv; [exact I1|].
  assert (S1 : sc s1 (put id (set_s_fin_pending true (set_s_state 1 x)) s1))
    by (eapply sc_put; [exact L1| |]; autorewrite with st; reflexivity).
  destruct (is_pending x); [exact S1|]. eapply sc_trans; [exact S1|sc_core_eq].
Qed.

Lemma reset_inv s g id s' r :
  Inv s g -> g.(g_phase) <> 1 -> (g.(g_phase) <> 2 -> id_init id = s.(side)) ->
  do_reset id s = Some (s', r) -> Inv s' g.
Proof.
  intros I Hp1 Hloc F. unfold do_reset in F.
  destruct (touch id s) as [[x s1]|] eqn:T; [|injection F as <- _; exact I].
  destruct (touch_inv _ _ _ _ _ I T Hloc) as (I1 & L1 & _).
  destruct (s_state x =? 3); [injection F as <- _; exact I1|].
  destruct (sb_unacked x) as [u|]; [|discriminate].
  destruct (unacked_data s1 <? u) eqn:E; [discriminate|].
  injection F as <- _.
  eapply sc_inv; [apply (inv_unacked s1 g (unacked_data s1 - u) I1); [lia|exact Hp1]|].
  eapply sc_put; [autorewrite with st; exact L1| |]; autorewrite with st; reflexivity.
Qed.

Lemma lost_inv s g f s' r : Inv s g -> do_lost f s = Some (s', r) -> Inv s' g.
Proof.
  intros I F. unfold do_lost in F. destruct f as [[[id a] b] fin].
  destruct (lookup id (send s)) as [[x|]|] eqn:L; try (injection F as <- _; exact I).
  destruct (s_unsent x <? b); [discriminate|]. injection F as <- _.
  eapply sc_inv; [exact I|].
  destruct (is_pending x).
  - eapply sc_put; [exact L| |]; autorewrite with st; reflexivity.
  - eapply sc_trans; [|eapply sc_put; [unfold push_pending; autorewrite with st; exact L| |];
                        autorewrite with st; reflexivity]. sc_core_eq.
Qed.

Lemma sb_ack_credit a b x x' : sb_ack a b x = Some x' ->
  s_offset x' = s_offset x /\ s_max_data x' = s_max_data x /\ s_state x' = s_state x.
Proof.
  unfold sb_ack. destruct (pop_acked _ _ _) as [[u l]|]; [|discriminate].
  intros E; injection E as <-. autorewrite with st. auto.
Qed.

Lemma stream_freed_core s s' : stream_freed s = Some s' -> core s' = core s.
Proof.
  unfold stream_freed. destruct (send_streams s <? 1); [discriminate|].
  intros E; injection E as <-. core_eq.
Qed.

(** An acknowledgement either updates the stream in place or removes it (finished and fully
    acknowledged): then its final offset moves to [g_closed]. *)
Lemma ack_inv s g f s' r :
  Inv s g -> g.(g_phase) <> 1 -> do_ack f s = Some (s', r) ->
  let '(id, _, _, _) := f in
  Inv s' (mkGhost 2 g.(g_par) g.(g_md) g.(g_msd) g.(g_ms) (g.(g_closed) + removed_off id s s')).
Proof.
  intros I Hp1 F. destruct f as [[[id a] b] fin]. unfold do_ack in F.
  pose proof (inv_phase2 _ _ I) as I2.
  assert (Hsame : forall t, core t = core s ->
            Inv t (mkGhost 2 (g_par g) (g_md g) (g_msd g) (g_ms g) (g_closed g + removed_off id s t))).
  { intros t Ht. unfold removed_off.
    assert (send t = send s) as -> by (unfold core in Ht; injection Ht; auto).
    replace (g_closed g + match lookup id (send s) with Some (Some x) => match lookup id (send s) with Some _ => 0 | None => s_offset x end | _ => 0 end)
      with (g_closed g) by (destruct (lookup id (send s)) as [[?|]|]; lia).
    eapply Inv_ext; [symmetry; exact Ht|exact I2]. }
  destruct (lookup id (send s)) as [[x|]|] eqn:L; try (injection F as <- _; apply Hsame; reflexivity).
  destruct (s_state x =? 3); [injection F as <- _; apply Hsame; reflexivity|].
  destruct (b <? a); [discriminate|]. destruct (unacked_data s <? b - a) eqn:E; [discriminate|].
  destruct (sb_ack a b x) as [x1|] eqn:SA; [|discriminate].
  destruct (sb_ack_credit _ _ _ _ SA) as (Ao & Am & As).
  set (s0 := set_unacked_data (unacked_data s - (b - a)) s) in *.
  assert (I0 : Inv s0 (mkGhost 2 (g_par g) (g_md g) (g_msd g) (g_ms g) (g_closed g))).
  { apply inv_unacked; [exact I2|lia|cbn; lia]. }
  assert (L0 : lookup id (send s0) = Some (Some x)) by (unfold s0; autorewrite with st; exact L).
  assert (Hput : forall y, s_offset y = s_offset x -> s_max_data y = s_max_data x ->
            Inv (put id y s0) (mkGhost 2 (g_par g) (g_md g) (g_msd g) (g_ms g)
                                 (g_closed g + removed_off id s (put id y s0)))).
  { intros y Ho Hm. unfold removed_off. rewrite L, lookup_put, Z.eqb_refl, L0.
    replace (g_closed g + 0) with (g_closed g) by lia.
    eapply sc_inv; [exact I0|]. eapply sc_put; [exact L0|exact Ho|exact Hm]. }
  destruct ((s_state x1 =? 1) || (s_state x1 =? 2)).
  - destruct (((s_state x1 =? 2) || fin) && (s_ulen (set_s_state (if (s_state x1 =? 2) || fin then 2 else 1) x1) =? 0)).
    + destruct (stream_freed (set_send (remove id (send s0)) s0)) as [s2|] eqn:SF; [|discriminate].
      injection F as <- _.
      pose proof (stream_freed_core _ _ SF) as Hc.
      pose proof (inv_remove s0 _ id x I0 L0) as Hr. gcbn.
      assert (Hro : removed_off id s (set_events (events s2 ++ [[3; id]]) s2) = s_offset x).
      { unfold removed_off. rewrite L. autorewrite with st.
        assert (send s2 = remove id (send s0)) as -> by (unfold core in Hc; injection Hc; intros; autorewrite with st in *; assumption).
        rewrite lookup_remove_eq; [reflexivity|]. unfold s0. autorewrite with st. exact (i_nodup _ _ I). }
      rewrite Hro. eapply Inv_ext; [|exact Hr].
      transitivity (core s2); [symmetry; exact Hc|core_eq].
    + injection F as <- _. apply Hput; autorewrite with st; congruence.
  - injection F as <- _. apply Hput; congruence.
Qed.

Lemma reset_acked_inv s g id s' r :
  Inv s g -> do_reset_acked id s = Some (s', r) ->
  Inv s' (mkGhost 2 g.(g_par) g.(g_md) g.(g_msd) g.(g_ms) (g.(g_closed) + removed_off id s s')).
Proof.
  intros I F. unfold do_reset_acked in F.
  pose proof (inv_phase2 _ _ I) as I2.
  assert (Hsame : Inv s (mkGhost 2 (g_par g) (g_md g) (g_msd g) (g_ms g) (g_closed g + removed_off id s s))).
  { unfold removed_off.
    replace (g_closed g + match lookup id (send s) with Some (Some x) => match lookup id (send s) with Some _ => 0 | None => s_offset x end | _ => 0 end)
      with (g_closed g) by (destruct (lookup id (send s)) as [[?|]|]; lia). exact I2. }
  destruct (lookup id (send s)) as [[x|]|] eqn:L; try (injection F as <- _; exact Hsame).
  destruct (s_state x =? 3); [|injection F as <- _; exact Hsame].
  destruct (stream_freed (set_send (remove id (send s)) s)) as [s2|] eqn:SF; [|discriminate].
  injection F as <- _.
  pose proof (stream_freed_core _ _ SF) as Hc.
  pose proof (inv_remove s _ id x I2 L) as Hr. gcbn.
  assert (Hro : removed_off id s s2 = s_offset x).
  { unfold removed_off. rewrite L.
    assert (send s2 = remove id (send s)) as -> by (unfold core in Hc; injection Hc; intros; autorewrite with st in *; assumption).
    rewrite lookup_remove_eq; [reflexivity|exact (i_nodup _ _ I)]. }
  rewrite Hro. eapply Inv_ext; [symmetry; exact Hc|exact Hr].
Qed.

Lemma on_stream_frame_core id s : core (on_stream_frame id s) = core s.
Proof. unfold on_stream_frame. destr_if; core_eq. Qed.

Lemma stop_sending_inv s g id code :
  Inv s g -> g.(g_phase) = 2 -> Inv (do_stop_sending id code s) g.
Proof.
  intros I Hp. unfold do_stop_sending.
  destruct (touch id s) as [[x s1]|] eqn:T; [|exact I].
  destruct (touch_inv _ _ _ _ _ I T ltac:(lia)) as (I1 & L1 & _).
  destruct (s_stop x); [exact I1|].
  eapply Inv_ext; [symmetry; apply on_stream_frame_core|].
  eapply sc_inv; [exact I1|].
  eapply sc_trans; [eapply (sc_put s1 id x (set_s_stop (Some code) x) L1); autorewrite with st; reflexivity|].
  sc_core_eq.
Qed.

Lemma max_stream_data_inv s g id v s' r :
  Inv s g -> g.(g_phase) = 2 -> 0 <= v -> do_max_stream_data id v s = Some (s', r) ->
  Inv s' (mkGhost 2 g.(g_par) g.(g_md)
            (if arg r 0 =? 0 then (id, v) :: g.(g_msd) else g.(g_msd)) g.(g_ms) g.(g_closed)).
Proof.
  intros I Hp Hv F. unfold do_max_stream_data in F.
  assert (Hg : mkGhost 2 (g_par g) (g_md g) (g_msd g) (g_ms g) (g_closed g) = g)
    by (destruct g; cbn in *; f_equal; lia).
  destruct (negb (id_init id =? side s) && (id_dir id =? 1)).
  { injection F as <- <-. cbn [arg nth]. red_eqb. cbv iota. rewrite Hg. exact I. }
  rewrite (write_limit_some _ _ I) in F.
  destruct (touch id s) as [[x s1]|] eqn:T.
  2:{ destruct ((id_init id =? side s) && (get_next (id_dir id) s <=? id_index id)).
      - injection F as <- <-. cbn [arg nth]. red_eqb. cbv iota. rewrite Hg. exact I.
      - injection F as <- <-. cbn [arg nth]. red_eqb. cbv iota.
        eapply Inv_ext; [symmetry; apply on_stream_frame_core|].
        apply inv_ghost_msd; assumption. }
  destruct (touch_inv _ _ _ _ _ I T ltac:(lia)) as (I1 & L1 & R1 & _).
  injection F as <- <-. cbn [arg nth]. red_eqb. cbv iota.
  eapply Inv_ext; [symmetry; apply on_stream_frame_core|].
  pose proof (inv_ghost_msd s1 g id v I1 Hp) as Ig.
  destruct ((s_max_data x <? v) && (s_state x =? 0)) eqn:Raise; [|exact Ig].
  destruct (i_str _ _ I1 id x L1) as (X1 & X2).
  assert (Hraise : forall y, s_offset y = s_offset x -> s_max_data y = v ->
            Inv (put id y s1) (mkGhost 2 (g_par g) (g_md g) ((id, v) :: g_msd g) (g_ms g) (g_closed g))).
  { intros y Ho Hm. eapply (inv_set_entry s1 _ id (Some x) y Ig L1); cbn [offo]; try lia.
    - unfold delivered_stream_limit. gcbn. rewrite kmax_cons, Z.eqb_refl. lia.
    - gcbn. lia. }
  destruct (s_offset x =? s_max_data x).
  - destruct (0 <? Z.min (max_data s - data_sent s) (Z.max 0 (send_window s - unacked_data s))).
    + eapply Inv_ext; [|apply (Hraise (set_s_max_data v x)); autorewrite with st; reflexivity]. core_eq.
    + autorewrite with st. destruct (s_cb x).
      * apply Hraise; autorewrite with st; reflexivity.
      * eapply Inv_ext; [|apply (Hraise (set_s_cb true (set_s_max_data v x))); autorewrite with st; reflexivity].
        core_eq.
  - apply Hraise; autorewrite with st; reflexivity.
Qed.

Lemma max_streams_inv s g msc d c s' r :
  Inv s g -> g.(g_phase) = 2 -> do_max_streams msc d c s = Some (s', r) ->
  Inv s' (mkGhost 2 g.(g_par) g.(g_md) g.(g_msd)
            (if arg r 0 =? 0 then (norm_dir d, c) :: g.(g_ms) else g.(g_ms)) g.(g_closed)).
Proof.
  intros I Hp F. unfold do_max_streams in F.
  assert (Hg : mkGhost 2 (g_par g) (g_md g) (g_msd g) (g_ms g) (g_closed g) = g)
    by (destruct g; cbn in *; f_equal; lia).
  pose proof (norm_dir_range d) as Hd.
  destruct (msc <? c); [injection F as <- <-; cbn [arg nth]; red_eqb; cbv iota; rewrite Hg; exact I|].
  destruct (get_max (norm_dir d) s <? c) eqn:E; injection F as <- <-; cbn [arg nth]; red_eqb; cbv iota.
  - eapply Inv_ext; [|apply (inv_max_streams s g (norm_dir d) c I Hp Hd); lia].
    unfold set_blocked, set_max. destr_if; core_eq.
  - apply inv_ghost_ms_noop; auto. lia.
Qed.

Lemma poll_inv s g s' r : Inv s g -> do_poll s = Some (s', r) -> Inv s' g.
Proof.
  intros I F. unfold do_poll, pop_event in F.
  destruct (opened_bi s); [injection F as <- _; eapply Inv_ext; [|exact I]; core_eq|].
  rewrite (write_limit_some _ _ I) in F.
  destruct (0 <? _).
  - pose proof (cb_loop_sc (conn_blocked s) s) as S1.
    destruct (cb_loop (conn_blocked s) s) as [s1 [id|]]; cbn [fst] in S1.
    + injection F as <- _. eapply sc_inv; eassumption.
    + destruct (events s1); injection F as <- _.
      * eapply sc_inv; eassumption.
      * eapply sc_inv; [exact I|]. eapply sc_trans; [exact S1|sc_core_eq].
  - destruct (events s); injection F as <- _; [exact I|]. eapply Inv_ext; [|exact I]. core_eq.
Qed.

Lemma transmit_inv s g maxb s' r : Inv s g -> do_transmit maxb s = Some (s', r) -> Inv s' g.
Proof.
  intros I F. unfold do_transmit in F.
  destruct (tx_loop _ maxb 0 s []) as [[[s1 buf] fs] okf] eqn:T.
  pose proof (tx_loop_sc _ _ _ _ _ _ _ _ _ T) as S1.
  injection F as <- _.
  eapply sc_inv; [exact I|]. eapply sc_trans; [exact S1|sc_core_eq].
Qed.

Lemma accept_inv s g d s' r : Inv s g -> do_accept d s = Some (s', r) -> Inv s' g.
Proof.
  intros I F. unfold do_accept in F. destr_if; injection F as <- _; try exact I.
  eapply Inv_ext; [|exact I]. core_eq.
Qed.

Lemma retry_inv s g s' : Inv s g -> do_retry s = Some s' -> Inv s' g.
Proof. intros I R. eapply sc_inv; [exact I|apply retry_sc; exact R]. Qed.

(* ------------------------------------------------------------------------------------------ *)
(** * The full machine preserves the credit invariant *)

Lemma inv_ph s g b :
  Inv s g -> g.(g_phase) <> 1 ->
  Inv s (mkGhost (if (g.(g_phase) =? 0) && b then 0 else 2) g.(g_par) g.(g_md) g.(g_msd) g.(g_ms) g.(g_closed)).
Proof.
  intros I Hp. destruct ((g_phase g =? 0) && b) eqn:E; [|apply inv_phase2; exact I].
  assert (mkGhost 0 (g_par g) (g_md g) (g_msd g) (g_ms g) (g_closed g) = g) as ->
    by (destruct g; cbn in *; f_equal; lia).
  exact I.
Qed.

Ltac op_case Hc :=
  unfold gstep, adm, gupd, apply, is_neutral, is_app; rewrite Hc; red_eqb; cbv iota;
  cbn [orb andb negb].

Lemma gstep_inv s g op :
  Inv s g -> Inv (fst (gstep (s, g) op)) (snd (gstep (s, g) op)).
Proof.
  intros I. pose proof (i_phase _ _ I) as Hph.
  destruct (g_phase g =? 1) eqn:P1.
  { (* after a rejection only the new parameters are admissible *)
    unfold gstep, adm. rewrite P1.
    destruct (arg op 0 =? 1) eqn:C1; cbn [andb]; [|exact I].
    destruct (params_valid (params_of op)) eqn:V; [|exact I].
    assert (Hc : arg op 0 = 1) by lia. unfold apply, gupd. rewrite Hc. red_eqb. cbv iota.
    rewrite V, P1. cbn [fst snd ok].
    pose proof (inv_params_fresh s g (params_of op) I ltac:(lia) V) as H.
    destruct (i_early _ _ I ltac:(lia)) as (_ & M2 & _ & M4).
    destruct (M4 ltac:(lia)) as (_ & _ & _ & _ & _ & N6 & N7).
    rewrite M2, N6 in *. exact H. }
  assert (Hp1 : g_phase g <> 1) by lia.
  destruct (arg op 0 =? 21) eqn:C21.
  { assert (Hc : arg op 0 = 21) by lia. op_case Hc. rewrite P1.
    destruct ((g_phase g =? 0) && (side s =? 0)) eqn:A; [|exact I].
    destruct (do_retry s) as [s'|] eqn:R; cbn [fst snd ok]; [|exact I].
    apply (inv_ph s' g true); [|exact Hp1].
    eapply retry_inv; eassumption. }
  destruct (arg op 0 =? 2) eqn:C2.
  { assert (Hc : arg op 0 = 2) by lia. op_case Hc. rewrite P1.
    destruct (do_open (arg op 1) s) as [[s' r]|] eqn:O; cbn [fst snd]; [|exact I].
    apply (inv_ph s' g true); [|exact Hp1].
    unfold do_open in O. pose proof (norm_dir_range (arg op 1)) as Hd.
    destruct (get_max (norm_dir (arg op 1)) s <=? get_next (norm_dir (arg op 1)) s) eqn:E.
    - injection O as <- _. eapply Inv_ext; [|exact I]. unfold set_blocked. destr_if; core_eq.
    - destruct (lookup _ (send s)) eqn:L; [discriminate|]. injection O as <- _.
      eapply Inv_ext; [|apply (inv_open s g (norm_dir (arg op 1)) I Hp1 Hd); [lia|exact L]].
      core_eq. }
  destruct (arg op 0 =? 9) eqn:C9.
  { assert (Hc : arg op 0 = 9) by lia. op_case Hc. rewrite P1.
    destruct (do_transmit (arg op 1) s) as [[s' r]|] eqn:O; cbn [fst snd]; [|exact I].
    apply (inv_ph s' g true); [|exact Hp1]. eapply transmit_inv; eassumption. }
  destruct (arg op 0 =? 13) eqn:C13.
  { assert (Hc : arg op 0 = 13) by lia. op_case Hc. rewrite P1. cbn [fst snd ok].
    apply (inv_ph _ g true); [|exact Hp1]. eapply Inv_ext; [|exact I]. core_eq. }
  destruct (arg op 0 =? 15) eqn:C15.
  { assert (Hc : arg op 0 = 15) by lia. op_case Hc. rewrite P1.
    destruct (do_poll s) as [[s' r]|] eqn:O; cbn [fst snd]; [|exact I].
    apply (inv_ph s' g true); [|exact Hp1]. eapply poll_inv; eassumption. }
  destruct (arg op 0 =? 19) eqn:C19.
  { assert (Hc : arg op 0 = 19) by lia. op_case Hc. rewrite P1.
    destruct (observe s); cbn [fst snd ok]; [|exact I].
    apply (inv_ph s g true); assumption. }
  destruct (arg op 0 =? 3) eqn:C3.
  { assert (Hc : arg op 0 = 3) by lia. op_case Hc. rewrite P1.
    destruct (app_ok s (arg op 1) && (0 <=? arg op 2)) eqn:A; [|exact I].
    destruct (do_write (arg op 1) (arg op 2) s) as [[s' r]|] eqn:O; cbn [fst snd]; [|exact I].
    eapply write_inv; [apply (inv_ph s g (id_local (side s) (arg op 1)) I Hp1)|exact O|lia|].
    gcbn. unfold id_local. destruct ((g_phase g =? 0) && (id_init (arg op 1) =? side s)) eqn:E; lia. }
  destruct (arg op 0 =? 4) eqn:C4.
  { assert (Hc : arg op 0 = 4) by lia. op_case Hc. rewrite P1.
    destruct (app_ok s (arg op 1) && (0 <=? arg op 2)) eqn:A; [|exact I].
    destruct (do_finish (arg op 1) s) as [[s' r]|] eqn:O; cbn [fst snd]; [|exact I].
    eapply finish_inv; [apply (inv_ph s g (id_local (side s) (arg op 1)) I Hp1)| |exact O].
    gcbn. unfold id_local. destruct ((g_phase g =? 0) && (id_init (arg op 1) =? side s)) eqn:E; lia. }
  destruct (arg op 0 =? 5) eqn:C5.
  { assert (Hc : arg op 0 = 5) by lia. op_case Hc. rewrite P1.
    destruct (app_ok s (arg op 1) && (0 <=? arg op 2)) eqn:A; [|exact I].
    destruct (do_reset (arg op 1) s) as [[s' r]|] eqn:O; cbn [fst snd]; [|exact I].
    eapply reset_inv; [apply (inv_ph s g (id_local (side s) (arg op 1)) I Hp1)| | |exact O].
    - gcbn. destr_if; lia.
    - gcbn. unfold id_local. destruct ((g_phase g =? 0) && (id_init (arg op 1) =? side s)) eqn:E; lia. }
  destruct (arg op 0 =? 1) eqn:C1.
  { assert (Hc : arg op 0 = 1) by lia. op_case Hc. rewrite P1.
    destruct ((g_phase g =? 0) && params_valid (params_of op) && pge_params (params_of op) (g_par g)) eqn:A; [|exact I].
    cbn [fst snd ok].
    assert (V : params_valid (params_of op) = true) by (destruct (params_valid (params_of op)); [reflexivity|rewrite Bool.andb_false_r in A; discriminate]).
    rewrite V. apply inv_params_accept; auto; try lia.
    destruct (pge_params (params_of op) (g_par g)); [reflexivity|rewrite Bool.andb_false_r in A; discriminate]. }
  destruct (arg op 0 =? 14) eqn:C14.
  { assert (Hc : arg op 0 = 14) by lia. op_case Hc. rewrite P1.
    destruct (g_phase g =? 0) eqn:P0; [|exact I].
    destruct (do_reject s) as [s'|] eqn:R; cbn [fst snd ok]; [|exact I].
    eapply reject_inv; eauto. lia. }
  destruct (arg op 0 =? 6) eqn:C6.
  { assert (Hc : arg op 0 = 6) by lia. op_case Hc. rewrite P1.
    destruct (is_varint (arg op 1)) eqn:A; [|exact I]. cbn [fst snd ok].
    rewrite Bool.andb_false_r.
    pose proof (max_data_inv s _ (arg op 1) (inv_phase2 _ _ I)) as Hm. gcbn.
    apply Hm; [unfold is_varint in A; lia|lia]. }
  destruct (arg op 0 =? 7) eqn:C7.
  { assert (Hc : arg op 0 = 7) by lia. op_case Hc. rewrite P1.
    destruct ((0 <=? arg op 1) && (0 <=? arg op 2)) eqn:A; [|exact I].
    destruct (do_max_stream_data (arg op 1) (arg op 2) s) as [[s' r]|] eqn:O; cbn [fst snd]; [|exact I].
    rewrite Bool.andb_false_r.
    pose proof (max_stream_data_inv s _ (arg op 1) (arg op 2) s' r (inv_phase2 _ _ I) eq_refl ltac:(lia) O) as Hm.
    gcbn. exact Hm. }
  destruct (arg op 0 =? 8) eqn:C8.
  { assert (Hc : arg op 0 = 8) by lia. op_case Hc. rewrite P1.
    destruct (0 <=? arg op 2) eqn:A; [|exact I].
    destruct (do_max_streams MAX_STREAM_COUNT_MODEL (arg op 1) (arg op 2) s) as [[s' r]|] eqn:O; cbn [fst snd]; [|exact I].
    rewrite Bool.andb_false_r.
    pose proof (max_streams_inv s _ _ (arg op 1) (arg op 2) s' r (inv_phase2 _ _ I) eq_refl O) as Hm.
    gcbn. exact Hm. }
  destruct (arg op 0 =? 10) eqn:C10.
  { assert (Hc : arg op 0 = 10) by lia. op_case Hc. rewrite P1.
    destruct (do_log true (arg op 1) s) as [[s' r]|] eqn:O; cbn [fst snd]; [|exact I].
    rewrite Bool.andb_false_r. unfold do_log in O. unfold frame_id.
    destruct (arg op 1 <? 0); [injection O as <- _; unfold removed_off; destruct (lookup (-1) (send s)) as [[?|]|];
      replace (g_closed g + 0) with (g_closed g) by lia; apply inv_phase2; exact I|].
    destruct (log_get (Z.to_nat (arg op 1)) (log s)) as [[f l]|].
    - destruct f as [[[fid a] b] fin].
      assert (I' : Inv (set_log l s) g) by (eapply Inv_ext; [|exact I]; core_eq).
      pose proof (ack_inv (set_log l s) g (fid, a, b, fin) s' r I' Hp1 O) as Ha. cbv beta iota zeta in Ha.
      unfold removed_off in *. autorewrite with st in Ha. exact Ha.
    - injection O as <- _. unfold removed_off. destruct (lookup (-1) (send s)) as [[?|]|];
        replace (g_closed g + 0) with (g_closed g) by lia; apply inv_phase2; exact I. }
  destruct (arg op 0 =? 11) eqn:C11.
  { assert (Hc : arg op 0 = 11) by lia. op_case Hc. rewrite P1.
    destruct (do_log false (arg op 1) s) as [[s' r]|] eqn:O; cbn [fst snd]; [|exact I].
    rewrite Bool.andb_false_r. apply inv_phase2. unfold do_log in O.
    destruct (arg op 1 <? 0); [injection O as <- _; exact I|].
    destruct (log_get (Z.to_nat (arg op 1)) (log s)) as [[f l]|]; [|injection O as <- _; exact I].
    eapply lost_inv; [|exact O]. eapply Inv_ext; [|exact I]. core_eq. }
  destruct (arg op 0 =? 17) eqn:C17.
  { assert (Hc : arg op 0 = 17) by lia. op_case Hc. rewrite P1.
    destruct (do_reset_acked (arg op 1) s) as [[s' r]|] eqn:O; cbn [fst snd]; [|exact I].
    rewrite Bool.andb_false_r. eapply reset_acked_inv; eassumption. }
  destruct (arg op 0 =? 18) eqn:C18.
  { assert (Hc : arg op 0 = 18) by lia. op_case Hc. rewrite P1.
    destruct (do_accept (arg op 1) s) as [[s' r]|] eqn:O; cbn [fst snd]; [|exact I].
    rewrite Bool.andb_false_r. apply inv_phase2. eapply accept_inv; eassumption. }
  destruct (arg op 0 =? 16) eqn:C16.
  { assert (Hc : arg op 0 = 16) by lia. op_case Hc. rewrite P1.
    destruct ((0 <=? arg op 1) && is_varint (arg op 2)) eqn:A; [|exact I].
    assert (V : is_varint (arg op 2) = true) by (destruct (is_varint (arg op 2)); [reflexivity|rewrite Bool.andb_false_r in A; discriminate]).
    rewrite V. cbn [fst snd ok]. rewrite Bool.andb_false_r.
    apply stop_sending_inv; [apply inv_phase2; exact I|reflexivity]. }
  (* any other opcode is inadmissible *)
  unfold gstep, adm, is_neutral, is_app. rewrite P1, C21, C2, C9, C13, C15, C19, C3, C4, C5, C1, C14, C6, C7, C8, C10, C11, C17, C18, C16.
  cbn [orb]. exact I.
Qed.

Theorem grun_inv : forall i s g, Inv s g -> Inv (fst (grun i (s, g))) (snd (grun i (s, g))).
Proof.
  induction i as [|op t IH]; intros s g I; [exact I|].
  unfold grun in *. cbn [fold_left].
  pose proof (gstep_inv s g op I) as H. destruct (gstep (s, g) op) as [s1 g1].
  apply IH. exact H.
Qed.

Theorem reachable_inv sd mrb sw p0 i s g :
  0 <= sd <= 1 -> params_valid p0 = true ->
  grun i (start sd mrb sw p0) = (s, g) -> Inv s g.
Proof.
  intros Hs Hv R. pose proof (grun_inv i _ _ (inv_start sd mrb sw p0 Hs Hv)) as H.
  unfold start in *. cbn [fst snd] in H. rewrite R in H. exact H.
Qed.
