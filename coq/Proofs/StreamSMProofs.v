(** Proofs relating Model/StreamSM.v + Model/FlowRecv.v to the specification Model/StreamSpec.v (C11). *)
From QV Require Import Lib.Tac Lib.Corr Model.FlowRecv Model.StreamSpec Model.StreamSM
  Proofs.FlowRecvProofs.
Open Scope Z_scope.

(** Abstraction of a receive half: None / Free slots are an idle open half; map absence is
    "terminal or never created" on both sides. *)
Definition abs_phase (r : recv) : rphase :=
  if r_stopped r then PStopped
  else match r_state r with RRecv z => PRecv z | RReset _ c => PReset c end.
Definition abs_slot (s : st) (t : rslot) : rhalf :=
  let r := rview s t in mkRh (abs_phase r) (r_asm r).
Definition abs_recv (s : st) (id : Z) : option rhalf :=
  match alookup id (recvm s) with Some t => Some (abs_slot s t) | None => None end.

(** Once a final size is known from a FIN it equals the high-water mark (established by [ingest]
    of the repaired code; a premise here). *)
Definition size_is_end (r : recv) : Prop :=
  forall z, r_state r = RRecv (Some z) -> r_end r = z.

(** The implementation's result of stop / received_reset / read is the spec's result on the
    abstract state. *)
Lemma stop_refines s x id code :
  abs_recv s id = alookup id (x_rh x) ->
  snd (stop_op true id code s) = snd (spec_stop id x).
Proof.
  unfold abs_recv, stop_op, spec_stop. intro H.
  destruct (alookup id (recvm s)) as [t|]; rewrite <- H; [|reflexivity].
  unfold abs_slot, abs_phase. cbn [rp rbuf].
  destruct (r_stopped (rview s t)) eqn:St; [reflexivity|].
  destruct (r_state (rview s t)) as [[z|]|z c] eqn:S;
    match goal with |- context [add_read_credits ?c ?x] => destruct (add_read_credits c x) as [s5 tt] end;
    destruct tt; reflexivity.
Qed.

Lemma received_reset_refines s x id :
  abs_recv s id = alookup id (x_rh x) ->
  snd (rreset_op id s) = snd (spec_received_reset id x).
Proof.
  unfold abs_recv, rreset_op, spec_received_reset. intro H.
  destruct (alookup id (recvm s)) as [t|]; rewrite <- H; [|reflexivity].
  unfold abs_slot, abs_phase. cbn [rp rbuf].
  destruct t as [| |r]; cbn [rview recv_new r_stopped r_state]; try reflexivity.
  destruct (r_stopped r); [reflexivity|].
  unfold reset_code.
  destruct (r_state r) as [z|z c]; [reflexivity|].
  destruct (queue_max_stream_id _). reflexivity.
Qed.

(** Finished is emitted by an acknowledgement only for a finished, never for a reset stream, and
    only when FIN and every byte are acknowledged. *)
Lemma events_insert_stream remote id s : events (insert_stream remote id s) = events s.
Proof.
  unfold insert_stream.
  destruct ((sid_dir id =? 0) || negb remote); destruct ((sid_dir id =? 0) || remote);
    repeat match goal with |- context [if ?c then _ else _] => destruct c end; reflexivity.
Qed.
Lemma events_insert_range n d from s : events (insert_remote_range n d from s) = events s.
Proof.
  revert from s. induction n as [|n IH]; intros; cbn [insert_remote_range]; [reflexivity|].
  rewrite IH. apply events_insert_stream.
Qed.
Lemma events_ensure d s : events (ensure_remote_streams d s) = events s.
Proof. unfold ensure_remote_streams. prj. apply events_insert_range. Qed.
Lemma events_stream_freed id half s : events (stream_freed id half s) = events s.
Proof.
  unfold stream_freed.
  set (s1 := if negb (sid_init id =? side s) then _ else s).
  assert (H : events s1 = events s).
  { subst s1. destruct (negb (sid_init id =? side s)); [|reflexivity].
    match goal with |- events (if ?c then _ else _) = _ => destruct c end; [|reflexivity].
    rewrite events_ensure. destruct (pget (sid_dir id) (alloc s) <=? 0); reflexivity. }
  destruct half; [|exact H].
  destruct (send_streams s1 <=? 0); prj; exact H.
Qed.

Lemma ack_finished id a b fin s :
  events (ack_frame id a b fin s) = events s \/
  exists sd, alookup id (sendm s) = Some (TSome sd) /\
    (s_state sd = 1 \/ s_state sd = 2) /\ (s_state sd = 2 \/ fin = true) /\
    fst (sbuf_ack sd a b) = 0 /\
    events (ack_frame id a b fin s) = events s ++ [[4; id]].
Proof.
  unfold ack_frame.
  destruct (alookup id (sendm s)) as [[|sd]|] eqn:L; try (left; reflexivity).
  destruct (s_state sd =? 3) eqn:E3; [left; reflexivity|].
  destruct (sbuf_ack sd a b) as [un acks] eqn:SB.
  set (st' := if (s_state sd =? 1) && fin then 2 else s_state sd).
  destruct ((st' =? 2) && (un =? 0)) eqn:D.
  - right. exists sd. apply andb_true_iff in D as [D1 D2].
    apply Z.eqb_eq in D1, D2.
    split; [reflexivity|].
    assert (K : (s_state sd = 1 \/ s_state sd = 2) /\ (s_state sd = 2 \/ fin = true)).
    { subst st'. destruct (Z.eqb_spec (s_state sd) 1) as [E1|E1]; destruct fin; cbn [andb] in D1;
        split; auto; lia. }
    destruct K as [K1 K2].
    split; [exact K1|]. split; [exact K2|]. split; [rewrite SB; cbn [fst]; exact D2|].
    prj. rewrite events_stream_freed. prj. reflexivity.
  - left. unfold with_send. prj. reflexivity.
Qed.
