(** Proofs about Model/Header.v: header round trip and exact coalescing split. *)
From QV Require Import Lib.Tac Lib.Bytes Lib.Corr Model.Varint Model.Header
  Proofs.BytesProofs Proofs.VarintProofs.
Open Scope Z_scope.

Lemma take_app a b : take (length a) (a ++ b) = Some (a, b).
Proof.
  unfold take. rewrite app_length.
  replace (Nat.ltb (length a + length b) (length a)) with false
    by (symmetry; apply Nat.ltb_ge; lia).
  now rewrite firstn_app_exact, skipn_app_exact.
Qed.

Lemma take_app_n n a b : length a = n -> take n (a ++ b) = Some (a, b).
Proof. intros <-. apply take_app. Qed.

Lemma be4_val v : 0 <= v < 2 ^ 32 -> be_val (be4 v) 0 = v.
Proof.
  intros Hv. unfold be4. rewrite be_val_be_bytes. change (256 ^ Z.of_nat 4) with (2 ^ 32).
  rewrite Z.mod_mod by lia. rewrite Z.mod_small by lia. lia.
Qed.

Lemma be4_length v : length (be4 v) = 4%nat.
Proof. apply be_bytes_length. Qed.

Lemma decode_long_cid c x : zlen c <= MAX_CID -> decode_long (cid_long c ++ x) = Some (c, x).
Proof.
  intros Hc. unfold decode_long, cid_long. cbn [app].
  destruct (MAX_CID <? zlen c) eqn:E; [lia|].
  unfold zlen. rewrite Nat2Z.id. apply take_app.
Qed.

Lemma venc_decode x r : 0 <= x < 2 ^ 62 -> Varint.decode (venc x ++ r) = Some (x, r).
Proof.
  intros Hx. destruct (varint_roundtrip x r Hx) as (b & Hb & Hd). unfold venc. now rewrite Hb.
Qed.

(** The Length field: always the 2-byte varint form. *)
Lemma decode_len2 len r :
  0 <= len < 2 ^ 14 -> Varint.decode (be_bytes 2 (2 ^ 14 + len) ++ r) = Some (len, r).
Proof.
  intros Hl. rewrite (decode_be_bytes_succ 1 (2 ^ 14 + len) r).
  - f_equal. f_equal. change (256 ^ Z.of_nat 1) with 256. lia.
  - change (256 ^ Z.of_nat 2) with 65536. lia.
  - change (256 ^ Z.of_nat 1) with 256.
    replace ((2 ^ 14 + len) / 256 / 64) with 1 by lia. reflexivity.
Qed.

Lemma pn_bytes_val pnl pn : 0 <= pn < win pnl -> be_val (pn_bytes pnl pn) 0 = pn.
Proof.
  intros Hp. unfold pn_bytes. rewrite be_val_be_bytes. fold (win pnl).
  rewrite Z.mod_mod by lia. rewrite Z.mod_small by lia. lia.
Qed.

Lemma pn_bytes_length pnl pn : length (pn_bytes pnl pn) = pnl.
Proof. apply be_bytes_length. Qed.

(** * finish *)
Lemma with_pn_ok first P' pnl pn payload mk ok :
  (1 <= pnl <= 4)%nat -> first mod 4 = Z.of_nat pnl - 1 -> 0 <= pn < win pnl ->
  4 <= Z.of_nat pnl + zlen payload ->
  with_pn ((first :: P') ++ pn_bytes pnl pn ++ payload) (length (first :: P')) mk ok
  = FOk (zlen (first :: P') + Z.of_nat pnl) (zlen payload) ok (mk pnl pn).
Proof.
  intros Hpnl Hf Hpn Hsz. unfold with_pn.
  set (P := first :: P').
  assert (Hlen : zlen (P ++ pn_bytes pnl pn ++ payload) = zlen P + Z.of_nat pnl + zlen payload).
  { unfold zlen. rewrite !app_length, pn_bytes_length. lia. }
  rewrite Hlen. fold (zlen P).
  destruct (zlen P + Z.of_nat pnl + zlen payload <? zlen P + 4) eqn:E; [lia|].
  replace (hd 0 (P ++ pn_bytes pnl pn ++ payload)) with first by reflexivity.
  rewrite Hf. replace (Z.to_nat (1 + (Z.of_nat pnl - 1))) with pnl by lia.
  rewrite skipn_app_exact by reflexivity.
  rewrite firstn_app_exact by apply pn_bytes_length.
  rewrite pn_bytes_val by exact Hpn.
  f_equal; unfold zlen; lia.
Qed.

(** * PartialDecode::new on top of a decoded plain header *)
Lemma decode_packet_with_len lcl grease versions P Q rest p :
  decode_plain lcl grease versions (P ++ Q ++ rest) = PdOk p (Q ++ rest) ->
  payload_len p = Some (zlen Q) ->
  decode_packet lcl grease versions (P ++ Q ++ rest) =
    match finish p (P ++ Q) (length P) with
    | FErr e => DFinishErr e (zlen (P ++ Q)) (if zlen rest =? 0 then -1 else zlen rest) (zlen Q)
    | FOk hl pl ok h =>
        DOk (zlen (P ++ Q)) (if zlen rest =? 0 then -1 else zlen rest) (zlen Q) hl pl ok h
    end.
Proof.
  intros Hd Hl. unfold decode_packet. rewrite Hd, Hl.
  assert (Hpos : (length (P ++ Q ++ rest) - length (Q ++ rest))%nat = length P).
  { rewrite !app_length. lia. }
  rewrite Hpos.
  assert (Hpl : Z.of_nat (length P) + zlen Q = zlen (P ++ Q)).
  { unfold zlen. rewrite app_length. lia. }
  rewrite Hpl.
  assert (Hdg : zlen (P ++ Q ++ rest) = zlen (P ++ Q) + zlen rest).
  { unfold zlen. rewrite !app_length. lia. }
  rewrite Hdg.
  destruct (zlen (P ++ Q) + zlen rest <? zlen (P ++ Q)) eqn:E1; [unfold zlen in *; lia|].
  replace (zlen (P ++ Q) + zlen rest =? zlen (P ++ Q)) with (zlen rest =? 0) by lia.
  replace (zlen (P ++ Q) + zlen rest - zlen (P ++ Q)) with (zlen rest) by lia.
  replace (Z.to_nat (zlen (P ++ Q))) with (length (P ++ Q)) by (unfold zlen; lia).
  rewrite (app_assoc P Q rest), firstn_app_exact by reflexivity.
  reflexivity.
Qed.

Lemma decode_packet_no_len lcl grease versions P R p :
  decode_plain lcl grease versions (P ++ R) = PdOk p R ->
  payload_len p = None ->
  decode_packet lcl grease versions (P ++ R) =
    match finish p (P ++ R) (length P) with
    | FErr e => DFinishErr e (zlen (P ++ R)) (-1) (-1)
    | FOk hl pl ok h => DOk (zlen (P ++ R)) (-1) (-1) hl pl ok h
    end.
Proof.
  intros Hd Hl. unfold decode_packet. rewrite Hd, Hl.
  replace (length (P ++ R) - length R)%nat with (length P) by (rewrite app_length; lia).
  rewrite Z.ltb_irrefl, Z.eqb_refl.
  replace (Z.to_nat (zlen (P ++ R))) with (length (P ++ R)) by (unfold zlen; lia).
  rewrite firstn_all. reflexivity.
Qed.

(** * ProtectedHeader::decode on encoded headers *)
Lemma mem_true v l : mem v l = true -> negb (mem v l) = false.
Proof. intros ->. reflexivity. Qed.

Ltac wf_hyps :=
  repeat match goal with
         | H : _ && _ = true |- _ => apply andb_true_iff in H; destruct H
         end.

Lemma pnl_cases pnl : (1 <= pnl <= 4)%nat -> pnl = 1%nat \/ pnl = 2%nat \/ pnl = 3%nat \/ pnl = 4%nat.
Proof. lia. Qed.

Ltac first_byte H :=
  match goal with
  | |- context [decode_plain _ _ _ (?f :: _)] =>
      let v := eval vm_compute in f in change f with v
  end.

Lemma decode_plain_long_common lcl grease versions first v d s X :
  128 <= first < 256 -> (first / 64) mod 2 = 1 ->
  0 < v < 2 ^ 32 -> mem v versions = true -> zlen d <= MAX_CID -> zlen s <= MAX_CID ->
  decode_plain lcl grease versions (first :: be4 v ++ cid_long d ++ cid_long s ++ X) =
    let ty := (first / 16) mod 4 in
    if ty =? 0 then
      match Varint.decode X with
      | None => PdErr E_END
      | Some (tl, r4) =>
          if zlen r4 <? tl then PdErr E_TOKEN
          else
            match Varint.decode (skipn (Z.to_nat tl) r4) with
            | None => PdErr E_END
            | Some (len, r5) => PdOk (PInitial v d s (firstn (Z.to_nat tl) r4) len) r5
            end
      end
    else if ty =? 3 then PdOk (PRetry v d s) X
    else
      match Varint.decode X with
      | None => PdErr E_END
      | Some (len, r4) => PdOk (PLong (ty =? 1) v d s len) r4
      end.
Proof.
  intros Hf Hfix Hv Hm Hd Hs. unfold decode_plain.
  rewrite Hfix. change (1 =? 0) with false. rewrite andb_false_r.
  destruct (first <? 128) eqn:E; [lia|].
  rewrite (take_app_n 4 (be4 v)) by apply be4_length.
  rewrite be4_val by lia.
  rewrite decode_long_cid by exact Hd. rewrite decode_long_cid by exact Hs.
  destruct (v =? 0) eqn:Ev; [lia|]. rewrite (mem_true _ _ Hm). reflexivity.
Qed.

Lemma decode_plain_initial lcl grease versions v d s tok pnl pn len R :
  wf_header lcl grease versions (HInitial v d s tok pnl pn) = true -> 0 <= len < 2 ^ 14 ->
  decode_plain lcl grease versions
    (header_prefix (HInitial v d s tok pnl pn) ++ be_bytes 2 (2 ^ 14 + len) ++ R)
  = PdOk (PInitial v d s tok len) R.
Proof.
  intros Hwf Hl. cbn [wf_header] in Hwf. unfold wf_version, wf_cid, wf_pn in Hwf. wf_hyps.
  cbn [header_prefix]. rewrite <- !app_assoc. cbn [app].
  assert (Hp : (1 <= pnl <= 4)%nat) by lia.
  set (first := 192 + (Z.of_nat pnl - 1)).
  assert (Hr : 128 <= first < 256) by (subst first; lia).
  assert (Hfix : (first / 64) mod 2 = 1).
  { subst first. destruct (pnl_cases pnl Hp) as [->|[->|[->| ->]]]; reflexivity. }
  rewrite decode_plain_long_common by (first [assumption | unfold MAX_CID in *; lia]).
  assert (Hty : (first / 16) mod 4 = 0).
  { subst first. destruct (pnl_cases pnl Hp) as [->|[->|[->| ->]]]; reflexivity. }
  cbv zeta. rewrite Hty. change (0 =? 0) with true. cbv iota.
  rewrite venc_decode by (unfold zlen in *; lia).
  destruct (zlen (tok ++ be_bytes 2 (2 ^ 14 + len) ++ R) <? zlen tok) eqn:E.
  { unfold zlen in E. rewrite app_length in E. lia. }
  unfold zlen at 1 2. rewrite Nat2Z.id.
  rewrite skipn_app_exact, firstn_app_exact by reflexivity.
  rewrite decode_len2 by exact Hl. reflexivity.
Qed.

Lemma decode_plain_long lcl grease versions zr v d s pnl pn len R :
  wf_header lcl grease versions (HLong zr v d s pnl pn) = true -> 0 <= len < 2 ^ 14 ->
  decode_plain lcl grease versions
    (header_prefix (HLong zr v d s pnl pn) ++ be_bytes 2 (2 ^ 14 + len) ++ R)
  = PdOk (PLong zr v d s len) R.
Proof.
  intros Hwf Hl. cbn [wf_header] in Hwf. unfold wf_version, wf_cid, wf_pn in Hwf. wf_hyps.
  cbn [header_prefix]. rewrite <- !app_assoc. cbn [app].
  assert (Hp : (1 <= pnl <= 4)%nat) by lia.
  set (first := (if zr then 208 else 224) + (Z.of_nat pnl - 1)).
  assert (Hr : 128 <= first < 256) by (subst first; destruct zr; lia).
  assert (Hfix : (first / 64) mod 2 = 1).
  { subst first. destruct zr; destruct (pnl_cases pnl Hp) as [->|[->|[->| ->]]]; reflexivity. }
  rewrite decode_plain_long_common by (first [assumption | unfold MAX_CID in *; lia]).
  assert (Hty : (first / 16) mod 4 = if zr then 1 else 2).
  { subst first. destruct zr; destruct (pnl_cases pnl Hp) as [->|[->|[->| ->]]]; reflexivity. }
  cbv zeta. rewrite Hty. rewrite decode_len2 by exact Hl. destruct zr; reflexivity.
Qed.

Lemma decode_plain_retry lcl grease versions v d s R :
  wf_header lcl grease versions (HRetry v d s) = true ->
  decode_plain lcl grease versions (header_prefix (HRetry v d s) ++ R) = PdOk (PRetry v d s) R.
Proof.
  intros Hwf. cbn [wf_header] in Hwf. unfold wf_version, wf_cid in Hwf. wf_hyps.
  cbn [header_prefix]. rewrite <- !app_assoc. cbn [app].
  rewrite decode_plain_long_common
    by (first [assumption | reflexivity | unfold MAX_CID in *; lia]).
  reflexivity.
Qed.

Lemma decode_plain_vn lcl grease versions random d s R :
  wf_header lcl grease versions (HVN random d s) = true ->
  decode_plain lcl grease versions (header_prefix (HVN random d s) ++ R) = PdOk (PVN random d s) R.
Proof.
  intros Hwf. cbn [wf_header] in Hwf. unfold wf_cid in Hwf. wf_hyps.
  cbn [header_prefix]. rewrite <- !app_assoc. cbn [app]. unfold decode_plain.
  rewrite (Z.mod_small random 128) by lia.
  assert (Hfix : negb grease && (((128 + random) / 64) mod 2 =? 0) = false).
  { destruct grease; [reflexivity|]. cbn [negb andb orb] in *.
    destruct (((128 + random) / 64) mod 2 =? 0) eqn:E; [lia|reflexivity]. }
  rewrite Hfix. destruct (128 + random <? 128) eqn:E; [lia|].
  rewrite (take_app_n 4 (be4 0)) by apply be4_length.
  rewrite decode_long_cid by lia. rewrite decode_long_cid by lia.
  change (be_val (be4 0) 0 =? 0) with true. cbv iota.
  do 2 f_equal. lia.
Qed.

Lemma decode_plain_short lcl grease versions spin kp d pnl pn R :
  wf_header lcl grease versions (HShort spin kp d pnl pn) = true ->
  decode_plain lcl grease versions (header_prefix (HShort spin kp d pnl pn) ++ R)
  = PdOk (PShort spin d) R.
Proof.
  intros Hwf. cbn [wf_header] in Hwf. unfold wf_pn in Hwf. wf_hyps.
  cbn [header_prefix]. rewrite <- !app_assoc. cbn [app]. unfold decode_plain.
  assert (Hp : (1 <= pnl <= 4)%nat) by lia.
  set (first := 64 + 4 * b2z kp + 32 * b2z spin + (Z.of_nat pnl - 1)).
  assert (Hfix : (first / 64) mod 2 = 1).
  { subst first. destruct kp, spin; destruct (pnl_cases pnl Hp) as [->|[->|[->| ->]]]; reflexivity. }
  assert (Hspin : ((first / 32) mod 2 =? 1) = spin).
  { subst first. destruct kp, spin; destruct (pnl_cases pnl Hp) as [->|[->|[->| ->]]]; reflexivity. }
  assert (Hlt : first < 128).
  { subst first. destruct kp, spin; cbn [b2z]; lia. }
  rewrite Hfix. change (1 =? 0) with false. rewrite andb_false_r.
  destruct (first <? 128) eqn:E; [|lia].
  match goal with H : Nat.eqb _ _ = true |- _ => apply Nat.eqb_eq in H; rewrite <- H end.
  rewrite take_app. rewrite Hspin. reflexivity.
Qed.

(** * Round trip *)
Lemma zlen_app (a b : list Z) : zlen (a ++ b) = zlen a + zlen b.
Proof. unfold zlen. rewrite app_length. lia. Qed.

Lemma header_roundtrip lcl grease versions h payload rest :
  wf_header lcl grease versions h = true -> size_ok h payload = true ->
  exists hl pk, encode_packet h payload = Some (hl, pk) /\
    decode_packet lcl grease versions (pk ++ rest) = expected_decode h hl pk payload rest.
Proof.
  intros Hwf Hsz. pose proof Hwf as Hwf0. unfold size_ok in Hsz. unfold encode_packet.
  destruct h as [v d s tok pnl pn|zr v d s pnl pn|v d s|spin kp d pnl pn|random d s];
    cbn [pn_of has_length] in *.
  - (* Initial *)
    cbn [negb orb] in Hsz. rewrite andb_comm in Hsz. rewrite Hsz.
    apply andb_true_iff in Hsz as [Hs1 Hs2].
    cbn [wf_header] in Hwf. unfold wf_version, wf_cid, wf_pn in Hwf. wf_hyps.
    assert (Hp : (1 <= pnl <= 4)%nat) by lia.
    set (len := Z.of_nat pnl + zlen payload) in *.
    set (P := header_prefix (HInitial v d s tok pnl pn) ++ be_bytes 2 (2 ^ 14 + len)).
    do 2 eexists. split; [reflexivity|].
    replace ((header_prefix (HInitial v d s tok pnl pn) ++ be_bytes 2 (2 ^ 14 + len)
              ++ pn_bytes pnl pn ++ payload) ++ rest)
      with (P ++ (pn_bytes pnl pn ++ payload) ++ rest)
      by (subst P; now rewrite <- !app_assoc).
    assert (HQ : zlen (pn_bytes pnl pn ++ payload) = len).
    { rewrite zlen_app. unfold zlen at 1. rewrite pn_bytes_length. reflexivity. }
    rewrite (decode_packet_with_len _ _ _ P _ rest (PInitial v d s tok len)).
    2:{ subst P. rewrite <- !app_assoc. apply decode_plain_initial; [exact Hwf0|lia]. }
    2:{ cbn [payload_len]. now rewrite HQ. }
    cbn [finish].
    assert (HP : exists P', P = (192 + (Z.of_nat pnl - 1)) :: P').
    { subst P. cbn [header_prefix app]. eexists; reflexivity. }
    destruct HP as (P' & HP). rewrite HP.
    replace (hd 0 (((192 + (Z.of_nat pnl - 1)) :: P') ++ pn_bytes pnl pn ++ payload))
      with (192 + (Z.of_nat pnl - 1)) by reflexivity.
    rewrite with_pn_ok
      by (first [lia | destruct (pnl_cases pnl Hp) as [->|[->|[->| ->]]]; reflexivity]).
    unfold expected_decode. cbn [has_length pnl_of pn_of]. rewrite <- HP.
    replace (((192 + (Z.of_nat pnl - 1)) / 4) mod 4 =? 0) with true
      by (destruct (pnl_cases pnl Hp) as [->|[->|[->| ->]]]; reflexivity).
    rewrite HQ. f_equal.
    + subst P. rewrite <- !app_assoc. reflexivity.
    + subst P. rewrite zlen_app. unfold zlen at 2. rewrite be_bytes_length. lia.
  - (* Long *)
    cbn [negb orb] in Hsz. rewrite andb_comm in Hsz. rewrite Hsz.
    apply andb_true_iff in Hsz as [Hs1 Hs2].
    cbn [wf_header] in Hwf. unfold wf_version, wf_cid, wf_pn in Hwf. wf_hyps.
    assert (Hp : (1 <= pnl <= 4)%nat) by lia.
    set (len := Z.of_nat pnl + zlen payload) in *.
    set (P := header_prefix (HLong zr v d s pnl pn) ++ be_bytes 2 (2 ^ 14 + len)).
    do 2 eexists. split; [reflexivity|].
    replace ((header_prefix (HLong zr v d s pnl pn) ++ be_bytes 2 (2 ^ 14 + len)
              ++ pn_bytes pnl pn ++ payload) ++ rest)
      with (P ++ (pn_bytes pnl pn ++ payload) ++ rest)
      by (subst P; now rewrite <- !app_assoc).
    assert (HQ : zlen (pn_bytes pnl pn ++ payload) = len).
    { rewrite zlen_app. unfold zlen at 1. rewrite pn_bytes_length. reflexivity. }
    rewrite (decode_packet_with_len _ _ _ P _ rest (PLong zr v d s len)).
    2:{ subst P. rewrite <- !app_assoc. apply decode_plain_long; [exact Hwf0|lia]. }
    2:{ cbn [payload_len]. now rewrite HQ. }
    cbn [finish].
    set (first := (if zr then 208 else 224) + (Z.of_nat pnl - 1)).
    assert (HP : exists P', P = first :: P').
    { subst P first. cbn [header_prefix app]. eexists; reflexivity. }
    destruct HP as (P' & HP). rewrite HP.
    replace (hd 0 ((first :: P') ++ pn_bytes pnl pn ++ payload)) with first by reflexivity.
    rewrite with_pn_ok
      by (first [lia | subst first; destruct zr;
                       destruct (pnl_cases pnl Hp) as [->|[->|[->| ->]]]; reflexivity]).
    unfold expected_decode. cbn [has_length pnl_of pn_of]. rewrite <- HP.
    replace ((first / 4) mod 4 =? 0) with true
      by (subst first; destruct zr; destruct (pnl_cases pnl Hp) as [->|[->|[->| ->]]]; reflexivity).
    rewrite HQ. f_equal.
    + subst P. rewrite <- !app_assoc. reflexivity.
    + subst P. rewrite zlen_app. unfold zlen at 2. rewrite be_bytes_length. lia.
  - (* Retry *)
    do 2 eexists. split; [reflexivity|]. rewrite <- app_assoc.
    rewrite (decode_packet_no_len _ _ _ _ _ (PRetry v d s))
      by (first [apply decode_plain_retry; exact Hwf0 | reflexivity]).
    cbn [finish]. unfold expected_decode. cbn [has_length reserved_expected].
    replace (hd 0 (header_prefix (HRetry v d s) ++ payload ++ rest)) with 240 by reflexivity.
    change ((240 / 4) mod 4 =? 0) with true.
    rewrite !zlen_app. f_equal; unfold zlen; lia.
  - (* Short *)
    cbn [negb orb] in Hsz. rewrite andb_true_r in Hsz. rewrite Hsz.
    cbn [wf_header] in Hwf. unfold wf_pn in Hwf. wf_hyps.
    assert (Hp : (1 <= pnl <= 4)%nat) by lia.
    do 2 eexists. split; [reflexivity|].
    set (P := header_prefix (HShort spin kp d pnl pn)).
    replace ((P ++ pn_bytes pnl pn ++ payload) ++ rest)
      with (P ++ pn_bytes pnl pn ++ payload ++ rest) by (now rewrite <- !app_assoc).
    rewrite (decode_packet_no_len _ _ _ _ _ (PShort spin d))
      by (first [apply decode_plain_short; exact Hwf0 | reflexivity]).
    cbn [finish].
    set (first := 64 + 4 * b2z kp + 32 * b2z spin + (Z.of_nat pnl - 1)).
    assert (HP : exists P', P = first :: P').
    { subst P first. cbn [header_prefix app]. eexists; reflexivity. }
    destruct HP as (P' & HP). rewrite HP.
    replace (hd 0 ((first :: P') ++ pn_bytes pnl pn ++ payload ++ rest)) with first by reflexivity.
    rewrite with_pn_ok
      by (first [rewrite zlen_app; unfold zlen in *; lia | lia
                | subst first; destruct kp, spin;
                  destruct (pnl_cases pnl Hp) as [->|[->|[->| ->]]]; reflexivity]).
    unfold expected_decode. cbn [has_length reserved_expected]. rewrite <- HP.
    replace ((first / 4) mod 2 =? 1) with kp
      by (subst first; destruct kp, spin; destruct (pnl_cases pnl Hp) as [->|[->|[->| ->]]]; reflexivity).
    replace ((first / 8) mod 4 =? 0) with true
      by (subst first; destruct kp, spin; destruct (pnl_cases pnl Hp) as [->|[->|[->| ->]]]; reflexivity).
    rewrite !zlen_app. f_equal; lia.
  - (* Version Negotiation *)
    do 2 eexists. split; [reflexivity|]. rewrite <- app_assoc.
    rewrite (decode_packet_no_len _ _ _ _ _ (PVN random d s))
      by (first [apply decode_plain_vn; exact Hwf0 | reflexivity]).
    cbn [finish]. unfold expected_decode. cbn [has_length reserved_expected].
    cbn [wf_header] in Hwf. wf_hyps.
    replace (hd 0 (header_prefix (HVN random d s) ++ payload ++ rest)) with (128 + random mod 128)
      by reflexivity.
    rewrite (Z.mod_small random 128) by lia.
    rewrite !zlen_app. f_equal; unfold zlen; lia.
Qed.

(** The split point is exactly the end of the encoded packet: position of the Length field's end
    plus the encoded Length; what follows is handed back untouched as the next coalesced packet. *)
Lemma coalesced_split_exact lcl grease versions h payload rest :
  wf_header lcl grease versions h = true -> size_ok h payload = true -> has_length h = true ->
  exists hl pk, encode_packet h payload = Some (hl, pk) /\
    exists hl' pl ok h',
      decode_packet lcl grease versions (pk ++ rest) =
        DOk (zlen pk) (if zlen rest =? 0 then -1 else zlen rest) (pnl_of h + zlen payload) hl' pl ok h' /\
      zlen pk = (hl - pnl_of h) + (pnl_of h + zlen payload) /\
      firstn (Z.to_nat (zlen pk)) (pk ++ rest) = pk /\ skipn (Z.to_nat (zlen pk)) (pk ++ rest) = rest.
Proof.
  intros Hwf Hsz Hl.
  destruct (header_roundtrip lcl grease versions h payload rest Hwf Hsz) as (hl & pk & He & Hd).
  exists hl, pk. split; [exact He|].
  unfold expected_decode in Hd. rewrite Hl in Hd.
  do 4 eexists. split; [exact Hd|].
  replace (Z.to_nat (zlen pk)) with (length pk) by (unfold zlen; lia).
  rewrite firstn_app_exact, skipn_app_exact by reflexivity. split; [|split; reflexivity].
  unfold encode_packet in He. rewrite Hl in He. unfold pnl_of.
  destruct (pn_of h) as [[pnl pn]|] eqn:Epn.
  2:{ destruct h; discriminate. }
  destruct ((Z.of_nat pnl + zlen payload <? 2 ^ 14) && (4 <=? Z.of_nat pnl + zlen payload));
    [|discriminate].
  injection He as <- <-.
  assert (H2 : forall x, zlen (be_bytes 2 x) = 2) by (intros x; unfold zlen; now rewrite be_bytes_length).
  assert (Hn : zlen (pn_bytes pnl pn) = Z.of_nat pnl) by (unfold zlen; now rewrite pn_bytes_length).
  unfold zlen. rewrite app_length. cbn [length]. rewrite app_length, pn_bytes_length. lia.
Qed.
