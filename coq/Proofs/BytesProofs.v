From QV Require Import Lib.Tac Lib.Bytes.
Open Scope Z_scope.

Lemma be_val_app a b acc : be_val (a ++ b) acc = be_val b (be_val a acc).
Proof. revert acc; induction a as [|x a IH]; intro acc; cbn [be_val app]; auto. Qed.

Lemma be_bytes_length n x : length (be_bytes n x) = n.
Proof. induction n as [|k IH]; cbn [be_bytes length]; auto. Qed.

Lemma be_bytes_all_bytes n x : all_bytes (be_bytes n x) = true.
Proof.
  induction n as [|k IH]; cbn [be_bytes all_bytes forallb]; auto.
  apply andb_true_iff; split; [|exact IH].
  unfold is_byte. pose proof (Z.mod_pos_bound (x / 256 ^ Z.of_nat k) 256 ltac:(lia)). lia.
Qed.

(** Folding the [n] low bytes of [x] onto [acc] appends [x mod 256^n]. *)
Lemma be_val_be_bytes n x acc :
  be_val (be_bytes n x) acc = acc * 256 ^ Z.of_nat n + x mod 256 ^ Z.of_nat n.
Proof.
  revert acc; induction n as [|k IH]; intro acc.
  - cbn [be_bytes be_val]. change (Z.of_nat 0) with 0. rewrite Z.pow_0_r, Z.mod_1_r. lia.
  - cbn [be_bytes be_val]. rewrite IH.
    rewrite Nat2Z.inj_succ, Z.pow_succ_r by lia.
    assert (Hp : 0 < 256 ^ Z.of_nat k) by (apply Z.pow_pos_nonneg; lia).
    set (p := 256 ^ Z.of_nat k) in *.
    rewrite (Z.mul_comm 256 p).
    rewrite (Z.rem_mul_r x p 256) by lia. lia.
Qed.

Lemma firstn_app_exact {A} (a b : list A) n : length a = n -> firstn n (a ++ b) = a.
Proof. intros <-. rewrite firstn_app, Nat.sub_diag, firstn_all. cbn. apply app_nil_r. Qed.

Lemma skipn_app_exact {A} (a b : list A) n : length a = n -> skipn n (a ++ b) = b.
Proof. intros <-. rewrite skipn_app, Nat.sub_diag, skipn_all. reflexivity. Qed.
