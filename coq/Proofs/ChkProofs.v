(** Facts about checked u64 arithmetic (Lib/Chk.v). *)
From QV Require Import Lib.Tac Lib.Chk.
Open Scope Z_scope.

Lemma chk_some x y : chk x = Some y -> y = x /\ 0 <= x <= U64MAX.
Proof.
  unfold chk. destruct ((0 <=? x) && (x <=? U64MAX)) eqn:E; intro H; [|discriminate].
  inversion H; subst. split; [reflexivity|lia].
Qed.

Lemma cadd_some a b y : cadd a b = Some y -> y = a + b /\ 0 <= a + b <= U64MAX.
Proof. apply chk_some. Qed.

Lemma cmul_some a b y : cmul a b = Some y -> y = a * b /\ 0 <= a * b <= U64MAX.
Proof. apply chk_some. Qed.

Lemma csub_some a b y : csub a b = Some y -> y = a - b /\ 0 <= a - b <= U64MAX.
Proof. apply chk_some. Qed.

Lemma chk_in_range x : 0 <= x <= U64MAX -> chk x = Some x.
Proof. intro H. unfold chk. destruct ((0 <=? x) && (x <=? U64MAX)) eqn:E; [reflexivity|lia]. Qed.

(** Arguments of an op whose entries are all non-negative (u64/u16/bool values). *)
Definition wf_op (op : list Z) : Prop := Forall (fun x => 0 <= x) op.

Lemma nth_nonneg (a : list Z) k : Forall (fun x => 0 <= x) a -> 0 <= nth k a 0.
Proof.
  intro H. revert k. induction H as [|x a Hx Ha IH]; intros k.
  - destruct k; cbn [nth]; lia.
  - destruct k as [|k]; cbn [nth]; [lia|apply IH].
Qed.

Lemma wf_tail c a : wf_op (c :: a) -> Forall (fun x => 0 <= x) a.
Proof. intro H. inversion H; assumption. Qed.
