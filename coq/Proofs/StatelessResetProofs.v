(** reset_smaller_and_rate_limited: every stateless reset the model can emit — for every
    admissible (random) padding choice — is strictly shorter than its inciting datagram; none is
    emitted for datagrams of at most MIN_PADDING_LEN + RESET_TOKEN_SIZE bytes; any two emitted
    resets are at least min_reset_interval apart, for every arrival sequence. *)
From QV Require Import Lib.Tac Lib.Chk Lib.Corr Proofs.ChkProofs gen.Constants Model.StatelessReset.
Open Scope Z_scope.

Lemma max_padding_some len mp :
  max_padding len = Some mp -> mp = len - TOKEN - 1 /\ MIN_PADDING_LEN + TOKEN < len.
Proof.
  unfold max_padding. destruct ((0 <=? len - TOKEN) && (MIN_PADDING_LEN <? len - TOKEN)) eqn:E; intro H;
    [|discriminate]. inversion H. lia.
Qed.

Lemma size_ok_smaller len sz :
  size_ok len sz = true -> sz < len /\ MIN_PADDING_LEN + TOKEN < len.
Proof.
  unfold size_ok. destruct (max_padding len) as [mp|] eqn:E; [|discriminate].
  apply max_padding_some in E as [-> Hlen].
  destruct (len - TOKEN - 1 <=? IDEAL_MIN_PADDING_LEN); intro H; lia.
Qed.

Lemma no_reset_for_small len : len <= MIN_PADDING_LEN + TOKEN -> forall sz, size_ok len sz = false.
Proof.
  intros Hl sz. destruct (size_ok len sz) eqn:E; [|reflexivity].
  apply size_ok_smaller in E. lia.
Qed.

Definition ev_time (e : Z * Z * Z) : Z := fst (fst e).

(** Pairwise spacing of an emitted list (in order of emission). *)
Fixpoint spaced (iv : Z) (out : list (Z * Z * Z)) : Prop :=
  match out with
  | [] => True
  | e :: rest => Forall (fun e' => ev_time e + iv <= ev_time e') rest /\ spaced iv rest
  end.

Lemma stateless_reset_cases s now len choice s' r :
  stateless_reset s now len choice = Some (s', r) ->
  (r = None /\ s' = s) \/
  (exists sz, r = Some sz /\ sz = choice /\ size_ok len sz = true /\
              s' = mk (has_server s) (interval s) (Some now) /\
              (forall l, last s = Some l -> l + interval s <= now)).
Proof.
  unfold stateless_reset. destruct (decide s now len) eqn:Ed; intro H.
  - inversion H; left; split; reflexivity.
  - inversion H; left; split; reflexivity.
  - destruct (size_ok len choice) eqn:Eo; [|discriminate]. inversion H; subst. right.
    exists choice. repeat split; try assumption.
    intros l Hl. unfold decide in Ed. rewrite Hl in Ed.
    destruct (now <? l + interval s) eqn:E; [discriminate|lia].
Qed.

Lemma emitted_spec evs : forall s out,
  0 <= interval s ->
  emitted s evs = Some out ->
  Forall (fun e => snd e < snd (fst e) /\ MIN_PADDING_LEN + TOKEN < snd (fst e)) out /\
  (forall l, last s = Some l -> Forall (fun e => l + interval s <= ev_time e) out) /\
  spaced (interval s) out.
Proof.
  induction evs as [|[[now len] choice] evs IH]; intros s out Hiv H; cbn [emitted] in H.
  - inversion H; subst. split; [constructor|]. split; [intros l Hl; constructor|exact I].
  - destruct (stateless_reset s now len choice) as [[s' r]|] eqn:Es; cbn [obind] in H; [|discriminate].
    cbn [fst snd] in H.
    destruct (emitted s' evs) as [rest|] eqn:Er; cbn [obind] in H; [|discriminate].
    inversion H; subst. clear H.
    apply stateless_reset_cases in Es as [[-> ->]|(sz & -> & -> & Hok & -> & Hlast)].
    + apply IH; assumption.
    + specialize (IH (mk (has_server s) (interval s) (Some now)) rest Hiv Er). cbn [interval last] in IH.
      destruct IH as (Hsz & Hl & Hsp). specialize (Hl now eq_refl).
      apply size_ok_smaller in Hok.
      split; [|split].
      * constructor; [cbn [fst snd]; exact Hok|exact Hsz].
      * intros l Hls. specialize (Hlast l Hls). constructor; [unfold ev_time; cbn [fst]; lia|].
        eapply Forall_impl; [|exact Hl]. cbn beta. intros a Ha. lia.
      * cbn [spaced]. split; [|exact Hsp]. unfold ev_time at 1. cbn [fst]. exact Hl.
Qed.

Theorem reset_smaller_and_rate_limited : forall srv iv evs out,
  0 <= iv ->
  emitted (mk srv iv None) evs = Some out ->
  Forall (fun e => snd e < snd (fst e) /\ MIN_PADDING_LEN + TOKEN < snd (fst e)) out /\
  spaced iv out.
Proof.
  intros srv iv evs out Hiv H.
  destruct (emitted_spec evs (mk srv iv None) out Hiv H) as (H1 & _ & H3). split; assumption.
Qed.

(** The short-Initial gate: with a server configuration, a supported-version Initial in a
    datagram below MIN_INITIAL_SIZE is answered by nothing, reaches no crypto and changes no
    state (model level; the real endpoint's observable state is compared by the correspondence). *)
Theorem short_initial_ignored : forall s now len hint,
  has_server s = true -> len < MIN_INITIAL_SIZE ->
  handle s 2 now len hint = Some (s, none_out 0).
Proof.
  intros s now len hint Hs Hl. unfold handle. cbn [Z.eqb]. rewrite Hs.
  destruct (len <? MIN_INITIAL_SIZE) eqn:E; [reflexivity|lia].
Qed.
