(** C18 — AppPoll / AppDrop preserve the invariant; [Inv_step], [Inv_run]; the theorems about all
    reachable states of Model/AsyncConn.v. *)
From QV Require Import Lib.Tac Model.AsyncConn Proofs.AsyncConnInv Proofs.AsyncConnLemmas Proofs.AsyncConnProofs
  Proofs.AsyncConnHandles Proofs.AsyncConnFacts.
From Coq Require Import Arith.
Open Scope nat_scope.   (* AsyncConnFacts opens Z_scope *)

(** * AppPoll *)
Definition op_free (s : st) (o : op) (n : nat) : Prop :=
  match o with
  | ORead k => recv_h s k = true /\ rborrow s k = None /\ all_read s k = false
  | OWrite k => send_h s k = true /\ wborrow s k = None
  | OStopped k => seen s k = true
  | OOpen _ => seen s n = false
  | _ => True
  end.

Lemma pend_release : forall s t t', pend (release s t) t' = if Nat.eqb t' t then None else pend s t'.
Proof.
  intros s t t'; unfold release. destruct (pend s t) as [o|] eqn:Ep.
  - destruct o; cbn [notify_of]; cbn_st; unfold upd; reflexivity.
  - destruct (Nat.eqb_spec t' t); [now subst|reflexivity].
Qed.

Lemma Inv0_unrun : forall s t, Inv0 s -> pend s t = None ->
  Inv0 (set_runnable s (upd (runnable s) t false)).
Proof. intros s t HI Hp. ev_tac HI. Qed.

Lemma op_free_release : forall s t o n, Inv0 s -> poll_ok s t o n = true ->
  op_free (set_runnable (release s t) (upd (runnable (release s t)) t false)) o n.
Proof.
  intros s t o n HI Hok. inv0_intro HI.
  destruct o; cbn [poll_ok op_free] in *; cbn_st; auto;
    unfold release; destruct (pend s t) as [o'|] eqn:Ep; try (destruct o'; cbn [notify_of]); cbn_st;
    repeat (apply andb_true_iff in Hok as [Hok ?]); unfold free_borrow in *.
  all: try (apply negb_true_iff in Hok); auto.
  all: try match goal with H : negb _ = true |- _ => apply negb_true_iff in H end.
  all: repeat split; auto.
  all: match goal with H1 : match ?b with _ => _ end = true |- _ =>
         destruct b as [t'|] eqn:Eb; [apply Nat.eqb_eq in H1; subst t'|] end; crush.
Qed.

Lemma nonempty_false : forall A (l : list A), nonempty l = false -> l = [].
Proof. intros A [|x l] H; [reflexivity|discriminate]. Qed.
Ltac prep :=
  repeat match goal with
         | H : _ /\ _ |- _ => destruct H
         | H : _ || _ = false |- _ => apply orb_false_iff in H
         | H : nonempty _ = false |- _ => apply nonempty_false in H
         end.
Ltac rw_bools :=
  repeat match goal with
         | H : ?x = false |- context [?x] => lazymatch x with true => fail | false => fail | _ => rewrite H end
         | H : ?x = true |- context [?x] => lazymatch x with true => fail | false => fail | _ => rewrite H end
         | H : ?x = [] |- context [?x] => rewrite H
         end.
Ltac rw_eqs :=
  repeat match goal with
         | E : ?x = _, H : context [?x] |- _ =>
             lazymatch x with
             | incoming _ _ => idtac | rx _ _ => idtac | dq _ => idtac | rx_end _ _ => idtac
             | stop_done _ _ => idtac | connected _ => idtac | hsconf _ => idtac | dspace _ => idtac
             | w_end _ _ => idtac | Nat.ltb _ _ => idtac | err _ => idtac
             end;
             lazymatch H with E => fail | _ => idtac end; rewrite E in H
         end; cbn [nonempty orb] in *.
Ltac ref_arith :=
  repeat match goal with
         | Hc : driver_alive ?s = ?b -> _, H : driver_alive ?s = ?b |- _ => specialize (Hc H)
         end; lia.
Ltac beq_cases :=
  unfold updb in *; cbn [notify_eqb] in *;
  repeat match goal with
         | |- context [Bool.eqb ?a ?b] => is_var a; destruct a; cbn [Bool.eqb] in *
         | |- context [Bool.eqb ?a ?b] => is_var b; destruct b; cbn [Bool.eqb] in *
         | H : context [Bool.eqb ?a ?b] |- _ => is_var a; destruct a; cbn [Bool.eqb] in *
         | H : context [Bool.eqb ?a ?b] |- _ => is_var b; destruct b; cbn [Bool.eqb] in *
         | |- context [if ?d then _ else _] => is_var d; destruct d
         | H : context [if ?d then _ else _] |- _ => is_var d; destruct d
         end; cbn [andb orb negb] in *.
Ltac crush2 :=
  beq_cases;
  repeat match goal with H : Some _ = Some _ |- _ => injection H; clear H; intros; try subst end;
  rw_eqs; try match goal with H : true = false |- _ => discriminate H | H : false = true |- _ => discriminate H end;
  rewrite ?memb_cons, ?Bool.eqb_reflx, ?notify_eqb_refl, ?Nat.eqb_refl in *; crush;
  try solve [rw_bools; cbn [orb andb negb nonempty Nat.ltb Nat.leb]; auto];
  try solve [ref_arith];
  try solve [repeat match goal with
                    | H : arrived _ _ = _ |- _ => rewrite H
                    | H : d_arrived _ = _ |- _ => rewrite H
                    | H : rx _ _ = _ |- _ => rewrite H
                    | H : dq _ = _ |- _ => rewrite H
                    end; rewrite <- ?app_assoc, ?firstn_skipn; cbn [app]; reflexivity].
Ltac wake_new :=
  match goal with
  | H : Some _ = Some _ |- _ => injection H as <-
  end;
  right; cbn [registered cond notify_of]; unfold closed; cbn_st; split; crush2.
Ltac wake_tac2 :=
  match goal with
  | Hw : (forall t o, pend ?s t = Some o -> _ \/ _), H : pend ?s _ = Some ?o |- _ \/ _ =>
      let Hr := fresh "Hr" in let Hreg := fresh "Hreg" in let Hc := fresh "Hc" in
      destruct (Hw _ _ H) as [Hr|[Hreg Hc]];
      [left; rewrite ?wake_run_eq, ?term_runnable_eq; cbn beta; rewrite Hr; reflexivity|];
      destruct o; cbn [registered cond notify_of] in Hreg, Hc |- *; unfold closed in *; cbn_st;
      try (right; split; assumption); crush2
  end.
Ltac ev_tac2 HI :=
  sim_goal; constructor; intros; unfold closed in *; cbn_st_all; inv0_intro HI;
  try solve [eauto 3]; memb_cases; pend_cases; try wake_tac2; try solve [wake_new]; crush2.

Lemma Inv0_register : forall s t o n, Inv0 s -> pend s t = None -> op_free s o n -> cond s o = false ->
  Inv0 (register s t o).
Proof.
  intros s t o n HI Hp Hfree Hc. unfold register.
  destruct o; cbn [notify_of op_free cond] in *; unfold closed in *; prep; cbn_st.
  all: try (destruct (memb (skeys s) s0) eqn:Emem).
  all: ev_tac2 HI.
Qed.

Lemma Inv0_try_op : forall s o n s' r, Inv0 s -> op_free s o n -> try_op s o n = Some (s', r) -> Inv0 s'.
Proof.
  intros s o n s' r HI Hfree Htry.
  destruct o; cbn [try_op op_free] in *; unfold closed in *.
  - (* OConnect *) destruct (connected s); [|destruct (err s)]; try discriminate; injection Htry as <- <-; assumption.
  - destruct (err s); [|destruct (connected s)]; try discriminate; injection Htry as <- <-; assumption.
  - destruct (err s); [|destruct (hsconf s)]; try discriminate; injection Htry as <- <-; assumption.
  - (* OOpen *) destruct (err s) eqn:Eerr; [injection Htry as <- <-; assumption|].
    destruct (0 <? budget s d) eqn:Eb; [|discriminate]. injection Htry as <- <-.
    destruct d; ev_tac2 HI.
  - (* OAccept *) destruct (incoming s d) as [|k rest] eqn:Einc.
    + destruct (err s); try discriminate; injection Htry as <- <-; assumption.
    + injection Htry as <- <-.
      assert (Hk : seen s k = true) by (apply (inv_inc_seen _ HI d); rewrite Einc; left; reflexivity).
      assert (Hrest : forall k0, In k0 rest -> seen s k0 = true)
        by (intros; apply (inv_inc_seen _ HI d); rewrite Einc; right; assumption).
      destruct d; ev_tac2 HI.
  - (* ORead *) destruct Hfree as (Hrh & Hrb & Har). destruct (rx s s0) as [|z l] eqn:Erx.
    + destruct (rx_end s s0) eqn:Eend; [|destruct (err s); try discriminate]; injection Htry as <- <-; try assumption.
      ev_tac2 HI.
    + injection Htry as <- <-. ev_tac2 HI.
  - (* OWrite *) destruct Hfree as (Hsh & Hwb). destruct (err s) eqn:Eerr; [injection Htry as <- <-; assumption|].
    destruct (w_end s s0) eqn:Ewe; [injection Htry as <- <-; assumption|].
    destruct (0 <? wcredit s s0) eqn:Ecr; [|discriminate]. injection Htry as <- <-. ev_tac2 HI.
  - (* OStopped *) destruct (stop_done s s0); [|destruct (err s)]; try discriminate; injection Htry as <- <-; assumption.
  - (* ORecvDgram *) destruct (dq s) as [|z l] eqn:Edq.
    + destruct (err s); try discriminate; injection Htry as <- <-; assumption.
    + injection Htry as <- <-. ev_tac2 HI.
  - (* OSendDgram *) destruct (err s); [|destruct (dspace s)]; try discriminate; injection Htry as <- <-; try assumption.
    ev_tac2 HI.
  - destruct (err s); try discriminate; injection Htry as <- <-; assumption.
Qed.

Lemma try_op_drv : forall s o n s' r, try_op s o n = Some (s', r) ->
  drv_same s' s \/ drv_same s' (need_driver s).
Proof.
  intros s o n s' r Htry.
  destruct o; cbn [try_op] in Htry; unfold closed in Htry;
    repeat match type of Htry with
           | context [match ?x with _ => _ end] =>
               lazymatch x with
               | Some _ => fail
               | _ => destruct x; cbv iota in Htry; try discriminate Htry
               end
           end;
    injection Htry as <- <-; unfold drv_same; sim_goal; auto.
Qed.

Lemma Inv0_app_poll : forall s t o n, Inv0 s -> Inv0 (fst (app_poll s t o n)).
Proof.
  intros s t o n HI; unfold app_poll.
  destruct (poll_ok s t o n) eqn:Hok; cbn [negb]; [|exact HI].
  set (s2 := set_runnable (release s t) (upd (runnable (release s t)) t false)).
  assert (Hp2 : pend s2 t = None).
  { unfold s2; cbn_st. rewrite pend_release, Nat.eqb_refl. reflexivity. }
  assert (HI2 : Inv0 s2).
  { apply Inv0_unrun; [apply Inv0_release, HI|]. rewrite pend_release, Nat.eqb_refl. reflexivity. }
  assert (Hfree : op_free s2 o n) by (apply op_free_release; assumption).
  destruct (try_op s2 o n) as [[s' r]|] eqn:Htry; cbn [fst].
  - eapply Inv0_try_op; eassumption.
  - eapply Inv0_register; try eassumption. apply (try_op_none s2 o n), Htry.
Qed.

Lemma drv_same_release : forall s t, drv_same (release s t) s.
Proof.
  intros s t; unfold release, drv_same. destruct (pend s t) as [o|]; [|auto].
  destruct o; cbn [notify_of]; cbn_st; auto.
Qed.
Lemma drv_same_register : forall s t o, drv_same (register s t o) s.
Proof.
  intros s t o; unfold register, drv_same.
  destruct o; cbn [notify_of]; cbn_st; try destruct (memb (skeys s) s0); cbn_st; auto.
Qed.
Lemma drv_same_trans : forall a b c, drv_same a b -> drv_same b c -> drv_same a c.
Proof. unfold drv_same; intros a b c (A1 & A2 & A3 & A4) (B1 & B2 & B3 & B4); repeat split; congruence. Qed.

Lemma drv_ok_app_poll : forall s t o n, drv_ok s -> drv_ok (fst (app_poll s t o n)).
Proof.
  intros s t o n Hd; unfold app_poll.
  destruct (poll_ok s t o n) eqn:Hok; cbn [negb]; [|exact Hd].
  set (s2 := set_runnable (release s t) (upd (runnable (release s t)) t false)).
  assert (H2 : drv_same s2 s).
  { eapply drv_same_trans; [|apply drv_same_release]. unfold s2, drv_same; cbn_st; auto. }
  assert (Hd2 : drv_ok s2) by (eapply drv_ok_same; eassumption).
  destruct (try_op s2 o n) as [[s' r]|] eqn:Htry; cbn [fst].
  - destruct (try_op_drv _ _ _ _ _ Htry) as [Hs|Hs]; eapply drv_ok_same; try exact Hs; auto using drv_ok_need_driver.
  - eapply drv_ok_same; [apply drv_same_register|exact Hd2].
Qed.

Theorem Inv_step : forall s l, label_no_reset_ack l = true -> Inv s -> Inv (step' s l).
Proof.
  intros s l Hok [HI Hd]. pose proof (Inv0_step_handles s l Hok HI) as H0.
  pose proof (drv_ok_step_handles s l Hd) as H1.
  destruct l; try (constructor; assumption).
  - constructor; [apply Inv0_app_poll, HI|apply drv_ok_app_poll, Hd].
  - constructor; [apply Inv0_release, HI|]. eapply drv_ok_same; [apply drv_same_release|exact Hd].
Qed.

Lemma Inv_init : Inv init.
Proof.
  constructor; [apply Inv0_init|]. unfold drv_ok; cbn. intros _; split; [left; reflexivity|discriminate].
Qed.

Lemma Inv_run_from : forall ls s, ok ls -> Inv s -> Inv (fold_left step' ls s).
Proof.
  induction ls as [|l ls IH]; intros s Hok HI; [exact HI|].
  unfold ok in *; cbn [forallb] in Hok. apply andb_true_iff in Hok as [Hl Hok].
  cbn [fold_left]. apply IH; [exact Hok|]. apply Inv_step; assumption.
Qed.
Theorem Inv_run : forall ls, ok ls -> Inv (run ls).
Proof. intros ls Hok; apply Inv_run_from; [exact Hok|apply Inv_init]. Qed.


(** * 1. No lost wake-up *)
Lemma Inv0_no_lost_wakeup : forall s, Inv0 s -> forall t o,
  pend s t = Some o -> cond s o = true -> runnable s t = true.
Proof.
  intros s HI t o Hp Hc. destruct (inv_wake s HI t o Hp) as [Hr|[_ Hc']]; [exact Hr|congruence].
Qed.
Theorem no_lost_wakeup : forall ls, ok ls -> forall t o,
  pend (run ls) t = Some o -> cond (run ls) o = true -> runnable (run ls) t = true.
Proof. intros ls Hok. apply Inv0_no_lost_wakeup, Inv_run, Hok. Qed.

Theorem driver_no_lost_wakeup : forall ls, ok ls ->
  driver_alive (run ls) = true -> drv_work (run ls) = true -> drv_runnable (run ls) = true.
Proof. intros ls Hok Ha Hw. destruct (inv_drv _ (Inv_run ls Hok) Ha) as [_ H]. exact (H Hw). Qed.

(** * 3. A close wakes everyone *)
Lemma cond_closed : forall s o, closed s = true -> cond s o = true.
Proof. intros s o Hc; destruct o; cbn [cond]; rewrite Hc, ?orb_true_r; reflexivity. Qed.
Lemma closed_all_runnable : forall s, Inv0 s -> closed s = true -> forall t o,
  pend s t = Some o -> runnable s t = true.
Proof. intros s HI Hc t o Hp. eapply Inv0_no_lost_wakeup; eauto using cond_closed. Qed.

Theorem close_wakes_everyone : forall ls, ok ls -> forall code t o,
  pend (terminate (run ls) code) t = Some o -> runnable (terminate (run ls) code) t = true.
Proof.
  intros ls Hok code. apply closed_all_runnable; [|apply closed_terminate].
  apply Inv0_terminate. apply Inv_run, Hok.
Qed.
Theorem close_wakes_everyone_AppClose : forall ls, ok ls -> (0 < nhandles (run ls))%Z -> forall t o,
  pend (step' (run ls) AppClose) t = Some o -> runnable (step' (run ls) AppClose) t = true.
Proof.
  intros ls Hok Hn. apply closed_all_runnable.
  - apply Inv_step; [reflexivity|apply Inv_run, Hok].
  - unfold step', step; cbn [fst]. apply Z.ltb_lt in Hn; rewrite Hn. apply closed_close_conn.
Qed.
Lemma closed_drv_poll_lost : forall s code, driver_alive s = true -> closed (drv_poll s [PLost code]) = true.
Proof.
  intros s code Ha. unfold drv_poll. rewrite Ha; cbn [negb fold_left drv_event]. rewrite terminate_nf.
  match goal with |- context [drained ?x] => destruct (drained x) end.
  - apply closed_drop_ref. unfold closed; cbn_st. reflexivity.
  - unfold closed; cbn_st. reflexivity.
Qed.
Theorem close_wakes_everyone_PLost : forall ls, ok ls -> driver_alive (run ls) = true -> forall code t o,
  pend (step' (run ls) (DrvPoll [PLost code])) t = Some o ->
  runnable (step' (run ls) (DrvPoll [PLost code])) t = true.
Proof.
  intros ls Hok Ha code. apply closed_all_runnable.
  - apply Inv_step; [reflexivity|apply Inv_run, Hok].
  - unfold step', step; cbn [fst]. apply closed_drv_poll_lost, Ha.
Qed.

(** * 4. Cancellation *)
Theorem cancel_safe_ops_lose_nothing : forall ls, ok ls ->
  (forall k, discarded (run ls) k = false -> arrived (run ls) k = delivered (run ls) k ++ rx (run ls) k) /\
  d_arrived (run ls) = d_delivered (run ls) ++ dq (run ls).
Proof.
  intros ls Hok. pose proof (Inv_run ls Hok) as HI. split; [apply (inv_data _ HI)|apply (inv_dgram _ HI)].
Qed.

Theorem drop_leaves_no_notify_registration : forall ls t, ok ls ->
  forall n, nwait (step' (run ls) (AppDrop t)) n t = false.
Proof.
  intros ls t Hok n.
  assert (HI : Inv (step' (run ls) (AppDrop t))) by (apply Inv_step; [reflexivity|apply Inv_run, Hok]).
  destruct (nwait (step' (run ls) (AppDrop t)) n t) eqn:E; [|reflexivity].
  destruct (inv_nw _ HI _ _ E) as (o & Hp & _).
  unfold step', step in Hp; cbn [fst] in Hp. rewrite pend_release, Nat.eqb_refl in Hp. discriminate.
Qed.

Theorem recv_drop_assert : forall ls k, ok ls -> all_read (run ls) k = true -> aget (br (run ls)) k = None.
Proof.
  intros ls k Hok Har. pose proof (Inv_run ls Hok) as HI.
  destruct (aget (br (run ls)) k) as [t|] eqn:E; [|reflexivity].
  assert (Hne : aget (br (run ls)) k <> None) by (rewrite E; discriminate).
  destruct (inv_br_end _ HI k Hne) as [He _]. rewrite (inv_allread_end _ HI k Har) in He. discriminate.
Qed.

Lemma release_idem : forall s t, release (release s t) t = release s t.
Proof.
  intros s t. unfold release at 1. rewrite pend_release, Nat.eqb_refl. reflexivity.
Qed.
Lemma poll_ok_release : forall s t o n, poll_ok s t o n = true -> poll_ok (release s t) t o n = true.
Proof.
  intros s t o n Hok. unfold release. destruct (pend s t) as [o'|]; [|exact Hok].
  destruct o; cbn [poll_ok] in *; destruct o'; cbn [notify_of]; cbn_st; try exact Hok;
    unfold upd; repeat (apply andb_true_iff in Hok as [Hok ?]); repeat (apply andb_true_iff; split); auto;
    destruct (Nat.eqb_spec s0 s1); auto.
Qed.
Theorem drop_then_fresh_poll_same_result : forall s t o n,
  poll_ok s t o n = true ->
  snd (step (step' s (AppDrop t)) (AppPoll t o n)) = snd (step s (AppPoll t o n)).
Proof.
  intros s t o n Hok. unfold step', step; cbn [fst]. unfold app_poll.
  rewrite (poll_ok_release _ _ _ _ Hok), Hok, release_idem. reflexivity.
Qed.

(** * 5. Teardown *)
Theorem refcount_tracks_handles : forall ls, ok ls ->
  (driver_alive (run ls) = true -> refcnt (run ls) = nhandles (run ls)) /\
  (driver_alive (run ls) = false -> refcnt (run ls) = (nhandles (run ls) - 1)%Z).
Proof.
  intros ls Hok. pose proof (Inv_run ls Hok) as HI. split; [apply (inv_ref_alive _ HI)|apply (inv_ref_dead _ HI)].
Qed.

(** the proto connection is only ever closed together with setting the error *)
Definition ic_ok (s : st) : Prop := inner_closed s = true -> closed s = true.

Lemma try_op_inner : forall s o n s' r, try_op s o n = Some (s', r) -> inner_closed s' = inner_closed s.
Proof.
  intros s o n s' r Htry.
  destruct o; cbn [try_op] in Htry; unfold closed in Htry;
    repeat match type of Htry with
           | context [match ?x with _ => _ end] =>
               lazymatch x with
               | Some _ => fail
               | _ => destruct x; cbv iota in Htry; try discriminate Htry
               end
           end;
    injection Htry as <- <-; sim_goal; reflexivity.
Qed.
Lemma inner_release : forall s t, inner_closed (release s t) = inner_closed s.
Proof.
  intros s t; unfold release. destruct (pend s t) as [o|]; [|reflexivity].
  destruct o; cbn [notify_of]; cbn_st; reflexivity.
Qed.
Lemma inner_register : forall s t o, inner_closed (register s t o) = inner_closed s.
Proof.
  intros s t o; unfold register.
  destruct o; cbn [notify_of]; cbn_st; try destruct (memb (skeys s) s0); cbn_st; reflexivity.
Qed.
Lemma inner_app_poll : forall s t o n, inner_closed (fst (app_poll s t o n)) = inner_closed s.
Proof.
  intros s t o n; unfold app_poll. destruct (poll_ok s t o n); cbn [negb fst]; [|reflexivity].
  match goal with |- context [try_op ?x o n] => destruct (try_op x o n) as [[s' r]|] eqn:Htry end; cbn [fst].
  - rewrite (try_op_inner _ _ _ _ _ Htry). cbn_st. apply inner_release.
  - rewrite inner_register. cbn_st. apply inner_release.
Qed.
Lemma inner_drop_ref : forall s h, inner_closed (drop_ref s h) = true ->
  inner_closed s = true \/ closed (drop_ref s h) = true.
Proof.
  intros s h H. unfold drop_ref in *. cbn_st_all.
  destruct (Z.ltb 1 (refcnt s)); [left; exact H|].
  destruct (inner_closed s); [left; reflexivity|]. right. apply closed_close_conn.
Qed.
Lemma inner_drv_events : forall evs s, inner_closed (fold_left drv_event evs s) = inner_closed s.
Proof.
  induction evs as [|e evs IH]; intros s; cbn [fold_left]; [reflexivity|].
  rewrite IH. pose proof (drv_event_tasks s e) as F. decompose [and] F. assumption.
Qed.

Lemma ic_ok_step : forall s l, ic_ok s -> ic_ok (step' s l).
Proof.
  intros s l Hs H'. destruct (inner_closed s) eqn:Eic.
  { apply closed_is_stable. apply Hs. exact Eic. }
  revert H'. unfold step', step.
  destruct l as [t o n|t|evs| |k|k|k| | |k|k]; cbn [fst].
  - rewrite inner_app_poll. congruence.
  - rewrite inner_release. congruence.
  - unfold drv_poll. destruct (driver_alive s); cbn [negb]; [|cbn [fst]; congruence].
    match goal with |- context [drained ?x] => set (s2 := x) end.
    assert (E2 : inner_closed s2 = false) by (unfold s2; rewrite inner_drv_events; cbn_st; exact Eic).
    destruct (drained s2); [|cbn_st; congruence].
    intros H'. apply inner_drop_ref in H' as [H'|H']; [cbn_st_in H'; congruence|exact H'].
  - destruct (Z.ltb 0 (nhandles s)); [intros _; apply closed_close_conn|congruence].
  - destruct (recv_h s k); [|cbn [fst]; congruence]. destruct (rborrow s k); [cbn [fst]; congruence|]. cbn [fst].
    sim_goal. congruence.
  - destruct (send_h s k); [|cbn [fst]; congruence]. destruct (wborrow s k); [cbn [fst]; congruence|]. cbn [fst].
    sim_goal. congruence.
  - destruct (send_h s k); [|cbn [fst]; congruence]. destruct (wborrow s k); [cbn [fst]; congruence|]. cbn [fst].
    sim_goal. congruence.
  - destruct (Z.ltb 0 (nhandles s)); [|cbn [fst]; congruence]. sim_goal. congruence.
  - destruct (Z.ltb 0 (nhandles s)); [|cbn [fst]; congruence].
    intros H'. apply inner_drop_ref in H' as [H'|H']; [congruence|exact H'].
  - destruct (recv_h s k); [|cbn [fst]; congruence]. destruct (rborrow s k); [cbn [fst]; congruence|]. cbn [fst].
    intros H'. apply inner_drop_ref in H' as [H'|H']; [|exact H']. exfalso. revert H'. cbn_st.
    destruct (all_read s k); [cbn_st; congruence|]. unfold closed; cbn_st. destruct (err s); [cbn_st; congruence|].
    sim_goal. congruence.
  - destruct (send_h s k); [|cbn [fst]; congruence]. destruct (wborrow s k); [cbn [fst]; congruence|]. cbn [fst].
    intros H'. apply inner_drop_ref in H' as [H'|H']; [|exact H']. exfalso. revert H'. cbn_st.
    unfold closed; cbn_st. destruct (err s); [cbn_st; congruence|].
    sim_goal. congruence.
Qed.
Lemma ic_ok_run : forall ls, ic_ok (run ls).
Proof.
  intros ls. unfold run. assert (H : ic_ok init) by (unfold ic_ok; cbn; discriminate).
  revert H. generalize init. induction ls as [|l ls IH]; intros s H; [exact H|].
  cbn [fold_left]. apply IH, ic_ok_step, H.
Qed.

Theorem last_handle_drop_closes : forall ls, ok ls ->
  driver_alive (run ls) = true -> nhandles (run ls) = 1%Z ->
  closed (step' (run ls) HDropConn) = true /\ inner_closed (step' (run ls) HDropConn) = true.
Proof.
  intros ls Hok Ha Hn. pose proof (Inv_run ls Hok) as HI. pose proof (ic_ok_run ls) as Hic.
  pose proof (inv_ref_alive _ HI Ha) as Hr. rewrite Hn in Hr.
  unfold step', step; cbn [fst]. rewrite Hn. cbn [Z.ltb Z.compare Pos.compare].
  unfold drop_ref. rewrite Hr. cbn [Z.ltb Z.compare Pos.compare Pos.compare_cont]. cbn_st.
  destruct (inner_closed (run ls)) eqn:Eic.
  - split; [|cbn_st; exact Eic]. unfold closed; cbn_st. apply Hic, Eic.
  - split; [apply closed_close_conn|]. sim_goal. reflexivity.
Qed.

Lemma drop_ref_last : forall x h, refcnt x = 1%Z -> ic_ok x ->
  closed (drop_ref x h) = true /\ inner_closed (drop_ref x h) = true.
Proof.
  intros x h Hr Hic. unfold drop_ref. rewrite Hr. cbn [Z.ltb Z.compare Pos.compare Pos.compare_cont]. cbn_st.
  destruct (inner_closed x) eqn:Eic.
  - split; [|cbn_st; exact Eic]. unfold closed; cbn_st. apply Hic, Eic.
  - split; [apply closed_close_conn|]. sim_goal. reflexivity.
Qed.

Theorem last_handle_drop_closes_recv : forall ls k, ok ls ->
  driver_alive (run ls) = true -> nhandles (run ls) = 1%Z ->
  recv_h (run ls) k = true -> rborrow (run ls) k = None ->
  closed (step' (run ls) (HDropRecv k)) = true /\ inner_closed (step' (run ls) (HDropRecv k)) = true.
Proof.
  intros ls k Hok Ha Hn Hrh Hrb. pose proof (Inv_run ls Hok) as HI. pose proof (ic_ok_run ls) as Hic.
  pose proof (inv_ref_alive _ HI Ha) as Hr. rewrite Hn in Hr.
  unfold step', step. rewrite Hrh, Hrb. cbn [fst]. cbn_st.
  apply drop_ref_last.
  - destruct (all_read (run ls) k); [cbn_st; exact Hr|]. unfold closed; cbn_st.
    destruct (err (run ls)); [cbn_st; exact Hr|]. sim_goal. exact Hr.
  - unfold ic_ok, closed in *. destruct (all_read (run ls) k); [cbn_st; exact Hic|]. cbn_st.
    destruct (err (run ls)) eqn:Ee; [cbn_st; rewrite Ee; exact Hic|]. sim_goal. rewrite Ee. exact Hic.
Qed.

Theorem last_handle_drop_closes_send : forall ls k, ok ls ->
  driver_alive (run ls) = true -> nhandles (run ls) = 1%Z ->
  send_h (run ls) k = true -> wborrow (run ls) k = None ->
  closed (step' (run ls) (HDropSend k)) = true /\ inner_closed (step' (run ls) (HDropSend k)) = true.
Proof.
  intros ls k Hok Ha Hn Hsh Hwb. pose proof (Inv_run ls Hok) as HI. pose proof (ic_ok_run ls) as Hic.
  pose proof (inv_ref_alive _ HI Ha) as Hr. rewrite Hn in Hr.
  unfold step', step. rewrite Hsh, Hwb. cbn [fst]. cbn_st.
  apply drop_ref_last.
  - unfold closed; cbn_st. destruct (err (run ls)); [cbn_st; exact Hr|]. sim_goal. exact Hr.
  - unfold ic_ok, closed in *. cbn_st.
    destruct (err (run ls)) eqn:Ee; [cbn_st; rewrite Ee; exact Hic|]. sim_goal. rewrite Ee. exact Hic.
Qed.
