(** Exactly-once delivery by the Assembler model: for all executions, no stream offset is covered by
    two returned chunks (ordered or unordered, before or after the mode switch). *)
From QV Require Import Lib.Tac Lib.Bytes Lib.Corr Lib.RangeSpec Model.RangeSet Model.Assembler
  Proofs.HeapProofs Proofs.AssemblerProofs Proofs.RangeSetProofs Proofs.BTreeRangeSetProofs.
From Coq Require Import Permutation.
Open Scope Z_scope.

(** 1 if the half-open range [s, e) contains x, else 0 *)
Definition ind (s e x : Z) : Z := if (s <=? x) && (x <? e) then 1 else 0.
Definition cov (x : Z) (b : buf) : Z := ind (b_off b) (bend b) x.
Fixpoint cover (x : Z) (h : list buf) : Z :=
  match h with [] => 0 | b :: r => cov x b + cover x r end.
Definition evcov (x : Z) (e : event) : Z := ind (ev_off e) (ev_off e + zlen (ev_bytes e)) x.
Fixpoint cnt (x : Z) (evs : list event) : Z :=
  match evs with [] => 0 | e :: r => evcov x e + cnt x r end.

Lemma ind_cases s e x : (ind s e x = 1 /\ s <= x < e) \/ (ind s e x = 0 /\ ~ (s <= x < e)).
Proof. unfold ind. destruct ((s <=? x) && (x <? e)) eqn:E; [left|right]; split; auto; lia. Qed.

Lemma cov_nonneg x b : 0 <= cov x b <= 1.
Proof. unfold cov. destruct (ind_cases (b_off b) (bend b) x) as [[-> _]|[-> _]]; lia. Qed.

Lemma cover_nonneg x h : 0 <= cover x h.
Proof. induction h as [|b r IH]; cbn [cover]; [lia|]. pose proof (cov_nonneg x b). lia. Qed.

Lemma cnt_nonneg x evs : 0 <= cnt x evs.
Proof.
  induction evs as [|e r IH]; cbn [cnt]; [lia|]. unfold evcov.
  destruct (ind_cases (ev_off e) (ev_off e + zlen (ev_bytes e)) x) as [[-> _]|[-> _]]; lia.
Qed.

Lemma cnt_app x a b : cnt x (a ++ b) = cnt x a + cnt x b.
Proof. induction a as [|e r IH]; cbn [app cnt]; [lia|]. rewrite IH. lia. Qed.

Lemma cover_perm x h h' : Permutation h h' -> cover x h = cover x h'.
Proof. induction 1; cbn [cover]; lia. Qed.

Lemma cover_app x a b : cover x (a ++ b) = cover x a + cover x b.
Proof. induction a as [|e r IH]; cbn [app cover]; [lia|]. rewrite IH. lia. Qed.

Lemma cover_push x h b : cover x (push h b) = cov x b + cover x h.
Proof. rewrite (cover_perm x _ _ (push_perm h b)). reflexivity. Qed.

Lemma cov_empty x b : b_bytes b = [] -> cov x b = 0.
Proof.
  intros E. unfold cov, bend, blen, zlen. rewrite E. cbn [length].
  destruct (ind_cases (b_off b) (b_off b + Z.of_nat 0) x) as [[_ H]|[-> _]]; [lia | reflexivity].
Qed.

(* ------------------------------------------------------------ defragment *)
Lemma try_mark_cov c offset x :
  cov x (try_mark_defragment c offset) <= cov x c /\
  (1 <= cov x (try_mark_defragment c offset) -> offset <= x) /\
  offset <= bend (try_mark_defragment c offset).
Proof.
  unfold try_mark_defragment.
  destruct (blen c <=? Z.max 0 (offset - b_off c)) eqn:E.
  - rewrite cov_empty by reflexivity. pose proof (cov_nonneg x c).
    split; [lia|]. split; [lia|]. unfold bend, blen, zlen. cbn [b_off b_bytes length]. lia.
  - set (c' := mkBuf _ _ _ _).
    assert (Hoff : b_off c' = Z.max (b_off c) offset) by reflexivity.
    assert (Hend : bend c' = bend c).
    { unfold bend, blen, zlen, c', zskipn. cbn [b_off b_bytes]. rewrite skipn_length.
      unfold blen, zlen in E. lia. }
    assert (Hb : offset <= bend c) by (unfold bend; lia).
    unfold cov. rewrite Hoff, Hend.
    destruct (ind_cases (Z.max (b_off c) offset) (bend c) x) as [[-> H]|[-> H]];
    destruct (ind_cases (b_off c) (bend c) x) as [[-> H']|[-> H']]; lia.
Qed.

Lemma mark_all_cover cs : forall offset acc x,
  cover x (fst (mark_all cs offset acc)) <= cover x cs /\
  cover x (fst (mark_all cs offset acc)) <= 1 /\
  (1 <= cover x (fst (mark_all cs offset acc)) -> offset <= x).
Proof.
  induction cs as [|c r IH]; intros offset acc x; cbn [mark_all].
  - cbn [fst cover]. lia.
  - set (c' := try_mark_defragment c offset).
    specialize (IH (bend c') (acc + blen c') x).
    destruct (mark_all r (bend c') (acc + blen c')) as [r' b]. cbn [fst cover] in *.
    destruct (try_mark_cov c offset x) as (T1 & T2 & T3). fold c' in T1, T2, T3.
    destruct IH as (I1 & I2 & I3).
    pose proof (cov_nonneg x c'). pose proof (cover_nonneg x r').
    split; [lia|].
    assert (Excl : 1 <= cov x c' -> 1 <= cover x r' -> False).
    { intros A B. specialize (I3 B). unfold cov in A.
      destruct (ind_cases (b_off c') (bend c') x) as [[_ H']|[E0 _]]; lia. }
    split; [lia|]. intros Hx.
    destruct (Z.le_gt_cases 1 (cov x c')); [now apply T2 | specialize (I3 ltac:(lia)); lia].
Qed.

Lemma rebuild_cover cs : forall h offset buffer x,
  cover x (rebuild cs h offset buffer) =
  cover x h + ind offset (offset + zlen buffer) x + cover x cs.
Proof.
  induction cs as [|c r IH]; intros h offset buffer x; cbn [rebuild cover].
  - destruct buffer as [|b0 bt].
    + unfold ind, zlen. cbn [length]. destruct ((offset <=? x) && (x <? offset + Z.of_nat 0)) eqn:E; lia.
    + rewrite cover_push. unfold cov, bend, blen. cbn [b_off b_bytes]. lia.
  - destruct (b_defrag c).
    + rewrite IH. destruct (b_bytes c) eqn:Eb.
      * rewrite (cov_empty x c Eb). lia.
      * rewrite cover_push. lia.
    + destruct (b_off c =? offset + zlen buffer) eqn:E.
      * rewrite IH. apply Z.eqb_eq in E. unfold cov, bend, blen, zlen in *. rewrite app_length.
        unfold ind. 
        destruct ((offset <=? x) && (x <? offset + Z.of_nat (length buffer + length (b_bytes c)))) eqn:A;
        destruct ((offset <=? x) && (x <? offset + Z.of_nat (length buffer))) eqn:B;
        destruct ((b_off c <=? x) && (x <? b_off c + Z.of_nat (length (b_bytes c)))) eqn:C; lia.
      * destruct buffer as [|b0 bt].
        -- rewrite IH. unfold cov, bend, blen, ind, zlen. cbn [length].
           destruct ((offset <=? x) && (x <? offset + Z.of_nat 0)) eqn:A; lia.
        -- rewrite IH, cover_push. unfold cov, bend, blen. cbn [b_off b_bytes]. lia.
Qed.

Lemma defragment_cover fixed a x :
  let start := if fixed && ordered a then bytes_read a else 0 in
  cover x (data (defragment fixed a)) <= cover x (data a) /\
  cover x (data (defragment fixed a)) <= 1 /\
  (1 <= cover x (data (defragment fixed a)) -> start <= x).
Proof.
  cbn zeta. unfold defragment.
  pose proof (mark_all_cover (rev (into_sorted_vec (data a)))
                (if fixed && ordered a then bytes_read a else 0) 0 x) as M.
  destruct (mark_all _ _ _) as [marked nbuf]. cbn [fst data] in *.
  rewrite rebuild_cover. cbn [cover]. unfold ind, zlen. cbn [length].
  replace ((0 <=? x) && (x <? 0 + Z.of_nat 0)) with false by (destruct (0 <=? x) eqn:E; cbn; lia).
  assert (P : cover x (rev (into_sorted_vec (data a))) = cover x (data a)).
  { apply cover_perm. eapply perm_trans; [symmetry; apply Permutation_rev | apply into_sorted_vec_perm]. }
  lia.
Qed.

(* ------------------------------------------------------------ insert, unordered mode *)
Lemma its_sorted_lower lo hi its x : its_sorted lo hi its -> in_its x its -> lo <= x < hi.
Proof.
  revert lo; induction its as [|[a b] t IH]; intros lo S I; [now apply in_its_nil in I|].
  cbn [its_sorted] in S. destruct S as (S1 & S2 & S3 & S4).
  apply in_its_cons in I as [I|I]; [lia|]. specialize (IH b S4 I). lia.
Qed.

Lemma insert_tail_cover fixed a offset bytes alloc a' ok :
  insert_tail fixed a offset bytes alloc = Some (a', ok) -> ordered a = false ->
  (forall x, cover x (data a') <= cover x (data a) + ind offset (offset + zlen bytes) x) /\
  recvd a' = recvd a /\ ordered a' = ordered a /\ bytes_read a' = bytes_read a.
Proof.
  unfold insert_tail. intros H Ho.
  destruct bytes as [|b0 bs].
  - inversion H; subst. split; [|auto]. intros x.
    destruct (ind_cases offset (offset + zlen []) x) as [[-> _]|[-> _]]; lia.
  - set (a1 := push_buffer a _) in *.
    assert (C1 : forall x, cover x (data a1) = cover x (data a) + ind offset (offset + zlen (b0 :: bs)) x).
    { intros x. unfold a1, push_buffer. cbn [data]. rewrite cover_push. unfold cov, bend, blen.
      cbn [b_off b_bytes]. lia. }
    destruct (csub (end_ a1) (bytes_read a1)) as [window|]; [|discriminate].
    destruct (csub (allocated a1) _) as [over|]; [|discriminate].
    destruct (_ <? over).
    + inversion H; subst; clear H.
      pose proof (defragment_fields fixed a1) as (E1 & E2 & E3 & E4).
      split; [|rewrite E1, E2, E3; auto].
      intros x. pose proof (defragment_cover fixed a1 x) as (D1 & _ & _). rewrite <- C1. exact D1.
    + inversion H; subst; clear H. split; [|auto]. intros x. rewrite C1. lia.
Qed.

Section Dups.
Variable P : Z -> Prop.

Lemma discard_dups_cover dups : forall a offset bytes alloc a' offset' bytes' END,
  discard_dups dups a offset bytes alloc = Some (a', offset', bytes') ->
  its_sorted offset END dups -> offset + zlen bytes = END ->
  (forall x, offset <= x < END -> (P x <-> in_its x dups)) ->
  offset <= offset' /\ offset' + zlen bytes' = END /\
  (forall x, offset' <= x < END -> ~ P x) /\
  (forall x, cover x (data a') = cover x (data a) \/
             (cover x (data a') = cover x (data a) + 1 /\ offset <= x < offset' /\ ~ P x)) /\
  recvd a' = recvd a /\ ordered a' = ordered a /\ bytes_read a' = bytes_read a.
Proof.
  induction dups as [|[ds de] r IH]; intros a offset bytes alloc a' offset' bytes' END H S L HP;
    cbn [discard_dups] in H.
  - inversion H; subst. split; [lia|]. split; [reflexivity|]. split.
    + intros x Hx Px. apply (HP x Hx) in Px. now apply in_its_nil in Px.
    + split; [intros x; now left | auto].
  - cbn [its_sorted] in S. destruct S as (S1 & S2 & S3 & S4).
    assert (HPr : forall x, de <= x < END -> (P x <-> in_its x r)).
    { intros x Hx. rewrite (HP x) by lia. rewrite in_its_cons. split; [intros [A|A]; [lia|exact A] | now right]. }
    assert (NotP : forall x, offset <= x < ds -> ~ P x).
    { intros x Hx Px. apply (HP x) in Px; [|lia]. apply in_its_cons in Px as [A|A]; [lia|].
      apply (its_sorted_lower _ _ _ _ S4) in A. lia. }
    destruct (offset <? ds) eqn:E1.
    + destruct ((ds - offset <=? zlen bytes) && (ds <=? de) &&
                (de - ds <=? zlen (zskipn (ds - offset) bytes))) eqn:E2; [|discriminate].
      apply andb_true_iff in E2 as [E2 E4]. apply andb_true_iff in E2 as [E2 E3].
      assert (Lf : zlen (zfirstn (ds - offset) bytes) = ds - offset).
      { unfold zlen, zfirstn in *. rewrite firstn_length. lia. }
      assert (Ls : zlen (zskipn (ds - offset) bytes) = zlen bytes - (ds - offset)).
      { unfold zlen, zskipn in *. rewrite skipn_length. lia. }
      apply IH with (END := END) in H; auto.
      * destruct H as (H1 & H2 & H3 & H4 & H5 & H6 & H7).
        split; [lia|]. split; [exact H2|]. split; [exact H3|]. split; [|auto].
        intros x. specialize (H4 x). unfold push_buffer in H4. cbn [data] in H4.
        rewrite cover_push in H4. unfold cov, bend, blen in H4. cbn [b_off b_bytes] in H4.
        rewrite Lf in H4. replace (offset + (ds - offset)) with ds in H4 by lia.
        destruct (ind_cases offset ds x) as [[Ei Hi]|[Ei Hi]]; rewrite Ei in H4.
        -- right. destruct H4 as [H4|[H4 [H4' _]]]; [|lia]. split; [lia|]. split; [lia|]. apply NotP. lia.
        -- destruct H4 as [H4|[H4 [H4' H4'']]]; [left; lia | right; split; [lia|]; split; [lia | exact H4'']].
      * unfold zlen, zskipn in *. rewrite skipn_length. rewrite skipn_length in E4. lia.
    + destruct (true && (offset <=? de) && (de - offset <=? zlen bytes)) eqn:E2; [|discriminate].
      apply andb_true_iff in E2 as [E2 E4]. apply andb_true_iff in E2 as [_ E3].
      assert (offset = ds) by lia. subst ds.
      apply IH with (END := END) in H; auto.
      * destruct H as (H1 & H2 & H3 & H4 & H5 & H6 & H7).
        split; [lia|]. split; [exact H2|]. split; [exact H3|]. split; [|auto].
        intros x. destruct (H4 x) as [A|[A [B C]]]; [now left | right; split; [exact A|]; split; [lia | exact C]].
      * unfold zlen, zskipn in *. rewrite skipn_length. lia.
Qed.
End Dups.

(* ------------------------------------------------------------ unordered read *)
Lemma ind_split s k e x : s <= k <= e -> ind s k x + ind k e x = ind s e x.
Proof.
  intros H. destruct (ind_cases s k x) as [[-> A]|[-> A]];
  destruct (ind_cases k e x) as [[-> B]|[-> B]];
  destruct (ind_cases s e x) as [[-> C]|[-> C]]; lia.
Qed.

Lemma read_unordered_cover a max_length a' res :
  read a max_length false = Some (a', res) -> 0 <= max_length ->
  (forall x, cover x (data a') +
             match res with Some (off, b) => ind off (off + zlen b) x | None => 0 end
             = cover x (data a)) /\
  recvd a' = recvd a.
Proof.
  unfold read. cbn [read_loop]. intros H Hm.
  destruct (data a) as [|chunk rest] eqn:D.
  - inversion H; subst. rewrite D. split; [intros x; cbn [cover]; lia | reflexivity].
  - destruct (max_length <? blen chunk) eqn:E.
    + destruct (csub (buffered a) max_length); [|discriminate]. inversion H; subst; clear H.
      cbn [data recvd]. split; [|reflexivity]. intros x.
      rewrite (cover_perm x _ _ (replace_top_perm chunk rest _)). cbn [cover].
      unfold cov, bend, blen. cbn [b_off b_bytes].
      assert (L1 : zlen (zskipn max_length (b_bytes chunk)) = blen chunk - max_length).
      { unfold zlen, zskipn, blen, zlen in *. rewrite skipn_length. lia. }
      assert (L2 : zlen (zfirstn max_length (b_bytes chunk)) = max_length).
      { unfold zlen, zfirstn, blen, zlen in *. rewrite firstn_length. lia. }
      rewrite L1, L2. unfold blen.
      pose proof (ind_split (b_off chunk) (b_off chunk + max_length) (b_off chunk + zlen (b_bytes chunk)) x) as S.
      unfold blen in E.
      replace (b_off chunk + max_length + (zlen (b_bytes chunk) - max_length))
        with (b_off chunk + zlen (b_bytes chunk)) by lia.
      lia.
    + destruct (csub (buffered a) (blen chunk)); [|discriminate].
      destruct (csub (allocated a) (b_alloc chunk)); [|discriminate].
      destruct (pop (chunk :: rest)) as [[top h']|] eqn:Pp; [|discriminate].
      inversion H; subst; clear H. cbn [data recvd]. split; [|reflexivity]. intros x.
      apply pop_perm in Pp as [Pp Et]. cbn in Et. subst top.
      rewrite (cover_perm x _ _ Pp). cbn [cover]. unfold cov, bend, blen. lia.
Qed.

(* ------------------------------------------------------------ the invariant *)
Section W.
Variable w : Z -> Z.
Variable hi : Z.
Notation good := (AssemblerProofs.good w hi).
Notation op_ok := (AssemblerProofs.op_ok w hi).

Definition once_ordered (a : t) (evs : list event) : Prop :=
  forall x, cnt x evs = ind 0 (bytes_read a) x.

Definition once_unordered (a : t) (evs : list event) : Prop :=
  wfb (-1) (recvd a) /\
  forall x, cover x (data a) + cnt x evs <= 1 /\
            (1 <= cover x (data a) + cnt x evs -> mem x (recvd a)).

Definition J (a : t) (evs : list event) : Prop :=
  0 <= bytes_read a /\
  (ordered a = true -> once_ordered a evs) /\
  (ordered a = false -> once_unordered a evs).

Lemma good_off_nonneg c : good c -> b_bytes c = [] \/ 0 <= b_off c.
Proof. intros [_ [E|[H _]]]; auto. Qed.

Lemma fold_recvd h : forall m,
  wfb (-1) m -> Forall good h ->
  let m' := fold_left (fun m c => snd (RangeSet.insert (b_off c) (bend c) m)) h m in
  wfb (-1) m' /\ (forall x, mem x m -> mem x m') /\ (forall x, 1 <= cover x h -> mem x m').
Proof.
  induction h as [|c r IH]; intros m W G; cbn [fold_left cover].
  - split; [exact W|]. split; [auto | intros x Hx; lia].
  - inversion G as [|? ? Gc Gr]; subst.
    assert (Step : wfb (-1) (snd (RangeSet.insert (b_off c) (bend c) m)) /\
                   (forall x, mem x m -> mem x (snd (RangeSet.insert (b_off c) (bend c) m))) /\
                   (forall x, 1 <= cov x c -> mem x (snd (RangeSet.insert (b_off c) (bend c) m)))).
    { destruct (good_off_nonneg c Gc) as [E|E].
      - rewrite insert_empty by (unfold bend, blen, zlen; rewrite E; cbn; lia). cbn [snd].
        split; [exact W|]. split; [auto|]. intros x Hx. rewrite (cov_empty x c E) in Hx. lia.
      - destruct (Z.le_gt_cases (bend c) (b_off c)) as [Le|Gt].
        + rewrite insert_empty by exact Le. cbn [snd]. split; [exact W|]. split; [auto|].
          intros x Hx. unfold cov in Hx. destruct (ind_cases (b_off c) (bend c) x) as [[_ A]|[A _]]; lia.
        + destruct (insert_spec m (-1) (b_off c) (bend c) W ltac:(lia) Gt) as [I1 I2].
          split; [exact I1|]. split; [intros x M; apply I2; now left|].
          intros x Hx. apply I2. right. unfold cov in Hx.
          destruct (ind_cases (b_off c) (bend c) x) as [[_ A]|[A _]]; lia. }
    destruct Step as (S1 & S2 & S3).
    destruct (IH _ S1 Gr) as (I1 & I2 & I3).
    split; [exact I1|]. split; [intros x M; apply I2, S2, M|].
    intros x Hx. pose proof (cov_nonneg x c). pose proof (cover_nonneg x r).
    destruct (Z.le_gt_cases 1 (cov x c)); [apply I2, S3; lia | apply I3; lia].
Qed.

Lemma switch_once a a1 :
  ordered a = true -> ensure_ordering true a false = Some a1 ->
  Forall good (data a) -> 0 <= bytes_read a ->
  wfb (-1) (recvd a1) /\ (forall x, cover x (data a1) <= 1) /\
  (forall x, 1 <= cover x (data a1) -> bytes_read a <= x /\ mem x (recvd a1)) /\
  (forall x, 0 <= x < bytes_read a -> mem x (recvd a1)).
Proof.
  intros Ho H G Hb. unfold ensure_ordering in H. rewrite Ho in H. cbn [andb negb] in H.
  inversion H; subst; clear H. cbn [recvd data].
  set (a0 := match data a with [] => a | _ :: _ => defragment true a end).
  assert (A0 : Forall good (data a0) /\ bytes_read a0 = bytes_read a /\
               (forall x, cover x (data a0) <= 1) /\
               (forall x, 1 <= cover x (data a0) -> bytes_read a <= x)).
  { unfold a0. destruct (data a) as [|c r] eqn:D.
    - rewrite D. split; [constructor|]. split; [reflexivity|]. cbn [cover]. split; intros; lia.
    - rewrite <- D in *. pose proof (defragment_fields true a) as (_ & _ & E3 & _).
      split; [now apply defragment_good|]. split; [exact E3|].
      split; intros x; pose proof (defragment_cover true a x) as (D1 & D2 & D3);
        cbn zeta in D3; rewrite Ho in D3; cbn [andb] in D3; auto. }
  destruct A0 as (G0 & B0 & C1 & C2). rewrite B0.
  assert (R0 : wfb (-1) (snd (RangeSet.insert 0 (bytes_read a) [])) /\
               forall x, 0 <= x < bytes_read a -> mem x (snd (RangeSet.insert 0 (bytes_read a) []))).
  { destruct (Z.le_gt_cases (bytes_read a) 0) as [Le|Gt].
    - rewrite insert_empty by exact Le. cbn [snd wfb]. split; [exact I | intros; lia].
    - destruct (insert_spec [] (-1) 0 (bytes_read a) I ltac:(lia) Gt) as [I1 I2].
      split; [exact I1|]. intros x Hx. apply I2. now right. }
  destruct R0 as [R1 R2].
  destruct (fold_recvd (data a0) _ R1 G0) as (F1 & F2 & F3).
  split; [exact F1|]. split; [exact C1|]. split.
  - intros x Hx. split; [now apply C2 | now apply F3].
  - intros x Hx. apply F2, R2, Hx.
Qed.
End W.

Section W2.
Variable w : Z -> Z.
Variable hi : Z.
Notation good := (AssemblerProofs.good w hi).
Notation op_ok := (AssemblerProofs.op_ok w hi).

Lemma insert_unordered_once a off bytes alloc a' ok evs :
  insert true a off bytes alloc = Some (a', ok) -> ordered a = false -> 0 <= off ->
  once_unordered a evs -> once_unordered a' evs.
Proof.
  unfold insert. intros H Ho Hoff [Wf U].
  destruct (alloc <? zlen bytes); [discriminate|].
  destruct bytes as [|b0 bs]; [inversion H; subst; split; auto|].
  set (bytes := b0 :: bs) in *. set (a0 := with_end a off bytes) in *.
  unfold insert_body in H. change (ordered a0) with (ordered a) in H. rewrite Ho in H. cbn [negb] in H.
  change (recvd a0) with (recvd a) in H.
  assert (Hlen : 0 < zlen bytes) by (unfold zlen, bytes; cbn [length]; lia).
  pose proof (replace_spec (recvd a) (-1) off (off + zlen bytes) Wf ltac:(lia) ltac:(lia)) as R.
  destruct (replace off (off + zlen bytes) (recvd a)) as [dups recvd'].
  destruct R as (R1 & R2 & R3 & R4).
  destruct (discard_dups dups a0 off bytes alloc) as [[[a1 offset1] bytes1]|] eqn:D; [|discriminate].
  apply (discard_dups_cover (fun x => mem x (recvd a))) with (END := off + zlen bytes) in D; auto.
  destruct D as (D1 & D2 & D3 & D4 & D5 & D6 & D7).
  apply insert_tail_cover in H; [|cbn [ordered]; rewrite D6; exact Ho].
  destruct H as (T1 & T2 & T3 & T4). cbn [data recvd ordered bytes_read] in *.
  split; [rewrite T2; exact R1|].
  intros x. specialize (T1 x). rewrite T2.
  destruct (U x) as [U1 U2]. change (data a0) with (data a) in D4.
  pose proof (cover_nonneg x (data a)). pose proof (cnt_nonneg x evs). pose proof (cover_nonneg x (data a')).
  replace (offset1 + zlen bytes1) with (off + zlen bytes) in T1 by lia.
  assert (Hb1 : 0 <= zlen bytes1) by (unfold zlen; lia).
  destruct (ind_cases offset1 (off + zlen bytes) x) as [[Ei Hi]|[Ei Hi]]; rewrite Ei in T1.
  - assert (NP : ~ mem x (recvd a)) by (apply D3; lia).
    assert (Z0 : cover x (data a) + cnt x evs = 0).
    { destruct (Z.le_gt_cases 1 (cover x (data a) + cnt x evs)); [exfalso; apply NP, U2; lia | lia]. }
    destruct (D4 x) as [E|[E [E' _]]]; [|lia].
    split; [lia|]. intros _. apply R2. right. lia.
  - destruct (D4 x) as [E|[E [E' NP]]].
    + split; [lia|]. intros Hx. apply R2. left. apply U2. lia.
    + assert (Z0 : cover x (data a) + cnt x evs = 0).
      { destruct (Z.le_gt_cases 1 (cover x (data a) + cnt x evs)); [exfalso; apply NP, U2; lia | lia]. }
      split; [lia|]. intros _. apply R2. right. lia.
Qed.

Lemma J_same_reads a a1 evs :
  bytes_read a1 = bytes_read a -> ordered a1 = ordered a -> recvd a1 = recvd a ->
  (forall x, cover x (data a1) <= cover x (data a)) ->
  J a evs -> J a1 evs.
Proof.
  intros B O R C (J1 & J2 & J3). unfold J. rewrite B, O.
  split; [exact J1|]. split.
  - intros Ho x. unfold once_ordered in *. rewrite B. now apply J2.
  - intros Ho. destruct (J3 Ho) as [Wf U]. split; [now rewrite R|].
    intros x. destruct (U x) as [U1 U2]. specialize (C x). pose proof (cover_nonneg x (data a1)).
    rewrite R. split; [lia|]. intros Hx. apply U2. lia.
Qed.

Lemma ensure_once a ord a0 evs :
  ensure_ordering true a ord = Some a0 -> Forall good (data a) -> J a evs ->
  J a0 evs.
Proof.
  intros H G Jv. pose proof Jv as (J1 & J2 & J3).
  destruct (ensure_ordering_good w hi true a ord a0 H G) as (G0 & B0 & T0 & F0).
  destruct ord.
  - destruct (T0 eq_refl) as [_ ->]. exact Jv.
  - destruct (ordered a) eqn:Ho.
    + destruct (switch_once w hi a a0 Ho H G J1) as (S1 & S2 & S3 & S4).
      unfold J. rewrite B0, (F0 eq_refl). split; [exact J1|]. split; [discriminate|].
      intros _. split; [exact S1|]. intros x.
      specialize (J2 eq_refl x). specialize (S2 x). pose proof (cover_nonneg x (data a0)).
      destruct (ind_cases 0 (bytes_read a) x) as [[Ei Hi]|[Ei Hi]]; rewrite Ei in J2.
      * assert (cover x (data a0) = 0).
        { destruct (Z.le_gt_cases 1 (cover x (data a0))); [destruct (S3 x ltac:(lia)); lia | lia]. }
        split; [lia|]. intros _. now apply S4.
      * split; [lia|]. intros Hx. apply S3. lia.
    + unfold ensure_ordering in H. rewrite Ho in H. cbn [andb negb] in H. inversion H; subst. exact Jv.
Qed.

Lemma read_once a m ord a1 res evs :
  read a m ord = Some (a1, res) -> 0 <= m -> Forall good (data a) ->
  (ord = true -> ordered a = true) -> (ord = false -> ordered a = false) ->
  J a evs ->
  J a1 (evs ++ match res with Some (off, b) => [(ord, off, b)] | None => [] end).
Proof.
  intros H Hm G To Fo Jv. pose proof Jv as (J1 & J2 & J3).
  pose proof (read_good w hi a m ord a1 res H G Hm) as (G1 & O1 & R).
  destruct ord.
  - specialize (To eq_refl). unfold J. rewrite O1, To.
    destruct res as [[off b]|].
    + destruct R as (Sl & B & Off). specialize (Off eq_refl). subst off.
      split; [unfold zlen in *; lia|]. split; [|discriminate]. intros _ x.
      rewrite cnt_app. cbn [cnt]. unfold evcov, ev_off, ev_bytes. cbn [fst snd].
      rewrite (J2 To x), B. pose proof (ind_split 0 (bytes_read a) (bytes_read a + zlen b) x).
      unfold zlen in *. lia.
    + rewrite app_nil_r. split; [lia|]. split; [|discriminate]. intros _ x. rewrite R. now apply J2.
  - specialize (Fo eq_refl). destruct (read_unordered_cover a m a1 res H Hm) as [C Rv].
    unfold J. rewrite O1, Fo. destruct (J3 Fo) as [Wf U].
    assert (Hb : 0 <= bytes_read a1).
    { destruct res as [[off b]|]; [destruct R as (_ & B & _); unfold zlen in *; lia | lia]. }
    split; [exact Hb|]. split; [discriminate|]. intros _. split; [now rewrite Rv|].
    intros x. rewrite cnt_app, Rv. specialize (C x). destruct (U x) as [U1 U2].
    destruct res as [[off b]|]; cbn [cnt]; unfold evcov, ev_off, ev_bytes; cbn [fst snd].
    + split; [lia|]. intros Hx. apply U2. lia.
    + split; [lia|]. intros Hx. apply U2. lia.
Qed.

Lemma step_once a o a1 out evs :
  step a (encode o) = Some (a1, out) -> op_ok o -> Forall good (data a) -> J a evs ->
  J a1 (evs ++ event_of o out).
Proof.
  intros H Hok G Jv.
  destruct o as [off al b | m ord | ord | | | ]; cbn [encode step step_with] in H.
  - destruct (insert true a off b al) as [[a' ok]|] eqn:E; [|discriminate].
    destruct Hok as [Ho Hs].
    assert (a1 = a') by (destruct ok; inversion H; auto). subst a'.
    assert (event_of (OInsert off al b) out = []) by reflexivity. rewrite H0, app_nil_r.
    destruct (insert_good w hi true a off b al a1 ok E G Hs Ho) as (G1 & B1 & O1).
    destruct Jv as (J1 & J2 & J3). unfold J. rewrite B1, O1.
    split; [exact J1|]. split.
    + intros Oa x. unfold once_ordered in *. rewrite B1. now apply J2.
    + intros Oa. eapply insert_unordered_once; eauto.
  - rewrite zbool_b2z in H.
    destruct (ensure_ordering true a ord) as [a0|] eqn:E.
    + pose proof (ensure_once a ord a0 evs E G Jv) as J0.
      destruct (ensure_ordering_good w hi true a ord a0 E G) as (G0 & B0 & T0 & F0).
      destruct (read a0 m ord) as [[a2 res]|] eqn:R; [|discriminate].
      assert (X : a1 = a2 /\ event_of (ORead m ord) out =
                  match res with Some (off, b) => [(ord, off, b)] | None => [] end).
      { destruct res as [[off b]|]; inversion H; subst; split; reflexivity. }
      destruct X as [-> ->].
      eapply read_once; eauto.
      * intros ->. destruct (T0 eq_refl) as [Oa ->]. exact Oa.
    + inversion H; subst. cbn [event_of]. now rewrite app_nil_r.
  - rewrite zbool_b2z in H.
    destruct (ensure_ordering true a ord) as [a0|] eqn:E.
    + inversion H; subst. cbn [event_of]. rewrite app_nil_r. eapply ensure_once; eauto.
    + inversion H; subst. cbn [event_of]. now rewrite app_nil_r.
  - inversion H; subst. cbn [event_of]. now rewrite app_nil_r.
  - inversion H; subst. cbn [event_of]. rewrite app_nil_r.
    apply (J_same_reads a); auto. intros x. cbn [clear data cover]. apply cover_nonneg.
  - inversion H; subst. cbn [event_of]. now rewrite app_nil_r.
Qed.

Lemma exec_once os : forall a a' pre new,
  Forall op_ok os -> Forall good (data a) -> exec a os = Some (a', new) -> J a pre ->
  J a' (pre ++ new).
Proof.
  induction os as [|o r IH]; intros a a' pre new Hok G H Jv; cbn [exec] in H.
  - inversion H; subst. now rewrite app_nil_r.
  - inversion Hok as [|? ? Ho Hr]; subst.
    destruct (step a (encode o)) as [[a1 out]|] eqn:S; [|discriminate].
    destruct (exec a1 r) as [[a2 evs']|] eqn:X; [|discriminate].
    inversion H; subst; clear H.
    pose proof (step_once a o a1 out pre S Ho G Jv) as J1.
    pose proof (step_good w hi a o a1 out S Ho G) as (G1 & _).
    rewrite app_assoc. eapply IH; eauto.
Qed.

Lemma J_init : J init [].
Proof.
  unfold J. cbn [bytes_read ordered init]. split; [lia|]. split; [|discriminate].
  intros _ x. cbn [cnt]. change (bytes_read init) with 0.
  destruct (ind_cases 0 0 x) as [[_ A]|[-> _]]; lia.
Qed.

Lemma J_cnt_le a evs x : J a evs -> cnt x evs <= 1.
Proof.
  intros (J1 & J2 & J3). destruct (ordered a) eqn:O.
  - rewrite (J2 eq_refl x). destruct (ind_cases 0 (bytes_read a) x) as [[-> _]|[-> _]]; lia.
  - destruct (J3 eq_refl) as [_ U]. destruct (U x) as [U1 _]. pose proof (cover_nonneg x (data a)). lia.
Qed.

(** (b), exactly-once half: for every execution from the initial state, every stream offset is
    covered by AT MOST ONE returned chunk — ordered or unordered, before or after the mode switch. *)
Theorem delivered_at_most_once os a' evs x :
  Forall op_ok os -> exec init os = Some (a', evs) -> cnt x evs <= 1.
Proof.
  intros Hok H. apply (J_cnt_le a').
  change evs with ([] ++ evs). eapply exec_once; eauto; [constructor | apply J_init].
Qed.

(** consequence: two distinct returned chunks never overlap *)
Lemma evcov_nonneg x e : 0 <= evcov x e.
Proof. unfold evcov. destruct (ind_cases (ev_off e) (ev_off e + zlen (ev_bytes e)) x) as [[-> _]|[-> _]]; lia. Qed.

Lemma cnt_nth x r : forall j ej, nth_error r j = Some ej -> evcov x ej <= cnt x r.
Proof.
  induction r as [|e' r' IH]; intros j ej Hj; [destruct j; discriminate|].
  destruct j as [|j]; cbn [nth_error cnt] in *.
  - inversion Hj; subst. pose proof (cnt_nonneg x r'). lia.
  - specialize (IH j ej Hj). pose proof (evcov_nonneg x e'). lia.
Qed.

Lemma cnt_two evs : forall i j ei ej x,
  (i < j)%nat -> nth_error evs i = Some ei -> nth_error evs j = Some ej ->
  evcov x ei + evcov x ej <= cnt x evs.
Proof.
  induction evs as [|e r IH]; intros i j ei ej x Hij Hi Hj; [destruct i; discriminate|].
  destruct i as [|i]; destruct j as [|j]; try lia; cbn [nth_error cnt] in *.
  - inversion Hi; subst. pose proof (cnt_nth x r j ej Hj). lia.
  - specialize (IH i j ei ej x ltac:(lia) Hi Hj). pose proof (evcov_nonneg x e). lia.
Qed.

Theorem unordered_disjoint os a' evs :
  Forall op_ok os -> exec init os = Some (a', evs) ->
  forall i j ei ej, i <> j -> nth_error evs i = Some ei -> nth_error evs j = Some ej ->
    ev_bytes ei = [] \/ ev_bytes ej = [] \/
    ev_off ei + zlen (ev_bytes ei) <= ev_off ej \/ ev_off ej + zlen (ev_bytes ej) <= ev_off ei.
Proof.
  intros Hok H i j ei ej Hij Hi Hj.
  destruct (ev_bytes ei) as [|bi ti] eqn:Ebi; [now left|].
  destruct (ev_bytes ej) as [|bj tj] eqn:Ebj; [right; now left|].
  right; right. rewrite <- Ebi, <- Ebj.
  assert (Li : 0 < zlen (ev_bytes ei)) by (rewrite Ebi; unfold zlen; cbn [length]; lia).
  assert (Lj : 0 < zlen (ev_bytes ej)) by (rewrite Ebj; unfold zlen; cbn [length]; lia).
  destruct (Z.le_gt_cases (ev_off ei + zlen (ev_bytes ei)) (ev_off ej)) as [A|A]; [now left|].
  destruct (Z.le_gt_cases (ev_off ej + zlen (ev_bytes ej)) (ev_off ei)) as [B|B]; [now right|].
  exfalso. set (x := Z.max (ev_off ei) (ev_off ej)).
  pose proof (delivered_at_most_once os a' evs x Hok H) as C.
  assert (T : evcov x ei + evcov x ej <= cnt x evs).
  { destruct (Nat.lt_ge_cases i j) as [L|L].
    - eapply cnt_two; eauto.
    - rewrite Z.add_comm. eapply (cnt_two evs j i); eauto. lia. }
  unfold evcov in T.
  destruct (ind_cases (ev_off ei) (ev_off ei + zlen (ev_bytes ei)) x) as [[Ei _]|[_ N]]; [|unfold x in N; lia].
  destruct (ind_cases (ev_off ej) (ev_off ej + zlen (ev_bytes ej)) x) as [[Ej _]|[_ N]]; [|unfold x in N; lia].
  lia.
Qed.
End W2.
