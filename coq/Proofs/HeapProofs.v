(** The binary-heap vector operations of Model/Assembler.v only permute the stored buffers. *)
From QV Require Import Lib.Tac Lib.Bytes Model.Assembler.
From Coq Require Import Permutation.
Open Scope Z_scope.

Lemma set_nth_length i x h : length (set_nth i x h) = length h.
Proof. revert i; induction h as [|a t IH]; intros [|k]; cbn [set_nth length]; auto. Qed.

Lemma hget_set_nth_same i x h : (i < length h)%nat -> hget (set_nth i x h) i = x.
Proof.
  unfold hget. revert i; induction h as [|a t IH]; intros [|k] H; cbn [set_nth nth length] in *; try lia; auto.
  apply IH; lia.
Qed.

Lemma hget_set_nth_other i j x h : i <> j -> hget (set_nth j x h) i = hget h i.
Proof.
  unfold hget. revert i j; induction h as [|a t IH]; intros [|i] [|j] H; cbn [set_nth nth]; auto; try lia.
Qed.

Lemma set_nth_perm i x h : (i < length h)%nat ->
  Permutation (x :: h) (hget h i :: set_nth i x h).
Proof.
  unfold hget. revert i; induction h as [|a t IH]; intros [|k] H; cbn [set_nth nth length] in *; try lia.
  - apply perm_swap.
  - eapply perm_trans; [apply perm_swap|].
    eapply perm_trans; [apply perm_skip, (IH k); lia|]. apply perm_swap.
Qed.

Lemma swap_length h i j : length (swap h i j) = length h.
Proof. unfold swap. now rewrite !set_nth_length. Qed.

Lemma swap_perm h i j : (i < length h)%nat -> (j < length h)%nat -> Permutation (swap h i j) h.
Proof.
  intros Hi Hj. unfold swap.
  pose proof (set_nth_perm j (hget h i) h Hj) as P1.
  assert (Hi' : (i < length (set_nth j (hget h i) h))%nat) by now rewrite set_nth_length.
  pose proof (set_nth_perm i (hget h j) _ Hi') as P2.
  assert (E : hget (set_nth j (hget h i) h) i = hget h i).
  { destruct (Nat.eq_dec i j) as [->|N]; [now apply hget_set_nth_same | now apply hget_set_nth_other]. }
  rewrite E in P2.
  apply Permutation_cons_inv with (a := hget h i).
  eapply perm_trans; [symmetry; exact P2|]. symmetry; exact P1.
Qed.

Lemma sift_up_perm fuel : forall h pos, (pos < length h)%nat -> Permutation (sift_up fuel h pos) h.
Proof.
  induction fuel as [|f IH]; intros h pos Hp; cbn [sift_up]; [reflexivity|].
  destruct pos as [|p]; [reflexivity|].
  destruct (ble _ _); [reflexivity|].
  assert (Hpar : (Nat.div (S p - 1) 2 < length h)%nat).
  { eapply Nat.le_lt_trans; [apply Nat.div_le_upper_bound with (b := 2%nat); [lia|] | exact Hp].
    lia. }
  eapply perm_trans; [apply IH; now rewrite swap_length|].
  apply swap_perm; auto.
Qed.

Lemma sift_up_length fuel : forall h pos, length (sift_up fuel h pos) = length h.
Proof.
  induction fuel as [|f IH]; intros h pos; cbn [sift_up]; [reflexivity|].
  destruct pos as [|p]; [reflexivity|]. destruct (ble _ _); [reflexivity|].
  now rewrite IH, swap_length.
Qed.

Lemma push_perm h x : Permutation (push h x) (x :: h).
Proof.
  unfold push. eapply perm_trans; [apply sift_up_perm; rewrite app_length; cbn; lia|].
  eapply perm_trans; [apply Permutation_app_comm|]. reflexivity.
Qed.

Lemma greater_child_cases h c : greater_child h c = c \/ greater_child h c = (c + 1)%nat.
Proof. unfold greater_child. destruct (ble _ _); auto. Qed.

Lemma sift_down_range_perm fuel : forall h pos e, (e <= length h)%nat -> (pos < e)%nat ->
  Permutation (sift_down_range fuel h pos e) h.
Proof.
  induction fuel as [|f IH]; intros h pos e He Hp; cbn [sift_down_range]; [reflexivity|].
  destruct (Nat.leb (2 * pos + 1) (e - 2)) eqn:E1.
  - apply Nat.leb_le in E1.
    assert (Hc : (greater_child h (2 * pos + 1) < e)%nat)
      by (destruct (greater_child_cases h (2 * pos + 1)) as [-> | ->]; lia).
    destruct (ble _ _); [reflexivity|].
    eapply perm_trans; [apply IH; [now rewrite swap_length | exact Hc]|].
    apply swap_perm; lia.
  - destruct (Nat.eqb (2 * pos + 1) (e - 1) && blt _ _) eqn:E2; [|reflexivity].
    apply andb_true_iff in E2 as [E2 _]. apply Nat.eqb_eq in E2.
    apply swap_perm; lia.
Qed.

Lemma sift_down_range_length fuel : forall h pos e, length (sift_down_range fuel h pos e) = length h.
Proof.
  induction fuel as [|f IH]; intros h pos e; cbn [sift_down_range]; [reflexivity|].
  destruct (Nat.leb _ _).
  - destruct (ble _ _); [reflexivity|]. now rewrite IH, swap_length.
  - destruct (_ && _); [apply swap_length | reflexivity].
Qed.

Lemma sift_down_to_bottom_perm fuel : forall h pos e, (e <= length h)%nat -> (pos < e)%nat ->
  Permutation (sift_down_to_bottom fuel h pos e) h.
Proof.
  induction fuel as [|f IH]; intros h pos e He Hp; cbn [sift_down_to_bottom]; [reflexivity|].
  destruct (Nat.leb (2 * pos + 1) (e - 2)) eqn:E1.
  - apply Nat.leb_le in E1.
    assert (Hc : (greater_child h (2 * pos + 1) < e)%nat)
      by (destruct (greater_child_cases h (2 * pos + 1)) as [-> | ->]; lia).
    eapply perm_trans; [apply IH; [now rewrite swap_length | exact Hc]|].
    apply swap_perm; lia.
  - destruct (Nat.eqb (2 * pos + 1) (e - 1)) eqn:E2.
    + apply Nat.eqb_eq in E2.
      eapply perm_trans; [apply sift_up_perm; rewrite swap_length; lia|].
      apply swap_perm; lia.
    + apply sift_up_perm; lia.
Qed.

Lemma pop_perm h top h' : pop h = Some (top, h') -> Permutation h (top :: h') /\ top = hget h 0.
Proof.
  unfold pop. destruct (rev h) as [|item rr] eqn:Er; [discriminate|].
  assert (Eh : h = rev rr ++ [item]).
  { rewrite <- (rev_involutive h), Er. reflexivity. }
  destruct (rev rr) as [|t0 rest] eqn:Err.
  - intros [= <- <-]. subst h. cbn. split; reflexivity.
  - intros [= <- <-]. split.
    + subst h. cbn [app].
      set (hh := set_nth 0 item (t0 :: rest)).
      assert (P : Permutation (sift_down_to_bottom (S (length hh)) hh 0 (length hh)) hh).
      { apply sift_down_to_bottom_perm; [lia|]. subst hh. cbn. lia. }
      eapply perm_trans; [|apply perm_skip; symmetry; exact P].
      subst hh. cbn [set_nth].
      eapply perm_trans; [apply perm_skip, Permutation_app_comm|]. cbn. apply perm_skip. reflexivity.
    + subst h. reflexivity.
Qed.

Lemma pop_none h : pop h = None -> h = [].
Proof.
  unfold pop. destruct (rev h) as [|item rr] eqn:Er.
  - intros _. rewrite <- (rev_involutive h), Er. reflexivity.
  - destruct (rev rr); discriminate.
Qed.

Lemma replace_top_perm t r x : Permutation (replace_top (t :: r) x) (x :: r).
Proof.
  unfold replace_top. cbn [set_nth].
  apply sift_down_range_perm; cbn; lia.
Qed.

Lemma sort_loop_perm e : forall h, (e <= length h)%nat -> Permutation (sort_loop e h) h.
Proof.
  induction e as [|e' IH]; intros h He; cbn [sort_loop]; [reflexivity|].
  destruct e' as [|e'']; [reflexivity|].
  eapply perm_trans; [apply IH; rewrite sift_down_range_length, swap_length; lia|].
  eapply perm_trans; [apply sift_down_range_perm; rewrite ?swap_length; lia|].
  apply swap_perm; lia.
Qed.

Lemma into_sorted_vec_perm h : Permutation (into_sorted_vec h) h.
Proof. apply sort_loop_perm. lia. Qed.

Lemma heap_ops_permute h x :
  Permutation (push h x) (x :: h) /\
  Permutation (into_sorted_vec h) h /\
  (forall top h', pop h = Some (top, h') -> Permutation h (top :: h')).
Proof.
  split; [apply push_perm|]. split; [apply into_sorted_vec_perm|].
  intros top h' H. now apply pop_perm in H.
Qed.
