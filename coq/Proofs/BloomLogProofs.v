(** Proofs about the [BloomTokenLog] model (Model/BloomLog.v): single-use of (nonce, issued)
    pairs for all histories, all [filter_max_bytes], all false-positive oracle values, across
    both turnover arms.  The inductive invariant [Inv] and its lemmas are exported for reuse. *)
From QV Require Import Lib.Tac Lib.Corr Model.BloomLog.
Open Scope Z_scope.

(** * Membership in the abstract fingerprint list *)

Lemma mem_cons_same x l : mem x (x :: l) = true.
Proof. cbn [mem]. rewrite Z.eqb_refl. reflexivity. Qed.

Lemma mem_cons_keep x y l : mem x l = true -> mem x (y :: l) = true.
Proof. intros H. cbn [mem]. rewrite H. apply orb_true_r. Qed.

(** * [filter_check] *)

(** [filter_check] never removes elements, whatever representation change happens. *)
Lemma bloom_conversion_preserves_membership fmb f fp b x :
  mem x (elems f) = true -> mem x (elems (fst (filter_check fmb f fp b))) = true.
Proof.
  intros H. unfold filter_check.
  destruct (mem fp (elems f)) eqn:E; [exact H|].
  destruct (is_bloom f) eqn:B; cbn [fst elems]; apply mem_cons_keep; exact H.
Qed.

(** After [filter_check] the fingerprint is a member (accepted or not; in either representation). *)
Lemma filter_check_inserts fmb f fp b :
  mem fp (elems (fst (filter_check fmb f fp b))) = true.
Proof.
  unfold filter_check.
  destruct (mem fp (elems f)) eqn:E; [exact E|].
  destruct (is_bloom f) eqn:B; cbn [fst elems]; apply mem_cons_same.
Qed.

Lemma filter_check_mem fmb f fp b f' r :
  filter_check fmb f fp b = (f', r) ->
  mem fp (elems f') = true /\
  (forall x, mem x (elems f) = true -> mem x (elems f') = true).
Proof.
  intros H. split.
  - pose proof (filter_check_inserts fmb f fp b) as M. rewrite H in M. exact M.
  - intros x Hx.
    pose proof (bloom_conversion_preserves_membership fmb f fp b x Hx) as M.
    rewrite H in M. exact M.
Qed.

(** No false negatives: a member is always rejected. *)
Lemma filter_check_rejects_member fmb f fp b :
  mem fp (elems f) = true -> snd (filter_check fmb f fp b) = false.
Proof. intros H. unfold filter_check. rewrite H. reflexivity. Qed.

(** In Set representation the oracle value is irrelevant. *)
Lemma filter_check_set_exact fmb f fp :
  is_bloom f = false -> filter_check fmb f fp true = filter_check fmb f fp false.
Proof. intros H. unfold filter_check. rewrite H. reflexivity. Qed.

Lemma filter_check_empty fmb fp b :
  filter_check fmb empty_filter fp b
  = (mkF (negb (hb_capacity (zlen [fp]) * 8 <=? fmb)) [fp], true).
Proof. reflexivity. Qed.

(** * Division facts for the period index *)

Lemma pf_bounds L d q : 0 < L -> d / L = q -> L * q <= d < L * q + L.
Proof.
  intros HL Hq. subst q.
  pose proof (Z.div_mod d L ltac:(lia)) as E.
  pose proof (Z.mod_pos_bound d L HL) as B. lia.
Qed.

Lemma pf_ge3 L q : 0 < L -> 3 <= q -> 3 * L <= L * q.
Proof. intros HL Hq. nia. Qed.

(** * The invariant *)

(** [A] is the ghost list of accepted (fingerprint, expiry) pairs, [expiry = issued + L]. *)
Definition Inv (L : Z) (s : BloomLog.t) (A : list (Z * Z)) : Prop :=
  forall fp e, In (fp, e) A ->
    e < p1s s \/
    (p1s s <= e < p1s s + L /\ mem fp (elems (f1 s)) = true) \/
    (p1s s + L <= e < p1s s + 2 * L /\ mem fp (elems (f2 s)) = true).

Lemma inv_init : forall L, Inv L init [].
Proof. intros L fp e H. destruct H. Qed.

(** [check] stated on an abstract fingerprint, so that [2 ^ 64] never gets in the way. *)
Definition check_fp (fmb : Z) (s : t) (fp issued lifetime : Z) (fp_reject : bool) : t * bool :=
  if lifetime =? 0 then (s, false)
  else
    let e := issued + lifetime in
    if e <? p1s s then (s, false)
    else
      let pf := (e - p1s s) / lifetime in
      if pf =? 0 then
        let '(f, r) := filter_check fmb (f1 s) fp fp_reject in (mk (p1s s) f (f2 s), r)
      else if pf =? 1 then
        let '(f, r) := filter_check fmb (f2 s) fp fp_reject in (mk (p1s s) (f1 s) f, r)
      else if pf =? 2 then
        let '(f, r) := filter_check fmb empty_filter fp fp_reject in
        (mk (p1s s + lifetime) (f2 s) f, r)
      else
        let '(f, r) := filter_check fmb empty_filter fp fp_reject in
        (mk e f empty_filter, r).

Lemma check_is_check_fp fmb s n t L b : check fmb s n t L b = check_fp fmb s (n mod 2 ^ 64) t L b.
Proof. reflexivity. Qed.

Lemma check_fp_preserves_inv fmb L s A fp t b s' r :
  0 < L -> Inv L s A -> check_fp fmb s fp t L b = (s', r) ->
  Inv L s' (if r then (fp, t + L) :: A else A).
Proof.
  intros HL HI HC. unfold check_fp in HC.
  destruct (L =? 0) eqn:E0; [lia|].
  destruct (t + L <? p1s s) eqn:Epast.
  { inversion HC; subst. exact HI. }
  pose proof (pf_bounds L (t + L - p1s s) _ HL eq_refl) as HB.
  remember ((t + L - p1s s) / L) as pf eqn:Hpf.
  destruct (pf =? 0) eqn:P0.
  { (* period 1 *)
    destruct (filter_check fmb (f1 s) fp b) as [f r0] eqn:FC.
    inversion HC; subst s' r0. clear HC.
    destruct (filter_check_mem _ _ _ _ _ _ FC) as [Hin Hkeep].
    assert (Hq : pf = 0) by lia. rewrite Hq in HB.
    assert (Hold : Inv L (mk (p1s s) f (f2 s)) A).
    { intros fp0 e0 H0. cbn [p1s f1 f2].
      destruct (HI fp0 e0 H0) as [H1 | [[H1 H2] | [H1 H2]]].
      - left; exact H1.
      - right; left; split; [exact H1 | apply Hkeep; exact H2].
      - right; right; split; [exact H1 | exact H2]. }
    destruct r; [|exact Hold].
    intros fp0 e0 [H0 | H0]; [|apply Hold; exact H0].
    inversion H0; subst fp0 e0. cbn [p1s f1 f2].
    right; left; split; [lia | exact Hin]. }
  destruct (pf =? 1) eqn:P1.
  { (* period 2 *)
    destruct (filter_check fmb (f2 s) fp b) as [f r0] eqn:FC.
    inversion HC; subst s' r0. clear HC.
    destruct (filter_check_mem _ _ _ _ _ _ FC) as [Hin Hkeep].
    assert (Hq : pf = 1) by lia. rewrite Hq in HB.
    assert (Hold : Inv L (mk (p1s s) (f1 s) f) A).
    { intros fp0 e0 H0. cbn [p1s f1 f2].
      destruct (HI fp0 e0 H0) as [H1 | [[H1 H2] | [H1 H2]]].
      - left; exact H1.
      - right; left; split; [exact H1 | exact H2].
      - right; right; split; [exact H1 | apply Hkeep; exact H2]. }
    destruct r; [|exact Hold].
    intros fp0 e0 [H0 | H0]; [|apply Hold; exact H0].
    inversion H0; subst fp0 e0. cbn [p1s f1 f2].
    right; right; split; [lia | exact Hin]. }
  destruct (pf =? 2) eqn:P2.
  { (* single turnover *)
    destruct (filter_check fmb empty_filter fp b) as [f r0] eqn:FC.
    inversion HC; subst s' r0. clear HC.
    destruct (filter_check_mem _ _ _ _ _ _ FC) as [Hin _].
    assert (Hq : pf = 2) by lia. rewrite Hq in HB.
    assert (Hold : Inv L (mk (p1s s + L) (f2 s) f) A).
    { intros fp0 e0 H0. cbn [p1s f1 f2].
      destruct (HI fp0 e0 H0) as [H1 | [[H1 H2] | [H1 H2]]].
      - left; lia.
      - left; lia.
      - right; left; split; [lia | exact H2]. }
    destruct r; [|exact Hold].
    intros fp0 e0 [H0 | H0]; [|apply Hold; exact H0].
    inversion H0; subst fp0 e0. cbn [p1s f1 f2].
    right; right; split; [lia | exact Hin]. }
  { (* both filters turn over *)
    destruct (filter_check fmb empty_filter fp b) as [f r0] eqn:FC.
    inversion HC; subst s' r0. clear HC.
    destruct (filter_check_mem _ _ _ _ _ _ FC) as [Hin _].
    assert (Hnn : 0 <= pf) by (subst pf; apply Z.div_pos; lia).
    assert (Hq : 3 <= pf) by lia.
    pose proof (pf_ge3 L pf HL Hq) as H3.
    assert (Hold : Inv L (mk (t + L) f empty_filter) A).
    { intros fp0 e0 H0. cbn [p1s f1 f2].
      destruct (HI fp0 e0 H0) as [H1 | [[H1 H2] | [H1 H2]]]; left; lia. }
    destruct r; [|exact Hold].
    intros fp0 e0 [H0 | H0]; [|apply Hold; exact H0].
    inversion H0; subst fp0 e0. cbn [p1s f1 f2].
    right; left; split; [lia | exact Hin]. }
Qed.

Lemma check_preserves_inv fmb L s A n t fp s' r :
  0 < L -> Inv L s A -> check fmb s n t L fp = (s', r) ->
  Inv L s' (if r then (n mod 2 ^ 64, t + L) :: A else A).
Proof.
  intros HL HI HC. rewrite check_is_check_fp in HC.
  exact (check_fp_preserves_inv _ _ _ _ _ _ _ _ _ HL HI HC).
Qed.

Lemma inv_rejects_replay_fp fmb L s A fp t b :
  0 < L -> Inv L s A -> In (fp, t + L) A -> snd (check_fp fmb s fp t L b) = false.
Proof.
  intros HL HI HA. unfold check_fp.
  destruct (L =? 0) eqn:E0; [lia|].
  destruct (t + L <? p1s s) eqn:Epast; [reflexivity|].
  pose proof (pf_bounds L (t + L - p1s s) _ HL eq_refl) as HB.
  remember ((t + L - p1s s) / L) as pf eqn:Hpf.
  destruct (HI _ _ HA) as [H1 | [[H1 H2] | [H1 H2]]].
  - lia.
  - assert (Hq : pf = 0) by nia.
    rewrite Hq. rewrite Z.eqb_refl.
    pose proof (filter_check_rejects_member fmb (f1 s) fp b H2) as R.
    destruct (filter_check fmb (f1 s) fp b) as [f r0]. exact R.
  - assert (Hq : pf = 1) by nia.
    rewrite Hq. change (1 =? 0) with false. rewrite Z.eqb_refl.
    pose proof (filter_check_rejects_member fmb (f2 s) fp b H2) as R.
    destruct (filter_check fmb (f2 s) fp b) as [f r0]. exact R.
Qed.

Lemma inv_rejects_replay fmb L s A n t fp :
  0 < L -> Inv L s A -> In (n mod 2 ^ 64, t + L) A -> snd (check fmb s n t L fp) = false.
Proof.
  intros HL HI HA. rewrite check_is_check_fp.
  exact (inv_rejects_replay_fp _ _ _ _ _ _ _ HL HI HA).
Qed.

(** [period_1_start] never moves backwards. *)
Lemma check_p1s_mono fmb L s n t fp s' r :
  0 < L -> check fmb s n t L fp = (s', r) -> p1s s <= p1s s'.
Proof.
  intros HL HC. rewrite check_is_check_fp in HC. unfold check_fp in HC.
  destruct (L =? 0) eqn:E0; [lia|].
  destruct (t + L <? p1s s) eqn:Epast; [inversion HC; subst; lia|].
  destruct ((t + L - p1s s) / L =? 0);
    [destruct (filter_check fmb (f1 s) _ fp); inversion HC; subst; cbn [p1s]; lia|].
  destruct ((t + L - p1s s) / L =? 1);
    [destruct (filter_check fmb (f2 s) _ fp); inversion HC; subst; cbn [p1s]; lia|].
  destruct ((t + L - p1s s) / L =? 2);
    destruct (filter_check fmb empty_filter _ fp); inversion HC; subst; cbn [p1s]; lia.
Qed.

(** * Histories *)

(** one presentation: nonce, issue time, and the false-positive oracle value for this call *)
Definition call := (Z * Z * bool)%type.

(** run a history with one fixed lifetime [L]; returns the final state and, per call, whether it was accepted *)
Fixpoint exec (fmb L : Z) (s : BloomLog.t) (h : list call) : BloomLog.t * list bool :=
  match h with
  | [] => (s, [])
  | (n, i, fp) :: h' =>
      let '(s', r) := check fmb s n i L fp in
      let '(s'', rs) := exec fmb L s' h' in (s'', r :: rs)
  end.

(** ghost list of accepted (fingerprint, expiry) pairs along a history *)
Fixpoint accepted_pairs (L : Z) (h : list call) (rs : list bool) (A : list (Z * Z)) : list (Z * Z) :=
  match h, rs with
  | (n, i, _) :: h', r :: rs' =>
      accepted_pairs L h' rs' (if r then (n mod 2 ^ 64, i + L) :: A else A)
  | _, _ => A
  end.

(** The invariant holds in every state reachable from a state where it holds. *)
Lemma exec_preserves_inv fmb L :
  0 < L -> forall h s A s' rs,
  Inv L s A -> exec fmb L s h = (s', rs) -> Inv L s' (accepted_pairs L h rs A).
Proof.
  intros HL h. induction h as [|[[n0 t0] b0] h' IH]; intros s A s' rs HI HE.
  - cbn [exec] in HE. inversion HE; subst. exact HI.
  - cbn [exec] in HE.
    destruct (check fmb s n0 t0 L b0) as [s1 r] eqn:C.
    destruct (exec fmb L s1 h') as [s2 rs'] eqn:E.
    inversion HE; subst s' rs. cbn [accepted_pairs].
    apply (IH s1 _ s2 rs'); [|exact E].
    exact (check_preserves_inv _ _ _ _ _ _ _ _ _ HL HI C).
Qed.

Theorem bloom_inv_reachable fmb L h s' rs :
  0 < L -> exec fmb L init h = (s', rs) -> Inv L s' (accepted_pairs L h rs []).
Proof. intros HL HE. exact (exec_preserves_inv fmb L HL h init [] s' rs (inv_init L) HE). Qed.

Lemma exec_length fmb L h : forall s s' rs, exec fmb L s h = (s', rs) -> length rs = length h.
Proof.
  induction h as [|[[n0 t0] b0] h' IH]; intros s s' rs HE; cbn [exec] in HE.
  - inversion HE; reflexivity.
  - destruct (check fmb s n0 t0 L b0) as [s1 r].
    destruct (exec fmb L s1 h') as [s2 rs'] eqn:E.
    inversion HE; subst. cbn [length]. f_equal. exact (IH _ _ _ E).
Qed.

(** Once a pair is in the ghost list, every later presentation of it is rejected. *)
Lemma exec_rejects_known fmb L :
  0 < L -> forall h s A s' rs,
  Inv L s A -> exec fmb L s h = (s', rs) ->
  forall j n t fj, nth_error h j = Some (n, t, fj) -> In (n mod 2 ^ 64, t + L) A ->
  nth_error rs j = Some false.
Proof.
  intros HL h. induction h as [|[[n0 t0] b0] h' IH]; intros s A s' rs HI HE j n t fj Hj HA.
  - destruct j; discriminate Hj.
  - cbn [exec] in HE.
    destruct (check fmb s n0 t0 L b0) as [s1 r] eqn:C.
    destruct (exec fmb L s1 h') as [s2 rs'] eqn:E.
    inversion HE; subst s' rs. clear HE.
    destruct j as [|j'].
    + cbn [nth_error] in Hj |- *. inversion Hj; subst n0 t0 b0.
      pose proof (inv_rejects_replay fmb L s A n t fj HL HI HA) as R.
      rewrite C in R. cbn [snd] in R. rewrite R. reflexivity.
    + cbn [nth_error] in Hj |- *.
      apply (IH s1 (if r then (n0 mod 2 ^ 64, t0 + L) :: A else A) s2 rs'
                (check_preserves_inv _ _ _ _ _ _ _ _ _ HL HI C) E j' n t fj Hj).
      destruct r; [right|]; exact HA.
Qed.

Lemma exec_single_use_gen fmb L :
  0 < L -> forall h s A s' rs,
  Inv L s A -> exec fmb L s h = (s', rs) ->
  forall i j n n' t fi fj,
    (i < j)%nat ->
    nth_error h i = Some (n, t, fi) -> nth_error h j = Some (n', t, fj) ->
    n mod 2 ^ 64 = n' mod 2 ^ 64 ->
    nth_error rs i = Some true -> nth_error rs j = Some false.
Proof.
  intros HL h. induction h as [|[[n0 t0] b0] h' IH];
    intros s A s' rs HI HE i j n n' t fi fj Hij Hi Hj Hfp Hri.
  - destruct i; discriminate Hi.
  - cbn [exec] in HE.
    destruct (check fmb s n0 t0 L b0) as [s1 r] eqn:C.
    destruct (exec fmb L s1 h') as [s2 rs'] eqn:E.
    inversion HE; subst s' rs. clear HE.
    pose proof (check_preserves_inv _ _ _ _ _ _ _ _ _ HL HI C) as HI1.
    destruct j as [|j']; [lia|].
    cbn [nth_error] in Hj |- *.
    destruct i as [|i'].
    + cbn [nth_error] in Hi, Hri. inversion Hi; subst n0 t0 b0. inversion Hri; subst r.
      apply (exec_rejects_known fmb L HL h' s1 _ s2 rs' HI1 E j' n' t fj Hj).
      left. rewrite Hfp. reflexivity.
    + cbn [nth_error] in Hi, Hri.
      apply (IH s1 _ s2 rs' HI1 E i' j' n n' t fi fj); try assumption. lia.
Qed.

(** * Main theorems *)

(** Fingerprint-level single use: two presentations with the same issue time whose nonces agree
    modulo [2 ^ 64] are never both accepted. *)
Theorem bloom_single_use_fp : forall fmb L h s' rs,
  0 < L ->
  exec fmb L init h = (s', rs) ->
  forall i j n n' t fi fj,
    (i < j)%nat ->
    nth_error h i = Some (n, t, fi) -> nth_error h j = Some (n', t, fj) ->
    n mod 2 ^ 64 = n' mod 2 ^ 64 ->
    nth_error rs i = Some true -> nth_error rs j = Some false.
Proof.
  intros fmb L h s' rs HL HE.
  exact (exec_single_use_gen fmb L HL h init [] s' rs (inv_init L) HE).
Qed.

(** No (nonce, issued) pair is accepted twice. *)
Theorem bloom_single_use : forall fmb L h s' rs,
  0 < L ->
  exec fmb L init h = (s', rs) ->
  forall i j n t fi fj,
    (i < j)%nat ->
    nth_error h i = Some (n, t, fi) -> nth_error h j = Some (n, t, fj) ->
    nth_error rs i = Some true -> nth_error rs j = Some false.
Proof.
  intros fmb L h s' rs HL HE i j n t fi fj Hij Hi Hj Hri.
  exact (bloom_single_use_fp fmb L h s' rs HL HE i j n n t fi fj Hij Hi Hj eq_refl Hri).
Qed.

(** A zero lifetime is always rejected and leaves the log unchanged. *)
Theorem bloom_zero_lifetime_rejects : forall fmb s n t fp, check fmb s n t 0 fp = (s, false).
Proof. intros. reflexivity. Qed.

(** While both filters are exact sets the false-positive oracle is irrelevant. *)
Theorem bloom_set_mode_exact : forall fmb s n t L,
  is_bloom (f1 s) = false -> is_bloom (f2 s) = false ->
  check fmb s n t L true = check fmb s n t L false.
Proof.
  intros fmb s n t L H1 H2. rewrite !check_is_check_fp. unfold check_fp.
  rewrite (filter_check_set_exact fmb (f1 s) _ H1).
  rewrite (filter_check_set_exact fmb (f2 s) _ H2).
  rewrite (filter_check_set_exact fmb empty_filter _ eq_refl).
  reflexivity.
Qed.

(** * Non-vacuity *)

(** L = 10, [fmb = 0] (every filter converts to Bloom on its first insertion).
    1. (1, 0): expiry 10, period 2: accepted.            2. replay: rejected.
    3. (2, 12): expiry 22, SINGLE TURNOVER (p1s = 10): accepted.
    4. replay of (1, 0) after the turnover (now in filter_1): rejected.
    5. replay of (2, 12): rejected.
    6. (3, 100): expiry 110, BOTH filters turn over (p1s = 110): accepted.   7. replay: rejected.
    8. (1, 0) again: expired, rejected.
    9. (4, 100) with a Bloom false positive: rejected.   10. (5, 100), no false positive: accepted.
    11. (5 + 2^64, 100): same fingerprint as 10: rejected. *)
Example bloom_example :
  exec 0 10 init
    [(1, 0, false); (1, 0, false); (2, 12, false); (1, 0, false); (2, 12, false);
     (3, 100, false); (3, 100, false); (1, 0, false); (4, 100, true); (5, 100, false);
     (5 + 2 ^ 64, 100, false)]
  = (mk 110 (mkF true [5; 4; 3]) empty_filter,
     [true; false; true; false; false; true; false; false; false; true; false]).
Proof. vm_compute. reflexivity. Qed.

(** Same history with a large [fmb]: everything stays in Set representation, and the oracle value
    [true] at call 9 is ignored ([bloom_set_mode_exact]). *)
Example bloom_example_set :
  snd (exec 1000 10 init
    [(1, 0, false); (1, 0, false); (2, 12, false); (1, 0, false); (2, 12, false);
     (3, 100, false); (3, 100, false); (1, 0, false); (4, 100, true); (5, 100, false)])
  = [true; false; true; false; false; true; false; false; true; true].
Proof. vm_compute. reflexivity. Qed.

(** The invariant is non-trivially inhabited: the state after the single turnover above, with
    both accepted pairs still tracked (one in each filter). *)
Example bloom_inv_example :
  Inv 10 (mk 10 (mkF true [1]) (mkF true [2])) [(2, 22); (1, 10)].
Proof.
  intros fp e [H | [H | []]]; inversion H; subst; cbn [p1s f1 f2 elems].
  - right; right. split; [lia | reflexivity].
  - right; left. split; [lia | reflexivity].
Qed.

Print Assumptions bloom_single_use.
Print Assumptions bloom_single_use_fp.
Print Assumptions check_preserves_inv.
Print Assumptions inv_rejects_replay.
