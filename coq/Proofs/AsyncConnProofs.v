(** C18 — proofs about Model/AsyncConn.v: the invariant [Inv] (Proofs/AsyncConnInv.v) is preserved
    by every step; consequences. *)
From QV Require Import Lib.Tac Model.AsyncConn Proofs.AsyncConnInv Proofs.AsyncConnLemmas.
From Coq Require Import Arith.

Ltac inv0_intro HI :=
  let H := fresh in pose proof HI as H;
  destruct H as [Hwake Hrb1 Hrb2 Hwb1 Hwb2 Hnw Hrhs Hshs Hbrs Hends Hrxs Hincs Hprh Hpsh Hbre Hare Hra Hrd Hdata Hdg Hdel].

Lemma try_op_none : forall s o n, try_op s o n = None <-> cond s o = false.
Proof.
  intros s o n; destruct o; cbn [try_op cond]; unfold closed;
    repeat match goal with |- context [match ?x with _ => _ end] => destruct x eqn:? end;
    cbn [nonempty orb]; split; intros H; try discriminate; try reflexivity; rewrite ?orb_true_r, ?orb_false_r in H; cbn [orb] in H; congruence.
Qed.

Lemma Inv0_init : Inv0 init.
Proof.
  constructor; cbn; intros; try discriminate; try congruence; try contradiction; auto.
Qed.

Ltac easy := intros; sim; solve [eauto].


Ltac rw_hyps :=
  repeat match goal with
         | H : ?x = _ |- context [?x] =>
             lazymatch x with
             | aget _ _ => rewrite H | nwait _ _ _ => rewrite H | runnable _ _ => rewrite H
             | memb _ _ => rewrite H | err _ => rewrite H | delivered _ _ => rewrite H
             | d_arrived _ => rewrite H
             end
         end.
Ltac note H :=
  let T := type of H in
  lazymatch T with
  | ?A /\ ?B => first [note (proj1 H) | note (proj2 H)]
  | _ => lazymatch goal with | _ : T |- _ => fail | _ => pose proof H end
  end.
Definition nw_mark (n : notify) (t : nat) : Prop := True.
Ltac fwd :=
  repeat match goal with
         | Hc : (forall n t, nwait ?s n t = true -> _), H : nwait ?s ?n ?t = true |- _ =>
             lazymatch goal with _ : nw_mark n t |- _ => fail | _ => idtac end;
             let o := fresh "o" in let Hp := fresh "Hp" in let Hn := fresh "Hn" in
             destruct (Hc _ _ H) as (o & Hp & Hn); assert (nw_mark n t) by exact I
         | H1 : pend ?s ?t = Some ?a, H2 : pend ?s ?t = Some ?b |- _ =>
             lazymatch a with b => fail | _ => idtac end;
             let E := fresh "E" in assert (E : a = b) by congruence;
             first [discriminate E | injection E; intros; subst; clear E | subst];
             cbn [notify_of] in *
         | Hc : (forall k, all_read ?s k = true -> _), H : all_read ?s _ = true |- _ => note (Hc _ H)
         | Hc : (forall t k, pend ?s t = Some (ORead k) -> _), H : pend ?s _ = Some (ORead _) |- _ => note (Hc _ _ H)
         | Hc : (forall t k, pend ?s t = Some (OWrite k) -> _), H : pend ?s _ = Some (OWrite _) |- _ => note (Hc _ _ H)
         | Hc : (forall t k, rborrow ?s k = Some t -> _), H : rborrow ?s _ = Some _ |- _ => note (Hc _ _ H)
         | Hc : (forall t k, wborrow ?s k = Some t -> _), H : wborrow ?s _ = Some _ |- _ => note (Hc _ _ H)
         | Hc : (forall k, recv_h ?s k = true -> _), H : recv_h ?s _ = true |- _ => note (Hc _ H)
         | Hc : (forall k, send_h ?s k = true -> _), H : send_h ?s _ = true |- _ => note (Hc _ H)
         | Hc : (forall k, rx_end ?s k = true -> _), H : rx_end ?s _ = true |- _ => note (Hc _ H)
         | Hc : (forall k, discarded ?s k = false -> _), H : discarded ?s _ = false |- _ => note (Hc _ H)
         | Hc : (forall k, seen ?s k = false -> _), H : seen ?s _ = false |- _ => note (Hc _ H)
         | Hc : (forall k, aget (br ?s) k <> None -> _), H : aget (br ?s) ?k0 = Some _ |- _ =>
             let HH := fresh in assert (HH : aget (br s) k0 <> None) by (rewrite H; discriminate);
             note (Hc _ HH); clear HH
         | Hc : (forall k, aget (br ?s) k <> None -> _), H : aget (br ?s) ?k0 <> None |- _ => note (Hc _ H)
         | H : In _ (_ ++ _) |- _ => apply in_app_or in H; destruct H as [H|[H|[]]]; try subst
         end.
Lemma notify_eqb_false : forall a b, notify_eqb a b = false -> a <> b.
Proof. intros a b E ->. rewrite notify_eqb_refl in E. discriminate. Qed.
Ltac neqb_cases :=
  cbn [notify_eqb] in *;
  repeat match goal with
         | H : context [notify_eqb ?a ?b] |- _ =>
             let E := fresh "E" in destruct (notify_eqb a b) eqn:E; [apply notify_eqb_eq in E; try subst|apply notify_eqb_false in E]
         | |- context [notify_eqb ?a ?b] =>
             let E := fresh "E" in destruct (notify_eqb a b) eqn:E; [apply notify_eqb_eq in E; try subst|apply notify_eqb_false in E]
         end.
Ltac memb_cases :=
  repeat match goal with
         | |- context [if memb ?l ?k then _ else _] => destruct (memb l k) eqn:?
         | H : context [if memb ?l ?k then _ else _] |- _ => destruct (memb l k) eqn:?
         end.
Ltac crush :=
  neqb_cases; unfold upd, updb in *; rewrite ?aget_arem, ?aget_aset, ?wake_run_eq, ?memb_rem_key in *;
  repeat match goal with H : _ /\ _ |- _ => destruct H end;
  eqb_cases; cbn [orb andb negb] in *; try fwd; rw_hyps; unfold woke in *;
  rewrite ?Nat.eqb_refl, ?app_nil_r, ?orb_true_r, ?orb_false_r in *; cbn [orb andb negb] in *;
  try congruence; try tauto; try (left; reflexivity);
  try (repeat match goal with H : arrived _ _ = _ |- _ => rewrite H end; rewrite <- ?app_assoc; reflexivity);
  try (rewrite <- ?app_assoc; reflexivity);
  eauto.

Ltac sim_goal :=
  unfold closed;
  repeat first [ rewrite close_conn_nf | rewrite need_driver_nf | rewrite wake_driver_nf
        | rewrite terminate_nf | rewrite wake_task_nf | rewrite wake_reader_nf
        | rewrite wake_writer_nf | rewrite wake_all_readers_nf
        | rewrite wake_all_writers_nf | rewrite notify_waiters_nf
        | rewrite wake_stopped_nf | rewrite wake_all_stopped_nf | rewrite add_ref_nf ];
  cbn_st.

(* the wake clause: [H : pend s t = Some o] about the OLD state *)
Ltac wake_tac :=
  match goal with
  | Hw : (forall t o, pend ?s t = Some o -> _ \/ _), H : pend ?s _ = Some ?o |- _ \/ _ =>
      let Hr := fresh "Hr" in let Hreg := fresh "Hreg" in let Hc := fresh "Hc" in
      destruct (Hw _ _ H) as [Hr|[Hreg Hc]];
      [left; rewrite ?wake_run_eq, ?term_runnable_eq; cbn beta; rewrite Hr; reflexivity|];
      destruct o; cbn [registered cond notify_of] in Hreg, Hc |- *; unfold closed in *; cbn_st;
      try (right; split; assumption); crush
  end.
Ltac pend_cases :=
  repeat match goal with
         | H : upd (pend _) _ _ _ = Some _ |- _ => unfold upd in H
         | H : context [if Nat.eqb ?a ?b then _ else _] |- _ => destruct (Nat.eqb_spec a b); try subst; try discriminate H
         end.
Ltac ev_tac HI :=
  sim_goal; constructor; intros; unfold closed in *; cbn_st_all; inv0_intro HI;
  try solve [eauto 3]; memb_cases; pend_cases; try wake_tac; crush.

Lemma Inv0_PData : forall s k bytes fin, Inv0 s -> Inv0 (drv_event s (PData k bytes fin)).
Proof.
  intros s k bytes fin HI. cbn [drv_event].
  destruct (negb (seen s k) || rx_end s k) eqn:E; [assumption|].
  apply orb_false_iff in E as [Eseen Eend]. apply negb_false_iff in Eseen.
  ev_tac HI.
Qed.

Lemma Inv0_PConnected : forall s, Inv0 s -> Inv0 (drv_event s PConnected).
Proof.
  intros s HI. cbn [drv_event]. ev_tac HI.
Qed.

Lemma Inv0_PHsConfirmed : forall s, Inv0 s -> Inv0 (drv_event s PHsConfirmed).
Proof. intros s HI. cbn [drv_event]. ev_tac HI. Qed.
Lemma Inv0_PAvailable : forall s d n, Inv0 s -> Inv0 (drv_event s (PAvailable d n)).
Proof. intros s d n HI. cbn [drv_event]. ev_tac HI. Qed.
Lemma Inv0_PDgram : forall s id, Inv0 s -> Inv0 (drv_event s (PDgram id)).
Proof. intros s id HI. cbn [drv_event]. ev_tac HI. Qed.
Lemma Inv0_PDgramUnblocked : forall s, Inv0 s -> Inv0 (drv_event s PDgramUnblocked).
Proof. intros s HI. cbn [drv_event]. ev_tac HI. Qed.
Lemma Inv0_POpened : forall s d k bytes fin, Inv0 s -> Inv0 (drv_event s (POpened d k bytes fin)).
Proof.
  intros s d k bytes fin HI. cbn [drv_event].
  destruct (seen s k) eqn:Eseen; [assumption|].
  ev_tac HI. Qed.
Lemma Inv0_PReset : forall s k, Inv0 s -> Inv0 (drv_event s (PReset k)).
Proof.
  intros s k HI. cbn [drv_event].
  destruct (negb (seen s k)) eqn:Eseen; [assumption|]. apply negb_false_iff in Eseen.
  ev_tac HI. Qed.
Lemma Inv0_PCredit : forall s k n, Inv0 s -> Inv0 (drv_event s (PCredit k n)).
Proof.
  intros s k n HI. cbn [drv_event].
  destruct (negb (seen s k)) eqn:Eseen; [assumption|]. apply negb_false_iff in Eseen.
  ev_tac HI. Qed.
Lemma Inv0_PStopped : forall s k, Inv0 s -> Inv0 (drv_event s (PStopped k)).
Proof.
  intros s k HI. cbn [drv_event].
  destruct (negb (seen s k)) eqn:Eseen; [assumption|]. apply negb_false_iff in Eseen.
  ev_tac HI. Qed.
Lemma Inv0_PFinished : forall s k, Inv0 s -> Inv0 (drv_event s (PFinished k)).
Proof.
  intros s k HI. cbn [drv_event].
  destruct (negb (seen s k)) eqn:Eseen; [assumption|]. apply negb_false_iff in Eseen.
  ev_tac HI. Qed.

Ltac orb_true := repeat (rewrite ?orb_true_r; cbn [orb]); try reflexivity.
Lemma term_runnable_mono : forall s t, runnable s t = true -> term_runnable s t = true.
Proof. intros s t Hr; rewrite term_runnable_eq, Hr; reflexivity. Qed.
Lemma term_runnable_reg : forall s t o, registered s t o -> term_runnable s t = true.
Proof.
  intros s t o Hreg; rewrite term_runnable_eq.
  destruct o as [| | |d|d|k|k|k| | |]; cbn [registered notify_of] in Hreg; try destruct d;
    try (rewrite Hreg; orb_true).
  - rewrite (aget_aval _ _ _ Hreg); orb_true.
  - rewrite (aget_aval _ _ _ Hreg); orb_true.
  - destruct Hreg as [Hn Hm].
    assert (Hex : existsb (fun k0 => nwait s (NStopped k0) t) (skeys s) = true).
    { apply existsb_exists. unfold memb in Hm. apply existsb_exists in Hm as (x & Hin & Hx).
      apply Nat.eqb_eq in Hx; subst x. eauto. }
    rewrite Hex; orb_true.
Qed.
Lemma term_nwait_sub : forall s n t, term_nwait s n t = true -> nwait s n t = true.
Proof.
  intros s n t H; rewrite term_nwait_eq in H. destruct n; try discriminate.
  destruct (memb (skeys s) s0); [discriminate|assumption].
Qed.
Lemma Inv0_terminate : forall s c, Inv0 s -> Inv0 (terminate s c).
Proof.
  intros s c HI. sim_goal; constructor; intros; unfold closed in *; cbn_st_all; inv0_intro HI; try solve [eauto 3].
  - destruct (Hwake _ _ H) as [Hr|[Hreg _]]; left; eauto using term_runnable_mono, term_runnable_reg.
  - eauto using term_nwait_sub.
  - cbn [aget] in *; congruence.
Qed.
Lemma Inv0_PLost : forall s c, Inv0 s -> Inv0 (drv_event s (PLost c)).
Proof. intros s c HI. cbn [drv_event]. now apply Inv0_terminate. Qed.
Lemma Inv0_PDrained : forall s, Inv0 s -> Inv0 (drv_event s PDrained).
Proof. intros s HI. cbn [drv_event]. destruct (closed s); [|assumption]. ev_tac HI. Qed.
Lemma Inv0_PSpurious : forall s o, Inv0 s -> Inv0 (drv_event s (PSpurious o)).
Proof. intros s o HI. cbn [drv_event]. destruct o; cbn [notify_of]; try assumption; ev_tac HI. Qed.

Lemma drv_event_tasks : forall s e,
  pend (drv_event s e) = pend s /\ rborrow (drv_event s e) = rborrow s /\
  wborrow (drv_event s e) = wborrow s /\ recv_h (drv_event s e) = recv_h s /\
  send_h (drv_event s e) = send_h s /\ all_read (drv_event s e) = all_read s /\
  refcnt (drv_event s e) = refcnt s /\ nhandles (drv_event s e) = nhandles s /\
  inner_closed (drv_event s e) = inner_closed s /\ driver_alive (drv_event s e) = driver_alive s /\
  drv_waker (drv_event s e) = drv_waker s /\ drv_runnable (drv_event s e) = drv_runnable s /\
  drv_work (drv_event s e) = drv_work s.
Proof.
  intros s e; destruct e; cbn [drv_event];
    repeat match goal with |- context [if ?b then _ else _] => destruct b end;
    try match goal with |- context [PSpurious ?o] => idtac | o : op |- _ => destruct o; cbn [notify_of] end;
    sim; repeat split; reflexivity.
Qed.

Definition pev_ok (e : pev) : bool := match e with PResetAcked _ => false | _ => true end.
Lemma Inv0_drv_event : forall s e, pev_ok e = true -> Inv0 s -> Inv0 (drv_event s e).
Proof.
  intros s e He HI; destruct e; try discriminate;
    auto using Inv0_PConnected, Inv0_PHsConfirmed, Inv0_POpened, Inv0_PData, Inv0_PReset,
      Inv0_PCredit, Inv0_PStopped, Inv0_PFinished, Inv0_PAvailable, Inv0_PDgram,
      Inv0_PDgramUnblocked, Inv0_PLost, Inv0_PDrained, Inv0_PSpurious.
Qed.
Lemma pev_no_reset_ack_forall : forall evs, pev_no_reset_ack evs = forallb pev_ok evs.
Proof. induction evs as [|e evs IH]; [reflexivity|]. destruct e; cbn [pev_no_reset_ack forallb pev_ok andb]; auto. Qed.
Lemma Inv0_drv_events : forall evs s, forallb pev_ok evs = true -> Inv0 s -> Inv0 (fold_left drv_event evs s).
Proof.
  induction evs as [|e evs IH]; intros s Hok HI; [assumption|].
  cbn [forallb] in Hok. apply andb_true_iff in Hok as [He Hok]. cbn [fold_left].
  apply IH; [assumption|]. now apply Inv0_drv_event.
Qed.

Lemma Inv0_release : forall s t, Inv0 s -> Inv0 (release s t).
Proof.
  intros s t HI; unfold release. destruct (pend s t) as [o|] eqn:Ep; [|assumption].
  destruct o; cbn [notify_of]; ev_tac HI.
Qed.
