(** Lifecycle: the inductive invariant of the connection state machine (Model/Lifecycle.v) and
    its preservation by every operation outside the excluded classes ([guard]). *)
From QV Require Import Lib.Tac Lib.Corr Model.Lifecycle.
Open Scope Z_scope.

Definition Inv (s : state) : Prop :=
  (error s <> None -> is_closed (st s) = true) /\
  (is_closed (st s) = true -> t_idle s = None /\ t_ka s = None) /\
  (is_closing (st s) = true -> t_close s <> None) /\
  (is_closing (st s) = false -> t_close s = None) /\
  (epq s = 0 \/ epq s = 1 /\ st s = Drained) /\
  (is_closed (st s) = false -> close s = false).

Ltac prj :=
  cbn [st close error epq t_close t_idle t_ka permit_idle_reset idle_timeout cfg_idle cfg_ka
       set_st set_close set_error set_epq set_t_close set_t_idle set_t_ka set_permit
       set_idle_timeout close_common set_close_timer kill fst snd
       is_closed is_closing is_drained is_established is_handshake negb andb orb] in *.

Ltac split_if :=
  match goal with
  | |- context [if ?c then _ else _] =>
      lazymatch c with
      | context [if _ then _ else _] => fail
      | context [match _ with _ => _ end] => fail
      | _ => destruct c eqn:?
      end
  | |- context [match ?c with _ => _ end] =>
      lazymatch c with
      | context [if _ then _ else _] => fail
      | context [match _ with _ => _ end] => fail
      | _ => destruct c eqn:?
      end
  end.

Ltac sat :=
  repeat match goal with
  | H : ?a = ?a -> _ |- _ => specialize (H eq_refl)
  | H : true = false -> _ |- _ => clear H
  | H : false = true -> _ |- _ => clear H
  | H : _ /\ _ |- _ => destruct H
  end.

Ltac fin_inv :=
  unfold Inv in *; prj; sat;
  try (exfalso; congruence);
  repeat split; intros;
  repeat match goal with E : st _ = _ |- _ => progress (rewrite E in * ) end;
  prj; sat; try discriminate; try congruence; try lia; auto;
  try (intuition (try discriminate; try congruence; try lia)).

Ltac casest s :=
  let E := fresh "Est" in
  unfold Inv in *;
  destruct (st s) eqn:E; try rewrite E in *.


Ltac unf2 :=
  unfold step', step, step_gen, poll_transmit_gen, poll, poll_endpoint_events, handle_timeout,
    handle_packet, on_sent, close_inner, on_packet_authenticated,
    reset_idle_timeout, reset_keep_alive, set_peer_params, expired, guard in *;
  cbn [process Lifecycle.authed err_result state_of_err fst snd negb andb orb] in *.

Ltac go := repeat (split_if; prj); fin_inv.

Lemma inv_init : forall i k, Inv (init i k).
Proof. intros; unfold Inv, init; cbn. repeat split; try congruence; try lia; auto. Qed.

(** helpers *)
Lemma inv_close_inner : forall s now pto r, Inv s -> Inv (close_inner s now pto r).
Proof. intros s now pto r H. casest s; unf2; prj; go. Qed.

Lemma inv_on_sent : forall s now a pto, Inv s -> Inv (on_sent s now a pto).
Proof. intros s now a pto H. casest s; unf2; prj; go. Qed.

Lemma inv_kill : forall s r, Inv s -> is_drained (st s) = false -> Inv (kill s r).
Proof. intros s r H D. casest s; unf2; prj; try discriminate D; go. Qed.

Lemma inv_auth : forall s now pto, Inv s -> is_closed (st s) = false ->
  Inv (on_packet_authenticated s now pto).
Proof. intros s now pto H D. casest s; unf2; prj; try discriminate D; go. Qed.

Lemma auth_st : forall s now pto, st (on_packet_authenticated s now pto) = st s.
Proof. intros. unf2. repeat (split_if; prj); reflexivity. Qed.

(** the part of [handle_packet] after [on_packet_authenticated] *)
Definition hp_rest (s : state) (now : Z) (p : pkt) (pto_close : Z) (same_remote : bool) : state :=
      let was_closed := is_closed (st s) in
      let was_drained := is_drained (st s) in
      let '(s, res) := process s p in
      let s := match res with
               | Some e => set_st (set_error s (Some e)) (state_of_err e (st s))
               | None => s
               end in
      let s := if negb was_closed && is_closed (st s) then
                 let s := close_common s in
                 if is_drained (st s) then s else set_close_timer s now pto_close
               else s in
      let s := if negb was_drained && is_drained (st s) then
                 set_t_close (set_epq s (epq s + 1)) None
               else s in
      match st s with
      | Closed _ => set_close s same_remote
      | _ => s
      end.

Lemma hp_split : forall s now p pi pc sr,
  handle_packet s now p pi pc sr =
  match p with
  | PDiscard => s
  | _ => hp_rest (if authed p && negb (is_closed (st s)) then on_packet_authenticated s now pi else s)
                 now p pc sr
  end.
Proof.
  intros. destruct p; try reflexivity; unfold handle_packet, hp_rest;
    destruct (Lifecycle.authed _ && negb (is_closed (st s))); try reflexivity;
    rewrite ?auth_st; reflexivity.
Qed.

Lemma inv_hp_rest : forall s now p pc sr, Inv s ->
  err_result p && is_closed (st s) = false -> Inv (hp_rest s now p pc sr).
Proof.
  intros s now p pc sr H G. unfold hp_rest.
  destruct p; casest s; cbn [process Lifecycle.authed err_result state_of_err fst snd negb andb orb] in *;
    prj; try discriminate G; go.
Qed.

Lemma inv_packet : forall s now p pi pc sr, Inv s ->
  err_result p && is_closed (st s) = false -> Inv (handle_packet s now p pi pc sr).
Proof.
  intros s now p pi pc sr H G. rewrite hp_split.
  assert (Inv (hp_rest (if authed p && negb (is_closed (st s)) then on_packet_authenticated s now pi else s) now p pc sr)).
  { apply inv_hp_rest.
    - destruct (authed p && negb (is_closed (st s))) eqn:E; [|exact H].
      apply inv_auth; [exact H|]. apply andb_true_iff in E. destruct E as [_ E].
      now apply negb_true_iff in E.
    - destruct (authed p && negb (is_closed (st s))); rewrite ?auth_st; exact G. }
  destruct p; try exact H0. exact H.
Qed.

Lemma inv_timeout : forall s now, Inv s -> Inv (handle_timeout s now).
Proof. intros s now H. casest s; unf2; prj; go. Qed.

Lemma inv_transmit : forall g s now e, Inv s -> Inv (fst (poll_transmit_gen g s now e)).
Proof.
  intros g s now e H. unfold poll_transmit_gen.
  casest s; prj;
  repeat match goal with
  | |- context [if ?c then _ else _] =>
      lazymatch c with
      | context [if _ then _ else _] => fail
      | _ => destruct c eqn:?
      end; prj
  | |- context [let '(_, _) := ?c in _] => destruct c
  | |- context [match ?c with [] => _ | _ => _ end] => destruct c
  end; prj;
  try exact H; try (apply inv_kill; [unfold Inv; rewrite ?Est; exact H| rewrite ?Est; reflexivity]);
  try (apply inv_on_sent; try apply inv_close_inner; unfold Inv; rewrite ?Est; exact H).
  all: try (unfold Inv in *; prj; rewrite ?Est in *; prj; sat; repeat split; intros; try discriminate; try congruence; auto).
Qed.

Lemma inv_step_gen : forall g s o, Inv s -> guard s o = true -> Inv (fst (step_gen g s o)).
Proof.
  intros g s o H G.
  destruct o as [now code pto|now p pi pc sr|pi|now|other| |now e]; cbn [step_gen fst].
  - now apply inv_close_inner.
  - apply inv_packet; [exact H|]. unfold guard in G. now apply negb_true_iff in G.
  - casest s; unf2; prj; go.
  - now apply inv_timeout.
  - casest s; unf2; prj; go.
  - casest s; unf2; prj; go.
  - now apply inv_transmit.
Qed.

Lemma inv_step : forall s o, Inv s -> guard s o = true -> Inv (step' s o).
Proof. intros. unfold step', step. now apply inv_step_gen. Qed.
