(** Proofs about Model/SendGate.v. *)
From QV Require Import Lib.Tac Model.SendGate.
Open Scope Z_scope.

(** Loss probes are never held back by congestion control nor by the pacer. *)
Lemma probe_not_blocked : forall g, 0 < g_probes g ->
  gate g <> BlockedCongestion /\ (forall d, gate g <> BlockedPacing d).
Proof.
  intros g H. unfold gate.
  replace (g_probes g =? 0) with false by lia. rewrite !andb_false_r.
  destruct (negb (g_can_send g)); [split; [|intros d]; discriminate|].
  destruct (g_antiamp g); split; try intros d; discriminate.
Qed.

(** With something to send, probes pending and anti-amplification budget, a datagram goes out
    and consumes one probe. *)
Lemma probe_sends : forall g, 0 < g_probes g -> g_can_send g = true -> g_antiamp g = false ->
  gate g = Sends /\ probes_after g = g_probes g - 1.
Proof.
  intros g H C A. unfold probes_after, gate. rewrite C, A.
  replace (g_probes g =? 0) with false by lia. rewrite !andb_false_r. cbn [negb].
  split; [reflexivity|]. replace (0 <? g_probes g) with true by lia. reflexivity.
Qed.

(** The closing packet is never held back either. *)
Lemma close_not_blocked : forall g, g_close g = true ->
  gate g <> BlockedCongestion /\ (forall d, gate g <> BlockedPacing d).
Proof.
  intros g H. unfold gate. rewrite H. cbn [negb]. rewrite !andb_false_r. cbn [andb].
  destruct (negb (g_can_send g)); [split; [|intros d]; discriminate|].
  destruct (g_antiamp g); split; try intros d; discriminate.
Qed.

(** Blocked by pacing arms Timer::Pacing at the pacer's deadline; under the pacer contract
    ([delay = Some d -> now < d]) that instant is in the future, so the driver is woken and does
    not spin. *)
Lemma pacing_arms : forall g prev d now,
  gate g = BlockedPacing d ->
  (forall x, g_delay g = Some x -> now < x) ->
  pacing_after g prev = Some d /\ now < d.
Proof.
  intros g prev d now E C. unfold pacing_after. rewrite E. split; [reflexivity|].
  apply C. unfold gate in E.
  destruct (negb (g_can_send g)); [discriminate|]. destruct (g_antiamp g); [discriminate|].
  destruct (g_ack_eliciting g && negb (g_close g) && (g_probes g =? 0)); [|discriminate].
  destruct (g_window g <=? g_in_flight g + g_bytes g); [discriminate|].
  destruct (g_delay g); [|discriminate]. inversion E. reflexivity.
Qed.

(** Only congestion, pacing or anti-amplification can hold back something that is ready. *)
Lemma ready_sends_or_named_block : forall g, g_can_send g = true ->
  gate g = Sends \/ gate g = BlockedAntiAmp \/ gate g = BlockedCongestion \/ exists d, gate g = BlockedPacing d.
Proof.
  intros g C. unfold gate. rewrite C. cbn [negb].
  destruct (g_antiamp g); [auto|].
  destruct (g_ack_eliciting g && negb (g_close g) && (g_probes g =? 0)); [|auto].
  destruct (g_window g <=? g_in_flight g + g_bytes g); [auto|].
  destruct (g_delay g); eauto.
Qed.
