(** Totality with bounds of the frame decoder (Model/Frames.v): every reader returns a value and
    a suffix of its input, or one of the three [IterErr]s; never [DPanic], never out of fuel. *)
From QV Require Import Lib.Tac Lib.Bytes Lib.Corr Model.Varint Model.Frames
  Proofs.BytesProofs Proofs.VarintProofs.
Open Scope Z_scope.

(** [p] maps byte strings to a value satisfying [Q] and a suffix of the input, or to an error. *)
Definition specP {A} (p : list Z -> dres A) (Q : A -> Prop) : Prop :=
  forall bs, all_bytes bs = true ->
    match p bs with
    | DOk a r => Q a /\ exists pre, bs = pre ++ r
    | DErr e => is_err e
    | DPanic => False
    end.

Lemma all_bytes_app a b : all_bytes (a ++ b) = true <-> all_bytes a = true /\ all_bytes b = true.
Proof. unfold all_bytes. rewrite forallb_app. apply andb_true_iff. Qed.

Lemma specP_ret {A} (x : A) (Q : A -> Prop) : Q x -> specP (fun r => DOk x r) Q.
Proof. intros HQ bs _. split; [exact HQ|]. now exists []. Qed.

Lemma specP_err {A} e (Q : A -> Prop) : is_err e -> specP (fun _ => DErr e) Q.
Proof. intros He bs _. exact He. Qed.

Lemma specP_bind {A B} (p : list Z -> dres A) (k : A -> list Z -> dres B) Q Q' :
  specP p Q -> (forall a, Q a -> specP (k a) Q') -> specP (fun bs => bind (p bs) k) Q'.
Proof.
  intros Hp Hk bs Hb. specialize (Hp bs Hb). destruct (p bs) as [a r|e|]; cbn [bind]; auto.
  destruct Hp as (HQ & pre & ->). apply all_bytes_app in Hb as [_ Hr].
  specialize (Hk a HQ r Hr). destruct (k a r) as [b r'|e|]; auto.
  destruct Hk as (HQ' & pre' & ->). split; [exact HQ'|]. exists (pre ++ pre'). now rewrite app_assoc.
Qed.

Lemma specP_weaken {A} (p : list Z -> dres A) (Q Q' : A -> Prop) :
  specP p Q -> (forall a, Q a -> Q' a) -> specP p Q'.
Proof.
  intros Hp HQ bs Hb. specialize (Hp bs Hb). destruct (p bs); auto. destruct Hp; split; auto.
Qed.

Definition v62 (v : Z) : Prop := 0 <= v < 2 ^ 62.

(** A successful varint read depends only on the bytes it consumed. *)
Lemma get_var_prefix bs v r :
  all_bytes bs = true -> get_var bs = DOk v r ->
  v62 v /\ exists G, bs = G ++ r /\ (1 <= length G <= 8)%nat /\
                     forall x, get_var (G ++ x) = DOk v x.
Proof.
  intros Hb H. unfold get_var in H.
  pose proof (varint_decode_total bs Hb) as HT.
  destruct (Varint.decode bs) as [[v' r']|] eqn:Ed; [|discriminate]. inversion H; subst v' r'.
  destruct HT as (Hv & p & Hp & Hl). split; [exact Hv|].
  destruct bs as [|b0 t]; [discriminate|]. cbn [Varint.decode] in Ed.
  destruct (Nat.ltb (length t) (extra (b0 / 64))) eqn:El; [discriminate|].
  apply Nat.ltb_ge in El. inversion Ed; subst.
  exists (b0 :: firstn (extra (b0 / 64)) t). split; [|split].
  - cbn [app]. now rewrite firstn_skipn.
  - cbn [length]. rewrite firstn_length_le by exact El.
    unfold extra. destruct (b0 / 64 =? 0); [lia|]. destruct (b0 / 64 =? 1); [lia|].
    destruct (b0 / 64 =? 2); lia.
  - intros x. unfold get_var. cbn [app Varint.decode].
    rewrite app_length, firstn_length_le by exact El.
    replace (Nat.ltb (extra (b0 / 64) + length x) (extra (b0 / 64))) with false
      by (symmetry; apply Nat.ltb_ge; lia).
    rewrite firstn_app_exact, skipn_app_exact by (apply firstn_length_le; exact El).
    reflexivity.
Qed.

Lemma get_var_spec : specP get_var v62.
Proof.
  intros bs Hb. destruct (get_var bs) as [v r|e|] eqn:E.
  - destruct (get_var_prefix bs v r Hb E) as (Hv & G & HG & _). split; [exact Hv|]. now exists G.
  - unfold get_var in E. destruct (Varint.decode bs) as [[? ?]|]; inversion E. left; reflexivity.
  - unfold get_var in E. destruct (Varint.decode bs) as [[? ?]|]; inversion E.
Qed.

Lemma get_u8_spec : specP get_u8 (fun _ => True).
Proof.
  intros [|b r] Hb; cbn [get_u8]; [left; reflexivity|]. split; [exact I|]. now exists [b].
Qed.

Lemma get_n_spec n : specP (get_n n) (fun _ => True).
Proof.
  intros bs Hb. unfold get_n. destruct (Nat.ltb (length bs) n); [left; reflexivity|].
  split; [exact I|]. exists (firstn n bs). now rewrite firstn_skipn.
Qed.

Lemma get_u64_spec : specP get_u64 (fun _ => True).
Proof.
  unfold get_u64. eapply specP_bind; [apply get_n_spec|]. intros a _. now apply specP_ret.
Qed.

Lemma take_len_spec : specP take_len (fun _ => True).
Proof.
  unfold take_len. eapply specP_bind; [apply get_var_spec|]. intros len Hlen bs Hb.
  destruct (zlen bs <? len); [left; reflexivity|].
  split; [exact I|]. exists (firstn (Z.to_nat len) bs). now rewrite firstn_skipn.
Qed.

(** * scan_ack_blocks: no overflow in [gap + 2], fuel suffices. *)
Lemma scan_loop_spec fuel : forall n smallest bs,
  (length bs < fuel)%nat -> all_bytes bs = true ->
  match scan_loop fuel n smallest bs with
  | DOk _ r => exists pre, bs = pre ++ r
  | DErr e => is_err e
  | DPanic => False
  end.
Proof.
  induction fuel as [|k IH]; intros n smallest bs Hf Hb; [lia|].
  cbn [scan_loop]. destruct (n <=? 0); [now exists []|].
  destruct (get_var bs) as [gap r1|e|] eqn:Eg; cbn [bind].
  2:{ pose proof (get_var_spec bs Hb) as H. now rewrite Eg in H. }
  2:{ pose proof (get_var_spec bs Hb) as H. now rewrite Eg in H. }
  destruct (get_var_prefix bs gap r1 Hb Eg) as (Hg & G & -> & HlG & _).
  apply all_bytes_app in Hb as [_ Hb1].
  unfold u64_add, U64_MAX. unfold v62 in Hg. destruct (2 ^ 64 - 1 <? gap + 2) eqn:E1; [lia|].
  destruct (u64_sub smallest (gap + 2)); [|right; right; reflexivity].
  destruct (get_var r1) as [block r2|e|] eqn:Eb; cbn [bind].
  2:{ pose proof (get_var_spec r1 Hb1) as H. now rewrite Eb in H. }
  2:{ pose proof (get_var_spec r1 Hb1) as H. now rewrite Eb in H. }
  destruct (get_var_prefix r1 block r2 Hb1 Eb) as (_ & B & -> & HlB & _).
  apply all_bytes_app in Hb1 as [_ Hb2].
  destruct (u64_sub z block); [|right; right; reflexivity].
  rewrite !app_length in Hf.
  specialize (IH (n - 1) z0 r2 ltac:(lia) Hb2).
  destruct (scan_loop k (n - 1) z0 r2); auto.
  destruct IH as (pre & ->). exists (G ++ B ++ pre). now rewrite <- !app_assoc.
Qed.

Lemma scan_ack_blocks_spec largest n :
  specP (fun bs => scan_ack_blocks bs largest n) (fun _ => True).
Proof.
  intros bs Hb. unfold scan_ack_blocks.
  destruct (get_var bs) as [first r1|e|] eqn:Eg; cbn [bind].
  2:{ pose proof (get_var_spec bs Hb) as H. now rewrite Eg in H. }
  2:{ pose proof (get_var_spec bs Hb) as H. now rewrite Eg in H. }
  destruct (get_var_prefix bs first r1 Hb Eg) as (_ & G & -> & _ & _).
  apply all_bytes_app in Hb as [_ Hb1].
  destruct (u64_sub largest first); [|right; right; reflexivity].
  pose proof (scan_loop_spec (S (length r1)) n z r1 ltac:(lia) Hb1) as H.
  destruct (scan_loop (S (length r1)) n z r1); auto.
  destruct H as (pre & ->). split; [exact I|]. exists (G ++ pre). now rewrite <- app_assoc.
Qed.

(** * try_next *)
Ltac spec_step :=
  first
    [ apply specP_ret; exact I
    | apply specP_err; (left; reflexivity) || (right; left; reflexivity) || (right; right; reflexivity)
    | eapply specP_bind;
      [ first [ apply get_var_spec | apply take_len_spec | apply get_u8_spec | apply get_n_spec
              | apply get_u64_spec | apply scan_ack_blocks_spec ]
      | intros ? ? ] ].

Definition anyf (f : frame) : Prop := True.

Lemma ack_tail_spec ty largest delay additional :
  specP (fun r4 =>
           if ty =? 3 then
             bind (get_var r4) (fun e0 r5 =>
             bind (get_var r5) (fun e1 r6 =>
             bind (get_var r6) (fun ce r7 =>
               DOk (Ack largest delay additional (Some (e0, e1, ce))) r7)))
           else DOk (Ack largest delay additional None) r4) anyf.
Proof. unfold anyf. destruct (ty =? 3); repeat spec_step. Qed.

Lemma frame_body_spec ty : specP (frame_body ty) anyf.
Proof.
  unfold frame_body, anyf.
  repeat match goal with
         | |- specP (fun r => if ?c then @?a r else @?b r) _ => destruct c
         end;
    try (apply specP_ret; exact I);
    try (apply specP_err; right; left; reflexivity).
  - unfold body_ack. do 3 spec_step.
    intros bs Hb. cbv beta.
    pose proof (scan_ack_blocks_spec a a1 bs Hb) as Hs. cbv beta in Hs.
    destruct (scan_ack_blocks bs a a1) as [u r4|e|]; cbn [bind]; auto.
    destruct Hs as (_ & pre & Hpre).
    assert (Hb4 : all_bytes r4 = true) by (rewrite Hpre in Hb; now apply all_bytes_app in Hb).
    pose proof (ack_tail_spec ty a a0 (firstn (length bs - length r4) bs) r4 Hb4) as Ht.
    cbv beta zeta in *.
    match type of Ht with match ?x with _ => _ end =>
      match goal with |- match ?y with _ => _ end => change y with x; destruct x; auto end end.
    destruct Ht as (_ & pre' & ->). split; [exact I|]. exists (pre ++ pre').
    now rewrite <- app_assoc.
  - unfold body_reset. repeat spec_step.
  - unfold body_stop. repeat spec_step.
  - unfold body_crypto. repeat spec_step.
  - unfold body_new_token. repeat spec_step.
  - unfold body_stream. spec_step.
    eapply specP_bind with (Q := fun _ => True).
    { destruct (bit ty 4); [eapply specP_weaken; [apply get_var_spec|auto]|now apply specP_ret]. }
    intros off _.
    eapply specP_bind with (Q := fun _ => True).
    { destruct (bit ty 2); [apply take_len_spec|]. intros bs _. split; [exact I|]. exists bs.
      now rewrite app_nil_r. }
    intros d _. now apply specP_ret.
  - unfold body_var1. repeat spec_step.
  - unfold body_var2. repeat spec_step.
  - unfold body_var1. repeat spec_step.
  - unfold body_var1. repeat spec_step.
  - unfold body_var1. repeat spec_step.
  - unfold body_var2. repeat spec_step.
  - unfold body_var1. repeat spec_step.
  - unfold body_var1. repeat spec_step.
  - unfold body_new_cid. do 2 spec_step.
    destruct (a <? a0); [apply specP_err; right; right; reflexivity|].
    spec_step. destruct ((MAX_CID_SIZE <? a1) || (a1 =? 0));
      [apply specP_err; right; right; reflexivity|].
    repeat spec_step.
  - unfold body_var1. repeat spec_step.
  - unfold body_u64. repeat spec_step.
  - unfold body_u64. repeat spec_step.
  - unfold body_close_conn. repeat spec_step.
  - unfold body_close_app. repeat spec_step.
  - unfold body_datagram.
    eapply specP_bind with (Q := fun _ => True).
    { destruct (bit ty 1); [apply take_len_spec|]. intros bs _. split; [exact I|]. exists bs.
      now rewrite app_nil_r. }
    intros d _. now apply specP_ret.
  - unfold body_ack_freq. repeat spec_step.
Qed.

(** Value or error, never a panic; a success leaves a strict suffix of the input. *)
Lemma try_next_total bs :
  all_bytes bs = true ->
  match try_next bs with
  | DOk f r => exists pre, bs = pre ++ r /\ (1 <= length pre)%nat
  | DErr e => is_err e
  | DPanic => False
  end.
Proof.
  intros Hb. unfold try_next.
  destruct (get_var bs) as [ty r1|e|] eqn:Eg; cbn [bind].
  2:{ pose proof (get_var_spec bs Hb) as H. now rewrite Eg in H. }
  2:{ pose proof (get_var_spec bs Hb) as H. now rewrite Eg in H. }
  destruct (get_var_prefix bs ty r1 Hb Eg) as (_ & G & -> & HlG & _).
  apply all_bytes_app in Hb as [_ Hb1].
  pose proof (frame_body_spec ty r1 Hb1) as H.
  destruct (frame_body ty r1); auto.
  destruct H as (_ & pre & ->). exists (G ++ pre). rewrite <- app_assoc. split; [reflexivity|].
  rewrite app_length. lia.
Qed.
