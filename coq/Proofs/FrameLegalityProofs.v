(** Proofs about Model/FrameLegality.v: the finite frame x space x side table. *)
From QV Require Import Lib.Tac Model.FrameLegality.
Import FrameLegality.
Open Scope Z_scope.

Lemma all_frames_complete f : In f all_frames.
Proof. destruct f; cbn; tauto. Qed.
Lemma all_spaces_complete s : In s all_spaces.
Proof. destruct s; cbn; tauto. Qed.
Lemma all_sides_complete s : In s all_sides.
Proof. destruct s; cbn; tauto. Qed.

Lemma table_ok_true : table_ok = true.
Proof. vm_compute. reflexivity. Qed.

Lemma row_ok_all f sp sd : row_ok f sp sd = true.
Proof.
  pose proof table_ok_true as H. unfold table_ok in H.
  rewrite forallb_forall in H. specialize (H f (all_frames_complete f)).
  rewrite forallb_forall in H. specialize (H sp (all_spaces_complete sp)).
  rewrite forallb_forall in H. exact (H sd (all_sides_complete sd)).
Qed.

(** For every frame kind, packet space and receiving side: a placement the RFCs forbid is
    answered with PROTOCOL_VIOLATION, except the listed lenient placements (dispatched to the
    ordinary handler or draining); a permitted placement is dispatched (or drains, for close
    frames), except APPLICATION_CLOSE in 0-RTT which is answered with PROTOCOL_VIOLATION; no
    placement has any other outcome. *)
Lemma violation_class_table_lemma : forall f sp sd,
  match legal f sp sd with
  | Unreachable => sp = ZeroRtt /\ sd = Client
  | o =>
      (rfc_permits f sp sd = false ->
         o = Err PROTOCOL_VIOLATION \/ (lenient f sp sd = true /\ (o = Dispatch \/ o = Drain))) /\
      (rfc_permits f sp sd = true ->
         (o = Dispatch \/ o = Drain) \/ (stricter f sp sd = true /\ o = Err PROTOCOL_VIOLATION))
  end.
Proof.
  intros f sp sd. destruct f, sp, sd; vm_compute; try (split; reflexivity);
    (split; intros H; try discriminate H; tauto).
Qed.

Lemma table_length : length table = 192%nat.
Proof. vm_compute. reflexivity. Qed.
