(** C18 — facts about single steps and concrete witnesses (no run-invariant needed). *)
From QV Require Import Lib.Tac Model.AsyncConn Proofs.AsyncConnInv Proofs.AsyncConnLemmas.
From Coq Require Import Arith.

(** ** After a close no poll pends, and polls report the error (buffered items first) *)
Lemma release_closed : forall s t, closed (release s t) = closed s.
Proof.
  intros s t. unfold release. destruct (pend s t) as [o|]; [|reflexivity].
  destruct o; cbn [notify_of]; unfold closed; cbn_st; reflexivity.
Qed.

Lemma try_op_closed_some : forall s o n, closed s = true -> try_op s o n <> None.
Proof.
  intros s o n Hc. destruct o; cbn [try_op]; rewrite ?Hc;
    repeat match goal with |- context [match ?x with _ => _ end] => destruct x end; discriminate.
Qed.

Theorem closed_poll_never_pends : forall s t o n, closed s = true -> snd (app_poll s t o n) <> Pending.
Proof.
  intros s t o n Hc. unfold app_poll. destruct (poll_ok s t o n); cbn [negb]; [|discriminate].
  set (s1 := set_runnable _ _).
  assert (H1 : closed s1 = true).
  { subst s1. unfold closed. cbn_st. fold (closed (release s t)). rewrite release_closed. exact Hc. }
  destruct (try_op s1 o n) as [[s' r]|] eqn:E; [discriminate|].
  exfalso. eapply try_op_closed_some; eauto.
Qed.

(** the operations that check [error] FIRST fail; [closed()] succeeds; the others deliver what
    is buffered and fail otherwise *)
Theorem closed_poll_errors : forall s t o n r,
  closed s = true -> snd (app_poll s t o n) = Ready r ->
  match o with
  | OWrite _ | OOpen _ | OSendDgram | OAuth | OHsConf => r = RErr
  | OClosed => r = ROk
  | OConnect => r = ROk \/ r = RErr
  | OAccept _ => (exists k, r = RStream k) \/ r = RErr
  | ORead _ => (exists l, r = RData l) \/ r = REnd \/ r = RErr
  | OStopped _ => r = ROk \/ r = RErr
  | ORecvDgram => (exists d, r = RDgram d) \/ r = RErr
  end.
Proof.
  intros s t o n r Hc. unfold app_poll. destruct (poll_ok s t o n); cbn [negb]; [|discriminate].
  set (s1 := set_runnable _ _).
  assert (H1 : closed s1 = true).
  { subst s1. unfold closed. cbn_st. fold (closed (release s t)). rewrite release_closed. exact Hc. }
  destruct (try_op s1 o n) as [[s' r']|] eqn:E; cbn [snd]; [|discriminate].
  intros Hr. inversion Hr; subst r'. clear Hr.
  destruct o; cbn [try_op] in E; rewrite ?H1 in E;
    repeat match type of E with context [match ?x with _ => _ end] => destruct x end;
    inversion E; subst; eauto.
Qed.

(** the error is never cleared *)
Lemma closed_set_tasks : forall s p r rb wb, closed (set_tasks s p r rb wb) = closed s.
Proof. reflexivity. Qed.

Lemma drv_event_err : forall s e,
  err (drv_event s e) = match e with PLost c => Some c | _ => err s end.
Proof.
  intros s e. destruct e; cbn [drv_event];
    repeat match goal with |- context [if ?b then _ else _] => destruct b end;
    try match goal with o : op |- _ => destruct o; cbn [notify_of] end;
    sim; reflexivity.
Qed.

Lemma drv_event_closed : forall s e, closed s = true -> closed (drv_event s e) = true.
Proof.
  intros s e Hc. unfold closed in *. rewrite drv_event_err. destruct e; auto.
Qed.

Lemma drv_events_closed : forall evs s, closed s = true -> closed (fold_left drv_event evs s) = true.
Proof. induction evs; cbn; intros; auto using drv_event_closed. Qed.

Lemma closed_need_driver : forall s, closed (need_driver s) = closed s.
Proof. intros s. sim. destruct (drv_waker s); reflexivity. Qed.
Lemma closed_terminate : forall s c, closed (terminate s c) = true.
Proof. intros. sim. reflexivity. Qed.
Lemma closed_close_conn : forall s, closed (close_conn s) = true.
Proof. intros. unfold close_conn. rewrite closed_need_driver. apply closed_terminate. Qed.
Lemma closed_drop_ref : forall s h, closed s = true -> closed (drop_ref s h) = true.
Proof.
  intros s h Hc. unfold drop_ref. cbn_st.
  destruct (Z.ltb 1 (refcnt s)); [exact Hc|]. destruct (inner_closed s); [exact Hc|].
  apply closed_close_conn.
Qed.

Lemma try_op_closed : forall s o n s' r, closed s = true -> try_op s o n = Some (s', r) -> closed s' = true.
Proof.
  intros s o n s' r Hc E.
  destruct o; cbn [try_op] in E; rewrite ?Hc in E;
    repeat match type of E with context [match ?x with _ => _ end] => destruct x end;
    inversion E; subst; rewrite ?closed_need_driver; unfold closed in *; sim; auto.
Qed.

Lemma register_closed : forall s t o, closed (register s t o) = closed s.
Proof.
  intros s t o. unfold register. destruct o; cbn [notify_of]; unfold closed; cbn_st;
    try destruct (memb (skeys s) _); cbn_st; reflexivity.
Qed.

Theorem closed_is_stable : forall s l, closed s = true -> closed (step' s l) = true.
Proof.
  intros s l Hc. destruct l as [t o n|t|evs| |k|k|k| | |k|k]; unfold step', step; cbn [fst].
  - unfold app_poll. destruct (poll_ok s t o n); cbn [negb fst]; [|exact Hc].
    set (s1 := set_runnable _ _).
    assert (H1 : closed s1 = true).
    { subst s1. unfold closed. cbn_st. fold (closed (release s t)). rewrite release_closed. exact Hc. }
    destruct (try_op s1 o n) as [[s' r]|] eqn:E; cbn [fst].
    + eapply try_op_closed; eauto.
    + rewrite register_closed. exact H1.
  - rewrite release_closed. exact Hc.
  - unfold drv_poll. destruct (driver_alive s); cbn [negb]; [|exact Hc].
    set (s2 := fold_left _ _ _).
    assert (H2 : closed s2 = true) by (apply drv_events_closed; exact Hc).
    destruct (drained s2); [apply closed_drop_ref|]; exact H2.
  - destruct (Z.ltb 0 (nhandles s)); auto using closed_close_conn.
  - destruct (recv_h s k); [|exact Hc]. destruct (rborrow s k); [exact Hc|]. cbn [fst].
    rewrite closed_need_driver. exact Hc.
  - destruct (send_h s k); [|exact Hc]. destruct (wborrow s k); [exact Hc|]. cbn [fst].
    rewrite closed_need_driver. exact Hc.
  - destruct (send_h s k); [|exact Hc]. destruct (wborrow s k); [exact Hc|]. cbn [fst].
    rewrite closed_need_driver. exact Hc.
  - destruct (Z.ltb 0 (nhandles s)); exact Hc.
  - destruct (Z.ltb 0 (nhandles s)); auto using closed_drop_ref.
  - destruct (recv_h s k); [|exact Hc]. destruct (rborrow s k); [exact Hc|]. cbn [fst].
    apply closed_drop_ref. cbn_st. destruct (all_read s k); [exact Hc|].
    unfold closed in *. cbn_st. rewrite Hc. exact Hc.
  - destruct (send_h s k); [|exact Hc]. destruct (wborrow s k); [exact Hc|]. cbn [fst].
    apply closed_drop_ref. cbn_st. unfold closed in *. cbn_st. rewrite Hc. exact Hc.
Qed.

(** ** Cancellation: dropping a pending future touches nothing but the task's own registration *)
Theorem drop_changes_no_protocol_state : forall s t, proto_eq (step' s (AppDrop t)) s.
Proof.
  intros s t. unfold step', step; cbn [fst]. unfold release.
  destruct (pend s t) as [o|]; [|unfold proto_eq; repeat split; reflexivity].
  destruct o; cbn [notify_of]; unfold proto_eq; cbn_st; repeat split; reflexivity.
Qed.

(** the stale waker a dropped read / write future leaves behind is cleared with the handle *)
Theorem stale_waker_cleared_by_handle_drop : forall s k,
  rborrow s k = None -> recv_h s k = true -> all_read s k = false ->
  aget (br (step' s (HDropRecv k))) k = None.
Proof.
  intros s k Hb Hh Ha. unfold step', step. rewrite Hh, Hb. cbn [fst]. cbn_st. rewrite Ha.
  unfold closed. cbn_st.
  assert (E : forall s0, aget (br s0) k = None -> aget (br (drop_ref s0 true)) k = None).
  { intros s0 H0. unfold drop_ref. cbn_st. destruct (Z.ltb 1 (refcnt s0)); [exact H0|].
    destruct (inner_closed s0); [exact H0|]. sim. reflexivity. }
  apply E. destruct (err s); [|rewrite need_driver_nf]; cbn_st; rewrite aget_arem, Nat.eqb_refl; reflexivity.
Qed.

Theorem stale_writer_waker_cleared_by_handle_drop : forall s k,
  wborrow s k = None -> send_h s k = true ->
  aget (bw (step' s (HDropSend k))) k = None.
Proof.
  intros s k Hb Hh. unfold step', step. rewrite Hh, Hb. cbn [fst]. cbn_st.
  unfold closed. cbn_st.
  assert (E : forall s0, aget (bw s0) k = None -> aget (bw (drop_ref s0 true)) k = None).
  { intros s0 H0. unfold drop_ref. cbn_st. destruct (Z.ltb 1 (refcnt s0)); [exact H0|].
    destruct (inner_closed s0); [exact H0|]. sim. reflexivity. }
  apply E. destruct (err s); [|rewrite need_driver_nf]; cbn_st; rewrite aget_arem, Nat.eqb_refl; reflexivity.
Qed.

(** ** Implicit stop / finish on handle drop *)
Lemma rx_end_drop_ref : forall s h k, rx_end (drop_ref s h) k = rx_end s k.
Proof.
  intros. unfold drop_ref. cbn_st. destruct (Z.ltb 1 (refcnt s)); [reflexivity|].
  destruct (inner_closed s); [reflexivity|]. sim. reflexivity.
Qed.
Lemma w_end_drop_ref : forall s h k, w_end (drop_ref s h) k = w_end s k.
Proof.
  intros. unfold drop_ref. cbn_st. destruct (Z.ltb 1 (refcnt s)); [reflexivity|].
  destruct (inner_closed s); [reflexivity|]. sim. reflexivity.
Qed.

Theorem recv_drop_stops : forall s k,
  recv_h s k = true -> rborrow s k = None -> all_read s k = false -> closed s = false ->
  rx_end (step' s (HDropRecv k)) k = true /\ rx (step' s (HDropRecv k)) k = [] \/ closed (step' s (HDropRecv k)) = true.
Proof.
  intros s k Hh Hb Ha Hc. left. unfold step', step. rewrite Hh, Hb. cbn [fst]. cbn_st. rewrite Ha.
  unfold closed in *. cbn_st. destruct (err s); [discriminate|].
  rewrite rx_end_drop_ref. rewrite need_driver_nf. cbn_st. unfold upd. rewrite Nat.eqb_refl. split; [reflexivity|].
  unfold drop_ref. cbn_st. destruct (Z.ltb 1 (refcnt s)); cbn_st; [unfold upd; rewrite Nat.eqb_refl; reflexivity|].
  destruct (inner_closed s); sim; unfold upd; rewrite Nat.eqb_refl; reflexivity.
Qed.

Theorem send_drop_finishes : forall s k,
  send_h s k = true -> wborrow s k = None -> closed s = false ->
  w_end (step' s (HDropSend k)) k = true.
Proof.
  intros s k Hh Hb Hc. unfold step', step. rewrite Hh, Hb. cbn [fst]. cbn_st.
  unfold closed in *. cbn_st. destruct (err s); [discriminate|].
  rewrite w_end_drop_ref. rewrite need_driver_nf. cbn_st. unfold upd. rewrite Nat.eqb_refl. reflexivity.
Qed.

(** ** Driver termination and the endpoint's bookkeeping *)
Theorem driver_exits_when_drained : forall s evs,
  driver_alive s = true ->
  drained (fold_left drv_event evs (set_drv s true false false (drv_work s))) = true ->
  driver_alive (drv_poll s evs) = false.
Proof.
  intros s evs Ha Hd. unfold drv_poll. rewrite Ha. cbn [negb]. rewrite Hd.
  set (s2 := fold_left drv_event evs _).
  unfold drop_ref. cbn_st.
  destruct (Z.ltb 1 (refcnt s2)); cbn_st; [reflexivity|]. destruct (inner_closed s2); cbn_st; [reflexivity|].
  sim. reflexivity.
Qed.

Theorem drained_releases_endpoint_entry : forall s,
  closed s = true -> ep_entry (drv_event s PDrained) = false /\ drained (drv_event s PDrained) = true.
Proof. intros s Hc. cbn [drv_event]. rewrite Hc. cbn_st. auto. Qed.

(** ** Witnesses (vm_compute on the executable model) *)
Open Scope Z_scope.

(** KNOWN CLASS stopped-after-reset: a [stopped()] future pending while the local [reset()] is
    acknowledged: its condition holds, nobody wakes it *)
Definition reset_ack_trace : list label :=
  [DrvPoll [PConnected; PAvailable false 1%nat]; AppPoll 0 (OOpen false) 5; AppReset 5;
   AppPoll 1 (OStopped 5) 0; DrvPoll [PResetAcked 5]].
Theorem no_lost_wakeup_refuted : exists ls t o,
  pend (run ls) t = Some o /\ cond (run ls) o = true /\ runnable (run ls) t = false.
Proof. exists reset_ack_trace, 1%nat, (OStopped 5). vm_compute. auto. Qed.

(** the same trace with a fresh [stopped()] instead: it completes at once *)
Example fresh_stopped_after_reset_ack_completes :
  snd (step (run reset_ack_trace) (AppPoll 2 (OStopped 5) 0)) = Ready ROk.
Proof. vm_compute. reflexivity. Qed.

(** the [Read] future has no [Drop]: a cancelled read leaves its waker in [blocked_readers] *)
Definition stale_trace : list label :=
  [DrvPoll [PConnected; POpened false 3 [] false]; AppPoll 0 (OAccept false) 0;
   AppPoll 1 (ORead 3) 10; AppDrop 1].
Theorem drop_leaves_stale_stream_waker_witness : exists ls t k,
  pend (run ls) t = None /\ aget (br (run ls)) k = Some t.
Proof. exists stale_trace, 1%nat, 3%nat. vm_compute. auto. Qed.

(** ... which causes at most a spurious wake-up and loses nothing: another task reads everything *)
Example stale_waker_is_only_spurious :
  let s := run (stale_trace ++ [DrvPoll [PData 3 [7; 8; 9] true]]) in
  runnable s 1 = true /\ pend s 1 = None /\ aget (br s) 3 = None /\
  snd (step s (AppPoll 2 (ORead 3) 10)) = Ready (RData [7; 8; 9]) /\
  let s' := step' s (AppPoll 2 (ORead 3) 10) in
  delivered s' 3 = arrived s' 3 /\ snd (step s' (AppPoll 2 (ORead 3) 10)) = Ready REnd.
Proof. vm_compute. repeat split; reflexivity. Qed.

(** [ref_count] is off by one once the driver has exited: 0 with a live handle *)
Theorem refcount_zero_with_live_handle_witness : exists ls,
  refcnt (run ls) = 0 /\ nhandles (run ls) = 1 /\ driver_alive (run ls) = false.
Proof.
  exists [HClone; DrvPoll [PLost 3; PDrained]; HDropConn]. vm_compute. auto.
Qed.

(** why [&mut self] on the stream handles is load-bearing: one waker slot per stream *)
Example two_readers_one_waker_slot :
  let s0 := run [DrvPoll [POpened false 3 [] false]; AppPoll 0 (OAccept false) 0] in
  let s2 := drv_event (register (register s0 1 (ORead 3)) 2 (ORead 3)) (PData 3 [7] false) in
  pend s2 1 = Some (ORead 3) /\ cond s2 (ORead 3) = true /\ runnable s2 1 = false.
Proof. vm_compute. auto. Qed.

(** non-vacuity: a reader blocks, data arrives, it is runnable and reads exactly the data *)
Example reader_blocks_then_reads :
  let s := run [DrvPoll [PConnected; POpened true 4 [] false]; AppPoll 0 (OAccept true) 0;
                AppPoll 1 (ORead 4) 100] in
  pend s 1 = Some (ORead 4) /\ runnable s 1 = false /\ cond s (ORead 4) = false /\
  aget (br s) 4 = Some 1%nat /\
  let s' := step' s (DrvPoll [PData 4 [1; 2; 3] false]) in
  runnable s' 1 = true /\ cond s' (ORead 4) = true /\
  snd (step s' (AppPoll 1 (ORead 4) 100)) = Ready (RData [1; 2; 3]).
Proof. vm_compute. repeat split; reflexivity. Qed.

(** non-vacuity: close wakes tasks blocked on three different primitives; later polls fail *)
Example close_wakes_three :
  let s := run [DrvPoll [PConnected; POpened true 4 [] false]; AppPoll 0 (OAccept true) 0;
                AppPoll 1 (ORead 4) 100; AppPoll 2 (OWrite 4) 10; AppPoll 3 ORecvDgram 0;
                AppPoll 4 (OStopped 4) 0; AppPoll 5 OClosed 0] in
  (runnable s 1 || runnable s 2 || runnable s 3 || runnable s 4 || runnable s 5) = false /\
  let s' := step' s AppClose in
  (runnable s' 1 && runnable s' 2 && runnable s' 3 && runnable s' 4 && runnable s' 5) = true /\
  snd (step s' (AppPoll 1 (ORead 4) 100)) = Ready RErr /\
  snd (step s' (AppPoll 2 (OWrite 4) 10)) = Ready RErr /\
  snd (step s' (AppPoll 5 OClosed 0)) = Ready ROk.
Proof. vm_compute. repeat split; reflexivity. Qed.

(** non-vacuity: teardown — last handle dropped, implicit close, drained, driver exits *)
Example teardown_trace :
  let s := run [DrvPoll [PConnected]; HClone; HDropConn; HDropConn] in
  closed s = true /\ inner_closed s = true /\ drv_runnable s = true /\
  let s' := step' s (DrvPoll [PDrained]) in
  driver_alive s' = false /\ ep_entry s' = false /\ refcnt s' = (-1) /\ nhandles s' = 0.
Proof. vm_compute. repeat split; reflexivity. Qed.
