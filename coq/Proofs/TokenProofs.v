(** Proofs about Model/Token.v: token payload round trip under an abstract AEAD. *)
From QV Require Import Lib.Tac Lib.Bytes Lib.Corr Model.Token Proofs.BytesProofs.
Open Scope Z_scope.

Lemma take_app a b : take (length a) (a ++ b) = Some (a, b).
Proof.
  unfold take. rewrite app_length.
  replace (Nat.ltb (length a + length b) (length a)) with false
    by (symmetry; apply Nat.ltb_ge; lia).
  now rewrite firstn_app_exact, skipn_app_exact.
Qed.

Lemma take_app_n n a b : length a = n -> take n (a ++ b) = Some (a, b).
Proof. intros <-. apply take_app. Qed.

Ltac wf_hyps :=
  repeat match goal with
         | H : _ && _ = true |- _ => apply andb_true_iff in H; destruct H
         end.

Lemma dec_ip_enc ip r : wf_ip ip = true -> dec_ip (enc_ip ip ++ r) = Some (ip, r).
Proof.
  intros H. destruct ip as [b|b]; cbn [wf_ip enc_ip app dec_ip] in *;
    apply andb_true_iff in H as [Hl _]; apply Nat.eqb_eq in Hl;
    rewrite (take_app_n _ b r Hl); reflexivity.
Qed.

Lemma dec_u_be n v r : 0 <= v < 256 ^ Z.of_nat n -> dec_u n (be_bytes n v ++ r) = Some (v, r).
Proof.
  intros Hv. unfold dec_u. rewrite (take_app_n n) by apply be_bytes_length.
  rewrite be_val_be_bytes. rewrite Z.mod_small by lia. do 2 f_equal; lia.
Qed.

Lemma dec_cid_enc c r : zlen c <= MAX_CID -> dec_cid (zlen c :: c ++ r) = Some (c, r).
Proof.
  intros Hc. cbn [dec_cid]. destruct (MAX_CID <? zlen c) eqn:E; [lia|].
  unfold zlen. rewrite Nat2Z.id. apply take_app.
Qed.

Lemma payload_roundtrip p : wf_payload p = true -> dec_payload (enc_payload p) = Some (Some p).
Proof.
  intros Hwf. destruct p as [ip port cid secs|ip secs]; cbn [wf_payload enc_payload] in *; wf_hyps.
  - cbn [app dec_payload]. rewrite <- ?app_assoc.
    rewrite dec_ip_enc by assumption.
    rewrite dec_u_be by (change (256 ^ Z.of_nat 2) with (2 ^ 16); lia).
    rewrite dec_cid_enc by lia.
    rewrite <- (app_nil_r (be_bytes 8 secs)).
    rewrite dec_u_be by (change (256 ^ Z.of_nat 8) with (2 ^ 64); unfold I64_MAX in *; lia).
    destruct (I64_MAX <? secs) eqn:E; [lia|]. reflexivity.
  - cbn [app dec_payload]. rewrite <- (app_nil_r (be_bytes 8 secs)). rewrite <- ?app_assoc.
    rewrite dec_ip_enc by assumption.
    rewrite dec_u_be by (change (256 ^ Z.of_nat 8) with (2 ^ 64); unfold I64_MAX in *; lia).
    destruct (I64_MAX <? secs) eqn:E; [lia|]. reflexivity.
Qed.

Section Roundtrip.
Variable seal : list Z -> list Z -> list Z.
Variable open : list Z -> list Z -> option (list Z).
(** The only property of the AEAD that the codec relies on. *)
Hypothesis open_seal : forall n x, open n (seal n x) = Some x.

Theorem token_roundtrip t :
  wf_token t = true -> decode open (encode seal t) = Some (Some t).
Proof.
  intros Hwf. unfold wf_token in Hwf. wf_hyps.
  match goal with H : Nat.eqb _ _ = true |- _ => apply Nat.eqb_eq in H; rename H into Hn end.
  unfold decode, encode. rewrite app_length, Hn.
  replace (Nat.ltb (length (seal (nonce t) (enc_payload (body t))) + 16) 16) with false
    by (symmetry; apply Nat.ltb_ge; lia).
  replace (length (seal (nonce t) (enc_payload (body t))) + 16 - 16)%nat
    with (length (seal (nonce t) (enc_payload (body t)))) by lia.
  rewrite firstn_app_exact, skipn_app_exact by reflexivity.
  rewrite open_seal, payload_roundtrip by assumption.
  destruct t; reflexivity.
Qed.
End Roundtrip.

(** The toy AEAD used for the correspondence satisfies the hypothesis. *)
Lemma lz_eqb_refl l : lz_eqb l l = true.
Proof. now apply lz_eqb_eq. Qed.

Lemma toy_open_seal n x : toy_open n (toy_seal n x) = Some x.
Proof.
  unfold toy_open, toy_seal. rewrite app_length, rev_length.
  replace (Nat.ltb (length x + length n) (length n)) with false
    by (symmetry; apply Nat.ltb_ge; lia).
  replace (length x + length n - length n)%nat with (length x) by lia.
  rewrite skipn_app_exact, firstn_app_exact by reflexivity. now rewrite lz_eqb_refl.
Qed.
