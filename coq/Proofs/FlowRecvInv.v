(** The receive-accounting invariant of Model/FlowRecv.v and its preservation by every op (C06). *)
From QV Require Import Lib.Tac Lib.Corr Model.FlowRecv Proofs.FlowRecvProofs Proofs.AsmInv.
Open Scope Z_scope.

Definition slot_end (t : rslot) : Z := match t with SOpen r => eff_end r | _ => 0 end.
Fixpoint sum_ends (m : list (Z * rslot)) : Z :=
  match m with [] => 0 | (_, t) :: r => slot_end t + sum_ends r end.

Definition recv_ok (r : recv) : Prop :=
  0 <= r_end r /\ asm_ok (r_asm r) (r_end r) /\
  match r_state r with
  | RRecv None => r_end r <= r_sent_msd r
  | RRecv (Some f) => r_end r <= f /\ f <= r_sent_msd r
  | RReset f _ => r_end r <= f /\ f <= r_sent_msd r
  end.
Definition slot_ok (t : rslot) : Prop := match t with SOpen r => recv_ok r | _ => True end.
Definition slots_ok (m : list (Z * rslot)) : Prop := Forall (fun p => slot_ok (snd p)) m.

Record Inv (s : st) : Prop := mkInv {
  i_lmax : local_max s <= U64MAX;
  i_recvd : data_recvd s <= local_max s;
  i_sum : data_recvd s = g_closed s + sum_ends (recvm s);
  i_slots : slots_ok (recvm s);
  i_swin : 0 <= swin s }.

(** ** Association-list lemmas (first-occurrence semantics) *)
Lemma sum_aset_some k t t' m :
  alookup k m = Some t -> sum_ends (aset k t' m) = sum_ends m - slot_end t + slot_end t'.
Proof.
  induction m as [|[k' v] r IH]; cbn [alookup aset sum_ends]; [discriminate|].
  destruct (k =? k') eqn:E; intro H.
  - inversion H; subst. cbn [sum_ends]. lia.
  - cbn [sum_ends]. rewrite (IH H). lia.
Qed.
Lemma sum_aset_none k t' m :
  alookup k m = None -> sum_ends (aset k t' m) = sum_ends m + slot_end t'.
Proof.
  induction m as [|[k' v] r IH]; cbn [alookup aset sum_ends]; [lia|].
  destruct (k =? k') eqn:E; intro H; [discriminate|]. cbn [sum_ends]. rewrite (IH H). lia.
Qed.
Lemma sum_aremove k t m :
  alookup k m = Some t -> sum_ends (aremove k m) = sum_ends m - slot_end t.
Proof.
  induction m as [|[k' v] r IH]; cbn [alookup aremove sum_ends]; [discriminate|].
  destruct (k =? k') eqn:E; intro H.
  - inversion H; subst. lia.
  - cbn [sum_ends]. rewrite (IH H). lia.
Qed.
Lemma ok_aset k t' m : slots_ok m -> slot_ok t' -> slots_ok (aset k t' m).
Proof.
  unfold slots_ok. induction m as [|[k' v] r IH]; cbn [aset]; intros H Ht.
  - constructor; [exact Ht|constructor].
  - inversion H; subst. destruct (k =? k').
    + constructor; assumption.
    + constructor; [assumption|apply IH; assumption].
Qed.
Lemma ok_aremove k m : slots_ok m -> slots_ok (aremove k m).
Proof.
  unfold slots_ok. induction m as [|[k' v] r IH]; cbn [aremove]; intros H; [constructor|].
  inversion H; subst. destruct (k =? k'); [assumption|constructor; [assumption|apply IH; assumption]].
Qed.
Lemma ok_lookup k t m : slots_ok m -> alookup k m = Some t -> slot_ok t.
Proof.
  unfold slots_ok. induction m as [|[k' v] r IH]; cbn [alookup]; intros H L; [discriminate|].
  inversion H; subst. destruct (k =? k'); [inversion L; subst; assumption|apply IH; assumption].
Qed.
Lemma amem_false k (m : list (Z * rslot)) : amem k m = false -> alookup k m = None.
Proof. unfold amem. destruct (alookup k m); [discriminate|reflexivity]. Qed.

Lemma recv_new_ok w : 0 <= w -> recv_ok (recv_new w).
Proof.
  intro H. unfold recv_ok, recv_new; cbn [r_end r_asm r_state r_sent_msd].
  split; [lia|]. split; [apply asm_new_ok; lia|lia].
Qed.

Lemma view_ok s t : 0 <= swin s -> slot_ok t -> recv_ok (rview s t).
Proof. intros Hw H. destruct t; cbn [rview]; try (apply recv_new_ok; assumption). exact H. Qed.
Lemma view_end s t : slot_end (SOpen (rview s t)) = slot_end t.
Proof. destruct t; reflexivity. Qed.

(** ** Functions that do not touch the accounting *)
Definition same (s s' : st) : Prop :=
  data_recvd s' = data_recvd s /\ local_max s' = local_max s /\ g_closed s' = g_closed s /\
  swin s' = swin s /\ sum_ends (recvm s') = sum_ends (recvm s) /\
  (slots_ok (recvm s) -> slots_ok (recvm s')).

Lemma same_refl s : same s s.
Proof. unfold same; repeat split; auto. Qed.
Lemma same_trans a b c : same a b -> same b c -> same a c.
Proof.
  unfold same. intros (A1 & A2 & A3 & A4 & A5 & A6) (B1 & B2 & B3 & B4 & B5 & B6).
  repeat split; try congruence. intro H. auto.
Qed.
Lemma Inv_same s s' : Inv s -> same s s' -> Inv s'.
Proof.
  intros [I1 I2 I3 I4 I5] (A1 & A2 & A3 & A4 & A5 & A6).
  constructor.
  - rewrite A2. assumption.
  - rewrite A1, A2. assumption.
  - rewrite A1, A3, A5. assumption.
  - auto.
  - rewrite A4. assumption.
Qed.

Ltac same_fields := unfold same; prj; repeat split; auto.

Lemma add_idle_same id t s :
  alookup id (recvm s) = None -> slot_end t = 0 -> slot_ok t ->
  same s (set_recvm (aset id t (recvm s)) s).
Proof.
  intros L E K. unfold same; prj.
  split; [reflexivity|]. split; [reflexivity|]. split; [reflexivity|]. split; [reflexivity|].
  split.
  - rewrite (sum_aset_none _ _ _ L). lia.
  - intro H. apply ok_aset; assumption.
Qed.

Lemma insert_stream_same remote id s : same s (insert_stream remote id s).
Proof.
  unfold insert_stream.
  set (s1 := if (sid_dir id =? 0) || negb remote
             then if amem id (sendm s) then set_panic true s
                  else set_sendm (aset id TNone (sendm s)) s
             else s).
  assert (H1 : same s s1).
  { subst s1. destruct ((sid_dir id =? 0) || negb remote); [|apply same_refl].
    destruct (amem id (sendm s)); same_fields. }
  apply (same_trans _ s1); [exact H1|].
  destruct ((sid_dir id =? 0) || remote); [|apply same_refl].
  destruct (amem id (recvm s1)) eqn:M; [same_fields|].
  apply amem_false in M.
  destruct (0 <? free_recv s1).
  - eapply same_trans; [apply (add_idle_same id SFree s1 M); [reflexivity|exact I]|].
    same_fields.
  - apply (add_idle_same id SNone s1 M); [reflexivity|exact I].
Qed.

Lemma insert_remote_range_same n d from s : same s (insert_remote_range n d from s).
Proof.
  revert from s. induction n as [|n IH]; intros from s; cbn [insert_remote_range];
    [apply same_refl|].
  eapply same_trans; [apply insert_stream_same|apply IH].
Qed.

Lemma ensure_same d s : same s (ensure_remote_streams d s).
Proof.
  unfold ensure_remote_streams.
  set (s1 := insert_remote_range _ _ _ s).
  assert (H : same s s1) by apply insert_remote_range_same.
  eapply same_trans; [exact H|]. same_fields.
Qed.

Lemma stream_freed_same id half s : same s (stream_freed id half s).
Proof.
  unfold stream_freed.
  set (s1 := if negb (sid_init id =? side s) then _ else s).
  assert (H : same s s1).
  { subst s1. destruct (negb (sid_init id =? side s)); [|apply same_refl].
    match goal with |- same s (if ?c then _ else _) => destruct c end; [|apply same_refl].
    eapply same_trans; [|apply ensure_same].
    destruct (pget (sid_dir id) (alloc s) <=? 0); same_fields. }
  eapply same_trans; [exact H|].
  destruct half; [|apply same_refl].
  destruct (send_streams s1 <=? 0); same_fields.
Qed.

Lemma on_stream_frame_same n id s : same s (on_stream_frame n id s).
Proof.
  unfold on_stream_frame.
  destruct (sid_init id =? side s).
  - destruct n; [same_fields|apply same_refl].
  - destruct (pget (sid_dir id) (next_remote s) <=? sid_index id); [same_fields|].
    destruct n; [same_fields|apply same_refl].
Qed.

Lemma queue_dir_same d s : same s (fst (queue_dir d s)).
Proof.
  unfold queue_dir.
  destruct (pget d (max_remote s) - pget d (sent_max_remote s) <? 0);
    destruct (pget d (max_conc s) / 8 <? _); cbn [fst]; same_fields.
Qed.
Lemma queue_same s : same s (fst (queue_max_stream_id s)).
Proof.
  unfold queue_max_stream_id.
  pose proof (queue_dir_same 0 s) as H0.
  destruct (queue_dir 0 s) as [s1 q0]. cbn [fst] in H0.
  pose proof (queue_dir_same 1 s1) as H1.
  destruct (queue_dir 1 s1) as [s2 q1]. cbn [fst] in *.
  eapply same_trans; eassumption.
Qed.

(** Closing a stream: the entry leaves the map and its end moves to the ghost sum. *)
Lemma Inv_close id t s :
  Inv s -> alookup id (recvm s) = Some t ->
  Inv (stream_recv_freed id (slot_end t) (set_recvm (aremove id (recvm s)) s)).
Proof.
  intros [I1 I2 I3 I4 I5] L. unfold stream_recv_freed.
  eapply Inv_same; [|apply stream_freed_same].
  constructor; prj; try assumption.
  - rewrite (sum_aremove _ _ _ L). lia.
  - apply ok_aremove; assumption.
Qed.

(** Updating one stream together with [data_recvd]. *)
Lemma Inv_update id t t' s :
  Inv s -> alookup id (recvm s) = Some t -> slot_ok t' ->
  data_recvd s + (slot_end t' - slot_end t) <= local_max s ->
  Inv (set_data_recvd (data_recvd s + (slot_end t' - slot_end t))
         (set_recvm (aset id t' (recvm s)) s)).
Proof.
  intros [I1 I2 I3 I4 I5] L Ht Hb. constructor; prj; try assumption.
  - rewrite (sum_aset_some _ _ _ _ L). lia.
  - apply ok_aset; assumption.
Qed.

Lemma Inv_open id t s :
  Inv s -> alookup id (recvm s) = Some t ->
  Inv (set_recvm (aset id (SOpen (rview s t)) (recvm s)) s).
Proof.
  intros I L. pose proof I as [I1 I2 I3 I4 I5].
  constructor; prj; try assumption.
  - rewrite (sum_aset_some _ _ _ _ L), view_end. lia.
  - apply ok_aset; [assumption|]. cbn [slot_ok]. apply view_ok; [assumption|].
    eapply ok_lookup; eassumption.
Qed.

Lemma lookup_aset_same {A} k (v : A) m : alookup k (aset k v m) = Some v.
Proof.
  induction m as [|[k' v'] r IH]; cbn [aset alookup]; [rewrite Z.eqb_refl; reflexivity|].
  destruct (k =? k') eqn:E; cbn [alookup]; rewrite ?Z.eqb_refl, ?E; auto.
Qed.

(** [add_read_credits] only raises [local_max_data]. *)
Lemma arc_Inv c s : Inv s -> Inv (fst (add_read_credits c s)).
Proof.
  intros [I1 I2 I3 I4 I5]. unfold add_read_credits. prj.
  destruct (debt s <? c) eqn:E; prj.
  - assert (Hm : local_max s <= sat_add (local_max s) (c - debt s) <= U64MAX)
      by (unfold sat_add; lia).
    destruct (VARINT_MAX <? sat_add (local_max s) (c - debt s)); cbn [fst];
      [|destruct (sat_add (local_max s) (c - debt s) <? sent_max_data s)];
      constructor; prj; try assumption; lia.
  - destruct (VARINT_MAX <? local_max s); cbn [fst];
      [|destruct (local_max s <? sent_max_data s)]; constructor; prj; assumption.
Qed.

(** ** Facts about [ingest] and [recv_reset] on success *)
Lemma ingest_ok r off len fin received max_data r' nb closed :
  is_receiving r = true -> recv_ok r -> 0 <= off ->
  ingest true r off len fin received max_data = Ok (r', nb, closed) ->
  recv_ok r' /\ eff_end r' = eff_end r + nb /\ 0 <= nb /\ received + nb <= max_data /\
  is_receiving r' = true /\ (closed = true -> r_stopped r' = true).
Proof.
  intros R (K0 & KA & K) Hoff H. unfold ingest in H.
  destruct (2 ^ 62 <=? off + len); [discriminate|].
  destruct (match final_offset r with
            | Some f => (f <? off + len) || (fin && negb (off + len =? f))
            | None => true && fin && (off + len <? r_end r) end) eqn:F; [discriminate|].
  unfold credit_consumed_by in H.
  destruct ((r_sent_msd r <? off + len)
            || (max_data <? received + Z.max 0 (off + len - r_end r))) eqn:C; [discriminate|].
  apply orb_false_iff in C as [C1 C2].
  inversion H; subst; clear H.
  (* the assembler part *)
  assert (KA' : asm_ok (if r_stopped r then r_asm r else asm_insert (r_asm r) off len)
                       (Z.max (r_end r) (off + len))).
  { pose proof (asm_ok_mono _ _ (Z.max (r_end r) (off + len)) KA ltac:(lia)) as KA1.
    destruct (r_stopped r); [exact KA1|]. apply asm_insert_ok; [exact KA1|exact Hoff|lia]. }
  unfold is_receiving in R. unfold final_offset in F. unfold recv_ok, eff_end, is_receiving.
  cbn [r_state r_end r_sent_msd r_stopped r_asm].
  destruct (r_state r) as [[f|]|f c] eqn:S; try discriminate.
  - apply orb_false_iff in F as [F1 F2].
    destruct (fin && negb (r_stopped r)) eqn:FS.
    + apply andb_true_iff in FS as [FS1 FS2]. subst fin. cbn in F2. apply negb_false_iff in F2.
      split; [split; [lia|split; [exact KA'|lia]]|].
      repeat split; try lia. intro Hc. cbn in Hc. rewrite Hc in FS2. discriminate.
    + split; [split; [lia|split; [exact KA'|lia]]|].
      repeat split; try lia.
      intro Hc. apply andb_true_iff in Hc as [_ Hc]. exact Hc.
  - cbn in F.
    destruct (fin && negb (r_stopped r)) eqn:FS.
    + apply andb_true_iff in FS as [FS1 FS2]. subst fin. cbn in F.
      split; [split; [lia|split; [exact KA'|lia]]|].
      repeat split; try lia. intro Hc. cbn in Hc. rewrite Hc in FS2. discriminate.
    + split; [split; [lia|split; [exact KA'|lia]]|].
      repeat split; try lia.
      intro Hc. apply andb_true_iff in Hc as [_ Hc]. exact Hc.
Qed.

Lemma reset_ok r code final received max_data r' :
  recv_ok r -> recv_reset r code final received max_data = Ok (r', true) ->
  recv_ok r' /\ eff_end r' = final /\ r_end r' = r_end r /\ r_end r <= final /\
  eff_end r = r_end r /\ received + (final - r_end r) <= max_data /\
  r_stopped r' = r_stopped r /\ bytes_read r' = bytes_read r.
Proof.
  intros (K0 & KA & K) H. unfold recv_reset in H.
  pose proof (asm_clear_ok _ _ K0 KA) as KC.
  destruct (match final_offset r with Some f => negb (f =? final) | None => final <? r_end r end)
    eqn:F; [discriminate|].
  unfold credit_consumed_by in H.
  destruct ((r_sent_msd r <? final) || (max_data <? received + Z.max 0 (final - r_end r))) eqn:C;
    [discriminate|].
  apply orb_false_iff in C as [C1 C2].
  unfold final_offset in F. unfold recv_ok, eff_end, bytes_read.
  destruct (r_state r) as [[f|]|f c] eqn:S; try discriminate;
    inversion H; subst; clear H; cbn [r_state r_end r_sent_msd r_stopped r_asm].
  - apply negb_false_iff in F. assert (f = final) by lia. subst f.
    split; [split; [lia|split; [exact KC|lia]]|].
    repeat split; try lia. unfold asm_clear. destruct (a_mode (r_asm r)); reflexivity.
  - split; [split; [lia|split; [exact KC|lia]]|].
    repeat split; try lia. unfold asm_clear. destruct (a_mode (r_asm r)); reflexivity.
Qed.

(** ** Preservation by every op *)
Lemma Inv_eq s s' :
  Inv s -> data_recvd s' = data_recvd s -> local_max s' = local_max s ->
  g_closed s' = g_closed s -> swin s' = swin s -> recvm s' = recvm s -> Inv s'.
Proof.
  intros [I1 I2 I3 I4 I5] A1 A2 A3 A4 A5. constructor; rewrite ?A1, ?A2, ?A3, ?A4, ?A5; assumption.
Qed.
Ltac inv_eq := eapply Inv_eq; [eassumption|prj; reflexivity ..].

Lemma see_Inv id s : Inv s -> Inv (see id s).
Proof. intro I. unfold see. inv_eq. Qed.
Lemma note_tx_Inv r s : Inv s -> Inv (note_tx r s).
Proof. intro I. unfold note_tx. destruct r as [c|[|]]; try assumption. inv_eq. Qed.

Lemma received_Inv id off len fin s :
  Inv s -> 0 <= off -> Inv (fst (received true id off len fin s)).
Proof.
  intros I Hoff. unfold received.
  destruct (validate_receive_id id s); [exact I|].
  destruct (alookup id (recvm s)) as [slot|] eqn:L; [|exact I].
  pose proof (Inv_open id slot s I L) as I1.
  set (r := rview s slot) in *. set (s1 := set_recvm (aset id (SOpen r) (recvm s)) s) in *.
  assert (Kr : recv_ok r).
  { subst r. apply view_ok; [apply I|]. eapply ok_lookup; [apply I|exact L]. }
  destruct (negb (is_receiving r)) eqn:R; [exact I1|]. apply negb_false_iff in R.
  destruct (ingest true r off len fin (data_recvd s) (local_max s)) as [c|[[r' nb] closed]] eqn:G;
    [exact I1|].
  destruct (ingest_ok _ _ _ _ _ _ _ _ _ R Kr Hoff G) as (K' & E' & Hnb & Hb & R' & Hc).
  assert (L1 : alookup id (recvm s1) = Some (SOpen r)) by (subst s1; prj; apply lookup_aset_same).
  assert (D1 : data_recvd s1 = data_recvd s) by (subst s1; reflexivity).
  assert (M1 : local_max s1 = local_max s) by (subst s1; reflexivity).
  pose proof (Inv_update id (SOpen r) (SOpen r') s1 I1 L1 K') as I2.
  cbn [slot_end] in I2. rewrite E' in I2.
  replace (eff_end r + nb - eff_end r) with nb in I2 by lia.
  assert (S2 : sat_add (data_recvd s1) nb = data_recvd s1 + nb).
  { unfold sat_add. pose proof (i_lmax _ I). lia. }
  rewrite S2. specialize (I2 ltac:(lia)).
  set (s2 := set_data_recvd (data_recvd s1 + nb) (set_recvm (aset id (SOpen r') (recvm s1)) s1)) in *.
  destruct (negb (r_stopped r')) eqn:St.
  - cbn [fst]. eapply Inv_same; [exact I2|apply on_stream_frame_same].
  - set (s3 := if closed then _ else s2).
    assert (I3 : Inv s3).
    { subst s3. destruct closed; [|exact I2].
      assert (L2 : alookup id (recvm s2) = Some (SOpen r')) by (subst s2; prj; apply lookup_aset_same).
      exact (Inv_close id (SOpen r') s2 I2 L2). }
    pose proof (arc_Inv nb s3 I3) as I4.
    destruct (add_read_credits nb s3) as [s4 t]. exact I4.
Qed.

Lemma received_reset_Inv id code final s :
  Inv s -> Inv (fst (received_reset true id code final s)).
Proof.
  intros I. unfold received_reset.
  destruct (validate_receive_id id s); [exact I|].
  destruct (alookup id (recvm s)) as [slot|] eqn:L; [|exact I].
  pose proof (Inv_open id slot s I L) as I1.
  set (r := rview s slot) in *. set (s1 := set_recvm (aset id (SOpen r) (recvm s)) s) in *.
  assert (Kr : recv_ok r).
  { subst r. apply view_ok; [apply I|]. eapply ok_lookup; [apply I|exact L]. }
  destruct (recv_reset r code final (data_recvd s) (local_max s)) as [c|[r' [|]]] eqn:G;
    [exact I1| |exact I1].
  destruct (reset_ok _ _ _ _ _ _ Kr G) as (K' & E' & Ee & Hle & Er & Hb & Hst & Hbr).
  assert (L1 : alookup id (recvm s1) = Some (SOpen r)) by (subst s1; prj; apply lookup_aset_same).
  (* the slot is updated first; [data_recvd] follows at the end of the function: go through an
     intermediate state that already has it *)
  cbn [fst].
  set (s2 := set_recvm (aset id (SOpen r') (recvm s1)) s1).
  set (s3 := if r_stopped r' then _ else s2).
  set (s4 := on_stream_frame (negb (r_stopped r')) id s3).
  set (credited := if true && r_stopped r' then r_end r' else bytes_read r').
  (* accounting of s4: sum grew by final - end, data_recvd not yet *)
  assert (A : local_max s4 <= U64MAX /\ data_recvd s4 = data_recvd s /\ local_max s4 = local_max s /\
              data_recvd s4 + (final - r_end r) = g_closed s4 + sum_ends (recvm s4) /\
              slots_ok (recvm s4) /\ 0 <= swin s4).
  { assert (A2 : data_recvd s2 = data_recvd s /\ local_max s2 = local_max s /\
                 data_recvd s2 + (final - r_end r) = g_closed s2 + sum_ends (recvm s2) /\
                 slots_ok (recvm s2) /\ swin s2 = swin s).
    { subst s2. prj. destruct I1 as [J1 J2 J3 J4 J5]. repeat split.
      - rewrite (sum_aset_some _ _ _ _ L1). cbn [slot_end]. rewrite E', Er. rewrite J3. lia.
      - apply ok_aset; assumption. }
    destruct A2 as (B1 & B2 & B3 & B4 & B5).
    assert (A3 : data_recvd s3 = data_recvd s /\ local_max s3 = local_max s /\
                 data_recvd s3 + (final - r_end r) = g_closed s3 + sum_ends (recvm s3) /\
                 slots_ok (recvm s3) /\ swin s3 = swin s).
    { subst s3. destruct (r_stopped r'); [|repeat split; assumption].
      assert (L2 : alookup id (recvm s2) = Some (SOpen r')) by (subst s2; prj; apply lookup_aset_same).
      unfold stream_recv_freed.
      match goal with |- context [stream_freed id false ?x] =>
        pose proof (stream_freed_same id false x) as (C1 & C2 & C3 & C4 & C5 & C6); set (y := x) in * end.
      rewrite C1, C2, C3, C4, C5. subst y. prj.
      rewrite (sum_aremove _ _ _ L2). cbn [slot_end]. rewrite E'.
      repeat split; try assumption; try lia.
      apply C6. prj. apply ok_aremove. assumption. }
    destruct A3 as (D1 & D2 & D3 & D4 & D5).
    pose proof (on_stream_frame_same (negb (r_stopped r')) id s3) as (C1 & C2 & C3 & C4 & C5 & C6).
    fold s4 in C1, C2, C3, C4, C5, C6.
    repeat split; try lia; auto.
    - rewrite C2, D2. apply I.
    - rewrite C4, D5. apply I. }
  destruct A as (A1 & A2 & A3 & A4 & A5 & A6).
  destruct (negb (credited =? final)) eqn:Cr.
  - assert (S5 : sat_add (data_recvd s4) (final - r_end r') = data_recvd s4 + (final - r_end r)).
    { rewrite Ee. unfold sat_add. pose proof (i_lmax _ I). lia. }
    rewrite S5.
    match goal with |- Inv (fst (let '(s6, t) := add_read_credits ?c ?x in _)) =>
      assert (I5 : Inv x); [|pose proof (arc_Inv c x I5) as I6;
                             destruct (add_read_credits c x) as [s6 t]; exact I6] end.
    destruct (final <? r_end r'); destruct (final <? credited); prj;
      (constructor; prj; [lia|lia|lia|assumption|assumption]).
  - (* credited = final: then end = final and nothing is added *)
    apply negb_false_iff in Cr. apply Z.eqb_eq in Cr.
    assert (final = r_end r).
    { subst credited. cbn [andb] in Cr. destruct (r_stopped r'); [lia|].
      (* not stopped: bytes_read = final, and bytes_read <= end <= final *)
      destruct Kr as (Kr0 & KrA & _). pose proof (asm_ok_read _ _ Kr0 KrA) as HB.
      unfold bytes_read in *. lia. }
    pose proof (i_recvd _ I). pose proof (i_lmax _ I).
    cbn [fst]. constructor; try lia; try assumption.
Qed.

Lemma stop_op_Inv id code s : Inv s -> Inv (fst (stop_op true id code s)).
Proof.
  intro I. unfold stop_op.
  destruct (alookup id (recvm s)) as [slot|] eqn:L; [|exact I].
  pose proof (Inv_open id slot s I L) as I1.
  set (r := rview s slot) in *. set (s1 := set_recvm (aset id (SOpen r) (recvm s)) s) in *.
  assert (Kr : recv_ok r).
  { subst r. apply view_ok; [apply I|]. eapply ok_lookup; [apply I|exact L]. }
  destruct (r_stopped r); [exact I1|].
  set (r' := mkRecv (r_state r) (asm_clear (r_asm r)) (r_sent_msd r) (r_end r) true).
  assert (L1 : alookup id (recvm s1) = Some (SOpen r)) by (subst s1; prj; apply lookup_aset_same).
  assert (K' : recv_ok r').
  { destruct Kr as (Kr0 & KrA & Kr1). subst r'. unfold recv_ok. cbn [r_end r_asm r_state r_sent_msd].
    split; [exact Kr0|]. split; [apply asm_clear_ok; assumption|exact Kr1]. }
  assert (E' : eff_end r' = eff_end r) by reflexivity.
  pose proof (Inv_update id (SOpen r) (SOpen r') s1 I1 L1 K') as I2.
  cbn [slot_end] in I2. rewrite E' in I2. replace (eff_end r - eff_end r) with 0 in I2 by lia.
  specialize (I2 ltac:(pose proof (i_recvd _ I1); lia)).
  set (s2 := set_panic_if (r_end r <? bytes_read r) (set_recvm (aset id (SOpen r') (recvm s1)) s1)).
  assert (I2' : Inv s2).
  { subst s2. eapply Inv_eq; [exact I2|prj..].
    all: destruct (r_end r <? bytes_read r); prj; try reflexivity; lia. }
  assert (L2 : alookup id (recvm s2) = Some (SOpen r')).
  { subst s2. destruct (r_end r <? bytes_read r); prj; apply lookup_aset_same. }
  set (s3 := if is_receiving r then set_p_stop (p_stop s2 ++ [(id, code)]) s2 else s2).
  assert (I3 : Inv s3) by (subst s3; destruct (is_receiving r); [inv_eq|exact I2']).
  assert (L3 : alookup id (recvm s3) = Some (SOpen r')) by (subst s3; destruct (is_receiving r); exact L2).
  set (s4 := if negb (final_unknown r) then _ else s3).
  assert (I4 : Inv s4).
  { subst s4. destruct (negb (final_unknown r)); [|exact I3].
    exact (Inv_close id (SOpen r') s3 I3 L3). }
  match goal with |- Inv (fst (let '(s5, t) := add_read_credits ?c s4 in _)) =>
    pose proof (arc_Inv c s4 I4) as I5; destruct (add_read_credits c s4) as [s5 t] end.
  cbn [fst] in *. destruct t; [inv_eq|exact I5].
Qed.

Lemma rreset_op_Inv id s : Inv s -> Inv (fst (rreset_op id s)).
Proof.
  intro I. unfold rreset_op.
  destruct (alookup id (recvm s)) as [[| |r]|] eqn:L; try exact I.
  destruct (r_stopped r); [exact I|].
  destruct (reset_code r); [|exact I].
  pose proof (Inv_close id (SOpen r) s I L) as I1. cbn [slot_end] in I1.
  pose proof (queue_same (stream_recv_freed id (eff_end r) (set_recvm (aremove id (recvm s)) s))) as Q.
  destruct (queue_max_stream_id _) as [s2 q]. cbn [fst] in *.
  eapply Inv_same; eassumption.
Qed.

Lemma set_window_op_Inv w s : Inv s -> Inv (fst (set_window_op w s)).
Proof.
  intros [I1 I2 I3 I4 I5]. unfold set_window_op.
  destruct (rwin s <? w) eqn:E; cbn [fst]; constructor; prj; try assumption;
    unfold sat_add; lia.
Qed.

Lemma open_op_Inv d s : Inv s -> Inv (fst (open_op d s)).
Proof.
  intro I. unfold open_op. destruct (pget d (maxl s) <=? pget d (nxt s)); [exact I|]. cbn [fst].
  set (s1 := set_nxt _ s). assert (I1 : Inv s1) by (subst s1; inv_eq).
  pose proof (insert_stream_same false (mk_sid (side s) d (pget d (nxt s))) s1) as H.
  eapply Inv_same; [exact I1|]. eapply same_trans; [exact H|]. same_fields.
Qed.

Lemma accept_op_Inv d s : Inv s -> Inv (fst (accept_op d s)).
Proof.
  intro I. unfold accept_op.
  destruct (pget d (next_remote s) =? pget d (next_rep s)); [exact I|]. cbn [fst].
  destruct (d =? 0); inv_eq.
Qed.

Lemma sreset_op_Inv id code s : Inv s -> Inv (fst (sreset_op id code s)).
Proof.
  intro I. unfold sreset_op, with_send.
  destruct (alookup id (sendm s)); [|exact I].
  destruct (s_state (sview s0) =? 3); cbn [fst]; inv_eq.
Qed.

Lemma reset_acked_op_Inv id s : Inv s -> Inv (fst (reset_acked_op id s)).
Proof.
  intro I. unfold reset_acked_op.
  destruct (alookup id (sendm s)) as [[|sd]|]; try exact I.
  destruct (s_state sd =? 3); [|exact I]. cbn [fst].
  eapply Inv_same; [|apply stream_freed_same]. inv_eq.
Qed.

Lemma init_Inv sd mru mrb rw srw pmb pmu :
  0 <= rw <= U64MAX -> 0 <= srw -> Inv (init sd mru mrb rw srw pmb pmu).
Proof.
  intros Hr Hs. unfold init.
  eapply Inv_same; [|apply insert_remote_range_same].
  eapply Inv_same; [|apply insert_remote_range_same].
  constructor; prj; cbn [sum_ends]; try lia; try constructor.
Qed.

(** Ghost credit ledger: bytes for which connection credit has been issued. *)
Definition slot_consumed (t : rslot) : Z :=
  match t with
  | SOpen r => if r_stopped r || negb (is_receiving r) then eff_end r else bytes_read r
  | _ => 0
  end.
Fixpoint sum_consumed_m (m : list (Z * rslot)) : Z :=
  match m with [] => 0 | (_, t) :: r => slot_consumed t + sum_consumed_m r end.
Fixpoint sum_unread (m : list (Z * rslot)) : Z :=
  match m with [] => 0 | (_, t) :: r => (slot_end t - slot_consumed t) + sum_unread r end.

(** ** Reads and control-frame transmission *)
Lemma Inv_update0 id t t' s :
  Inv s -> alookup id (recvm s) = Some t -> slot_ok t' -> slot_end t' = slot_end t ->
  Inv (set_recvm (aset id t' (recvm s)) s).
Proof.
  intros [I1 I2 I3 I4 I5] L Ht He. constructor; prj; try assumption.
  - rewrite (sum_aset_some _ _ _ _ L). lia.
  - apply ok_aset; assumption.
Qed.

Lemma queue_dir_recvm d s : recvm (fst (queue_dir d s)) = recvm s.
Proof.
  unfold queue_dir.
  destruct (pget d (max_remote s) - pget d (sent_max_remote s) <? 0);
    destruct (pget d (max_conc s) / 8 <? _); reflexivity.
Qed.
Lemma queue_recvm s : recvm (fst (queue_max_stream_id s)) = recvm s.
Proof.
  unfold queue_max_stream_id.
  pose proof (queue_dir_recvm 0 s) as H0. destruct (queue_dir 0 s) as [s1 q0]. cbn [fst] in H0.
  pose proof (queue_dir_recvm 1 s1) as H1. destruct (queue_dir 1 s1) as [s2 q1]. cbn [fst] in *.
  congruence.
Qed.

Lemma read_op_Inv id ordered budget s : Inv s -> Inv (fst (read_op true id ordered budget s)).
Proof.
  intro I. unfold read_op.
  destruct (alookup id (recvm s)) as [slot|] eqn:L; [|exact I].
  pose proof (Inv_open id slot s I L) as I1.
  set (r := rview s slot) in *. set (s1 := set_recvm (aset id (SOpen r) (recvm s)) s) in *.
  assert (Kr : recv_ok r).
  { subst r. apply view_ok; [apply I|]. eapply ok_lookup; [apply I|exact L]. }
  destruct (r_stopped r) eqn:St; [exact I1|].
  destruct (asm_ensure (r_asm r) ordered) as [a1|] eqn:En; [|exact I1].
  destruct Kr as (K0 & KA & K1).
  destruct (asm_ensure_ok _ _ _ _ K0 KA En) as [KA1 _].
  destruct (asm_read a1 budget) as [[a2 total] none] eqn:Rd.
  destruct (asm_read_ok _ _ _ _ _ _ K0 KA1 Rd) as (KA2 & Ht & _).
  match goal with |- context [let '(term, code) := ?e in _] => destruct e as [term code] end.
  set (r2 := mkRecv (r_state r) a2 (r_sent_msd r) (r_end r) false).
  assert (K2 : recv_ok r2) by (subst r2; unfold recv_ok; cbn [r_end r_asm r_state r_sent_msd]; auto).
  assert (E2 : eff_end r2 = eff_end r) by reflexivity.
  assert (L1 : alookup id (recvm s1) = Some (SOpen r)) by (subst s1; prj; apply lookup_aset_same).
  set (freed := (term =? 2) || (term =? 3)).
  destruct freed eqn:Fr.
  - (* the stream ended: the entry leaves the map *)
    pose proof (Inv_close id (SOpen r) s1 I1 L1) as I3. cbn [slot_end] in I3. rewrite <- E2 in I3.
    set (s3 := stream_recv_freed id (eff_end r2) (set_recvm (aremove id (recvm s1)) s1)) in *.
    set (s3' := set_panic_if _ s3).
    assert (I3' : Inv s3').
    { subst s3'. match goal with |- context [set_panic_if ?b _] => destruct b end; [inv_eq|exact I3]. }
    pose proof (queue_same s3') as Q4. destruct (queue_max_stream_id s3') as [s4 q]. cbn [fst] in Q4.
    pose proof (Inv_same _ _ I3' Q4) as I4.
    pose proof (arc_Inv total s4 I4) as I6. destruct (add_read_credits total s4) as [s6 t2].
    cbn [fst] in *. inv_eq.
  - set (s3' := set_panic_if _ s1).
    assert (I3' : Inv s3').
    { subst s3'. match goal with |- context [set_panic_if ?b _] => destruct b end; [inv_eq|exact I1]. }
    assert (L3 : alookup id (recvm s3') = Some (SOpen r)).
    { subst s3'. match goal with |- context [set_panic_if ?b _] => destruct b end; exact L1. }
    pose proof (queue_same s3') as Q4. pose proof (queue_recvm s3') as R4.
    destruct (queue_max_stream_id s3') as [s4 q]. cbn [fst] in Q4, R4.
    pose proof (Inv_same _ _ I3' Q4) as I4.
    assert (L4 : alookup id (recvm s4) = Some (SOpen r)) by (rewrite R4; exact L3).
    set (p5 := match max_stream_data r2 (swin s4) with Some (_, tr) => _ | None => _ end).
    assert (I5 : Inv (fst p5)).
    { subst p5. destruct (max_stream_data r2 (swin s4)) as [[m tr]|]; cbn [fst]; [|inv_eq].
      destruct tr.
      - assert (I4' : Inv (set_p_msd (zadd id (p_msd s4)) s4)) by inv_eq.
        apply (Inv_update0 id (SOpen r) (SOpen r2) _ I4'); [prj; exact L4|exact K2|reflexivity].
      - apply (Inv_update0 id (SOpen r) (SOpen r2) _ I4 L4 K2). reflexivity. }
    destruct p5 as [s5 t1]. cbn [fst] in I5.
    pose proof (arc_Inv total s5 I5) as I6. destruct (add_read_credits total s5) as [s6 t2].
    cbn [fst] in *. inv_eq.
Qed.

Lemma emit_msd_Inv ids s : Inv s -> Inv (fst (emit_msd ids s)).
Proof.
  revert s. induction ids as [|id rest IH]; intros s I; cbn [emit_msd]; [exact I|].
  destruct (alookup id (recvm s)) as [[| |r]|] eqn:L; try (apply IH; exact I).
  destruct (can_send_fc r) eqn:C; [|apply IH; exact I].
  destruct (max_stream_data r (swin s)) as [[m tr]|]; [|apply IH; inv_eq].
  set (r' := mkRecv (r_state r) (r_asm r) (Z.max m (r_sent_msd r)) (r_end r) (r_stopped r)).
  assert (Kr : recv_ok r) by (eapply (ok_lookup id (SOpen r)); [apply I|exact L]).
  assert (K' : recv_ok r').
  { destruct Kr as (K0 & KA & K1). subst r'. unfold recv_ok. cbn [r_end r_asm r_state r_sent_msd].
    split; [exact K0|]. split; [exact KA|]. destruct (r_state r) as [[f|]|f c]; lia. }
  match goal with |- context [emit_msd rest ?x] => assert (Ix : Inv x) end.
  { match goal with |- context [set_panic_if ?b _] => destruct b end.
    - assert (I0 : Inv (set_panic true s)) by inv_eq.
      apply (Inv_update0 id (SOpen r) (SOpen r') _ I0); [prj; exact L|exact K'|reflexivity].
    - apply (Inv_update0 id (SOpen r) (SOpen r') _ I L K'). reflexivity. }
  match goal with |- context [emit_msd rest ?x] =>
    pose proof (IH x Ix) as H; destruct (emit_msd rest x) as [s' fs] end.
  exact H.
Qed.

Lemma control_op_Inv a b c s : Inv s -> Inv (fst (fst (control_op a b c s))).
Proof.
  intro I. unfold control_op.
  set (s1 := if a then _ else s). assert (I1 : Inv s1) by (subst s1; destruct a; [inv_eq|exact I]).
  set (s2 := if b then _ else s1). assert (I2 : Inv s2) by (subst s2; destruct b; [inv_eq|exact I1]).
  set (s3 := if c then _ else s2). assert (I3 : Inv s3) by (subst s3; destruct c; [inv_eq|exact I2]).
  set (s4 := set_p_stop [] _). assert (I4 : Inv s4) by (subst s4; inv_eq).
  set (p5 := if p_max_data s4 then _ else (s4, [])).
  assert (I5 : Inv (fst p5)).
  { subst p5. destruct (p_max_data s4); cbn [fst]; [inv_eq|exact I4]. }
  destruct p5 as [s5 fmd]. cbn [fst] in I5.
  pose proof (emit_msd_Inv (p_msd s5) s5 I5) as I6. destruct (emit_msd (p_msd s5) s5) as [s6 fmsd].
  cbn [fst] in I6.
  set (s7 := set_p_msd [] s6). assert (I7 : Inv s7) by (subst s7; inv_eq).
  assert (EM : forall d x, Inv x -> Inv (fst (emit_max_streams d x))).
  { intros d x Ix. unfold emit_max_streams. destruct (pget d (p_msid x)); cbn [fst]; [inv_eq|exact Ix]. }
  pose proof (EM 0 s7 I7) as I8. destruct (emit_max_streams 0 s7) as [s8 f0]. cbn [fst] in I8.
  pose proof (EM 1 s8 I8) as I9. destruct (emit_max_streams 1 s8) as [s9 f1]. cbn [fst] in *.
  exact I9.
Qed.

(** ** All op sequences *)
Definition op_wf (op : list Z) : Prop :=
  forall id off len fin, op = [1; id; off; len; fin] -> 0 <= off.

Lemma see_match_Inv (o : list Z) s2 :
  Inv s2 -> Inv (match o with [0; id] => see id s2 | _ => s2 end).
Proof.
  intro I2. destruct o as [|o1 [|o2 [|o3 r]]]; try destruct o1; cbv iota; try exact I2;
    apply see_Inv; exact I2.
Qed.

Lemma step_core_Inv s op s' o id l :
  Inv s -> op_wf op -> FlowRecv.step_core true s op = Some (s', o, id, l) -> Inv s'.
Proof.
  intros I W H. unfold FlowRecv.step_core in H.
  destruct op as [|c a]; [discriminate|].
  destruct (c =? 1) eqn:C1.
  { destruct a as [|x1 [|x2 [|x3 [|x4 [|]]]]]; try discriminate.
    assert (c = 1) by lia. subst c. specialize (W x1 x2 x3 x4 eq_refl).
    pose proof (received_Inv x1 x2 x3 (negb (x4 =? 0)) (see x1 s) (see_Inv _ _ I) W) as I2.
    destruct (received true x1 x2 x3 (negb (x4 =? 0)) (see x1 s)) as [s2 r]. cbn [fst] in I2.
    inversion H; subst. apply note_tx_Inv. exact I2. }
  destruct (c =? 2).
  { destruct a as [|x1 [|x2 [|x3 [|]]]]; try discriminate.
    pose proof (received_reset_Inv x1 x2 x3 (see x1 s) (see_Inv _ _ I)) as I2.
    destruct (received_reset true x1 x2 x3 (see x1 s)) as [s2 r]. cbn [fst] in I2.
    inversion H; subst. apply note_tx_Inv. exact I2. }
  destruct (c =? 3).
  { destruct a as [|x1 [|x2 [|x3 [|]]]]; try discriminate.
    pose proof (read_op_Inv x1 (negb (x2 =? 0)) x3 (see x1 s) (see_Inv _ _ I)) as I2.
    destruct (read_op true x1 (negb (x2 =? 0)) x3 (see x1 s)) as [s2 r]. cbn [fst] in I2.
    inversion H; subst. exact I2. }
  destruct (c =? 4).
  { destruct a as [|x1 [|x2 [|]]]; try discriminate.
    pose proof (stop_op_Inv x1 x2 (see x1 s) (see_Inv _ _ I)) as I2.
    destruct (stop_op true x1 x2 (see x1 s)) as [s2 r]. cbn [fst] in I2.
    inversion H; subst. exact I2. }
  destruct (c =? 5).
  { destruct a as [|x1 [|]]; try discriminate.
    pose proof (rreset_op_Inv x1 (see x1 s) (see_Inv _ _ I)) as I2.
    destruct (rreset_op x1 (see x1 s)) as [s2 r]. cbn [fst] in I2.
    inversion H; subst. exact I2. }
  destruct (c =? 6).
  { destruct a as [|x1 [|]]; try discriminate.
    pose proof (set_window_op_Inv x1 s I) as I2. destruct (set_window_op x1 s) as [s2 r].
    cbn [fst] in I2. inversion H; subst. exact I2. }
  destruct (c =? 7).
  { destruct a as [|x1 [|x2 [|x3 [|]]]]; try discriminate.
    pose proof (control_op_Inv (negb (x1 =? 0)) (negb (x2 =? 0)) (negb (x3 =? 0)) s I) as I2.
    destruct (control_op _ _ _ s) as [[s2 r] l2]. cbn [fst] in I2.
    inversion H; subst. exact I2. }
  destruct (c =? 8).
  { destruct a as [|x1 [|]]; try discriminate.
    pose proof (open_op_Inv (if x1 =? 0 then 0 else 1) s I) as I2.
    destruct (open_op (if x1 =? 0 then 0 else 1) s) as [s2 r]. cbn [fst] in I2.
    inversion H; subst. apply see_match_Inv. exact I2. }
  destruct (c =? 9).
  { destruct a as [|x1 [|]]; try discriminate.
    pose proof (accept_op_Inv (if x1 =? 0 then 0 else 1) s I) as I2.
    destruct (accept_op (if x1 =? 0 then 0 else 1) s) as [s2 r]. cbn [fst] in I2.
    inversion H; subst. apply see_match_Inv. exact I2. }
  destruct (c =? 12).
  { destruct a as [|x1 [|x2 [|]]]; try discriminate.
    pose proof (sreset_op_Inv x1 x2 s I) as I2. destruct (sreset_op x1 x2 s) as [s2 r].
    cbn [fst] in I2. inversion H; subst. exact I2. }
  destruct (c =? 17).
  { destruct a as [|x1 [|]]; try discriminate.
    pose proof (reset_acked_op_Inv x1 s I) as I2. destruct (reset_acked_op x1 s) as [s2 r].
    cbn [fst] in I2. inversion H; subst. exact I2. }
  discriminate.
Qed.

Lemma step_Inv s op : Inv s -> op_wf op -> Inv (fst (FlowRecv.step true s op)).
Proof.
  intros I W. unfold FlowRecv.step.
  destruct (FlowRecv.step_core true s op) as [[[[s' o] id] l]|] eqn:H; [|exact I].
  cbn [fst]. eapply step_core_Inv; eassumption.
Qed.

Lemma run_from_Inv i s : Inv s -> Forall op_wf i -> Inv (fst (run_from (FlowRecv.step true) s i)).
Proof.
  revert s. induction i as [|op r IH]; intros s I W; cbn [run_from fst]; [exact I|].
  inversion W; subst.
  pose proof (step_Inv s op I H1) as I1. destruct (FlowRecv.step true s op) as [s1 o]. cbn [fst] in I1.
  pose proof (IH s1 I1 H2) as I2. destruct (run_from (FlowRecv.step true) s1 r) as [s2 os]. exact I2.
Qed.

(** [bytes_read <= end] for every open stream follows from the invariant. *)
Lemma Inv_reads_bounded s : Inv s ->
  Forall (fun p => match snd p with SOpen r => 0 <= bytes_read r <= r_end r | _ => True end) (recvm s).
Proof.
  intros [_ _ _ I4 _]. unfold slots_ok in I4. eapply Forall_impl; [|exact I4].
  intros [k t]. cbn [snd]. destruct t as [| |r]; auto. cbn [slot_ok].
  intros (K0 & KA & _). apply (asm_ok_read _ _ K0 KA).
Qed.
