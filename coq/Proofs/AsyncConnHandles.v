(** C18 — Inv0 / drv_ok preservation for the application calls, the handle drops and the driver poll. *)
From QV Require Import Lib.Tac Model.AsyncConn Proofs.AsyncConnInv Proofs.AsyncConnLemmas Proofs.AsyncConnProofs.
From Coq Require Import Arith.

Lemma Inv0_need_driver : forall s, Inv0 s -> Inv0 (need_driver s).
Proof. intros s HI. unfold need_driver, wake_driver. cbn_st. destruct (drv_waker s); ev_tac HI. Qed.

Lemma Inv0_set_inner_closed : forall s b, Inv0 s -> Inv0 (set_inner_closed s b).
Proof. intros s b HI. ev_tac HI. Qed.

Lemma Inv0_close_conn : forall s, Inv0 s -> Inv0 (close_conn s).
Proof.
  intros s HI. unfold close_conn. apply Inv0_need_driver, Inv0_terminate, Inv0_set_inner_closed, HI.
Qed.

Lemma Inv0_add_ref : forall s, Inv0 s -> Inv0 (add_ref s).
Proof. intros s HI. unfold add_ref. ev_tac HI. all: try lia. Qed.

Lemma Inv0_drop_ref_handle : forall s, Inv0 s -> Inv0 (drop_ref s true).
Proof.
  intros s HI. unfold drop_ref. cbn_st.
  assert (H1 : Inv0 (set_refs s (refcnt s - 1) (nhandles s - 1))).
  { ev_tac HI. all: try lia. }
  destruct (Z.ltb 1 (refcnt s)); [exact H1|].
  destruct (inner_closed s) eqn:Ec; [exact H1|].
  apply Inv0_close_conn. exact H1.
Qed.

Lemma Inv0_drop_ref_driver : forall s, Inv0 s -> driver_alive s = true ->
  Inv0 (drop_ref (set_drv s false false false false) false).
Proof.
  intros s HI Ha. unfold drop_ref. cbn_st.
  assert (H1 : Inv0 (set_refs (set_drv s false false false false) (refcnt s - 1) (nhandles s))).
  { ev_tac HI. all: try lia. all: try congruence. }
  destruct (Z.ltb 1 (refcnt s)); [exact H1|].
  destruct (inner_closed s) eqn:Ec; [exact H1|].
  apply Inv0_close_conn. exact H1.
Qed.

Lemma Inv0_AppClose : forall s, Inv0 s -> Inv0 (step' s AppClose).
Proof.
  intros s HI. unfold step', step. cbn [fst]. destruct (Z.ltb 0 (nhandles s)); auto using Inv0_close_conn.
Qed.

Lemma Inv0_HClone : forall s, Inv0 s -> Inv0 (step' s HClone).
Proof.
  intros s HI. unfold step', step. cbn [fst]. destruct (Z.ltb 0 (nhandles s)); auto using Inv0_add_ref.
Qed.

Lemma Inv0_HDropConn : forall s, Inv0 s -> Inv0 (step' s HDropConn).
Proof.
  intros s HI. unfold step', step. cbn [fst]. destruct (Z.ltb 0 (nhandles s)); auto using Inv0_drop_ref_handle.
Qed.

Lemma Inv0_AppFinish : forall s k, Inv0 s -> Inv0 (step' s (AppFinish k)).
Proof.
  intros s k HI. unfold step', step.
  destruct (send_h s k) eqn:Eh; [|exact HI].
  destruct (wborrow s k) eqn:Eb; [exact HI|]. cbn [fst].
  apply Inv0_need_driver. ev_tac HI.
Qed.

Lemma Inv0_AppReset : forall s k, Inv0 s -> Inv0 (step' s (AppReset k)).
Proof.
  intros s k HI. unfold step', step.
  destruct (send_h s k) eqn:Eh; [|exact HI].
  destruct (wborrow s k) eqn:Eb; [exact HI|]. cbn [fst].
  apply Inv0_need_driver. ev_tac HI.
Qed.

Lemma Inv0_AppStop : forall s k, Inv0 s -> Inv0 (step' s (AppStop k)).
Proof.
  intros s k HI. unfold step', step.
  destruct (recv_h s k) eqn:Eh; [|exact HI].
  destruct (rborrow s k) eqn:Eb; [exact HI|]. cbn [fst].
  apply Inv0_need_driver. ev_tac HI.
Qed.

Lemma Inv0_HDropSend : forall s k, Inv0 s -> Inv0 (step' s (HDropSend k)).
Proof.
  intros s k HI. unfold step', step.
  destruct (send_h s k) eqn:Eh; [|exact HI].
  destruct (wborrow s k) eqn:Eb; [exact HI|]. cbn [fst].
  apply Inv0_drop_ref_handle.
  assert (H1 : Inv0 (set_bw (set_send_h s (upd (send_h s) k false)) (arem (bw s) k))) by ev_tac HI.
  cbn_st. unfold closed in *. cbn_st.
  destruct (err s) eqn:Ee; [exact H1|].
  apply Inv0_need_driver. ev_tac HI.
  all: try (rewrite Ee in Hc; rewrite ?orb_false_r in Hc; tauto).
Qed.

Lemma Inv0_HDropRecv : forall s k, Inv0 s -> Inv0 (step' s (HDropRecv k)).
Proof.
  intros s k HI. unfold step', step.
  destruct (recv_h s k) eqn:Eh; [|exact HI].
  destruct (rborrow s k) eqn:Eb; [exact HI|]. cbn [fst].
  apply Inv0_drop_ref_handle. cbn_st.
  destruct (all_read s k) eqn:Ear.
  { ev_tac HI. }
  unfold closed in *. cbn_st.
  destruct (err s) eqn:Ee.
  { ev_tac HI. all: try (rewrite Ee in Hc; rewrite ?orb_true_r in Hc; discriminate). }
  apply Inv0_need_driver. ev_tac HI.
  all: try (rewrite Ee in Hc; rewrite ?orb_false_r in Hc; tauto).
Qed.

(** * The driver poll *)
Lemma drv_events_frame : forall evs s,
  driver_alive (fold_left drv_event evs s) = driver_alive s /\
  drv_waker (fold_left drv_event evs s) = drv_waker s /\
  drv_runnable (fold_left drv_event evs s) = drv_runnable s /\
  drv_work (fold_left drv_event evs s) = drv_work s.
Proof.
  induction evs as [|e evs IH]; intros s; cbn [fold_left]; [auto|].
  destruct (IH (drv_event s e)) as [A [B [C D]]].
  pose proof (drv_event_tasks s e) as F. decompose [and] F.
  repeat split; congruence.
Qed.

Lemma Inv0_set_drv : forall s w r k, Inv0 s -> Inv0 (set_drv s (driver_alive s) w r k).
Proof. intros s w r k HI. ev_tac HI. Qed.

Lemma Inv0_drv_poll : forall s evs, forallb pev_ok evs = true -> Inv0 s -> Inv0 (drv_poll s evs).
Proof.
  intros s evs Hok HI. unfold drv_poll.
  destruct (driver_alive s) eqn:Ea; cbn [negb]; [|exact HI].
  assert (H1 : Inv0 (set_drv s true false false (drv_work s))).
  { rewrite <- Ea. apply Inv0_set_drv, HI. }
  apply (Inv0_drv_events evs _ Hok) in H1.
  destruct (drv_events_frame evs (set_drv s true false false (drv_work s))) as [A [B [C D]]].
  cbn_st_in A. set (s2 := fold_left drv_event evs _) in *.
  destruct (drained s2).
  - apply Inv0_drop_ref_driver; assumption.
  - rewrite <- A. apply Inv0_set_drv, H1.
Qed.

(** * drv_ok for every label *)
Lemma drv_ok_need_driver : forall s, drv_ok s -> drv_ok (need_driver s).
Proof.
  intros s H. unfold drv_ok, need_driver, wake_driver in *. cbn_st.
  destruct (drv_waker s) eqn:Ew; cbn_st; intros Ha; specialize (H Ha); intuition congruence.
Qed.

Definition drv_same (a b : st) : Prop :=
  driver_alive a = driver_alive b /\ drv_waker a = drv_waker b /\
  drv_runnable a = drv_runnable b /\ drv_work a = drv_work b.
Lemma drv_ok_same : forall a b, drv_same a b -> drv_ok b -> drv_ok a.
Proof. unfold drv_same, drv_ok. intros a b [A [B [C D]]] H. rewrite A, B, C, D. exact H. Qed.
Lemma drv_same_refl : forall a, drv_same a a.
Proof. unfold drv_same; auto. Qed.
Lemma drv_same_terminate : forall s c, drv_same (terminate s c) s.
Proof. intros. unfold drv_same. rewrite terminate_nf. cbn_st. auto. Qed.

Lemma drv_ok_close_conn : forall s, drv_ok s -> drv_ok (close_conn s).
Proof.
  intros s H. unfold close_conn. apply drv_ok_need_driver.
  eapply drv_ok_same; [apply drv_same_terminate|].
  eapply drv_ok_same; [|exact H]. unfold drv_same; cbn_st; auto.
Qed.

Lemma drv_ok_drop_ref : forall s h, drv_ok s -> drv_ok (drop_ref s h).
Proof.
  intros s h H. unfold drop_ref. cbn_st.
  assert (H1 : drv_ok (set_refs s (refcnt s - 1) (if h then (nhandles s - 1)%Z else nhandles s))).
  { eapply drv_ok_same; [|exact H]. unfold drv_same; cbn_st; auto. }
  destruct (Z.ltb 1 (refcnt s)); [exact H1|].
  destruct (inner_closed s); [exact H1|]. apply drv_ok_close_conn, H1.
Qed.

Lemma drv_ok_dead : forall s, driver_alive s = false -> drv_ok s.
Proof. unfold drv_ok. intros; congruence. Qed.

Lemma drv_ok_drv_poll : forall s evs, drv_ok s -> drv_ok (drv_poll s evs).
Proof.
  intros s evs H. unfold drv_poll.
  destruct (driver_alive s) eqn:Ea; cbn [negb]; [|exact H].
  destruct (drv_events_frame evs (set_drv s true false false (drv_work s))) as [A [B [C D]]].
  cbn_st_in A. cbn_st_in B. cbn_st_in C. cbn_st_in D.
  set (s2 := fold_left drv_event evs _) in *.
  destruct (drained s2).
  - apply drv_ok_drop_ref. apply drv_ok_dead. cbn_st. reflexivity.
  - unfold drv_ok. cbn_st. intros _. split; [right; reflexivity | discriminate].
Qed.

Lemma drv_ok_step_handles : forall s l, drv_ok s ->
  match l with AppPoll _ _ _ | AppDrop _ => True | _ => drv_ok (step' s l) end.
Proof.
  intros s l H. destruct l as [t o n|t|evs| |k|k|k| | |k|k]; auto; unfold step', step; cbn [fst].
  - apply drv_ok_drv_poll, H.
  - destruct (Z.ltb 0 (nhandles s)); auto using drv_ok_close_conn.
  - destruct (recv_h s k); [|exact H]. destruct (rborrow s k); [exact H|]. cbn [fst].
    apply drv_ok_need_driver. eapply drv_ok_same; [|exact H]. unfold drv_same; cbn_st; auto.
  - destruct (send_h s k); [|exact H]. destruct (wborrow s k); [exact H|]. cbn [fst].
    apply drv_ok_need_driver. eapply drv_ok_same; [|exact H]. unfold drv_same; cbn_st; auto.
  - destruct (send_h s k); [|exact H]. destruct (wborrow s k); [exact H|]. cbn [fst].
    apply drv_ok_need_driver. eapply drv_ok_same; [|exact H]. unfold drv_same; cbn_st; auto.
  - destruct (Z.ltb 0 (nhandles s)); [|exact H]. unfold add_ref.
    eapply drv_ok_same; [|exact H]. unfold drv_same; cbn_st; auto.
  - destruct (Z.ltb 0 (nhandles s)); auto using drv_ok_drop_ref.
  - destruct (recv_h s k); [|exact H]. destruct (rborrow s k); [exact H|]. cbn [fst].
    apply drv_ok_drop_ref. cbn_st. unfold closed. cbn_st.
    destruct (all_read s k); [eapply drv_ok_same; [|exact H]; unfold drv_same; cbn_st; auto|].
    destruct (err s); [eapply drv_ok_same; [|exact H]; unfold drv_same; cbn_st; auto|].
    apply drv_ok_need_driver. eapply drv_ok_same; [|exact H]. unfold drv_same; cbn_st; auto.
  - destruct (send_h s k); [|exact H]. destruct (wborrow s k); [exact H|]. cbn [fst].
    apply drv_ok_drop_ref. cbn_st. unfold closed. cbn_st.
    destruct (err s); [eapply drv_ok_same; [|exact H]; unfold drv_same; cbn_st; auto|].
    apply drv_ok_need_driver. eapply drv_ok_same; [|exact H]. unfold drv_same; cbn_st; auto.
Qed.

Lemma Inv0_step_handles : forall s l, label_no_reset_ack l = true -> Inv0 s ->
  match l with AppPoll _ _ _ | AppDrop _ => True | _ => Inv0 (step' s l) end.
Proof.
  intros s l Hok HI. destruct l as [t o n|t|evs| |k|k|k| | |k|k]; auto.
  - unfold step', step; cbn [fst]. apply Inv0_drv_poll; [|exact HI].
    cbn [label_no_reset_ack] in Hok. rewrite <- pev_no_reset_ack_forall. exact Hok.
  - apply Inv0_AppClose, HI.
  - apply Inv0_AppStop, HI.
  - apply Inv0_AppFinish, HI.
  - apply Inv0_AppReset, HI.
  - apply Inv0_HClone, HI.
  - apply Inv0_HDropConn, HI.
  - apply Inv0_HDropRecv, HI.
  - apply Inv0_HDropSend, HI.
Qed.
