(** Proofs about Model/Cmsg.v: the control buffer budget over the whole (finite) option space and
    the decode-after-encode law of the receive path. *)
From QV Require Import Lib.Tac Lib.Bytes Lib.Corr gen.Constants Model.UdpModel Model.Cmsg Proofs.BytesProofs.
Open Scope Z_scope.

(** * The option spaces are enumerated completely (finite domains: the sweep below is a proof). *)
Lemma in_all_bool b : In b all_bool.
Proof. destruct b; cbn; tauto. Qed.

Lemma all_sendopts_complete o : In o all_sendopts.
Proof.
  destruct o as [d e g s i c]. unfold all_sendopts.
  apply in_flat_map. exists d. split; [destruct d; cbn; tauto|].
  apply in_flat_map. exists e. split; [destruct e; cbn; tauto|].
  apply in_flat_map. exists g. split; [apply in_all_bool|].
  apply in_flat_map. exists s. split; [destruct s; cbn; tauto|].
  apply in_flat_map. exists i. split; [apply in_all_bool|].
  apply in_map_iff. exists c. split; [reflexivity|apply in_all_bool].
Qed.

Lemma all_recvopts_complete r : In r all_recvopts.
Proof.
  destruct r as [a b c d]. unfold all_recvopts.
  apply in_flat_map. exists a. split; [apply in_all_bool|].
  apply in_flat_map. exists b. split; [apply in_all_bool|].
  apply in_flat_map. exists c. split; [apply in_all_bool|].
  apply in_map_iff. exists d. split; [reflexivity|apply in_all_bool].
Qed.

(** [Encoder::push] asserts [control_len >= len + space] at every push; the running length is
    monotone, so the assertion never fires iff the total fits. *)
Lemma send_fits_sound L :
  send_fits_all L = true -> forall o, total_space L (send_sizes L o) <= l_buf L.
Proof.
  intros H o. unfold send_fits_all in H. rewrite forallb_forall in H.
  specialize (H o (all_sendopts_complete o)). unfold send_fits in H. lia.
Qed.

Lemma recv_fits_sound L :
  recv_fits_all L = true -> forall r, total_space L (recv_sizes L r) <= l_buf L.
Proof.
  intros H r. unfold recv_fits_all in H. rewrite forallb_forall in H.
  specialize (H r (all_recvopts_complete r)). unfold recv_fits in H. lia.
Qed.

(** Every prefix of the pushes fits as well (the assertion is evaluated after each one). *)
Lemma total_space_app L a b : total_space L (a ++ b) = total_space L a + total_space L b.
Proof. unfold total_space. induction a as [|x a IH]; cbn [app fold_right]; [lia|]. rewrite IH. lia. Qed.

Lemma cmsg_align_ge L n : 0 < l_align L -> n <= cmsg_align L n.
Proof. intro H. unfold cmsg_align. lia. Qed.

Lemma cmsg_space_nonneg L n : 0 < l_align L -> 0 <= l_hdr L -> 0 <= n -> 0 <= cmsg_space L n.
Proof.
  intros Ha Hh Hn. unfold cmsg_space.
  pose proof (cmsg_align_ge L (l_hdr L) Ha). pose proof (cmsg_align_ge L n Ha). lia.
Qed.

Lemma total_space_nonneg L sizes :
  0 < l_align L -> 0 <= l_hdr L -> Forall (fun n => 0 <= n) sizes -> 0 <= total_space L sizes.
Proof.
  intros Ha Hh H. unfold total_space. induction H as [|x l Hx Hl IH]; cbn [fold_right]; [lia|].
  pose proof (cmsg_space_nonneg L x Ha Hh Hx). lia.
Qed.

Lemma prefix_fits L sizes k :
  0 < l_align L -> 0 <= l_hdr L -> Forall (fun n => 0 <= n) sizes ->
  total_space L sizes <= l_buf L -> total_space L (firstn k sizes) <= l_buf L.
Proof.
  intros Ha Hh Hp Hf. rewrite <- (firstn_skipn k sizes) in Hf. rewrite total_space_app in Hf.
  assert (0 <= total_space L (skipn k sizes)).
  { apply total_space_nonneg; try assumption.
    rewrite <- (firstn_skipn k sizes) in Hp. apply Forall_app in Hp. tauto. }
  lia.
Qed.

(** * Little-endian fields *)
Lemma le_bytes_length n x : length (le_bytes n x) = n.
Proof. unfold le_bytes. rewrite rev_length. apply be_bytes_length. Qed.

Lemma le_val_le_bytes n x : le_val (le_bytes n x) = x mod 256 ^ Z.of_nat n.
Proof.
  unfold le_val, le_bytes. rewrite rev_involutive. rewrite be_val_be_bytes. lia.
Qed.

Lemma le_signed_le_bytes n x :
  - (256 ^ Z.of_nat n / 2) <= x < 256 ^ Z.of_nat n / 2 -> (0 < n)%nat ->
  le_signed (le_bytes n x) = x.
Proof.
  intros Hx Hn. unfold le_signed. rewrite le_val_le_bytes. unfold zlen. rewrite le_bytes_length.
  assert (Hw : 0 < 256 ^ Z.of_nat n) by (apply Z.pow_pos_nonneg; lia).
  assert (He : 256 ^ Z.of_nat n = 2 * (256 ^ Z.of_nat n / 2)).
  { destruct n as [|k]; [lia|]. rewrite Nat2Z.inj_succ, Z.pow_succ_r by lia. lia. }
  set (w := 256 ^ Z.of_nat n) in *.
  destruct (Z.ltb_spec (x mod w) (w / 2)) as [H|H].
  - destruct (Z.le_gt_cases 0 x) as [H0|H0].
    + apply Z.mod_small. lia.
    + exfalso. assert (x mod w = x + w).
      { symmetry. apply (Z.mod_unique x w (-1)); lia. } lia.
  - destruct (Z.le_gt_cases 0 x) as [H0|H0].
    + exfalso. rewrite Z.mod_small in H by lia. lia.
    + assert (x mod w = x + w).
      { symmetry. apply (Z.mod_unique x w (-1)); lia. } lia.
Qed.

(** * decode after encode, message by message (layout and numbers read from the compiled crate) *)
Section Roundtrip.
Let L := gen_layout.

Lemma zlen_app (a b : list Z) : zlen (a ++ b) = zlen a + zlen b.
Proof. unfold zlen. rewrite app_length. lia. Qed.

Lemma zlen_le_bytes n x : zlen (le_bytes n x) = Z.of_nat n.
Proof. unfold zlen. now rewrite le_bytes_length. Qed.

Lemma decode_tos m tos :
  decode_one L m {| c_level := UDP_IPPROTO_IP; c_type := UDP_IP_TOS; c_data := [tos] |}
  = Some (set_ecn m tos).
Proof. reflexivity. Qed.

Lemma decode_tclass m tos : 0 <= tos < 256 ->
  decode_one L m {| c_level := UDP_IPPROTO_IPV6; c_type := UDP_IPV6_TCLASS; c_data := le_bytes 4 tos |}
  = Some (set_ecn m tos).
Proof.
  intro H. unfold decode_one. cbn [c_level c_type c_data].
  change (kind_of UDP_IPPROTO_IPV6 UDP_IPV6_TCLASS) with KTclass. cbv iota beta.
  unfold expect_size. cbn [c_data]. rewrite zlen_le_bytes.
  change (Z.of_nat 4 =? l_int L) with true. cbv iota.
  rewrite le_val_le_bytes. change (256 ^ Z.of_nat 4) with 4294967296.
  f_equal. f_equal. lia.
Qed.

Lemma decode_gro m g : 0 <= g < 2 ^ 31 ->
  decode_one L m {| c_level := UDP_SOL_UDP; c_type := UDP_UDP_GRO; c_data := le_bytes 4 g |}
  = Some (set_stride m g).
Proof.
  intro H. unfold decode_one. cbn [c_level c_type c_data].
  change (kind_of UDP_SOL_UDP UDP_UDP_GRO) with KGro. cbv iota beta.
  unfold expect_size. cbn [c_data]. rewrite zlen_le_bytes.
  change (Z.of_nat 4 =? l_int L) with true. cbv iota.
  rewrite le_signed_le_bytes; [|change (256 ^ Z.of_nat 4) with 4294967296; lia|lia].
  cbv zeta. destruct (Z.ltb_spec g 0); [lia|reflexivity].
Qed.

Lemma decode_ts m s n : 0 <= s < 2 ^ 63 -> 0 <= n < 10 ^ 9 ->
  decode_one L m {| c_level := UDP_SOL_SOCKET; c_type := UDP_SCM_TIMESTAMPNS;
                    c_data := le_bytes 8 s ++ le_bytes 8 n |}
  = Some (set_ts m s n).
Proof.
  intros Hs Hn. unfold decode_one. cbn [c_level c_type c_data].
  change (kind_of UDP_SOL_SOCKET UDP_SCM_TIMESTAMPNS) with KTs. cbv iota beta.
  unfold expect_size. cbn [c_data]. rewrite zlen_app, !zlen_le_bytes.
  change (Z.of_nat 8 + Z.of_nat 8 =? l_timespec L) with true. cbv iota.
  rewrite firstn_app_exact by apply le_bytes_length.
  rewrite skipn_app_exact by apply le_bytes_length.
  change (10 ^ 9) with 1000000000 in *. change (2 ^ 63) with 9223372036854775808 in *.
  rewrite !le_signed_le_bytes;
    try (change (256 ^ Z.of_nat 8) with 18446744073709551616; lia); try lia.
  cbv zeta.
  destruct (Z.ltb_spec s 0); [lia|].
  change (2 ^ 32) with 4294967296.
  destruct (Z.leb_spec 0 n); [|lia]. destruct (Z.ltb_spec n 4294967296); [|lia].
  cbn [andb]. f_equal. unfold set_ts. f_equal. f_equal; f_equal.
  - rewrite Z.div_small by lia. lia.
  - apply Z.mod_small. lia.
Qed.

Lemma decode_pktinfo4 m ifx a : 0 <= ifx < 2 ^ 32 -> length a = 4%nat ->
  decode_one L m {| c_level := UDP_IPPROTO_IP; c_type := UDP_IP_PKTINFO;
                    c_data := le_bytes 4 ifx ++ a ++ a |}
  = Some (set_dst m (IpV4 a) ifx).
Proof.
  intros Hi Ha. unfold decode_one. cbn [c_level c_type c_data].
  change (kind_of UDP_IPPROTO_IP UDP_IP_PKTINFO) with KPkt4. cbv iota beta.
  unfold expect_size. cbn [c_data]. rewrite !zlen_app, zlen_le_bytes. unfold zlen. rewrite Ha.
  change (Z.of_nat 4 + (Z.of_nat 4 + Z.of_nat 4) =? l_pktinfo4 L) with true. cbv iota.
  rewrite firstn_app_exact by apply le_bytes_length.
  rewrite app_assoc. rewrite skipn_app_exact by (rewrite app_length, le_bytes_length; lia).
  rewrite firstn_all2 by lia.
  rewrite le_val_le_bytes. change (256 ^ Z.of_nat 4) with 4294967296.
  change (2 ^ 32) with 4294967296 in Hi. rewrite Z.mod_small by lia. reflexivity.
Qed.

Lemma decode_pktinfo6 m ifx a : 0 <= ifx < 2 ^ 32 -> length a = 16%nat ->
  decode_one L m {| c_level := UDP_IPPROTO_IPV6; c_type := UDP_IPV6_PKTINFO;
                    c_data := a ++ le_bytes 4 ifx |}
  = Some (set_dst m (IpV6 a) ifx).
Proof.
  intros Hi Ha. unfold decode_one. cbn [c_level c_type c_data].
  change (kind_of UDP_IPPROTO_IPV6 UDP_IPV6_PKTINFO) with KPkt6. cbv iota beta.
  unfold expect_size. cbn [c_data]. rewrite !zlen_app, zlen_le_bytes. unfold zlen. rewrite Ha.
  change (Z.of_nat 16 + Z.of_nat 4 =? l_pktinfo6 L) with true. cbv iota.
  rewrite firstn_app_exact by exact Ha.
  rewrite skipn_app_exact by exact Ha.
  rewrite firstn_all2 by (rewrite le_bytes_length; lia).
  rewrite le_val_le_bytes. change (256 ^ Z.of_nat 4) with 4294967296.
  change (2 ^ 32) with 4294967296 in Hi. rewrite Z.mod_small by lia. reflexivity.
Qed.

(** What the kernel attaches is what [decode_recv] reports: timestamp, GRO stride, destination
    address with interface index, ECN bits — for an IPv4 packet on an IPv4 socket, an IPv6 packet
    on an IPv6 socket and an IPv4 packet on a dual-stack socket (mapped destination), with or
    without timestamp and with or without coalescing. *)
Definition expected_meta (len : Z) (ts : option (Z * Z)) (gro : option Z) (dst : ipaddr) (ifx tos : Z) : meta :=
  {| m_ecn_bits := tos; m_dst := Some dst; m_ifx := Some ifx;
     m_stride := match gro with Some g => g | None => len end; m_ts := ts |}.

Definition addr_ok (dst : ipaddr) : Prop :=
  match dst with IpV4 a => length a = 4%nat | IpV6 a => length a = 16%nat end.

Lemma cmsg_roundtrip len ts gro dst ifx pkt4 tos :
  match ts with Some (s, n) => 0 <= s < 2 ^ 63 /\ 0 <= n < 10 ^ 9 | None => True end ->
  match gro with Some g => 0 <= g < 2 ^ 31 | None => True end ->
  addr_ok dst -> 0 <= ifx < 2 ^ 32 -> 0 <= tos < 256 ->
  decode_all L (init_meta len) (kernel_cmsgs L ts gro dst ifx pkt4 tos)
  = Some (expected_meta len ts gro dst ifx tos).
Proof.
  intros Hts Hgro Hdst Hifx Htos. unfold kernel_cmsgs.
  destruct ts as [[s n]|]; [destruct Hts as [Hs Hn]|];
  destruct gro as [g|]; destruct dst as [a|a]; destruct pkt4; cbn [app decode_all addr_ok] in *;
    repeat first [ rewrite decode_ts by assumption
                 | rewrite decode_gro by assumption
                 | rewrite decode_pktinfo4 by assumption
                 | rewrite decode_pktinfo6 by assumption
                 | rewrite decode_tos
                 | rewrite decode_tclass by assumption ];
    reflexivity.
Qed.
End Roundtrip.

(** The ECN bits reported are the two low bits of what was decoded. *)
Lemma ecn_bits_roundtrip e : ecn_of_bits (ecn_bits e) = e.
Proof. destruct e; reflexivity. Qed.

(** The concrete [prepare_msg] model (the one the correspondence runs) pushes exactly the payload
    sizes of its option combination, hence fits whenever the combination does. *)
Definition src_ok (src : option (list Z)) : Prop :=
  match src with None => True | Some a => length a = 4%nat \/ length a = 16%nat end.

Definition opt_of (dst : dstk) (seg : option Z) (src : option (list Z)) (einval : bool) : sendopt :=
  {| o_dst := dst; o_ecn := ENone; o_seg := match seg with Some _ => true | None => false end;
     o_src := match src with None => SNone | Some a => if Nat.eqb (length a) 4 then SV4 else SV6 end;
     o_einval := einval; o_encsrc := true |}.

Lemma prepare_cmsgs_sizes dst ecn seg src einval :
  src_ok src ->
  map (fun c => zlen (c_data c)) (prepare_cmsgs gen_layout dst ecn seg src einval)
  = send_sizes gen_layout (opt_of dst seg src einval).
Proof.
  intro Hs. unfold prepare_cmsgs, send_sizes, opt_of. cbn [o_dst o_seg o_src o_einval].
  rewrite !map_app. f_equal; [|f_equal].
  - destruct (is_ipv4 dst); [destruct einval|]; cbn [map c_data]; rewrite ?zlen_le_bytes; reflexivity.
  - destruct seg; cbn [map c_data]; rewrite ?zlen_le_bytes; reflexivity.
  - destruct src as [a|]; [|reflexivity]. cbn [src_ok] in Hs.
    destruct (Nat.eqb (length a) 4) eqn:E; cbn [map c_data]; rewrite !zlen_app, zlen_le_bytes.
    + apply Nat.eqb_eq in E. unfold zlen. rewrite E. reflexivity.
    + apply Nat.eqb_neq in E. destruct Hs as [H|H]; [congruence|]. unfold zlen. rewrite H. reflexivity.
Qed.

Lemma prepare_cmsgs_fits dst ecn seg src einval :
  send_fits_all gen_layout = true -> src_ok src ->
  cmsgs_space gen_layout (prepare_cmsgs gen_layout dst ecn seg src einval) <= l_buf gen_layout.
Proof.
  intros Hf Hs. unfold cmsgs_space. rewrite prepare_cmsgs_sizes by exact Hs.
  apply send_fits_sound. exact Hf.
Qed.
