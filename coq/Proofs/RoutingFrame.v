(** Isolation as a frame property: a step labelled with connection [a] leaves the record and the
    routing entries of every other connection [b] untouched. *)
From QV Require Import Lib.Tac Lib.Corr Model.Routing Proofs.RoutingMap Proofs.RoutingInv.
Open Scope Z_scope.

Record frame (b : Z) (s s' : st) : Prop := mkFrame {
  fr_conn : lookup [b] (s_conns s') = lookup [b] (s_conns s);
  fr_ids : forall k, k <> [] -> (lookup k (s_ids s') = Some b <-> lookup k (s_ids s) = Some b);
  fr_init : forall k, lookup k (s_init s') = Some (RConn b) -> lookup k (s_init s) = Some (RConn b);
  fr_in : forall k, lookup k (s_in s') = Some b -> lookup k (s_in s) = Some b;
  fr_out : forall k, lookup k (s_out s') = Some b -> lookup k (s_out s) = Some b;
  fr_tok : forall k, lookup k (s_tok s') = Some b -> lookup k (s_tok s) = Some b;
}.

Lemma frame_refl b s : frame b s s.
Proof. constructor; auto; tauto. Qed.

Lemma frame_trans b s1 s2 s3 : frame b s1 s2 -> frame b s2 s3 -> frame b s1 s3.
Proof.
  intros [A1 B1 C1 D1 E1 F1] [A2 B2 C2 D2 E2 F2]. constructor; auto.
  - congruence.
  - intros k N. rewrite B2 by exact N. apply B1. exact N.
Qed.

Lemma frame_ids b s ids' :
  (forall k, k <> [] -> (lookup k ids' = Some b <-> lookup k (s_ids s) = Some b)) ->
  frame b s (set_ids s ids').
Proof. intros H. constructor; st_simpl; auto. Qed.

Lemma frame_init b s init' :
  (forall k, lookup k init' = Some (RConn b) -> lookup k (s_init s) = Some (RConn b)) ->
  frame b s (set_init s init').
Proof. intros H. constructor; st_simpl; auto; tauto. Qed.

Lemma frame_in b s m' : (forall k, lookup k m' = Some b -> lookup k (s_in s) = Some b) -> frame b s (set_in s m').
Proof. intros H. constructor; st_simpl; auto; tauto. Qed.

Lemma frame_out b s m' : (forall k, lookup k m' = Some b -> lookup k (s_out s) = Some b) -> frame b s (set_out s m').
Proof. intros H. constructor; st_simpl; auto; tauto. Qed.

Lemma frame_tok b s m' : (forall k, lookup k m' = Some b -> lookup k (s_tok s) = Some b) -> frame b s (set_tok s m').
Proof. intros H. constructor; st_simpl; auto; tauto. Qed.

Lemma frame_incs b s v n x : frame b s (set_incs s v n x).
Proof. constructor; st_simpl; auto; tauto. Qed.

Lemma frame_update b s a m' : a <> b -> frame b s (update_conn s a m').
Proof.
  intros N. constructor; st_simpl; auto; try tauto.
  rewrite lookup_insert, lz_single. destruct (b =? a) eqn:E; [lia | reflexivity].
Qed.

Lemma frame_slab_insert b s m : vacant_key s <> b -> frame b s (slab_insert s m).
Proof.
  intros N. unfold slab_insert. destruct (s_free s); constructor; st_simpl; auto; try tauto;
    rewrite lookup_insert, lz_single; (destruct (b =? vacant_key s) eqn:E; [lia | reflexivity]).
Qed.

(** Map-level facts *)
Lemma ins_other (M : amap Z) k0 a b :
  a <> b -> forall k, lookup k (insert k0 a M) = Some b -> lookup k M = Some b.
Proof.
  intros N k. rewrite lookup_insert. destruct (lz_eqb k k0); [intros H; keq; congruence | auto].
Qed.

Lemma ids_insert_iff (M : amap Z) c a b :
  a <> b -> lookup c M <> Some b ->
  forall k, k <> [] -> (lookup k (insert c a M) = Some b <-> lookup k M = Some b).
Proof.
  intros N F k _. rewrite lookup_insert. destruct (lz_eqb k c) eqn:E; [|tauto].
  keq. subst. split; intros H; [keq; congruence | contradiction].
Qed.

Lemma ids_remove_iff (M : amap Z) c b :
  (c <> [] -> lookup c M <> Some b) ->
  forall k, k <> [] -> (lookup k (remove c M) = Some b <-> lookup k M = Some b).
Proof.
  intros F k Nk. rewrite lookup_remove. destruct (lz_eqb k c) eqn:E; [|tauto].
  keq. subst. split; intros H; [discriminate | exfalso; apply (F Nk); exact H].
Qed.

Lemma frame_remove_initial b s x s' : remove_initial s x = Some s' -> frame b s s'.
Proof.
  unfold remove_initial. destruct (is_nil x); [intros H; inversion H; apply frame_refl|].
  destruct (mem x (s_init s)); [|discriminate]. intros H; inversion H; subst.
  apply frame_init. intros k. apply submap_remove.
Qed.

Lemma frame_insert_initial_conn b s x a : a <> b -> frame b s (insert_initial s x (RConn a)).
Proof.
  intros N. unfold insert_initial. destruct (is_nil x); [apply frame_refl|].
  apply frame_init. intros k. rewrite lookup_insert. destruct (lz_eqb k x); [|auto].
  intros H. inversion H. congruence.
Qed.

Lemma frame_insert_initial_inc b s x j : frame b s (insert_initial s x (RInc j)).
Proof.
  unfold insert_initial. destruct (is_nil x); [apply frame_refl|].
  apply frame_init. intros k. rewrite lookup_insert. destruct (lz_eqb k x); [discriminate | auto].
Qed.

(** ** new_cid, issue *)
Lemma frame_cid_added b s a c s1 : a <> b -> cid_added s a c s1 -> frame b s s1.
Proof.
  intros N [[-> ->]|[F ->]]; [apply frame_refl|].
  apply frame_ids. apply ids_insert_iff; [exact N | congruence].
Qed.

Lemma frame_issue b a n : a <> b ->
  forall s str s' o, issue s a n str = Some (s', o) -> frame b s s'.
Proof.
  intros N. induction n as [|n IH]; intros s str s' o; cbn [issue].
  - intros H; inversion H; apply frame_refl.
  - destruct (new_cid s a str) as [[[c s1] str1]|] eqn:E; [|discriminate].
    apply new_cid_spec in E. pose proof (frame_cid_added b s a c s1 N E) as F1.
    destruct (lookup [a] (s_conns s1)) as [m|]; [|discriminate].
    match goal with |- match issue ?sx a n str1 with _ => _ end = _ -> _ =>
      destruct (issue sx a n str1) as [[s2 o2]|] eqn:R; [|discriminate];
      pose proof (IH _ _ _ _ R) as F3 end.
    intros H; inversion H; subst.
    eapply frame_trans; [exact F1|]. eapply frame_trans; [|exact F3]. apply frame_update. exact N.
Qed.

(** ** Drained *)
Lemma frame_drained b s a s' : Inv s -> a <> b -> do_drained fixed s a = Some s' -> frame b s s'.
Proof.
  intros I N. unfold do_drained, slab_remove.
  destruct (lookup [a] (s_conns s)) as [m|] eqn:L; [|intros H; inversion H; apply frame_refl].
  set (s1 := mkSt (s_len s) (s_pref s) (s_init s) (s_ids s) (s_in s) (s_out s) (s_tok s)
                  (remove [a] (s_conns s)) (a :: s_free s) (s_hwm s) (s_incs s) (s_nincs s)
                  (s_buf s) (s_epoch s)).
  assert (F1 : frame b s s1).
  { unfold s1. constructor; st_simpl; auto; try tauto.
    rewrite lookup_remove, lz_single. destruct (b =? a) eqn:E; [lia | reflexivity]. }
  unfold index_remove. cbn [v_guard fixed].
  destruct (if m_server m then remove_initial s1 (m_init m) else Some s1) as [s2|] eqn:R; [|discriminate].
  assert (F2 : frame b s1 s2).
  { destruct (m_server m); [eapply frame_remove_initial; eauto | inversion R; apply frame_refl]. }
  assert (Eids : s_ids s2 = s_ids s).
  { destruct (m_server m); [|inversion R; reflexivity].
    unfold remove_initial in R. destruct (is_nil (m_init m)); [inversion R; reflexivity|].
    destruct (mem (m_init m) (s_init s1)); [|discriminate]. inversion R; reflexivity. }
  intros H. inversion H; subst; clear H.
  eapply frame_trans; [exact F1|]. eapply frame_trans; [exact F2|].
  set (s3 := set_ids s2 (remove_all (map snd (m_loc m)) (s_ids s2))).
  assert (F3 : frame b s2 s3).
  { apply frame_ids. intros k Nk. rewrite lookup_remove_all, Eids.
    destruct (existsb (lz_eqb k) (map snd (m_loc m))) eqn:E; [|tauto].
    split; [discriminate|]. intros Hk. exfalso.
    apply existsb_lz in E. destruct (I_ok _ I _ _ L) as [A _ _ D].
    apply In_vals_lookup in E; [|exact D]. destruct E as [k1 Hk1].
    rewrite (A _ _ Hk1 Nk) in Hk. keq. congruence. }
  eapply frame_trans; [exact F3|].
  set (s4 := set_in s3 (remove_if [m_remote m; m_local m] a (s_in s3))).
  assert (F4 : frame b s3 s4) by (apply frame_in; intros k; apply submap_remove_if).
  eapply frame_trans; [exact F4|].
  set (s5 := set_out s4 (remove_if [m_remote m] a (s_out s4))).
  assert (F5 : frame b s4 s5) by (apply frame_out; intros k; apply submap_remove_if).
  eapply frame_trans; [exact F5|].
  destruct (m_tok m) as [rt|]; [|apply frame_refl].
  apply frame_tok. intros k. unfold tok_remove. cbn [v_guard fixed]. apply submap_remove_if.
Qed.

(** ** connect / accept *)
Lemma frame_add_connection b s a init locs issued loc r l server :
  vacant_key s = a -> a <> b -> (loc <> [] -> lookup loc (s_ids s) <> Some b) ->
  frame b s (add_connection s a init locs issued loc r l server).
Proof.
  intros Ev N F. unfold add_connection.
  set (m := mkMeta (s_epoch s) init issued locs r l server None).
  pose proof (frame_slab_insert b s m ltac:(congruence)) as F1.
  destruct (slab_insert_fields s m) as [Ei [Ein Eo]].
  eapply frame_trans; [exact F1|]. unfold insert_conn.
  destruct (is_nil loc) eqn:En.
  - destruct server; [apply frame_in | apply frame_out]; apply ins_other; exact N.
  - apply frame_ids. apply ids_insert_iff; [exact N | rewrite Ei; apply F].
    destruct loc; [discriminate | congruence].
Qed.

Lemma cid_added_lookup s a c s1 b :
  a <> b -> cid_added s a c s1 -> c <> [] -> lookup c (s_ids s1) <> Some b.
Proof.
  intros N [[-> ->]|[F ->]] Nc; [congruence|].
  st_simpl. rewrite lookup_insert, lz_eqb_refl. intros H. keq. congruence.
Qed.



Lemma cid_added_vacant s a c s1 : cid_added s a c s1 -> vacant_key s1 = vacant_key s.
Proof. intros [[_ ->]|[_ ->]]; reflexivity. Qed.

Lemma frame_connect b s r fail cands s' o :
  vacant_key s <> b -> op_connect fixed s r fail cands = Some (s', o) -> frame b s s'.
Proof.
  intros N. unfold op_connect.
  destruct (cids_exhausted s); [intros H; inversion H; apply frame_refl|].
  destruct (r =? 0); [intros H; inversion H; apply frame_refl|].
  destruct (new_cid s (vacant_key s) (stream (s_len s) cands)) as [[[loc s1] rest]|] eqn:E; [|discriminate].
  apply new_cid_spec in E.
  pose proof (frame_cid_added b s _ loc s1 N E) as F1.
  pose proof (cid_added_lookup s _ loc s1 b N E) as Hl.
  destruct (negb (fail =? 0)); cbn [v_cleanup fixed]; intros H; inversion H; subst; clear H;
    (eapply frame_trans; [exact F1|]).
  - apply frame_ids. apply ids_remove_iff. exact Hl.
  - apply frame_add_connection; [apply (cid_added_vacant _ _ _ _ E) | exact N | exact Hl].
Qed.

Lemma frame_accept b s k stale cands s' o :
  Inv s -> vacant_key s <> b -> op_accept fixed s k stale cands = Some (s', o) -> frame b s s'.
Proof.
  intros I N. unfold op_accept.
  destruct (lookup [k] (s_incs s)) as [i|]; [|intros H; inversion H; apply frame_refl].
  set (s0 := set_incs s (remove [k] (s_incs s)) (s_nincs s) (s_buf s - i_bytes i)).
  assert (I0 : Inv s0) by (apply Inv_set_incs; exact I).
  assert (F0 : frame b s s0) by apply frame_incs.
  destruct (negb (stale =? 0)).
  { destruct (remove_initial s0 (i_dcid i)) as [s1|] eqn:R; [|discriminate].
    intros H. inversion H; subst. eapply frame_trans; [exact F0 | eapply frame_remove_initial; eauto]. }
  destruct (cids_exhausted s0).
  { destruct (remove_initial s0 (i_dcid i)) as [s1|] eqn:R; [|discriminate].
    intros H. inversion H; subst. eapply frame_trans; [exact F0 | eapply frame_remove_initial; eauto]. }
  change (vacant_key s0) with (vacant_key s). set (a := vacant_key s) in *.
  destruct (new_cid s0 a (stream (s_len s) cands)) as [[[loc s1] str1]|] eqn:N1; [|discriminate].
  apply new_cid_spec in N1. pose proof (frame_cid_added b s0 a loc s1 N N1) as F1.
  apply cid_added_form in N1. destruct N1 as [ids1 [-> [Mono1 [New1 [Hl1 _]]]]].
  assert (Fin : forall s3 m, Inv s3 -> frame b s s3 -> live s3 a m -> m_server m = true -> m_init m = i_dcid i ->
                  (if i_bad i =? 1
                   then match do_drained fixed (insert_initial s3 (i_dcid i) (RConn a)) a with
                        | Some s5 => Some (s5, [1; 3])
                        | None => None
                        end
                   else Some (insert_initial s3 (i_dcid i) (RConn a), [0; a])) = Some (s', o) ->
                  frame b s s').
  { intros s3 m I3 F3 L3 Sv Ei.
    pose proof (Inv_insert_initial_conn s3 (i_dcid i) a m I3 L3 Sv Ei) as I4.
    pose proof (frame_insert_initial_conn b s3 (i_dcid i) a N) as F4.
    destruct (i_bad i =? 1).
    - destruct (do_drained fixed (insert_initial s3 (i_dcid i) (RConn a)) a) as [s5|] eqn:D; [|discriminate].
      intros H. inversion H; subst.
      eapply frame_trans; [exact F3|]. eapply frame_trans; [exact F4|]. eapply frame_drained; eauto.
    - intros H. inversion H; subst. eapply frame_trans; [exact F3 | exact F4]. }
  destruct (s_pref s).
  - destruct (new_cid (set_ids s0 ids1) a str1) as [[[c2 s2] str2]|] eqn:N2; [|discriminate].
    apply new_cid_spec in N2. pose proof (frame_cid_added b _ a c2 s2 N N2) as F2.
    apply cid_added_form in N2. destruct N2 as [ids2 [-> [Mono2 [New2 [Hl2 Hf2]]]]].
    change (s_ids (set_ids s0 ids1)) with ids1 in *.
    change (set_ids (set_ids s0 ids1) ids2) with (set_ids s0 ids2) in *.
    pose proof (Inv_add_connection s0 ids2 (i_dcid i) [([1], c2); ([0], loc)] 2 loc (i_remote i) (i_local i) true I0) as A.
    cbv zeta in A. destruct A as [I3 L3].
    + intros c0 ch0 H. auto.
    + intros c0 ch0 H. destruct (New2 _ _ H) as [H0|[-> ->]].
      * destruct (New1 _ _ H0) as [H1|[-> ->]]; [auto|]. right. split; [reflexivity|].
        exists [0]. st_simpl. cbn [lookup]. destruct (lz_eqb [0] [1]) eqn:E; [keq; lia|]. rewrite lz_eqb_refl. reflexivity.
      * right. split; [reflexivity|]. exists [1]. st_simpl. cbn [lookup]. rewrite lz_eqb_refl. reflexivity.
    + apply ok_pair; auto.
      intros Nl E. subst c2. rewrite (Hf2 Nl) in Hl1. specialize (Hl1 Nl). discriminate.
    + auto.
    + eapply Fin; eauto.
      eapply frame_trans; [exact F0|]. eapply frame_trans; [exact F1|]. eapply frame_trans; [exact F2|].
      apply frame_add_connection; [reflexivity | exact N |].
      intros Nl. st_simpl. rewrite (Mono2 _ _ (Hl1 Nl)). intros H. keq. congruence.
  - pose proof (Inv_add_connection s0 ids1 (i_dcid i) [([0], loc)] 1 loc (i_remote i) (i_local i) true I0) as A.
    cbv zeta in A. destruct A as [I3 L3].
    + auto.
    + intros c0 ch0 H. destruct (New1 _ _ H) as [H1|[-> ->]]; [auto|]. right. split; [reflexivity|].
      exists [0]. st_simpl. cbn [lookup]. rewrite lz_eqb_refl. reflexivity.
    + apply ok_single. exact Hl1.
    + exact Hl1.
    + eapply Fin; eauto.
      eapply frame_trans; [exact F0|]. eapply frame_trans; [exact F1|].
      apply frame_add_connection; [reflexivity | exact N |].
      intros Nl. st_simpl. rewrite (Hl1 Nl). intros H. keq. congruence.
Qed.

Lemma frame_datagram b s kind r l t bd dcid s' o :
  op_datagram s kind r l t bd dcid = Some (s', o) -> frame b s s'.
Proof.
  unfold op_datagram.
  destruct (get s kind r l t dcid) as [[k|ch]|].
  - destruct (lookup [k] (s_incs s)) as [i|]; [|discriminate].
    destruct ((i_bytes i + datagram_len kind bd <=? INC_BUF) && (s_buf s + datagram_len kind bd <=? INC_BUF_TOTAL));
      intros H; inversion H; subst; [apply frame_incs | apply frame_refl].
  - intros H; inversion H; apply frame_refl.
  - destruct (kind =? 1).
    + destruct (datagram_len kind bd <? MIN_INITIAL); [intros H; inversion H; apply frame_refl|].
      destruct (cids_exhausted s); [intros H; inversion H; apply frame_refl|].
      destruct (Z.of_nat (length dcid) <? 8); [intros H; inversion H; apply frame_refl|].
      intros H; inversion H; subst.
      eapply frame_trans; [apply frame_incs | apply frame_insert_initial_inc].
    + destruct (negb (kind =? 0)); [intros H; inversion H; apply frame_refl|].
      destruct (is_nil dcid); intros H; inversion H; apply frame_refl.
Qed.

Lemma frame_reject b s k s' o : op_reject s k = Some (s', o) -> frame b s s'.
Proof.
  unfold op_reject.
  destruct (lookup [k] (s_incs s)) as [i|]; [|intros H; inversion H; apply frame_refl].
  destruct (remove_initial s (i_dcid i)) as [s1|] eqn:R; [|discriminate].
  intros H; inversion H; subst.
  eapply frame_trans; [eapply frame_remove_initial; eauto | apply frame_incs].
Qed.

Lemma frame_retire b s a seq allow cands s' o :
  Inv s -> a <> b -> op_retire s a seq allow cands = Some (s', o) -> frame b s s'.
Proof.
  intros I N. unfold op_retire.
  destruct (lookup [a] (s_conns s)) as [m|] eqn:L; [|discriminate].
  destruct (lookup [seq] (m_loc m)) as [c|] eqn:Hc; [|intros H; inversion H; apply frame_refl].
  match goal with |- context [update_conn s a ?mm] => set (m' := mm) end.
  assert (F1 : frame b s (update_conn s a m')) by (apply frame_update; exact N).
  assert (F2 : frame b (update_conn s a m') (set_ids (update_conn s a m') (remove c (s_ids (update_conn s a m'))))).
  { apply frame_ids. apply ids_remove_iff. intros Nc. st_simpl.
    destruct (I_ok _ I _ _ L) as [A _ _ _]. rewrite (A _ _ Hc Nc). intros H. keq. congruence. }
  destruct (negb (allow =? 0)).
  - match goal with |- match ?x with _ => _ end = _ -> _ => destruct x as [[s3 o3]|] eqn:R; [|discriminate] end.
    intros H; inversion H; subst.
    eapply frame_trans; [exact F1|]. eapply frame_trans; [exact F2|]. eapply frame_issue; eauto.
  - intros H; inversion H; subst. eapply frame_trans; [exact F1 | exact F2].
Qed.

Lemma frame_token b s a r t s' o :
  a <> b -> op_token fixed s a r t = Some (s', o) -> frame b s s'.
Proof.
  intros N. unfold op_token.
  destruct (lookup [a] (s_conns s)) as [m|] eqn:L; [|discriminate].
  match goal with |- context [update_conn s a ?mm] => set (m' := mm) end.
  assert (F1 : frame b s (update_conn s a m')) by (apply frame_update; exact N).
  intros H; inversion H; subst; clear H.
  eapply frame_trans; [exact F1|].
  eapply frame_trans; [|apply frame_tok; apply ins_other; exact N].
  destruct (m_tok m) as [old|]; [|apply frame_refl].
  apply frame_tok. intros k. unfold tok_remove. cbn [v_guard fixed]. apply submap_remove_if.
Qed.

(** The connection a step is about: the one it creates, changes or removes. *)
Definition label (s : st) (op : list Z) : option Z :=
  match op with
  | [] => None
  | opc :: args =>
      if (opc =? 1) || (opc =? 3) then Some (vacant_key s)
      else if in_range 5 8 opc then match args with ch :: _ => Some ch | [] => None end
      else None
  end.

(** [isolation]: a step labelled with connection [a] leaves every other connection [b] alone:
    its record is unchanged, exactly the same (non-empty) CIDs route to it, and it gains no
    initial-DCID, tuple or reset-token entry. *)
Theorem step_frame s op s' o b :
  Inv s -> step s op = Some (s', o) -> label s op <> Some b -> frame b s s'.
Proof.
  intros I. unfold step, step_v, label.
  assert (B : Some (s, [-1]) = Some (s', o) -> frame b s s') by (intros H; inversion H; apply frame_refl).
  destruct op as [|opc args]; [intros H _; exact (B H)|].
  destruct (opc =? 1) eqn:E1.
  { cbn [orb]. intros H Nl. assert (N : vacant_key s <> b) by congruence.
    destruct args as [|r [|fail rest]]; try exact (B H).
    destruct (parse_cands (s_len s) rest) as [cands|]; [|exact (B H)]. eapply frame_connect; eauto. }
  destruct (opc =? 2) eqn:E2.
  { intros H _. destruct args as [|kind [|r [|l [|t [|bd [|dlen dcid]]]]]]; try exact (B H).
    revert H. match goal with |- (if ?c then _ else _) = _ -> _ => destruct c; [|exact B] end.
    apply frame_datagram. }
  destruct (opc =? 3) eqn:E3.
  { cbn [orb]. intros H Nl. assert (N : vacant_key s <> b) by congruence.
    destruct args as [|k [|stale rest]]; try exact (B H).
    destruct (parse_cands (s_len s) rest) as [cands|]; [|exact (B H)]. eapply frame_accept; eauto. }
  cbn [orb].
  destruct (opc =? 4) eqn:E4.
  { intros H _. destruct args as [|k [|md [|? ?]]]; try exact (B H). eapply frame_reject; eauto. }
  assert (R58 : opc =? 5 = true \/ opc =? 6 = true \/ opc =? 7 = true \/ opc =? 8 = true -> in_range 5 8 opc = true).
  { unfold in_range. intros [H|[H|[H|H]]]; lia. }
  destruct (opc =? 5) eqn:E5.
  { rewrite R58 by auto. intros H Nl. destruct args as [|ch [|n rest]]; try exact (B H).
    assert (N : ch <> b) by congruence.
    destruct (parse_cands (s_len s) rest) as [cands|]; [|exact (B H)].
    destruct ((0 <=? ch) && in_range 0 64 n); [|exact (B H)].
    unfold op_issue in H. destruct (issue s ch (Z.to_nat n) (stream (s_len s) cands)) as [[s1 o1]|] eqn:R; [|discriminate].
    inversion H; subst. eapply frame_issue; eauto. }
  destruct (opc =? 6) eqn:E6.
  { rewrite R58 by auto. intros H Nl. destruct args as [|ch [|seq [|allow rest]]]; try exact (B H).
    assert (N : ch <> b) by congruence.
    destruct (parse_cands (s_len s) rest) as [cands|]; [|exact (B H)].
    destruct ((0 <=? ch) && (0 <=? seq)); [|exact (B H)]. eapply frame_retire; eauto. }
  destruct (opc =? 7) eqn:E7.
  { rewrite R58 by auto. intros H Nl. destruct args as [|ch [|r [|t [|? ?]]]]; try exact (B H).
    assert (N : ch <> b) by congruence.
    destruct (0 <=? ch); [|exact (B H)]. eapply frame_token; eauto. }
  destruct (opc =? 8) eqn:E8.
  { rewrite R58 by auto. intros H Nl. destruct args as [|ch [|? ?]]; try exact (B H).
    assert (N : ch <> b) by congruence.
    destruct (0 <=? ch); [|exact (B H)]. unfold op_drained in H.
    destruct (do_drained fixed s ch) as [s1|] eqn:D; [|discriminate].
    inversion H; subst. eapply frame_drained; eauto. }
  intros H _. exact (B H).
Qed.
