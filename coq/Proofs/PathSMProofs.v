(** Proofs about Model/PathSM.v: the invariant of the path state machine and the single-step
    facts the C15 theorems are made of. *)
From QV Require Import Lib.Tac Lib.Chk Lib.Corr Proofs.ChkProofs gen.Constants.
From QV Require Import Model.PathSM.
From QV Require Proofs.AntiAmpProofs.
Module AAP := QV.Proofs.AntiAmpProofs.
Open Scope Z_scope.

(** * Well-formed operations: sizes are non-negative, a batch respects the segment size. *)
Definition op_wf (mtu : Z) (o : op) : Prop :=
  match o with
  | Datagram d => 0 <= d_size d
  | Timeout _ => True
  | Transmit seg max ds => 0 <= seg <= mtu /\ AAP.ds_ok seg ds 0
  end.

(** * The invariant *)
Definition Inv (s : st) : Prop :=
  (challenge (cur s) = None <-> validated (cur s) = true) /\
  (validated (cur s) = true ->
     last_valid s = remote (cur s) /\ timer s = None /\ forall p, prev s = Some p -> pending p = false) /\
  (validated (cur s) = false ->
     timer s <> None /\ exists p, prev s = Some p /\ validated p = true /\ remote p = last_valid s) /\
  (forall q, In q (seen s) -> q <= rx_packet s).

(** while the current path is unvalidated its counters are the result of a C07 history that
    started from a fresh path *)
Definition Hist (mtu : Z) (s : st) : Prop :=
  validated (cur s) = false ->
  exists h, Forall (AAP.op_wf mtu) h /\ AA.steps (AA.fresh false) h = Some (aa (cur s)).

Lemma init_inv srv mig a : Inv (init srv mig a).
Proof.
  unfold Inv, init, validated. cbn. repeat split; intros; try reflexivity; try discriminate; try contradiction.
Qed.

Lemma init_hist mtu srv mig a : Hist mtu (init srv mig a).
Proof. unfold Hist, init, validated. cbn. discriminate. Qed.

Lemma Inv_ext s s' :
  cur s' = cur s -> prev s' = prev s -> timer s' = timer s -> seen s' = seen s ->
  rx_packet s' = rx_packet s -> last_valid s' = last_valid s -> Inv s -> Inv s'.
Proof. intros E1 E2 E3 E4 E5 E6 H. unfold Inv. rewrite E1, E2, E3, E4, E5, E6. exact H. Qed.

(** the invariant only reads [validated], [challenge] and [remote] of the current path *)
Lemma Inv_cur s s' :
  validated (cur s') = validated (cur s) -> challenge (cur s') = challenge (cur s) ->
  remote (cur s') = remote (cur s) ->
  prev s' = prev s -> timer s' = timer s -> seen s' = seen s ->
  rx_packet s' = rx_packet s -> last_valid s' = last_valid s -> Inv s -> Inv s'.
Proof. intros E0 E1 E1' E2 E3 E4 E5 E6 H. unfold Inv. rewrite E0, E1, E1', E2, E3, E4, E5, E6. exact H. Qed.

Lemma inv_chal_none s : Inv s -> challenge (cur s) = None -> validated (cur s) = true.
Proof. intros (I1 & _) H. apply I1. exact H. Qed.

Lemma inv_chal_some s t : Inv s -> challenge (cur s) = Some t -> validated (cur s) = false.
Proof.
  intros (I1 & _) H. destruct (validated (cur s)) eqn:E; [|reflexivity].
  destruct I1 as [_ I1]. rewrite (I1 eq_refl) in H. discriminate.
Qed.

Lemma inv_timer s dl : Inv s -> timer s = Some dl -> validated (cur s) = false.
Proof.
  intros (_ & I2 & _) H. destruct (validated (cur s)) eqn:E; [|reflexivity].
  destruct (I2 eq_refl) as (_ & Hn & _). congruence.
Qed.

Lemma inv_unvalidated s :
  Inv s -> validated (cur s) = false ->
  timer s <> None /\ exists p, prev s = Some p /\ validated p = true /\ remote p = last_valid s.
Proof. intros (_ & _ & I3 & _) H. exact (I3 H). Qed.

(** * Frames *)
Definition stable (s s' : st) : Prop :=
  server s' = server s /\ migration s' = migration s /\ remote (cur s') = remote (cur s) /\
  rx_packet s' = rx_packet s /\ seen s' = seen s /\ counter s' = counter s /\
  gen (cur s') = gen (cur s).

Lemma stable_refl s : stable s s.
Proof. unfold stable. repeat split. Qed.

Lemma stable_trans a b c : stable a b -> stable b c -> stable a c.
Proof. unfold stable. intuition congruence. Qed.

Lemma process_frame_stable from pn s f : stable s (process_frame from pn s f).
Proof.
  destruct f as [|tok|tok|]; cbn [process_frame]; try apply stable_refl.
  - unfold stable. cbn. repeat split.
  - destruct (challenge (cur s)) as [t|]; [|apply stable_refl].
    destruct ((t =? tok) && (from =? remote (cur s))); [|apply stable_refl].
    unfold stable. cbn. repeat split.
Qed.

Lemma fold_frames_stable from pn fs : forall s, stable s (fold_left (process_frame from pn) fs s).
Proof.
  induction fs as [|f fs IH]; intro s; cbn [fold_left]; [apply stable_refl|].
  eapply stable_trans; [apply process_frame_stable|apply IH].
Qed.

Lemma clear_challenge_validated p : validated (clear_challenge p) = validated p.
Proof. reflexivity. Qed.

Lemma process_frame_inv from pn s f : Inv s -> Inv (process_frame from pn s f).
Proof.
  intros H.
  destruct f as [|tok|tok|]; cbn [process_frame]; try exact H.
  destruct (challenge (cur s)) as [t|] eqn:Ec; [|exact H].
    destruct ((t =? tok) && (from =? remote (cur s))) eqn:Em; [|exact H].
    destruct H as (I1 & I2 & I3 & I4).
    unfold Inv, validated. cbn. split; [split; reflexivity|].
    split; [intros _; split; [reflexivity|split; [reflexivity|]]|].
    { intros p Hp. destruct (prev s) as [q|]; [|discriminate]. inversion Hp; subst. reflexivity. }
    split; [discriminate|]. exact I4.
Qed.

Lemma fold_frames_inv from pn fs : forall s, Inv s -> Inv (fold_left (process_frame from pn) fs s).
Proof.
  induction fs as [|f fs IH]; intros s H; cbn [fold_left]; [exact H|]. apply IH. apply process_frame_inv. exact H.
Qed.

Lemma process_frame_hist mtu from pn s f : Hist mtu s -> Hist mtu (process_frame from pn s f).
Proof.
  intro H. destruct f as [|tok|tok|]; cbn [process_frame]; try exact H.
  destruct (challenge (cur s)) as [t|]; [|exact H].
  destruct ((t =? tok) && (from =? remote (cur s))); [|exact H].
  unfold Hist, validated. cbn. discriminate.
Qed.

Lemma fold_frames_hist mtu from pn fs : forall s, Hist mtu s -> Hist mtu (fold_left (process_frame from pn) fs s).
Proof.
  induction fs as [|f fs IH]; intros s H; cbn [fold_left]; [exact H|]. apply IH. apply process_frame_hist. exact H.
Qed.

(** a PATH_RESPONSE from another address, or with another token, changes nothing *)
Lemma response_elsewhere_changes_nothing from pn s tok :
  (from <> remote (cur s) \/ challenge (cur s) <> Some tok) ->
  process_frame from pn s (FResponse tok) = s.
Proof.
  intro H. cbn [process_frame]. destruct (challenge (cur s)) as [t|] eqn:Ec; [|reflexivity].
  destruct ((t =? tok) && (from =? remote (cur s))) eqn:Em; [|reflexivity].
  apply andb_true_iff in Em as [E1 E2]. apply Z.eqb_eq in E1. apply Z.eqb_eq in E2. subst.
  destruct H as [H|H]; contradiction.
Qed.

(** the matching PATH_RESPONSE from the path's own address validates it *)
Lemma matching_response_validates from pn s tok :
  challenge (cur s) = Some tok -> from = remote (cur s) ->
  let s' := process_frame from pn s (FResponse tok) in
  validated (cur s') = true /\ challenge (cur s') = None /\ timer s' = None /\
  remote (cur s') = remote (cur s) /\ last_valid s' = remote (cur s).
Proof.
  intros Hc Hf. cbn [process_frame]. rewrite Hc, Hf, !Z.eqb_refl. cbn. repeat split.
Qed.

(** * migrate *)
Lemma migrate_shape s d :
  let s' := migrate s d in
  remote (cur s') = d_from d /\ aa (cur s') = AA.fresh false /\ validated (cur s') = false /\
  challenge (cur s') = Some (d_tok_new d) /\ pending (cur s') = true /\
  timer s' = Some (d_now d + 3 * Z.max (d_pto_new d) (d_pto_prev d)) /\
  last_valid s' = last_valid s /\
  prev s' = (match challenge (cur s) with
             | None => Some (mkp (remote (cur s)) (aa (cur s)) (Some (d_tok_prev d)) true (gen (cur s)))
             | Some _ => prev s end).
Proof. cbn. repeat split. Qed.

Lemma migrate_inv s d : Inv s -> Inv (migrate s d).
Proof.
  intros HI. pose proof HI as (I1 & I2 & I3 & I4). unfold Inv, migrate, validated. cbn.
  split; [split; discriminate|]. split; [discriminate|]. split; [|exact I4].
  intros _. split; [discriminate|].
  destruct (challenge (cur s)) as [t|] eqn:Ec.
  - pose proof (inv_chal_some s t HI Ec) as Hv.
    destruct (I3 Hv) as (_ & p & Hp & Hpv & Hpr). exists p. repeat split; assumption.
  - pose proof (inv_chal_none s HI Ec) as Hv.
    destruct (I2 Hv) as (Hl & _). eexists. split; [reflexivity|]. unfold validated. cbn. split; [exact Hv|]. symmetry. exact Hl.
Qed.

Lemma migrate_hist mtu s d : Hist mtu (migrate s d).
Proof. intros _. exists []. split; [constructor|reflexivity]. Qed.

(** * handle_packet *)
Lemma handle_packet_inv s d : Inv s -> Inv (handle_packet s d).
Proof.
  intro H. unfold handle_packet.
  destruct (negb (d_auth d)); [exact H|].
  destruct (d_old d || memz (d_pn d) (seen s)); [exact H|].
  match goal with |- Inv (if ?c then migrate ?s2 d else ?s2) => assert (Inv s2) as H2 end.
  { apply fold_frames_inv. destruct H as (I1 & I2 & I3 & I4). unfold Inv. cbn [cur prev timer seen rx_packet last_valid].
    split; [exact I1|]. split; [exact I2|]. split; [exact I3|].
    intros q [Hq|Hq]; destruct (rx_packet s <=? d_pn d) eqn:E; try (specialize (I4 q Hq)); lia. }
  match goal with |- Inv (if ?c then _ else _) => destruct c end; [apply migrate_inv|]; exact H2.
Qed.

Lemma handle_packet_hist mtu s d : Hist mtu s -> Hist mtu (handle_packet s d).
Proof.
  intro H. unfold handle_packet.
  destruct (negb (d_auth d)); [exact H|].
  destruct (d_old d || memz (d_pn d) (seen s)); [exact H|].
  match goal with |- Hist mtu (if ?c then _ else _) => destruct c end; [apply migrate_hist|].
  apply fold_frames_hist. exact H.
Qed.

Lemma steps_app_aa : forall h s s1 o,
  AA.steps s h = Some s1 -> AA.steps s (h ++ [o]) = match AA.step s1 o with Some (s2, _) => Some s2 | None => None end.
Proof.
  induction h as [|x h IH]; intros s s1 o H; cbn [AA.steps app] in *.
  - inversion H; subst. destruct (AA.step s1 o) as [[s2 ?]|]; reflexivity.
  - destruct (AA.step s x) as [[s' ?]|]; [|discriminate]. apply IH. exact H.
Qed.

Lemma credit_inv s n : Inv s -> Inv (credit s n).
Proof. apply (Inv_cur s); reflexivity. Qed.

Lemma credit_hist mtu s n : 0 <= n -> Hist mtu s -> Hist mtu (credit s n).
Proof.
  intros Hn H Hv. unfold credit, validated in Hv. cbn in Hv. destruct (H Hv) as (h & Hwf & Hs).
  exists (h ++ [[1; n]]). split.
  - apply Forall_app. split; [exact Hwf|]. constructor; [|constructor]. exact Hn.
  - rewrite (steps_app_aa _ _ _ _ Hs). reflexivity.
Qed.

Lemma handle_datagram_inv s d : Inv s -> Inv (handle_datagram s d).
Proof.
  intro H. unfold handle_datagram.
  destruct (negb (d_from d =? remote (cur s)) && negb (may_migrate s)); [exact H|].
  match goal with |- Inv (if ?c then _ else _) => destruct c end; [apply credit_inv|]; apply handle_packet_inv; exact H.
Qed.

Lemma handle_datagram_hist mtu s d : 0 <= d_size d -> Hist mtu s -> Hist mtu (handle_datagram s d).
Proof.
  intros Hn H. unfold handle_datagram.
  destruct (negb (d_from d =? remote (cur s)) && negb (may_migrate s)); [exact H|].
  match goal with |- Hist mtu (if ?c then _ else _) => destruct c end; [apply credit_hist; [exact Hn|]|];
    apply handle_packet_hist; exact H.
Qed.

(** * timeout *)
Lemma handle_timeout_inv s now : Inv s -> Inv (handle_timeout s now).
Proof.
  intros H. unfold handle_timeout. destruct (timer s) as [dl|] eqn:Et; [|exact H].
  destruct (dl <=? now); [|exact H].
  pose proof (inv_timer s dl H Et) as Hv.
  destruct (inv_unvalidated s H Hv) as (_ & p & Hp & Hpv & Hpr). rewrite Hp.
  destruct H as (I1 & I2 & I3 & I4).
  unfold Inv, validated in *. cbn.
  split; [split; intros _; [exact Hpv|reflexivity]|].
  split; [intros _; split; [symmetry; exact Hpr|split; [reflexivity|discriminate]]|].
  split; [congruence|exact I4].
Qed.

Lemma handle_timeout_hist mtu s now : Inv s -> Hist mtu s -> Hist mtu (handle_timeout s now).
Proof.
  intros HI H. unfold handle_timeout. destruct (timer s) as [dl|] eqn:Et; [|exact H].
  destruct (dl <=? now); [|exact H].
  pose proof (inv_timer s dl HI Et) as Hv.
  destruct (inv_unvalidated s HI Hv) as (_ & p & Hp & Hpv & Hpr). rewrite Hp.
  unfold Hist, validated in *. cbn. intro Hc. congruence.
Qed.

(** the fallback: a due validation timer puts the connection back on the most recently validated
    path, which is what [prev_path] holds *)
Lemma timeout_reverts s now dl :
  Inv s -> timer s = Some dl -> dl <= now ->
  let s' := handle_timeout s now in
  validated (cur s) = false /\
  remote (cur s') = last_valid s /\ validated (cur s') = true /\ challenge (cur s') = None /\
  prev s' = None /\ timer s' = None /\ last_valid s' = last_valid s /\
  exists p, prev s = Some p /\ cur s' = clear_challenge p.
Proof.
  intros HI Ht Hle.
  pose proof (inv_timer s dl HI Ht) as Hv.
  destruct (inv_unvalidated s HI Hv) as (_ & p & Hp & Hpv & Hpr).
  unfold handle_timeout. rewrite Ht. replace (dl <=? now) with true by lia. rewrite Hp. cbn.
  repeat split; try assumption. exists p. split; reflexivity.
Qed.

(** * transmit *)
Lemma poll_validated a seg max ds a' n t : AA.poll a seg max ds = Some (a', n, t) -> AA.validated a' = AA.validated a.
Proof.
  unfold AA.poll. destruct (AA.batch a seg max ds 0 0) as [r|]; cbn [obind]; [|discriminate].
  intro H. inversion H; subst. reflexivity.
Qed.

Lemma transmit_main_inv s seg max ds s' out : Inv s -> transmit_main s seg max ds = Some (s', out) -> Inv s'.
Proof.
  intros H Hm. unfold transmit_main in Hm.
  destruct ds as [|d0 ds']; [inversion Hm; subst; exact H|].
  destruct (AA.blocked (aa (cur s)) 1) as [b|]; cbn [obind] in Hm; [|discriminate].
  destruct b; [inversion Hm; subst; exact H|].
  destruct (PR.pop_off_path (resps s) (remote (cur s))) as [r' [[tk a]|]].
  - inversion Hm; subst. apply (Inv_ext s); try reflexivity. exact H.
  - destruct (AA.poll (aa (cur s)) seg max (d0 :: ds')) as [[[a' n] t]|] eqn:Ep; cbn [obind] in Hm; [|discriminate].
    inversion Hm; subst. apply poll_validated in Ep. cbn [fst snd].
    apply (Inv_cur s); try reflexivity; [|exact H]. unfold validated. cbn. exact Ep.
Qed.

Lemma transmit_inv s seg max ds s' out : Inv s -> transmit s seg max ds = Some (s', out) -> Inv s'.
Proof.
  intros H Ht. unfold transmit in Ht. destruct (prev s) as [p|] eqn:Ep; [|eapply transmit_main_inv; eassumption].
  destruct (pending p); [|eapply transmit_main_inv; eassumption].
  inversion Ht; subst. destruct H as (I1 & I2 & I3 & I4). unfold Inv. cbn [cur prev timer seen rx_packet last_valid].
  split; [exact I1|]. split; [|split; [|exact I4]].
  - intro Hv. destruct (I2 Hv) as (Hl & Hn & _). split; [exact Hl|split; [exact Hn|]].
    intros q Hq. inversion Hq; subst. reflexivity.
  - intro Hv. destruct (I3 Hv) as (Hn & p' & Hp' & Hpv & Hpr). split; [exact Hn|].
    rewrite Ep in Hp'. inversion Hp'; subst.
    exists (set_pending p' false). repeat split; assumption.
Qed.

Lemma aa_step_poll a seg max ds r :
  AA.poll a seg max ds = Some r ->
  AA.step a (6 :: seg :: max :: ds) = Some (fst (fst r), [snd (fst r); snd r; AA.sent (fst (fst r))]).
Proof.
  intro H. unfold AA.step. change (6 =? 0) with false. change (6 =? 1) with false. change (6 =? 2) with false.
  change (6 =? 3) with false. change (6 =? 4) with false. change (6 =? 6) with true. cbv iota.
  rewrite H. cbn [obind]. destruct r as [[a' n] t]. reflexivity.
Qed.

Lemma transmit_main_hist mtu s seg max ds s' out :
  0 <= seg <= mtu -> AAP.ds_ok seg ds 0 ->
  Hist mtu s -> transmit_main s seg max ds = Some (s', out) -> Hist mtu s'.
Proof.
  intros Hseg Hok H Hm. unfold transmit_main in Hm.
  destruct ds as [|d0 ds']; [inversion Hm; subst; exact H|].
  destruct (AA.blocked (aa (cur s)) 1) as [b|]; cbn [obind] in Hm; [|discriminate].
  destruct b; [inversion Hm; subst; exact H|].
  destruct (PR.pop_off_path (resps s) (remote (cur s))) as [r' [[tk a]|]].
  - inversion Hm; subst. exact H.
  - destruct (AA.poll (aa (cur s)) seg max (d0 :: ds')) as [r|] eqn:Ep; cbn [obind] in Hm; [|discriminate].
    inversion Hm; subst. intro Hv. unfold validated in Hv. cbn in Hv.
    assert (AA.validated (fst (fst r)) = AA.validated (aa (cur s))) as Ev.
    { destruct r as [[a' n] t]. eapply poll_validated. exact Ep. }
    rewrite Ev in Hv. destruct (H Hv) as (h & Hwf & Hs).
    exists (h ++ [6 :: seg :: max :: d0 :: ds']). split.
    + apply Forall_app. split; [exact Hwf|]. constructor; [|constructor].
      change (0 <= seg <= mtu /\ AAP.ds_ok seg (d0 :: ds') 0). split; assumption.
    + rewrite (steps_app_aa _ _ _ _ Hs). rewrite (aa_step_poll _ _ _ _ _ Ep). reflexivity.
Qed.

Lemma transmit_hist mtu s seg max ds s' out :
  0 <= seg <= mtu -> AAP.ds_ok seg ds 0 ->
  Hist mtu s -> transmit s seg max ds = Some (s', out) -> Hist mtu s'.
Proof.
  intros Hseg Hok H Ht. unfold transmit in Ht.
  destruct (prev s) as [p|]; [|eapply transmit_main_hist; eassumption].
  destruct (pending p); [|eapply transmit_main_hist; eassumption].
  inversion Ht; subst. exact H.
Qed.

(** * All reachable states *)
Lemma step_inv mtu s o s' out :
  op_wf mtu o -> Inv s /\ Hist mtu s -> step s o = Some (s', out) -> Inv s' /\ Hist mtu s'.
Proof.
  intros Hwf [HI HH] Hs. destruct o as [d|now|seg max ds]; cbn [step op_wf] in *.
  - inversion Hs; subst. split; [apply handle_datagram_inv; exact HI|apply handle_datagram_hist; assumption].
  - inversion Hs; subst. split; [apply handle_timeout_inv; exact HI|apply handle_timeout_hist; assumption].
  - destruct Hwf as [Hseg Hok]. split; [eapply transmit_inv; eassumption|eapply transmit_hist; eassumption].
Qed.

Lemma steps_inv mtu l : forall s s',
  Forall (op_wf mtu) l -> Inv s /\ Hist mtu s -> steps s l = Some s' -> Inv s' /\ Hist mtu s'.
Proof.
  induction l as [|o l IH]; intros s s' Hwf H Hs; cbn [steps] in Hs; [inversion Hs; subst; exact H|].
  inversion Hwf as [|? ? Ho Hl]; subst.
  destruct (step s o) as [[s1 out]|] eqn:E; [|discriminate].
  eapply IH; [exact Hl| |exact Hs]. eapply step_inv; eassumption.
Qed.

Lemma reachable_inv mtu srv mig a l s :
  Forall (op_wf mtu) l -> steps (init srv mig a) l = Some s -> Inv s /\ Hist mtu s.
Proof.
  intros Hwf Hs. eapply steps_inv; [exact Hwf| |exact Hs]. split; [apply init_inv|apply init_hist].
Qed.

(** the invariant alone needs no well-formedness of sizes *)
Lemma step_inv0 s o s' out : Inv s -> step s o = Some (s', out) -> Inv s'.
Proof.
  intros HI Hs. destruct o as [d|now|seg max ds]; cbn [step] in *.
  - inversion Hs; subst. apply handle_datagram_inv; exact HI.
  - inversion Hs; subst. apply handle_timeout_inv; exact HI.
  - eapply transmit_inv; eassumption.
Qed.

Lemma steps_inv0 l : forall s s', Inv s -> steps s l = Some s' -> Inv s'.
Proof.
  induction l as [|o l IH]; intros s s' H Hs; cbn [steps] in Hs; [inversion Hs; subst; exact H|].
  destruct (step s o) as [[s1 out]|] eqn:E; [|discriminate].
  eapply IH; [|exact Hs]. eapply step_inv0; eassumption.
Qed.

(** * non_migrating_ignores_strangers *)
Theorem non_migrating_ignores_strangers s d :
  may_migrate s = false -> d_from d <> remote (cur s) -> step s (Datagram d) = Some (s, []).
Proof.
  intros Hm Hf. cbn [step]. unfold handle_datagram. rewrite Hm.
  replace (d_from d =? remote (cur s)) with false by lia. reflexivity.
Qed.

(** the side and the configuration never change, so this holds along every run *)
Lemma handle_packet_stable s d : remote (cur (handle_packet s d)) = remote (cur s) \/
  (remote (cur (handle_packet s d)) = d_from d /\ handle_packet s d =
     migrate (fold_left (process_frame (d_from d) (d_pn d)) (d_frames d)
                (mk (server s) (migration s) (cur s) (prev s) (counter s) (timer s)
                    (if rx_packet s <=? d_pn d then d_pn d else rx_packet s)
                    (d_pn d :: seen s) (resps s) (last_valid s))) d).
Proof.
  unfold handle_packet. destruct (negb (d_auth d)); [left; reflexivity|].
  destruct (d_old d || memz (d_pn d) (seen s)); [left; reflexivity|].
  match goal with |- context [if ?c then migrate ?s2 d else _] => destruct c; [right; split; reflexivity|left] end.
  match goal with |- remote (cur (fold_left ?f ?fs ?s1)) = _ => pose proof (fold_frames_stable (d_from d) (d_pn d) fs s1) as Hst end.
  destruct Hst as (_ & _ & Hr & _). exact Hr.
Qed.

Lemma server_migration_const_step s o s' out :
  step s o = Some (s', out) -> server s' = server s /\ migration s' = migration s.
Proof.
  intro Hs. destruct o as [d|now|seg max ds]; cbn [step] in Hs.
  - inversion Hs; subst. unfold handle_datagram.
    destruct (negb (d_from d =? remote (cur s)) && negb (may_migrate s)); [split; reflexivity|].
    assert (server (handle_packet s d) = server s /\ migration (handle_packet s d) = migration s) as Hp.
    { unfold handle_packet. destruct (negb (d_auth d)); [split; reflexivity|].
      destruct (d_old d || memz (d_pn d) (seen s)); [split; reflexivity|].
      match goal with |- context [if ?c then migrate ?s2 d else _] =>
        pose proof (fold_frames_stable (d_from d) (d_pn d) (d_frames d)
          (mk (server s) (migration s) (cur s) (prev s) (counter s) (timer s)
              (if rx_packet s <=? d_pn d then d_pn d else rx_packet s)
              (d_pn d :: seen s) (resps s) (last_valid s))) as (Hs1 & Hs2 & _);
        destruct c end; cbn in *; split; assumption. }
    destruct (d_from d =? remote (cur (handle_packet s d))); cbn; exact Hp.
  - inversion Hs; subst. unfold handle_timeout. destruct (timer s) as [dl|]; [|split; reflexivity].
    destruct (dl <=? now); split; reflexivity.
  - unfold transmit in Hs.
    assert (forall s1 o1, transmit_main s seg max ds = Some (s1, o1) -> server s1 = server s /\ migration s1 = migration s) as Hm.
    { intros s1 o1 Hm. unfold transmit_main in Hm. destruct ds as [|d0 ds']; [inversion Hm; subst; split; reflexivity|].
      destruct (AA.blocked (aa (cur s)) 1) as [b|]; cbn [obind] in Hm; [|discriminate].
      destruct b; [inversion Hm; subst; split; reflexivity|].
      destruct (PR.pop_off_path (resps s) (remote (cur s))) as [r' [[tk a]|]]; [inversion Hm; subst; split; reflexivity|].
      destruct (AA.poll (aa (cur s)) seg max (d0 :: ds')); cbn [obind] in Hm; [|discriminate].
      inversion Hm; subst; split; reflexivity. }
    destruct (prev s) as [p|]; [|eapply Hm; exact Hs].
    destruct (pending p); [inversion Hs; subst; split; reflexivity|eapply Hm; exact Hs].
Qed.

Lemma may_migrate_const l : forall s s', steps s l = Some s' -> may_migrate s' = may_migrate s.
Proof.
  induction l as [|o l IH]; intros s s' Hs; cbn [steps] in Hs; [inversion Hs; reflexivity|].
  destruct (step s o) as [[s1 out]|] eqn:E; [|discriminate].
  rewrite (IH _ _ Hs). destruct (server_migration_const_step _ _ _ _ E) as [E1 E2].
  unfold may_migrate. rewrite E1, E2. reflexivity.
Qed.
