(** Invariant of the length-level assembler of Model/FlowRecv.v: everything buffered or delivered
    lies below the stream's high-water mark [e]; in particular [bytes_read <= e]. *)
From QV Require Import Lib.Tac Lib.Corr Model.FlowRecv.
Open Scope Z_scope.

(** ** Range sets *)
Fixpoint rs_wf (lo : Z) (rs : list (Z * Z)) : Prop :=
  match rs with
  | [] => True
  | (a, b) :: r => lo <= a /\ a < b /\ rs_wf (b + 1) r
  end.
Fixpoint rs_bound (hi : Z) (rs : list (Z * Z)) : Prop :=
  match rs with
  | [] => True
  | (a, b) :: r => b <= hi /\ rs_bound hi r
  end.

Lemma rs_wf_weaken lo lo' rs : rs_wf lo' rs -> lo <= lo' -> rs_wf lo rs.
Proof. destruct rs as [|[a b] r]; cbn; [auto|]. intros (H1 & H2 & H3) H. repeat split; auto; lia. Qed.
Lemma rs_bound_mono hi hi' rs : rs_bound hi rs -> hi <= hi' -> rs_bound hi' rs.
Proof. induction rs as [|[a b] r IH]; cbn; [auto|]. intros [H1 H2] H. split; [lia|auto]. Qed.

Lemma overlap_zero_wf rs : forall lo s e, rs_wf lo rs -> e <= lo -> rs_overlap s e rs = 0.
Proof.
  induction rs as [|[a b] r IH]; intros lo s e; cbn [rs_wf rs_overlap]; [auto|].
  intros (H1 & H2 & H3) H. rewrite (IH (b + 1) s e H3 ltac:(lia)). lia.
Qed.
Lemma overlap_zero_bound rs : forall hi s e, rs_bound hi rs -> hi <= s -> rs_overlap s e rs = 0.
Proof.
  induction rs as [|[a b] r IH]; intros hi s e; cbn [rs_bound rs_overlap]; [auto|].
  intros (H1 & H2) H. rewrite (IH hi s e H2 H). lia.
Qed.
Lemma overlap_nonneg s e rs : 0 <= rs_overlap s e rs.
Proof. induction rs as [|[a b] r IH]; cbn [rs_overlap]; lia. Qed.

Lemma overlap_ext rs : forall lo s e a b, rs_wf lo rs -> b < lo -> s <= b -> a < b ->
  rs_overlap (Z.min s a) (Z.max e b) rs = rs_overlap s e rs.
Proof.
  induction rs as [|[x y] r IH]; intros lo s e a b; cbn [rs_wf rs_overlap]; [auto|].
  intros (H1 & H2 & H3) Hb Hs Ha.
  rewrite (IH (y + 1) s e a b H3 ltac:(lia) Hs Ha). lia.
Qed.

Lemma insert_size rs : forall lo s e, rs_wf lo rs -> s < e ->
  rs_size (rs_insert s e rs) = rs_size rs + (e - s) - rs_overlap s e rs.
Proof.
  induction rs as [|[a b] r IH]; intros lo s e; cbn [rs_wf rs_insert rs_size rs_overlap].
  - intros _ H. lia.
  - intros (H1 & H2 & H3) H.
    destruct (e <? a) eqn:E1.
    + cbn [rs_size]. rewrite (overlap_zero_wf r (b + 1) s e H3 ltac:(lia)). lia.
    + destruct (b <? s) eqn:E2.
      * cbn [rs_size]. rewrite (IH (b + 1) s e H3 H). lia.
      * rewrite (IH (b + 1) (Z.min s a) (Z.max e b) H3 ltac:(lia)).
        rewrite (overlap_ext r (b + 1) s e a b H3 ltac:(lia) ltac:(lia) H2). lia.
Qed.

Lemma insert_wf rs : forall lo lo' s e, rs_wf lo' rs -> lo <= lo' -> lo <= s -> s < e ->
  rs_wf lo (rs_insert s e rs).
Proof.
  induction rs as [|[a b] r IH]; intros lo lo' s e; cbn [rs_wf rs_insert].
  - intros _ _ H1 H2. cbn. lia.
  - intros (H1 & H2 & H3) Hl Hs He.
    destruct (e <? a) eqn:E1.
    + cbn [rs_wf]. repeat split; try lia. exact H3.
    + destruct (b <? s) eqn:E2.
      * cbn [rs_wf]. repeat split; try lia. apply (IH (b + 1) (b + 1)); auto; lia.
      * apply (IH lo (b + 1)); auto; lia.
Qed.

Lemma insert_bound rs : forall hi s e, rs_bound hi rs -> e <= hi -> rs_bound hi (rs_insert s e rs).
Proof.
  induction rs as [|[a b] r IH]; intros hi s e; cbn [rs_bound rs_insert].
  - intros _ H. cbn. auto.
  - intros (H1 & H2) H.
    destruct (e <? a); [cbn [rs_bound]; auto|].
    destruct (b <? s); [cbn [rs_bound]; split; auto|]. apply IH; auto. lia.
Qed.

Lemma size_le rs : forall lo hi, rs_wf lo rs -> rs_bound hi rs -> rs_size rs <= Z.max 0 (hi - lo).
Proof.
  induction rs as [|[a b] r IH]; intros lo hi; cbn [rs_wf rs_bound rs_size]; [lia|].
  intros (H1 & H2 & H3) (H4 & H5). specialize (IH (b + 1) hi H3 H5). lia.
Qed.

Lemma overlap_le rs : forall lo s e, rs_wf lo rs -> rs_overlap s e rs <= Z.max 0 (e - Z.max s lo).
Proof.
  induction rs as [|[a b] r IH]; intros lo s e; cbn [rs_wf rs_overlap]; [lia|].
  intros (H1 & H2 & H3). specialize (IH (b + 1) s e H3). lia.
Qed.

Lemma add_facts rs s e hi : rs_wf 0 rs -> rs_bound hi rs -> 0 <= s -> e <= hi ->
  rs_wf 0 (rs_add s e rs) /\ rs_bound hi (rs_add s e rs) /\
  rs_size (rs_add s e rs) = rs_size rs + Z.max 0 (e - s) - rs_overlap s e rs /\
  rs_overlap s e rs <= Z.max 0 (e - s).
Proof.
  intros W B Hs He. unfold rs_add.
  pose proof (overlap_le rs 0 s e W) as OL.
  destruct (s <? e) eqn:E.
  - repeat split.
    + apply (insert_wf rs 0 0); auto; lia.
    + apply insert_bound; auto.
    + rewrite (insert_size rs 0 s e W ltac:(lia)). lia.
    + lia.
  - repeat split; auto; try lia.
    assert (rs_overlap s e rs = 0) by (pose proof (overlap_nonneg s e rs); lia). lia.
Qed.

(** ** The assembler *)
Definition chunks_ok (e : Z) (cs : list (Z * Z)) : Prop :=
  Forall (fun p => 0 < snd p /\ fst p + snd p <= e) cs.

Definition asm_ok (a : asm) (e : Z) : Prop :=
  0 <= a_read a /\
  match a_mode a with
  | AOrd cs => a_read a <= e /\ chunks_ok e cs
  | AUnord rv ub => rs_wf 0 rv /\ rs_bound e rv /\ a_read a + ub <= rs_size rv /\ 0 <= ub
  end.

Lemma asm_ok_read a e : 0 <= e -> asm_ok a e -> 0 <= a_read a <= e.
Proof.
  intros He [H0 H]. destruct (a_mode a) as [cs|rv ub].
  - lia.
  - destruct H as (W & B & S & U). pose proof (size_le rv 0 e W B). lia.
Qed.

Lemma chunks_ok_mono e e' cs : chunks_ok e cs -> e <= e' -> chunks_ok e' cs.
Proof.
  unfold chunks_ok. intros H L. eapply Forall_impl; [|exact H]. cbn. intros p [A B]. lia.
Qed.
Lemma ch_insert_ok e o l cs : chunks_ok e cs -> 0 < l -> o + l <= e -> chunks_ok e (ch_insert o l cs).
Proof.
  unfold chunks_ok. induction cs as [|[o' l'] r IH]; cbn [ch_insert]; intros H Hl Hb.
  - constructor; [cbn; lia|constructor].
  - inversion H; subst. destruct ((o <? o') || ((o =? o') && (l' <=? l))).
    + constructor; [cbn; lia|exact H].
    + constructor; [assumption|apply IH; assumption].
Qed.

Lemma asm_ok_mono a e e' : asm_ok a e -> e <= e' -> asm_ok a e'.
Proof.
  intros [H0 H] L. split; [exact H0|]. destruct (a_mode a) as [cs|rv ub].
  - destruct H. split; [lia|eapply chunks_ok_mono; eassumption].
  - destruct H as (W & B & S & U). repeat split; auto. eapply rs_bound_mono; eassumption.
Qed.

Lemma asm_new_ok e : 0 <= e -> asm_ok asm_new e.
Proof. intro H. unfold asm_ok, asm_new; cbn. repeat split; try lia. constructor. Qed.

Lemma asm_insert_ok a e off len :
  asm_ok a e -> 0 <= off -> off + len <= e -> asm_ok (asm_insert a off len) e.
Proof.
  intros [H0 H] Ho Hb. unfold asm_insert. destruct (len <=? 0) eqn:El; [split; assumption|].
  destruct (a_mode a) as [cs|rv ub] eqn:M.
  - destruct H as [Hr Hc].
    destruct (off <? a_read a) eqn:E1.
    + destruct (off + len <=? a_read a) eqn:E2; [unfold asm_ok; rewrite M; auto|].
      unfold asm_ok; cbn [a_read a_mode]. repeat split; auto. apply ch_insert_ok; auto; lia.
    + unfold asm_ok; cbn [a_read a_mode]. repeat split; auto. apply ch_insert_ok; auto; lia.
  - destruct H as (W & B & S & U).
    destruct (add_facts rv off (off + len) e W B Ho Hb) as (W' & B' & S' & O').
    unfold asm_ok; cbn [a_read a_mode]. repeat split; auto; lia.
Qed.

Lemma asm_clear_ok a e : 0 <= e -> asm_ok a e -> asm_ok (asm_clear a) e.
Proof.
  intros He Hk. pose proof (asm_ok_read a e He Hk) as Hr. destruct Hk as [H0 H].
  unfold asm_clear. destruct (a_mode a) as [cs|rv ub] eqn:M;
    unfold asm_ok; cbn [a_read a_mode].
  - repeat split; try lia. constructor.
  - destruct H as (W & B & S & U). repeat split; auto; lia.
Qed.

Lemma read_ord_ok e cs : forall br rem total cs' br' rem' total' none,
  chunks_ok e cs -> 0 <= br <= e -> 0 <= total ->
  read_ord cs br rem total = (cs', br', rem', total', none) ->
  chunks_ok e cs' /\ br <= br' <= e /\ total' - total = br' - br.
Proof.
  induction cs as [|[o l] r IH]; intros br rem total cs' br' rem' total' none Hc Hb Ht H;
    cbn [read_ord] in H.
  - inversion H; subst. repeat split; auto; lia.
  - inversion Hc as [|p q [Hl Ho] Hr]; subst. cbn [fst snd] in *.
    destruct (rem <=? 0) eqn:E0; [inversion H; subst; repeat split; auto; lia|].
    destruct (br <? o) eqn:E1; [inversion H; subst; repeat split; auto; lia|].
    destruct (o + l <=? br) eqn:E2.
    + apply (IH br rem total cs' br' rem' total' none Hr Hb Ht H).
    + destruct (rem <? o + l - br) eqn:E3.
      * inversion H; subst. repeat split; try lia. apply ch_insert_ok; auto; lia.
      * destruct (IH (br + (o + l - br)) (rem - (o + l - br)) (total + (o + l - br))
                     cs' br' rem' total' none Hr ltac:(lia) ltac:(lia) H) as (A & B & C).
        repeat split; auto; lia.
Qed.

Lemma asm_read_ok a e budget a' total none :
  0 <= e -> asm_ok a e -> asm_read a budget = (a', total, none) ->
  asm_ok a' e /\ 0 <= total /\ a_read a' = a_read a + total.
Proof.
  intros He [H0 H] R. unfold asm_read in R. destruct (a_mode a) as [cs|rv ub] eqn:M.
  - destruct H as [Hr Hc].
    destruct (read_ord cs (a_read a) budget 0) as [[[[cs' br] rem'] tot] nn] eqn:RO.
    destruct (read_ord_ok e cs (a_read a) budget 0 cs' br rem' tot nn Hc (conj H0 Hr)
                (Z.le_refl 0) RO) as (A & B & C).
    inversion R; subst; clear R.
    unfold asm_ok; cbn [a_read a_mode]. repeat split; auto; lia.
  - destruct H as (W & B & S & U).
    destruct (budget <=? 0) eqn:Eb.
    + inversion R; subst. unfold asm_ok. rewrite M. repeat split; auto; lia.
    + inversion R; subst; clear R. unfold asm_ok; cbn [a_read a_mode]. repeat split; auto; lia.
Qed.

Lemma dedup_ok e cs : forall offset rv ub rv' ub',
  chunks_ok e cs -> rs_wf 0 rv -> rs_bound offset rv -> 0 <= offset <= e ->
  dedup_chunks cs offset rv ub = (rv', ub') ->
  rs_wf 0 rv' /\ rs_bound e rv' /\ rs_size rv' - rs_size rv = ub' - ub /\ ub <= ub'.
Proof.
  induction cs as [|[o l] r IH]; intros offset rv ub rv' ub' Hc W B Ho H; cbn [dedup_chunks] in H.
  - inversion H; subst. repeat split; auto; try lia. eapply rs_bound_mono; [exact B|lia].
  - inversion Hc as [|p q [Hl Hb] Hr]; subst. cbn [fst snd] in *.
    destruct (l <=? Z.max 0 (offset - o)) eqn:E; [apply (IH offset rv ub rv' ub' Hr W B Ho H)|].
    set (o' := Z.max o offset) in *. set (l' := l - Z.max 0 (offset - o)) in *.
    assert (Hl' : 0 < l') by (subst l'; lia).
    assert (Hsum : o' + l' = o + l) by (subst o' l'; lia).
    assert (B1 : rs_bound (o' + l') rv) by (eapply rs_bound_mono; [exact B|subst o'; lia]).
    destruct (add_facts rv o' (o' + l') (o' + l') W B1 ltac:(subst o'; lia) ltac:(lia))
      as (W' & B' & S' & O').
    assert (Z0 : rs_overlap o' (o' + l') rv = 0)
      by (apply (overlap_zero_bound rv offset); [exact B|subst o'; lia]).
    destruct (IH (o' + l') _ _ rv' ub' Hr W' B' ltac:(lia) H) as (A1 & A2 & A3 & A4).
    repeat split; auto; lia.
Qed.

Lemma asm_ensure_ok a e ordered a1 :
  0 <= e -> asm_ok a e -> asm_ensure a ordered = Some a1 -> asm_ok a1 e /\ a_read a1 = a_read a.
Proof.
  intros He [H0 H] En. unfold asm_ensure in En.
  destruct (a_mode a) as [cs|rv ub] eqn:M; destruct ordered; try discriminate.
  - inversion En; subst. split; [|reflexivity]. unfold asm_ok. rewrite M. auto.
  - destruct H as [Hr Hc].
    destruct (dedup_chunks cs (a_read a) (rs_add 0 (a_read a) []) 0) as [rv ub] eqn:D.
    inversion En; subst; clear En. split; [|reflexivity].
    assert (W0 : rs_wf 0 (rs_add 0 (a_read a) []) /\ rs_bound (a_read a) (rs_add 0 (a_read a) []) /\
                 rs_size (rs_add 0 (a_read a) []) = a_read a).
    { unfold rs_add. destruct (0 <? a_read a) eqn:E; cbn; repeat split; lia. }
    destruct W0 as (W0 & B0 & S0).
    destruct (dedup_ok e cs _ _ _ _ _ Hc W0 B0 ltac:(lia) D) as (A1 & A2 & A3 & A4).
    unfold asm_ok; cbn [a_read a_mode]. repeat split; auto; lia.
  - inversion En; subst. split; [|reflexivity]. unfold asm_ok. rewrite M. auto.
Qed.
