(** StreamSys: one stream, two peers.  Sender = SendBuffer model, network = the set of frames
    produced so far (a frame may be delivered any number of times, in any order, or never),
    receiver = Assembler model.  The composition theorem follows from the SendBuffer soundness
    (every produced frame is a slice of what was written) and the Assembler prefix theorem. *)
From QV Require Import Lib.Tac Lib.Bytes Lib.Corr Model.RangeSet Model.Assembler Model.SendBuffer
  Proofs.HeapProofs Proofs.AssemblerProofs Proofs.SendBufferProofs Proofs.AssemblerOnceProofs.
Open Scope Z_scope.

Module A := AssemblerProofs.
Module S := SendBufferProofs.

Inductive sys_op :=
| SSend (o : S.op)                 (* sender side: write / poll_transmit / ack / loss / 0-RTT restart *)
| SDeliver (i : nat) (alloc : Z)   (* the network delivers the i-th frame produced so far *)
| SRecv (o : A.op).                (* receiver application: read / ensure_ordering / clear / probes *)

Record sys := mkSys {
  sb : SendBuffer.t;
  written : list Z;
  frames : list S.frame;
  asm : Assembler.t;
  events : list A.event
}.

Definition sys_init : sys := mkSys SendBuffer.init [] [] Assembler.init [].

Definition recv_step (st : sys) (o : A.op) : option sys :=
  match Assembler.step (asm st) (A.encode o) with
  | None => None
  | Some (a1, out) =>
      Some (mkSys (sb st) (written st) (frames st) a1 (events st ++ A.event_of o out))
  end.

(** [None] = the model panics or the schedule is not a schedule of the system (delivery of a
    frame that does not exist or whose copy loop did not complete; a receiver-side insert that
    does not come from the network) *)
Definition sys_step (st : sys) (o : sys_op) : option sys :=
  match o with
  | SSend so =>
      match SendBuffer.step (sb st) (S.encode so) with
      | None => None
      | Some (s1, out) =>
          Some (mkSys s1 (S.written_after (written st) so) (frames st ++ S.frame_of so out)
                      (asm st) (events st))
      end
  | SDeliver i alloc =>
      match nth_error (frames st) i with
      | Some (true, rs, re, d) =>
          if 0 <=? rs then recv_step st (A.OInsert rs alloc d) else None
      | _ => None
      end
  | SRecv (A.OInsert _ _ _) => None
  | SRecv ro => recv_step st ro
  end.

Fixpoint sys_exec (st : sys) (os : list sys_op) : option sys :=
  match os with
  | [] => Some st
  | o :: r =>
      match sys_step st o with
      | None => None
      | Some st1 => sys_exec st1 r
      end
  end.

Definition sched_ok (o : sys_op) : Prop :=
  match o with
  | SRecv (A.ORead m _) => 0 <= m
  | _ => True
  end.

(** the written sequence as a function of the offset *)
Definition wof (W : list Z) (x : Z) : Z := nth (Z.to_nat x) W 0.

Lemma firstn_as_map (l : list Z) : forall k, (k <= length l)%nat ->
  firstn k l = map (fun i => nth i l 0) (seq 0 k).
Proof.
  induction l as [|x l IH]; intros k Hk.
  - cbn in Hk. replace k with 0%nat by lia. reflexivity.
  - destruct k as [|k]; [reflexivity|]. cbn [firstn seq map nth]. f_equal.
    rewrite <- seq_shift, map_map. rewrite IH by (cbn in Hk; lia). reflexivity.
Qed.

Lemma nth_skipn_add (l : list Z) : forall a i, nth i (skipn a l) 0 = nth (a + i) l 0.
Proof.
  induction l as [|x l IH]; intros a i.
  - rewrite skipn_nil. destruct i, a; reflexivity.
  - destruct a as [|a]; [reflexivity|]. cbn [skipn plus nth]. apply IH.
Qed.

Lemma slice_is_wslice W rs d : 0 <= rs -> d = S.slice W rs (zlen d) ->
  A.is_slice (wof W) (zlen W) rs d.
Proof.
  unfold S.slice, SendBuffer.slice, A.is_slice, zlen. rewrite Nat2Z.id. intros Hrs Hd.
  assert (L : (length d <= length (skipn (Z.to_nat rs) W))%nat).
  { rewrite Hd at 1. rewrite firstn_length. lia. }
  split.
  - rewrite Hd at 1. rewrite firstn_as_map by exact L. unfold A.wslice. apply map_ext.
    intros i. rewrite nth_skipn_add. unfold wof. f_equal. lia.
  - destruct d as [|d0 dt]; [now left|right]. rewrite skipn_length in L. cbn [length] in *. lia.
Qed.

Lemma is_slice_hi_mono w hi hi' off b : hi <= hi' -> A.is_slice w hi off b -> A.is_slice w hi' off b.
Proof. unfold A.is_slice. intros H [E [B|B]]; split; auto. right. lia. Qed.

Lemma wof_prefix W X x : 0 <= x < zlen W -> wof (W ++ X) x = wof W x.
Proof. unfold wof, zlen. intros H. apply app_nth1. lia. Qed.

(** Invariant of the composed system, relative to the FINAL written sequence [Wf]:
    the sender invariant holds, everything written so far is a prefix of [Wf], every frame
    produced so far is a slice of [Wf], and the receiver's history is an Assembler execution whose
    inserts are all slices of [Wf]. *)
Lemma sys_exec_inv os : forall st st',
  sys_exec st os = Some st' -> Forall sched_ok os ->
  S.inv (written st) (sb st) -> Forall (S.frame_ok (written st)) (frames st) ->
  S.inv (written st') (sb st') /\ (exists X, written st' = written st ++ X) /\
  Forall (S.frame_ok (written st')) (frames st') /\
  exists ros new,
    Forall (A.op_ok (wof (written st')) (zlen (written st'))) ros /\
    A.exec (asm st) ros = Some (asm st', new) /\ events st' = events st ++ new.
Proof.
  induction os as [|o r IH]; intros st st' H Hok Hi Hf; cbn [sys_exec] in H.
  - inversion H; subst. split; [auto|]. split; [exists []; now rewrite app_nil_r|]. split; [auto|].
    exists [], []. cbn. split; [constructor|]. split; [reflexivity | now rewrite app_nil_r].
  - inversion Hok as [|? ? Ho Hr]; subst.
    destruct (sys_step st o) as [st1|] eqn:St; [|discriminate].
    (* one step: sender invariant, frames, and the receiver-side op (if any) *)
    assert (Step : S.inv (written st1) (sb st1) /\ (exists X, written st1 = written st ++ X) /\
                   Forall (S.frame_ok (written st1)) (frames st1) /\
                   exists ro_list new1,
                     (forall Wf, (exists X, Wf = written st1 ++ X) ->
                                 Forall (A.op_ok (wof Wf) (zlen Wf)) ro_list) /\
                     A.exec (asm st) ro_list = Some (asm st1, new1) /\
                     events st1 = events st ++ new1).
    { destruct o as [so | i alloc | ro]; cbn [sys_step] in St.
      - destruct (SendBuffer.step (sb st) (S.encode so)) as [[s1 out]|] eqn:E; [|discriminate].
        inversion St; subst; clear St. cbn [written sb frames asm events].
        apply S.step_inv with (W := written st) in E; auto. destruct E as [I1 F1].
        split; [exact I1|]. split.
        { destruct so; cbn [S.written_after]; try (exists []; now rewrite app_nil_r). now exists d. }
        split.
        { apply Forall_app. split; [|exact F1].
          destruct so; cbn [S.written_after]; auto.
          eapply Forall_impl; [|exact Hf]. intros f. apply S.frame_ok_prefix. }
        exists [], []. split; [intros; constructor|]. split; [reflexivity | now rewrite app_nil_r].
      - destruct (nth_error (frames st) i) as [[[[c rs] re] d]|] eqn:N; [|discriminate].
        destruct c; [|discriminate]. destruct (0 <=? rs) eqn:Ers; [|discriminate].
        unfold recv_step in St.
        destruct (Assembler.step (asm st) (A.encode (A.OInsert rs alloc d))) as [[a1 out]|] eqn:E; [|discriminate].
        inversion St; subst; clear St. cbn [written sb frames asm events].
        split; [exact Hi|]. split; [exists []; now rewrite app_nil_r|]. split; [exact Hf|].
        exists [A.OInsert rs alloc d], (A.event_of (A.OInsert rs alloc d) out).
        split; [|split].
        + intros Wf [X ->]. constructor; [|constructor]. cbn [A.op_ok]. split; [lia|].
          apply nth_error_In in N. rewrite Forall_forall in Hf. specialize (Hf _ N).
          apply (S.frame_ok_prefix _ X) in Hf. cbn [S.frame_ok] in Hf.
          destruct Hf as [Hd _]; [lia|]. apply slice_is_wslice; [lia | exact Hd].
        + cbn [A.exec]. rewrite E. now rewrite app_nil_r.
        + reflexivity.
      - assert (R : recv_step st ro = Some st1 /\ forall w hi, A.op_ok w hi ro).
        { destruct ro; try discriminate; (split; [exact St|]); intros w hi; cbn [A.op_ok]; auto. }
        destruct R as [R Rok]. clear St. unfold recv_step in R.
        destruct (Assembler.step (asm st) (A.encode ro)) as [[a1 out]|] eqn:E; [|discriminate].
        inversion R; subst; clear R. cbn [written sb frames asm events].
        split; [exact Hi|]. split; [exists []; now rewrite app_nil_r|]. split; [exact Hf|].
        exists [ro], (A.event_of ro out). split; [|split].
        + intros Wf _. constructor; [apply Rok|constructor].
        + cbn [A.exec]. rewrite E. now rewrite app_nil_r.
        + reflexivity. }
    destruct Step as (I1 & [X1 W1] & F1 & ro_list & new1 & Rok & Rex & Rev).
    specialize (IH st1 st' H Hr I1 F1). destruct IH as (I2 & [X2 W2] & F2 & ros & new & Ok2 & Ex2 & Ev2).
    split; [exact I2|]. split; [exists (X1 ++ X2); now rewrite W2, W1, app_assoc|]. split; [exact F2|].
    exists (ro_list ++ ros), (new1 ++ new). split; [|split].
    + apply Forall_app. split; [apply Rok; now exists X2 | exact Ok2].
    + clear -Rex Ex2. revert Rex. generalize (asm st) as a0. revert new1.
      induction ro_list as [|o l IHl]; intros new1 a0 Rex; cbn [A.exec app] in *.
      * inversion Rex; subst. exact Ex2.
      * destruct (Assembler.step a0 (A.encode o)) as [[a1 out]|]; [|discriminate].
        destruct (A.exec a1 l) as [[a2 evs]|] eqn:El; [|discriminate].
        inversion Rex; subst. rewrite (IHl _ _ El). now rewrite app_assoc.
    + now rewrite Ev2, Rev, app_assoc.
Qed.

(** [stream_no_alteration]: for EVERY schedule of the one-stream system — any application writes,
    any poll_transmit sizes, any acks / losses / re-chunked retransmissions / 0-RTT restart on the
    sender, the network delivering any previously produced frame any number of times in any order
    (or never), any interleaving with receiver reads of any size, ordered or unordered — on which
    the models do not panic:
    - the bytes returned by ordered reads, concatenated, are a prefix of the bytes the sending
      application wrote (never longer than what was written), returned as consecutive chunks;
    - every chunk returned by any read (ordered or unordered) equals the written bytes at its
      offset and lies within what was written. *)
Theorem stream_no_alteration sched st' :
  Forall sched_ok sched -> sys_exec sys_init sched = Some st' ->
  let W := written st' in
  let evs := events st' in
  A.obytes evs = firstn (length (A.obytes evs)) W /\
  A.chain 0 (filter A.ev_ord evs) /\
  Forall (fun e => A.ev_bytes e = S.slice W (A.ev_off e) (zlen (A.ev_bytes e)) /\
                   (A.ev_bytes e = [] \/ 0 <= A.ev_off e /\ A.ev_off e + zlen (A.ev_bytes e) <= zlen W)) evs.
Proof.
  intros Hok H. apply sys_exec_inv in H; auto; [|apply S.inv_init|constructor].
  destruct H as (_ & _ & _ & ros & new & Ok & Ex & Ev). cbn [events sys_init app] in Ev. cbn [asm sys_init] in Ex.
  cbn zeta. rewrite Ev.
  pose proof (A.ordered_prefix _ _ _ _ _ Ok Ex) as (P1 & P2 & P3 & _).
  pose proof (A.reads_exact _ _ _ _ _ Ok Ex) as R.
  assert (Conv : forall off n, 0 <= off -> off + Z.of_nat n <= zlen (written st') ->
            A.wslice (wof (written st')) off n = S.slice (written st') off (Z.of_nat n)).
  { intros off n H0 H1. unfold S.slice, SendBuffer.slice. rewrite Nat2Z.id.
    unfold zlen in H1. rewrite firstn_as_map by (rewrite skipn_length; lia).
    unfold A.wslice. apply map_ext. intros i. rewrite nth_skipn_add. unfold wof. f_equal. lia. }
  split; [|split; [exact P3|]].
  - destruct P2 as [E|B]; [rewrite E; reflexivity|].
    rewrite P1 at 1. rewrite Conv by (unfold zlen in *; lia).
    unfold S.slice, SendBuffer.slice. cbn [Z.to_nat skipn]. now rewrite Nat2Z.id.
  - eapply Forall_impl; [|exact R]. intros e [E B]. split; [|exact B].
    destruct B as [B|B]; [rewrite B; unfold S.slice, SendBuffer.slice, zlen; cbn; reflexivity|].
    rewrite E at 1. unfold zlen in *. now rewrite Conv by lia.
Qed.

(** [stream_exactly_once]: for every schedule of the composed system, every stream offset is covered
    by at most one chunk returned to the receiving application (ordered or unordered reads, before
    or after the mode switch), whatever the network duplicates or re-delivers. *)
Theorem stream_exactly_once sched st' x :
  Forall sched_ok sched -> sys_exec sys_init sched = Some st' ->
  AssemblerOnceProofs.cnt x (events st') <= 1.
Proof.
  intros Hok H. apply sys_exec_inv in H; auto; [|apply S.inv_init|constructor].
  destruct H as (_ & _ & _ & ros & new & Ok & Ex & Ev). cbn [events sys_init app] in Ev. cbn [asm sys_init] in Ex.
  rewrite Ev. eapply AssemblerOnceProofs.delivered_at_most_once; eauto.
Qed.
