(** Content invariant of the Assembler model: every buffered chunk is a slice of the written
    byte sequence [w]; consequences for ordered and unordered reads, for all op sequences. *)
From QV Require Import Lib.Tac Lib.Bytes Lib.Corr Model.RangeSet Model.Assembler Proofs.HeapProofs.
From Coq Require Import Permutation.
Open Scope Z_scope.

Section W.
Variable w : Z -> Z.

(** [n] bytes of the written sequence starting at [off] *)
Definition wslice (off : Z) (n : nat) : list Z := map (fun i => w (off + Z.of_nat i)) (seq 0 n).

Lemma wslice_length off n : length (wslice off n) = n.
Proof. unfold wslice. now rewrite map_length, seq_length. Qed.

Lemma wslice_S off n : wslice off (S n) = w off :: wslice (off + 1) n.
Proof.
  unfold wslice. cbn [seq map]. f_equal; [f_equal; lia|].
  rewrite <- seq_shift, map_map. apply map_ext. intros i. f_equal. lia.
Qed.

Lemma wslice_skipn k : forall off n, skipn k (wslice off n) = wslice (off + Z.of_nat k) (n - k).
Proof.
  induction k as [|k IH]; intros off n.
  - cbn [skipn]. f_equal; lia.
  - destruct n as [|n]; [reflexivity|]. rewrite wslice_S. cbn [skipn]. rewrite IH.
    f_equal; lia.
Qed.

Lemma wslice_firstn k : forall off n, firstn k (wslice off n) = wslice off (Nat.min k n).
Proof.
  induction k as [|k IH]; intros off n; [reflexivity|].
  destruct n as [|n]; [reflexivity|]. cbn [Nat.min]. rewrite !wslice_S. cbn [firstn]. now rewrite IH.
Qed.

Lemma wslice_app n : forall off m, wslice off n ++ wslice (off + Z.of_nat n) m = wslice off (n + m).
Proof.
  induction n as [|n IH]; intros off m.
  - cbn [app plus]. replace (off + Z.of_nat 0) with off by lia. reflexivity.
  - cbn [plus]. rewrite !wslice_S. cbn [app]. f_equal. rewrite <- IH. do 2 f_equal. lia.
Qed.

(** [hi]: an upper bound of the stream offsets ever inserted (e.g. the length of what the sender
    has written); part of the invariant so that reads provably never return bytes beyond it *)
Variable hi : Z.

Definition is_slice (off : Z) (bytes : list Z) : Prop :=
  bytes = wslice off (length bytes) /\ (bytes = [] \/ (0 <= off /\ off + zlen bytes <= hi)).
Definition good (b : buf) : Prop := is_slice (b_off b) (b_bytes b).

Lemma is_slice_nil off : is_slice off [].
Proof. split; [reflexivity | now left]. Qed.

Lemma nil_or_not {A} (l : list A) : l = [] \/ (0 < length l)%nat.
Proof. destruct l; [now left | right; cbn; lia]. Qed.

Lemma is_slice_skip off bytes k : is_slice off bytes -> 0 <= k ->
  is_slice (off + k) (zskipn k bytes).
Proof.
  unfold is_slice, zskipn. intros [H B] Hk. split.
  - rewrite H at 1. rewrite wslice_skipn, skipn_length. f_equal. lia.
  - destruct (nil_or_not (skipn (Z.to_nat k) bytes)) as [E|E]; [now left|right].
    rewrite skipn_length in E. destruct B as [->|B]; [cbn in E; lia|].
    unfold zlen in *. rewrite skipn_length. lia.
Qed.

Lemma is_slice_first off bytes k : is_slice off bytes -> is_slice off (zfirstn k bytes).
Proof.
  unfold is_slice, zfirstn. intros [H B]. split.
  - rewrite H at 1. rewrite wslice_firstn, firstn_length. reflexivity.
  - destruct B as [->|B]; [left; now rewrite firstn_nil|right].
    unfold zlen in *. rewrite firstn_length. lia.
Qed.

Lemma is_slice_app off b1 b2 : is_slice off b1 -> is_slice (off + zlen b1) b2 -> is_slice off (b1 ++ b2).
Proof.
  unfold is_slice, zlen. intros [H1 B1] [H2 B2]. split.
  - rewrite H1 at 1. rewrite H2 at 1. rewrite wslice_app, app_length. reflexivity.
  - destruct B2 as [->|B2]; [rewrite app_nil_r; exact B1|].
    destruct B1 as [->|B1]; [right; cbn [app length] in *; lia|].
    right. rewrite app_length. lia.
Qed.

Lemma good_dbuf : good dbuf.
Proof. apply is_slice_nil. Qed.

(* ------------------------------------------------------------ heap operations keep [good] *)
Lemma push_good h x : Forall good h -> good x -> Forall good (push h x).
Proof.
  intros Hh Hx. eapply Permutation_Forall; [symmetry; apply push_perm|]. now constructor.
Qed.

Lemma pop_good h top h' : pop h = Some (top, h') -> Forall good h -> good top /\ Forall good h'.
Proof.
  intros Hp Hh. apply pop_perm in Hp as [P _].
  pose proof (Permutation_Forall P Hh) as F. inversion F; subst. now split.
Qed.

Lemma replace_top_good t r x : Forall good (t :: r) -> good x -> Forall good (replace_top (t :: r) x).
Proof.
  intros Hh Hx. eapply Permutation_Forall; [symmetry; apply replace_top_perm|].
  inversion Hh; subst. now constructor.
Qed.

(* ------------------------------------------------------------ defragment *)
Lemma try_mark_defragment_good c offset : good c -> good (try_mark_defragment c offset).
Proof.
  unfold good, try_mark_defragment. intros H.
  destruct (blen c <=? Z.max 0 (offset - b_off c)) eqn:E; cbn [b_off b_bytes]; [apply is_slice_nil|].
  destruct (Z.le_gt_cases offset (b_off c)) as [L|G].
  - replace (Z.max 0 (offset - b_off c)) with 0 by lia.
    replace (Z.max (b_off c) offset) with (b_off c + 0) by lia.
    apply is_slice_skip; [exact H | lia].
  - replace (Z.max (b_off c) offset) with (b_off c + Z.max 0 (offset - b_off c)) by lia.
    apply is_slice_skip; [exact H | lia].
Qed.

Lemma mark_all_good cs : forall offset acc, Forall good cs -> Forall good (fst (mark_all cs offset acc)).
Proof.
  induction cs as [|c r IH]; intros offset acc H; cbn [mark_all]; [constructor|].
  inversion H; subst.
  destruct (mark_all r _ _) as [r' b] eqn:E. cbn [fst].
  constructor; [now apply try_mark_defragment_good|].
  specialize (IH (bend (try_mark_defragment c offset)) (acc + blen (try_mark_defragment c offset)) H3).
  now rewrite E in IH.
Qed.

Lemma rebuild_good cs : forall h offset buffer,
  Forall good cs -> Forall good h -> is_slice offset buffer ->
  Forall good (rebuild cs h offset buffer).
Proof.
  induction cs as [|c r IH]; intros h offset buffer Hcs Hh Hb; cbn [rebuild].
  - destruct buffer; [exact Hh|]. apply push_good; [exact Hh | exact Hb].
  - inversion Hcs; subst.
    destruct (b_defrag c).
    + apply IH; auto. destruct (b_bytes c); [exact Hh | now apply push_good].
    + destruct (b_off c =? offset + zlen buffer) eqn:E.
      * apply IH; auto. apply is_slice_app; [exact Hb|]. apply Z.eqb_eq in E. rewrite <- E. exact H1.
      * destruct buffer as [|b0 bs]; apply IH; auto.
        apply push_good; [exact Hh | exact Hb].
Qed.

Lemma defragment_good fixed a : Forall good (data a) -> Forall good (data (defragment fixed a)).
Proof.
  intros H. unfold defragment.
  destruct (mark_all _ _ _) as [marked nbuf] eqn:E. cbn [data].
  apply rebuild_good; [|constructor|apply is_slice_nil].
  pose proof (mark_all_good (rev (into_sorted_vec (data a)))
                (if fixed && ordered a then bytes_read a else 0) 0) as M.
  rewrite E in M. apply M.
  eapply Permutation_Forall; [apply Permutation_rev|].
  eapply Permutation_Forall; [symmetry; apply into_sorted_vec_perm|]. exact H.
Qed.

Lemma defragment_fields fixed a :
  ordered (defragment fixed a) = ordered a /\ recvd (defragment fixed a) = recvd a /\
  bytes_read (defragment fixed a) = bytes_read a /\ end_ (defragment fixed a) = end_ a.
Proof. unfold defragment. destruct (mark_all _ _ _). cbn. auto. Qed.

Lemma defragment_preserves_content fixed a :
  Forall good (data a) ->
  Forall good (data (defragment fixed a)) /\
  bytes_read (defragment fixed a) = bytes_read a /\
  ordered (defragment fixed a) = ordered a.
Proof.
  intros H. pose proof (defragment_fields fixed a) as (E1 & _ & E3 & _).
  split; [now apply defragment_good | auto].
Qed.

(* ------------------------------------------------------------ insert *)
Lemma insert_tail_good fixed a offset bytes alloc a' ok :
  insert_tail fixed a offset bytes alloc = Some (a', ok) ->
  Forall good (data a) -> is_slice offset bytes ->
  Forall good (data a') /\ bytes_read a' = bytes_read a /\ ordered a' = ordered a /\ recvd a' = recvd a.
Proof.
  unfold insert_tail. intros H Hd Hs.
  destruct bytes as [|b0 bs]; [inversion H; subst; auto|].
  set (a1 := push_buffer a _) in *.
  assert (G1 : Forall good (data a1)) by (apply push_good; [exact Hd | exact Hs]).
  destruct (csub (end_ a1) (bytes_read a1)) as [window|]; [|discriminate].
  destruct (csub (allocated a1) _) as [over|]; [|discriminate].
  destruct (_ <? over).
  - inversion H; subst. pose proof (defragment_fields fixed a1) as (E1 & E2 & E3 & E4).
    split; [now apply defragment_good|]. rewrite E1, E2, E3. auto.
  - inversion H; subst. auto.
Qed.

Lemma discard_dups_good dups : forall a offset bytes alloc a' offset' bytes',
  discard_dups dups a offset bytes alloc = Some (a', offset', bytes') ->
  Forall good (data a) -> is_slice offset bytes ->
  Forall good (data a') /\ is_slice offset' bytes' /\
  bytes_read a' = bytes_read a /\ ordered a' = ordered a /\ end_ a' = end_ a.
Proof.
  induction dups as [|[ds de] r IH]; intros a offset bytes alloc a' offset' bytes' H Hd Hs;
    cbn [discard_dups] in H.
  - inversion H; subst. auto.
  - destruct (offset <? ds) eqn:E1.
    + destruct ((ds - offset <=? zlen bytes) && (ds <=? de) && (de - ds <=? zlen (zskipn (ds - offset) bytes))) eqn:E2;
        [|discriminate].
      apply andb_true_iff in E2 as [E2 E4]. apply andb_true_iff in E2 as [E2 E3].
      apply IH in H.
      * destruct H as (G & S & B & O & En). split; [exact G|]. split; [exact S|]. auto.
      * cbn [push_buffer data]. apply push_good; [exact Hd|]. unfold good. cbn [b_off b_bytes].
        now apply is_slice_first.
      * replace de with (ds + (de - ds)) at 1 by lia. apply is_slice_skip; [|lia].
        replace ds with (offset + (ds - offset)) at 1 by lia. apply is_slice_skip; [exact Hs | lia].
    + destruct (true && (offset <=? de) && (de - offset <=? zlen bytes)) eqn:E2; [|discriminate].
      apply andb_true_iff in E2 as [E2 E4]. apply andb_true_iff in E2 as [_ E3].
      apply IH in H; auto.
      replace de with (offset + (de - offset)) at 1 by lia. apply is_slice_skip; [exact Hs | lia].
Qed.

Lemma insert_good fixed a offset bytes alloc a' ok :
  insert fixed a offset bytes alloc = Some (a', ok) ->
  Forall good (data a) -> is_slice offset bytes -> 0 <= offset ->
  Forall good (data a') /\ bytes_read a' = bytes_read a /\ ordered a' = ordered a.
Proof.
  unfold insert. intros H Hd Hs Ho.
  destruct (alloc <? zlen bytes); [discriminate|].
  assert (Body : insert_body fixed (with_end a offset bytes) offset bytes alloc = Some (a', ok) ->
                 Forall good (data a') /\ bytes_read a' = bytes_read a /\ ordered a' = ordered a).
  { clear H. unfold insert_body. set (a0 := with_end a offset bytes).
    change (ordered a0) with (ordered a). change (bytes_read a0) with (bytes_read a).
    change (recvd a0) with (recvd a).
    destruct (negb (ordered a)).
    - destruct (RangeSet.replace _ _ _) as [dups recvd'].
      destruct (discard_dups dups a0 offset bytes alloc) as [[[a1 offset1] bytes1]|] eqn:E; [|discriminate].
      apply discard_dups_good in E; [|exact Hd|exact Hs].
      destruct E as (G & S & B & O & En). intros H.
      apply insert_tail_good in H; [|exact G|exact S]. cbn in H.
      destruct H as (G' & B' & O' & _). rewrite B', O', B, O. auto.
    - destruct (offset <? bytes_read a) eqn:E1.
      + destruct (offset + zlen bytes <=? bytes_read a).
        * intros [= <- <-]. auto.
        * intros H. apply insert_tail_good in H; [|exact Hd|].
          { destruct H as (G & B & O & _). auto. }
          apply is_slice_skip; [exact Hs | lia].
      + intros H. apply insert_tail_good in H; [|exact Hd|exact Hs].
        destruct H as (G & B & O & _). auto. }
  destruct bytes as [|b0 bs].
  - destruct fixed; [inversion H; subst; auto | auto].
  - auto.
Qed.

(* ------------------------------------------------------------ ensure_ordering *)
Lemma ensure_ordering_good fixed a ord a' :
  ensure_ordering fixed a ord = Some a' -> Forall good (data a) ->
  Forall good (data a') /\ bytes_read a' = bytes_read a /\
  (ord = true -> ordered a = true /\ a' = a) /\ (ord = false -> ordered a' = false).
Proof.
  unfold ensure_ordering. intros H Hd.
  destruct ord; cbn [andb negb] in H.
  - destruct (ordered a) eqn:O; cbn [negb] in H; [|discriminate].
    inversion H; subst. repeat split; auto; discriminate.
  - destruct (ordered a) eqn:O; cbn [negb] in H.
    + inversion H; subst; clear H. cbn [data bytes_read ordered].
      destruct (data a) eqn:D.
      * rewrite D. repeat split; auto; discriminate.
      * rewrite <- D in *. pose proof (defragment_fields fixed a) as (_ & _ & E3 & _).
        repeat split; auto; try discriminate. now apply defragment_good.
    + inversion H; subst. repeat split; auto; discriminate.
Qed.

(* ------------------------------------------------------------ read *)
Definition read_post (a : t) (ord : bool) (a' : t) (res : option (Z * list Z)) : Prop :=
  Forall good (data a') /\ ordered a' = ordered a /\
  match res with
  | None => bytes_read a' = bytes_read a
  | Some (off, bytes) =>
      is_slice off bytes /\ bytes_read a' = bytes_read a + zlen bytes /\
      (ord = true -> off = bytes_read a)
  end.

Lemma csub_some a b c : csub a b = Some c -> c = a - b /\ b <= a.
Proof. unfold csub. destruct (b <=? a) eqn:E; [|discriminate]. intros [= <-]. lia. Qed.

Lemma read_loop_good fuel : forall a max_length ord a' res,
  read_loop fuel a max_length ord = Some (a', res) ->
  Forall good (data a) -> 0 <= max_length ->
  read_post a ord a' res.
Proof.
  induction fuel as [|f IH]; intros a max_length ord a' res H Hd Hm; cbn [read_loop] in H.
  - inversion H; subst. repeat split; auto.
  - destruct (data a) as [|chunk rest] eqn:D.
    + inversion H; subst. repeat split; auto. now rewrite D.
    + assert (Gc : good chunk) by (inversion Hd; auto).
      (* the final part, for any (chunk', bu) with chunk' good *)
      assert (Fin : forall chunk' bu,
        good chunk' -> (ord = true -> b_off chunk' = bytes_read a) ->
        (if max_length <? blen chunk' then
           match csub bu max_length with
           | Some bu' =>
               Some (mk (ordered a) (recvd a)
                        (replace_top (chunk :: rest)
                           (mkBuf (b_off chunk' + max_length) (zskipn max_length (b_bytes chunk'))
                                  (b_alloc chunk') (b_defrag chunk')))
                        bu' (allocated a) (bytes_read a + max_length) (end_ a),
                     Some (b_off chunk', zfirstn max_length (b_bytes chunk')))
           | None => None
           end
         else
           match csub bu (blen chunk'), csub (allocated a) (b_alloc chunk'), pop (chunk :: rest) with
           | Some bu', Some al, Some (_, h') =>
               Some (mk (ordered a) (recvd a) h' bu' al (bytes_read a + blen chunk') (end_ a),
                     Some (b_off chunk', b_bytes chunk'))
           | _, _, _ => None
           end) = Some (a', res) -> read_post a ord a' res).
      { intros chunk' bu Gc' Hoff HF.
        destruct (max_length <? blen chunk') eqn:E.
        - destruct (csub bu max_length); [|discriminate]. inversion HF; subst; clear HF.
          unfold read_post. cbn [data ordered bytes_read].
          split; [|split; [reflexivity|]].
          + apply replace_top_good; [exact Hd|]. unfold good. cbn [b_off b_bytes].
            apply is_slice_skip; [exact Gc' | exact Hm].
          + split; [now apply is_slice_first|]. split; [|exact Hoff].
            unfold zlen, zfirstn, blen, zlen in *. rewrite firstn_length. lia.
        - destruct (csub bu (blen chunk')); [|discriminate].
          destruct (csub (allocated a) (b_alloc chunk')); [|discriminate].
          destruct (pop (chunk :: rest)) as [[top h']|] eqn:P; [|discriminate].
          inversion HF; subst; clear HF.
          unfold read_post. cbn [data ordered bytes_read].
          apply pop_good in P; [|exact Hd]. destruct P as [_ P].
          repeat split; auto; apply Gc'. }
      destruct ord.
      * destruct (bytes_read a <? b_off chunk) eqn:E1.
        { inversion H; subst. repeat split; auto. now rewrite D. }
        destruct (bend chunk <=? bytes_read a) eqn:E2.
        { destruct (csub (buffered a) (blen chunk)); [|discriminate].
          destruct (csub (allocated a) (b_alloc chunk)); [|discriminate].
          destruct (pop (chunk :: rest)) as [[top h']|] eqn:P; [|discriminate].
          apply IH in H; [|cbn [data]|exact Hm].
          - unfold read_post in *. cbn [ordered bytes_read] in H. exact H.
          - apply pop_good in P; [|exact Hd]. now destruct P. }
        destruct (0 <? bytes_read a - b_off chunk) eqn:E3.
        { destruct (csub (buffered a) (bytes_read a - b_off chunk)) as [bu|]; [|discriminate].
          apply (Fin (mkBuf (b_off chunk + (bytes_read a - b_off chunk))
                            (zskipn (bytes_read a - b_off chunk) (b_bytes chunk))
                            (b_alloc chunk) (b_defrag chunk)) bu).
          - unfold good. cbn [b_off b_bytes]. apply is_slice_skip; [exact Gc | lia].
          - intros _. cbn [b_off]. lia.
          - exact H. }
        { apply (Fin chunk (buffered a)); [exact Gc| |exact H]. intros _. lia. }
      * apply (Fin chunk (buffered a)); [exact Gc| |exact H]. discriminate.
Qed.

Lemma read_good a max_length ord a' res :
  read a max_length ord = Some (a', res) -> Forall good (data a) -> 0 <= max_length ->
  read_post a ord a' res.
Proof. apply read_loop_good. Qed.


(* ------------------------------------------------------------ executions *)
(** Typed operations of one stream instance; [encode] maps them to the integer interface of
    [Assembler.step], so executions below are executions of exactly the function that the
    correspondence check compares with the Rust code. *)
Inductive op :=
| OInsert (offset alloc : Z) (bytes : list Z)
| ORead (max_length : Z) (ord : bool)
| OEnsure (ord : bool)
| OBytesRead
| OClear
| OProbe.

Definition encode (o : op) : list Z :=
  match o with
  | OInsert off al b => 0 :: off :: al :: b
  | ORead m ord => [1; m; RangeSpec.b2z ord]
  | OEnsure ord => [2; RangeSpec.b2z ord]
  | OBytesRead => [3]
  | OClear => [4]
  | OProbe => [6]
  end.

(** a chunk returned by a read: (ordered?, offset, bytes) *)
Definition event := (bool * Z * list Z)%type.
Definition ev_ord (e : event) : bool := fst (fst e).
Definition ev_off (e : event) : Z := snd (fst e).
Definition ev_bytes (e : event) : list Z := snd e.

Definition event_of (o : op) (out : list Z) : list event :=
  match o, out with
  | ORead _ ord, 1 :: off :: bytes => [(ord, off, bytes)]
  | _, _ => []
  end.

Fixpoint exec (a : t) (os : list op) : option (t * list event) :=
  match os with
  | [] => Some (a, [])
  | o :: r =>
      match step a (encode o) with
      | None => None
      | Some (a1, out) =>
          match exec a1 r with
          | None => None
          | Some (a2, evs) => Some (a2, event_of o out ++ evs)
          end
      end
  end.

(** the environment: inserted frames are slices of [w] at non-negative offsets; max_length is a usize *)
Definition op_ok (o : op) : Prop :=
  match o with
  | OInsert off al b => 0 <= off /\ is_slice off b
  | ORead m _ => 0 <= m
  | _ => True
  end.

Fixpoint chain (start : Z) (evs : list event) : Prop :=
  match evs with
  | [] => True
  | e :: r => ev_off e = start /\ chain (start + zlen (ev_bytes e)) r
  end.

Definition obytes (evs : list event) : list Z := concat (map ev_bytes (filter ev_ord evs)).

Lemma zbool_b2z b : zbool (RangeSpec.b2z b) = b.
Proof. destruct b; reflexivity. Qed.

(** one step: what it does to the invariant and which event it produces *)
Definition step_post (a : t) (o : op) (a1 : t) (out : list Z) : Prop :=
  Forall good (data a1) /\
  (ordered a = false -> ordered a1 = false) /\
  match event_of o out with
  | [] => bytes_read a1 = bytes_read a /\ (ordered a1 = true -> ordered a = true)
  | e :: _ =>
      event_of o out = [e] /\ is_slice (ev_off e) (ev_bytes e) /\
      bytes_read a1 = bytes_read a + zlen (ev_bytes e) /\
      (ev_ord e = true -> ordered a = true /\ ordered a1 = true /\ ev_off e = bytes_read a) /\
      (ev_ord e = false -> ordered a1 = false)
  end.

Lemma step_good a o a1 out :
  step a (encode o) = Some (a1, out) -> op_ok o -> Forall good (data a) -> step_post a o a1 out.
Proof.
  intros H Hok Hd. unfold step_post.
  destruct o as [off al b | m ord | ord | | | ]; cbn [encode step step_with] in H.
  - destruct (insert true a off b al) as [[a' ok]|] eqn:E; [|discriminate].
    destruct Hok as [Ho Hs].
    apply insert_good in E; auto. destruct E as (G & B & O).
    assert (a1 = a') by (destruct ok; inversion H; auto). subst a'.
    cbn [event_of]. repeat split; auto; intros; congruence.
  - rewrite zbool_b2z in H.
    destruct (ensure_ordering true a ord) as [a0|] eqn:E.
    + apply ensure_ordering_good in E; [|exact Hd]. destruct E as (G0 & B0 & T0 & F0).
      destruct (read a0 m ord) as [[a2 res]|] eqn:R; [|discriminate].
      apply read_good in R; [|exact G0|exact Hok]. destruct R as (G2 & O2 & R).
      destruct res as [[off bytes]|].
      * inversion H; subst; clear H. cbn [event_of ev_off ev_bytes ev_ord fst snd].
        destruct R as (S & B & Off).
        split; [exact G2|]. split.
        { intros Oa. destruct ord; [destruct (T0 eq_refl) as [T _]; congruence|].
          rewrite O2. now apply F0. }
        split; [reflexivity|]. split; [exact S|]. split; [lia|]. split.
        { intros ->. destruct (T0 eq_refl) as [T1 T2]. subst a0. rewrite O2. auto. }
        { intros ->. rewrite O2. now apply F0. }
      * inversion H; subst; clear H. cbn [event_of].
        split; [exact G2|]. split.
        { intros Oa. destruct ord; [destruct (T0 eq_refl) as [T _]; congruence|].
          rewrite O2. now apply F0. }
        split; [lia|]. intros Oa. destruct ord; [destruct (T0 eq_refl); auto|].
        rewrite O2, F0 in Oa; auto. discriminate.
    + inversion H; subst. cbn [event_of]. repeat split; auto.
  - rewrite zbool_b2z in H.
    destruct (ensure_ordering true a ord) as [a0|] eqn:E.
    + apply ensure_ordering_good in E; [|exact Hd]. destruct E as (G0 & B0 & T0 & F0).
      inversion H; subst; clear H. cbn [event_of].
      split; [exact G0|]. split.
      { intros Oa. destruct ord; [destruct (T0 eq_refl) as [T _]; congruence| now apply F0]. }
      split; [exact B0|]. intros Oa. destruct ord; [destruct (T0 eq_refl); auto|].
      rewrite F0 in Oa; auto. discriminate.
    + inversion H; subst. cbn [event_of]. repeat split; auto.
  - inversion H; subst. cbn [event_of]. repeat split; auto.
  - inversion H; subst. cbn [event_of clear data ordered bytes_read]. repeat split; auto.
  - inversion H; subst. cbn [event_of]. repeat split; auto.
Qed.

Lemma exec_inv os : forall a a' evs,
  Forall op_ok os -> Forall good (data a) -> exec a os = Some (a', evs) ->
  Forall (fun e => is_slice (ev_off e) (ev_bytes e)) evs /\
  (ordered a = false -> filter ev_ord evs = [] /\ ordered a' = false) /\
  (ordered a = true ->
     is_slice (bytes_read a) (obytes evs) /\ chain (bytes_read a) (filter ev_ord evs) /\
     (ordered a' = true -> bytes_read a' = bytes_read a + zlen (obytes evs))).
Proof.
  induction os as [|o r IH]; intros a a' evs Hok Hd H; cbn [exec] in H.
  - inversion H; subst. unfold obytes. cbn. repeat split; auto; try apply is_slice_nil. intros; lia.
  - inversion Hok as [|? ? Ho Hr]; subst.
    destruct (step a (encode o)) as [[a1 out]|] eqn:S; [|discriminate].
    destruct (exec a1 r) as [[a2 evs']|] eqn:X; [|discriminate].
    inversion H; subst; clear H.
    apply step_good in S; auto. destruct S as (G1 & F1 & S).
    specialize (IH a1 a' evs' Hr G1 X). destruct IH as (I1 & I2 & I3).
    destruct (event_of o out) as [|e es] eqn:Ev.
    + destruct S as (B1 & O1). cbn [app]. split; [exact I1|]. split.
      * intros Oa. apply I2. now apply F1.
      * intros Oa. rewrite <- B1.
        destruct (ordered a1) eqn:O1'.
        { now apply I3. }
        { destruct (I2 eq_refl) as [Fl Oa']. unfold obytes. rewrite Fl. cbn.
          repeat split; auto; try apply is_slice_nil. intros; congruence. }
    + destruct S as (Ees & Sl & B1 & T1 & F1'). inversion Ees; subst es. cbn [app].
      split; [constructor; auto|]. split.
      * intros Oa. destruct (ev_ord e) eqn:Oe.
        { destruct (T1 eq_refl) as [T _]. congruence. }
        cbn [filter]. rewrite Oe. apply I2. now apply F1.
      * intros Oa. destruct (ev_ord e) eqn:Oe.
        { destruct (T1 eq_refl) as (_ & O1 & Off).
          destruct (I3 O1) as (J1 & J2 & J3).
          unfold obytes in *. cbn [filter]. rewrite Oe. cbn [map concat].
          split; [|split].
          - rewrite <- Off. apply is_slice_app; [exact Sl|]. rewrite Off, <- B1. exact J1.
          - cbn [chain]. split; [exact Off|]. rewrite <- B1. exact J2.
          - intros Oa'. rewrite (J3 Oa'), B1. unfold zlen. rewrite app_length. lia. }
        { destruct (I2 (F1' eq_refl)) as [Fl Oa'].
          unfold obytes. cbn [filter]. rewrite Oe, Fl. cbn.
          repeat split; auto; try apply is_slice_nil. intros; congruence. }
Qed.

(** (a) For every execution from the initial state, whatever the inserts (consistent with [w]),
    their order, overlaps and duplicates, and whatever reads are interleaved: the concatenation
    of the chunks returned by ordered reads is the prefix of [w] of length [bytes_read], the
    chunks are consecutive starting at 0. *)
Theorem ordered_prefix os a' evs :
  Forall op_ok os -> exec init os = Some (a', evs) ->
  obytes evs = wslice 0 (length (obytes evs)) /\
  (obytes evs = [] \/ zlen (obytes evs) <= hi) /\
  chain 0 (filter ev_ord evs) /\
  (ordered a' = true -> bytes_read a' = zlen (obytes evs)).
Proof.
  intros Hok H. apply exec_inv in H; auto; [|constructor].
  destruct H as (_ & _ & I3). destruct (I3 eq_refl) as ([J1 J1'] & J2 & J3).
  repeat split; auto. destruct J1' as [E|E]; [now left | right; cbn [bytes_read init] in E; lia].
Qed.

(** (b, content part) every chunk returned by any read, ordered or not, equals the written
    sequence at its offset. *)
Theorem reads_exact os a' evs :
  Forall op_ok os -> exec init os = Some (a', evs) ->
  Forall (fun e => ev_bytes e = wslice (ev_off e) (length (ev_bytes e)) /\
                   (ev_bytes e = [] \/ (0 <= ev_off e /\ ev_off e + zlen (ev_bytes e) <= hi))) evs.
Proof.
  intros Hok H. apply exec_inv in H; auto; [|constructor]. now destruct H.
Qed.

End W.
